// Package gnet drives the real route.GrafanaNet (C17) against an httptest
// server that answers every POST with the next outcome of a scripted fault
// sequence (2xx / 4xx / 5xx / hang until the client gives up / connection
// reset / failure status and headers, then a response body that stalls or
// trickles until the client gives up) and decodes the snappy + msgp bodies
// into points.  It only records
// events; the verdict is taken by TLC on the recorded trace
// (spec/GrafanaNetTrace.tla).
package gnet

import (
	"bytes"
	"encoding/json"
	"fmt"
	"io/ioutil"
	stdlog "log"
	"net"
	"net/http"
	"net/http/httptest"
	"os"
	"path/filepath"
	"regexp"
	"runtime"
	"strconv"
	"strings"
	"sync"
	"sync/atomic"
	"testing"
	"time"

	"verifharness/hx"

	"github.com/golang/snappy"
	"github.com/grafana/carbon-relay-ng/matcher"
	"github.com/grafana/carbon-relay-ng/route"
	"github.com/grafana/carbon-relay-ng/stats"
	"github.com/grafana/carbon-relay-ng/util"
	"github.com/grafana/metrictank/schema/msg"
	log "github.com/sirupsen/logrus"
)

type step struct {
	Op string `json:"op"`          // d = dispatch one point of series S; q = wait until everything accepted so far is acknowledged; y = yield N ms; hold = server hangs every POST (until N were hung; N=0: until release); release
	S  int    `json:"s,omitempty"` // series index (d)
	N  int    `json:"n,omitempty"`
}

type scenario struct {
	K         int      `json:"k"`
	Conc      int      `json:"conc"`
	BufSize   int      `json:"bufsize"`
	FMN       int      `json:"fmn"`
	FMWms     int      `json:"fmw_ms"`
	TimeoutMs int      `json:"timeout_ms"`
	Blocking  bool     `json:"blocking"`
	NDisp     int      `json:"ndisp"` // dispatcher goroutines; series s belongs to dispatcher s % ndisp
	Names     []string `json:"names"` // series index -> metric name
	Steps     []step   `json:"steps"`
	Faults    []string `json:"faults"`  // outcome of the i-th POST: "200", "400", "429", "500", "503", "timeout", "reset", "500stall", "503stall", "500trickle"; afterwards 200
	Quiesce   bool     `json:"quiesce"` // wait for everything to be acknowledged before Shutdown
	Shutdown  bool     `json:"shutdown"`
	// shutdown of a backed-up blocking route (after the steps): the endpoint answers every POST with PileCode
	// ("timeout" = hangs it) from now on, one goroutine per entry of Pile dispatches one point of that series
	// (the series of Pile are distinct), the driver waits until each of these calls has returned or is parked
	// on the full queue of its shard, calls Shutdown, and lets the endpoint recover (the rest of Faults, then
	// 200) once Shutdown is waiting for the workers (Recover "after") or right before the call ("with").
	Pile     []int  `json:"pile,omitempty"`
	PileCode string `json:"pile_code,omitempty"`
	Recover  string `json:"recover,omitempty"`
}

const (
	slowDispatch    = 5 * time.Second  // a Dispatch call of a non-blocking route taking longer than this is reported as slow (normal: microseconds)
	quiesceDeadline = 30 * time.Second // everything accepted must be acknowledged by then (normal: a few flushMaxWait)
	shutdownLimit   = 20 * time.Second // Shutdown must have returned by then (normal: milliseconds to a few failed attempts)
	holdCap         = 60 * time.Second
	stallCap        = 150 * time.Second // a stalled / trickling response body ends when the client gives up, when the scenario ends, or (safety net, beyond every deadline above) after this
	harnessDeadline = 20 * time.Second // the driver's own waits for goroutine states (normal: milliseconds); missing one is a harness event, never a verdict
)

type event map[string]interface{}

type recorder struct {
	mu     sync.Mutex
	evs    []event
	sealed bool // the scenario was ended by the driver; goroutines it left behind record nothing anymore
}

func (r *recorder) add(e event) {
	r.mu.Lock()
	if !r.sealed {
		r.evs = append(r.evs, e)
	}
	r.mu.Unlock()
}

// server side of one scenario
type fakeGW struct {
	rec      *recorder
	mu       sync.Mutex
	faults   []string
	next     int
	nposts   int
	holding  bool
	holdLeft int    // >0: number of POSTs still to hang; 0 with holding: until release
	holdCode string // what a POST gets while holding ("" = "timeout": it hangs)
	hung     int
	acked    map[int]bool
	names    map[string]int
	bad      int32
	tick     time.Duration // pause between two bytes of a trickling response body (a fraction of the route's timeout)
	quit     chan struct{} // closed when the scenario has ended: stalled bodies are let go, so that the server can close
}

func classOf(code string) string {
	switch code {
	case "timeout", "reset":
		return code
	}
	if strings.HasSuffix(code, "stall") || strings.HasSuffix(code, "trickle") {
		// <status>stall / <status>trickle: the status line, the headers and the beginning of the body arrive, the
		// rest of the body never does (stall) or a byte at a time for longer than any timeout (trickle)
		return "stall"
	}
	return code[:1] + "xx"
}

func (g *fakeGW) ServeHTTP(w http.ResponseWriter, r *http.Request) {
	if !strings.HasSuffix(r.URL.Path, "/metrics") {
		// schema / aggregation config posts
		ioutil.ReadAll(r.Body)
		w.WriteHeader(200)
		return
	}
	raw, err := ioutil.ReadAll(r.Body)
	if err != nil {
		// the client went away while sending: not a request the route completed
		return
	}
	pts, derr := decode(raw, g.names)

	g.mu.Lock()
	g.nposts++
	id := g.nposts
	var code string
	if g.holding {
		code = "timeout"
		if g.holdCode != "" {
			code = g.holdCode
		}
		g.hung++
		if g.holdLeft > 0 {
			g.holdLeft--
			if g.holdLeft == 0 {
				g.holding = false
			}
		}
	} else if g.next < len(g.faults) {
		code = g.faults[g.next]
		g.next++
	} else {
		code = "200"
	}
	if derr != nil {
		// undecodable body: recorded, answered as the script says
		g.rec.add(event{"ev": "badbody", "n": id, "err": derr.Error()})
		atomic.AddInt32(&g.bad, 1)
	}
	ev := event{"ev": "post", "n": id, "pts": pts, "st": classOf(code), "code": code}
	g.rec.add(ev)
	if classOf(code) == "2xx" {
		for _, p := range pts {
			g.acked[p[1]] = true
		}
	}
	g.mu.Unlock()

	switch code {
	case "timeout":
		select {
		case <-r.Context().Done():
		case <-time.After(holdCap):
		}
		return
	case "reset":
		hj, ok := w.(http.Hijacker)
		if !ok {
			panic("no hijacker")
		}
		c, _, err := hj.Hijack()
		if err == nil {
			if tc, ok := c.(*net.TCPConn); ok {
				tc.SetLinger(0)
			}
			c.Close()
		}
		return
	}
	if classOf(code) == "stall" {
		g.stalledBody(w, r, code)
		return
	}
	n, _ := strconv.Atoi(code)
	if n >= 200 && n < 300 {
		w.Header().Set("Content-Type", "application/json")
		w.WriteHeader(n)
		fmt.Fprintf(w, `{"Invalid":0,"Published":%d}`, len(pts))
		return
	}
	w.WriteHeader(n)
	fmt.Fprintf(w, "scripted failure %s", code)
}

// failure status line + headers + the beginning of an error body, flushed; then the connection stays open and the
// rest of the body does not come (or comes one byte per tick) until the client gives up on the request
func (g *fakeGW) stalledBody(w http.ResponseWriter, r *http.Request, code string) {
	trickle := strings.HasSuffix(code, "trickle")
	n, _ := strconv.Atoi(strings.TrimSuffix(strings.TrimSuffix(code, "stall"), "trickle"))
	fl, ok := w.(http.Flusher)
	if !ok {
		panic("no flusher")
	}
	if !trickle {
		w.Header().Set("Content-Length", "4096")
	}
	w.WriteHeader(n)
	fmt.Fprintf(w, "scripted failure %s: ", code)
	fl.Flush()
	end := time.After(stallCap)
	for {
		var tk <-chan time.Time
		if trickle {
			tk = time.After(g.tick)
		}
		select {
		case <-r.Context().Done(): // the client gave up on this request
			return
		case <-g.quit:
			return
		case <-end:
			return
		case <-tk:
			if _, err := w.Write([]byte(".")); err != nil {
				return
			}
			fl.Flush()
		}
	}
}

func (g *fakeGW) nAcked() int {
	g.mu.Lock()
	defer g.mu.Unlock()
	return len(g.acked)
}

// decode a request body into [series index, point id] pairs (point id = the value of the point)
func decode(raw []byte, names map[string]int) ([][2]int, error) {
	data, err := ioutil.ReadAll(snappy.NewReader(bytes.NewReader(raw)))
	if err != nil {
		return [][2]int{}, fmt.Errorf("snappy: %v", err)
	}
	var m msg.MetricData
	if err := m.InitFromMsg(data); err != nil {
		return [][2]int{}, err
	}
	if err := m.DecodeMetricData(); err != nil {
		return [][2]int{}, err
	}
	out := make([][2]int, 0, len(m.Metrics))
	for _, md := range m.Metrics {
		s, ok := names[md.Name]
		if !ok {
			s = -1
		}
		id := int(md.Value)
		if float64(id) != md.Value || int64(id) != md.Time-tsBase {
			id = -1
		}
		out = append(out, [2]int{s, id})
	}
	return out, nil
}

const tsBase = 1500000000

func writeConfFiles(dir string) (string, string) {
	sf := filepath.Join(dir, "gn-storage-schemas.conf")
	af := filepath.Join(dir, "gn-storage-aggregation.conf")
	if err := ioutil.WriteFile(sf, []byte("[default]\npattern = .*\nretentions = 10s:1d\n"), 0644); err != nil {
		panic(err)
	}
	if err := ioutil.WriteFile(af, []byte("[default]\npattern = .*\nxFilesFactor = 0.5\naggregationMethod = avg\n"), 0644); err != nil {
		panic(err)
	}
	return sf, af
}

// ---- goroutine states (runtime.Stack): the only outside view of "this Dispatch call is parked on a full queue"
// and "Shutdown has given its signal and waits for the workers"

type gor struct {
	state string // "chan send", "semacquire", "running", ...
	stack string
}

var gorHead = regexp.MustCompile(`^goroutine (\d+) \[([^\]]*)\]:`)

func curGoroutine() string {
	buf := make([]byte, 64)
	buf = buf[:runtime.Stack(buf, false)]
	f := strings.Fields(string(buf)) // "goroutine N [running]:"
	if len(f) >= 2 && f[0] == "goroutine" {
		return f[1]
	}
	return "?"
}

// goroutines created by goroutine `creator` (Go >= 1.21 prints "created by F in goroutine N")
func createdBy(creator string) []gor {
	buf := make([]byte, 1<<18)
	for {
		n := runtime.Stack(buf, true)
		if n < len(buf) {
			buf = buf[:n]
			break
		}
		buf = make([]byte, 2*len(buf))
	}
	var out []gor
	suffix := " in goroutine " + creator
	for _, blk := range strings.Split(string(buf), "\n\n") {
		m := gorHead.FindStringSubmatch(blk)
		if m == nil {
			continue
		}
		i := strings.LastIndex(blk, "created by ")
		if i < 0 {
			continue
		}
		line := blk[i:]
		if j := strings.IndexByte(line, '\n'); j >= 0 {
			line = line[:j]
		}
		if !strings.HasSuffix(strings.TrimSpace(line), suffix) {
			continue
		}
		st := m[2]
		if j := strings.IndexByte(st, ','); j >= 0 {
			st = st[:j]
		}
		out = append(out, gor{state: st, stack: blk})
	}
	return out
}

// Dispatch calls of this scenario that are parked in a channel send
func parkedDispatches(creator string) int {
	n := 0
	for _, g := range createdBy(creator) {
		if g.state == "chan send" && strings.Contains(g.stack, "(*GrafanaNet).Dispatch(") {
			n++
		}
	}
	return n
}

// the Shutdown call of this scenario is blocked (it waits for the workers, or for whatever it waits)
func shutdownWaiting(creator string) bool {
	for _, g := range createdBy(creator) {
		if strings.Contains(g.stack, "(*GrafanaNet).Shutdown(") && g.state != "running" && g.state != "runnable" {
			return true
		}
	}
	return false
}

func runScenario(t *testing.T, sc scenario, sf, af string, progress *hx.Log) []event {
	rec := &recorder{}
	rec.add(event{"ev": "scen", "k": sc.K, "conc": sc.Conc, "blocking": sc.Blocking, "nseries": len(sc.Names)})
	names := map[string]int{}
	for i, n := range sc.Names {
		names[n] = i
	}
	tick := time.Duration(sc.TimeoutMs) * time.Millisecond / 5
	if tick < time.Millisecond {
		tick = time.Millisecond
	}
	gw := &fakeGW{rec: rec, faults: sc.Faults, acked: map[int]bool{}, names: names, tick: tick, quit: make(chan struct{})}
	srv := httptest.NewServer(gw)
	defer srv.Close()
	defer close(gw.quit) // (runs before srv.Close, which waits for the handlers)

	addr := fmt.Sprintf("%s/k%d/metrics", srv.URL, sc.K)
	cfg, err := route.NewGrafanaNetConfig(addr, "key", sf, af)
	if err != nil {
		t.Fatalf("NewGrafanaNetConfig: %v", err)
	}
	cfg.BufSize = sc.BufSize
	cfg.FlushMaxNum = sc.FMN
	cfg.FlushMaxWait = time.Duration(sc.FMWms) * time.Millisecond
	cfg.Timeout = time.Duration(sc.TimeoutMs) * time.Millisecond
	cfg.Concurrency = sc.Conc
	cfg.Blocking = sc.Blocking
	cfg.ErrBackoffMin = time.Millisecond
	cfg.ErrBackoffFactor = 1.5
	drops := stats.Counter("dest=" + util.AddrToPath(addr) + ".unit=Metric.action=drop.reason=queue_full")
	errs := stats.Counter("dest=" + util.AddrToPath(addr) + ".unit=Err.type=flush")
	drops0, errs0 := drops.Count(), errs.Count()

	progress.Emit(event{"k": sc.K, "at": "new"})
	rt, err := route.NewGrafanaNet(fmt.Sprintf("c17-%d-%d", hx.Seed(), sc.K), matcher.Matcher{}, cfg)
	if err != nil {
		t.Fatalf("NewGrafanaNet: %v", err)
	}

	// the steps, split over the dispatcher goroutines; point ids are assigned up front, in script order
	nd := sc.NDisp
	if nd < 1 {
		nd = 1
	}
	type dstep struct {
		step
		id int
	}
	per := make([][]dstep, nd)
	id := 0
	for _, st := range sc.Steps {
		if st.Op == "d" {
			id++
			g := st.S % nd
			per[g] = append(per[g], dstep{st, id})
		} else {
			per[0] = append(per[0], dstep{st, 0})
		}
	}
	var ndisp, ndropKnown int64
	starts := make([]int64, nd) // per dispatcher: unix nanos of the Dispatch call in progress, 0 = none
	quiesce := func() bool {
		deadline := time.Now().Add(quiesceDeadline)
		for {
			var want int
			if nd == 1 {
				want = int(atomic.LoadInt64(&ndisp) - atomic.LoadInt64(&ndropKnown))
			} else {
				want = int(atomic.LoadInt64(&ndisp) - (drops.Count() - drops0))
			}
			if gw.nAcked() >= want {
				return true
			}
			if time.Now().After(deadline) {
				return false
			}
			time.Sleep(time.Millisecond)
		}
	}
	release := func() {
		gw.mu.Lock()
		gw.holding = false
		gw.holdLeft = 0
		gw.holdCode = ""
		gw.mu.Unlock()
	}
	// watchdog: a non-blocking route whose Dispatch does not return is reported and the server released,
	// so that the scenario can end
	stopWatch := make(chan struct{})
	abandon := make(chan struct{}) // a Dispatch call of a blocking route has been pending for quiesceDeadline
	abandoned := false
	var watchWG sync.WaitGroup
	watchWG.Add(1)
	go func() {
		defer watchWG.Done()
		reported := make([]int64, nd)
		tk := time.NewTicker(50 * time.Millisecond)
		defer tk.Stop()
		for {
			select {
			case <-stopWatch:
				return
			case <-tk.C:
				for g := 0; g < nd; g++ {
					s := atomic.LoadInt64(&starts[g])
					if sc.Blocking && s != 0 && !abandoned && time.Since(time.Unix(0, s)) > quiesceDeadline {
						// the full queue this caller waits on (accepted points) has not moved for the whole
						// deadline although the endpoint answers again: the same observation as a failed quiesce
						abandoned = true
						release()
						close(abandon)
					}
					if s != 0 && s != reported[g] && time.Since(time.Unix(0, s)) > slowDispatch {
						reported[g] = s
						if !sc.Blocking {
							rec.add(event{"ev": "stall", "g": g})
							release()
						}
					}
				}
			}
		}
	}()

	var wg sync.WaitGroup
	for g := 0; g < nd; g++ {
		wg.Add(1)
		go func(g int) {
			defer wg.Done()
			for _, st := range per[g] {
				switch st.Op {
				case "d":
					line := []byte(fmt.Sprintf("%s %d %d", sc.Names[st.S], st.id, tsBase+st.id))
					rec.add(event{"ev": "disp", "s": st.S, "id": st.id})
					var d0 int64
					if nd == 1 {
						d0 = drops.Count()
					}
					t0 := time.Now()
					atomic.StoreInt64(&starts[g], t0.UnixNano())
					rt.Dispatch(line)
					atomic.StoreInt64(&starts[g], 0)
					dur := time.Since(t0)
					status := "unk"
					if nd == 1 {
						if drops.Count() != d0 {
							status = "drop"
							atomic.AddInt64(&ndropKnown, 1)
						} else {
							status = "acc"
						}
					}
					atomic.AddInt64(&ndisp, 1)
					rec.add(event{"ev": "ret", "id": st.id, "st": status, "slow": dur > slowDispatch})
				case "q":
					ok := quiesce()
					rec.add(event{"ev": "quiesce", "ok": ok})
				case "y":
					time.Sleep(time.Duration(st.N) * time.Millisecond)
				case "hold":
					gw.mu.Lock()
					gw.holding = true
					gw.holdLeft = st.N
					gw.holdCode = ""
					gw.mu.Unlock()
				case "release":
					release()
				}
			}
		}(g)
	}
	dispatched := make(chan struct{})
	go func() {
		wg.Wait()
		close(dispatched)
	}()
	select {
	case <-dispatched:
	case <-abandon:
		// give the route one more deadline with a working endpoint, then end the scenario without its blocked caller
		ok := false
		select {
		case <-dispatched:
			ok = quiesce()
		case <-time.After(quiesceDeadline):
		}
		close(stopWatch)
		watchWG.Wait()
		rec.add(event{"ev": "quiesce", "ok": ok, "blocked_caller": true})
		gw.mu.Lock()
		np, nh := gw.nposts, gw.hung
		gw.mu.Unlock()
		rec.add(event{"ev": "final", "drops": int(drops.Count() - drops0), "errs": int(errs.Count() - errs0),
			"posts": np, "hung": nh})
		progress.Emit(event{"k": sc.K, "at": "done", "abandoned": true})
		rec.mu.Lock()
		defer rec.mu.Unlock()
		rec.sealed = true
		return rec.evs
	}
	release()
	close(stopWatch)
	watchWG.Wait()
	progress.Emit(event{"k": sc.K, "at": "dispatched"})

	if sc.Quiesce {
		rec.add(event{"ev": "quiesce", "ok": quiesce()})
	}
	returned := false
	if len(sc.Pile) > 0 {
		// shutdown of a backed-up blocking route
		me := curGoroutine()
		K := int64(len(sc.Pile))
		gw.mu.Lock()
		gw.holding, gw.holdLeft, gw.holdCode = true, 0, sc.PileCode
		gw.mu.Unlock()
		var pileDone int64
		for _, s := range sc.Pile {
			id++
			go func(s, pid int) {
				line := []byte(fmt.Sprintf("%s %d %d", sc.Names[s], pid, tsBase+pid))
				rec.add(event{"ev": "disp", "s": s, "id": pid})
				rt.Dispatch(line)
				atomic.AddInt64(&ndisp, 1)
				// several calls at a time: the counter cannot be attributed to one of them
				rec.add(event{"ev": "ret", "id": pid, "st": "unk", "slow": false})
				atomic.AddInt64(&pileDone, 1)
			}(s, id)
		}
		// every call has returned or is parked on its full queue; returns the number parked, -1: not reached
		settle := func() int {
			deadline := time.Now().Add(harnessDeadline)
			for {
				d := atomic.LoadInt64(&pileDone)
				p := parkedDispatches(me)
				if d == atomic.LoadInt64(&pileDone) && d+int64(p) == K {
					return p
				}
				if time.Now().After(deadline) {
					return -1
				}
				time.Sleep(time.Millisecond)
			}
		}
		parked := settle()
		if parked < 0 {
			rec.add(event{"ev": "harness", "what": "the dispatching goroutines did not all return or park in a channel send"})
		}
		progress.Emit(event{"k": sc.K, "at": "piled", "parked": parked})
		if sc.Recover == "with" {
			release()
		}
		done := make(chan struct{})
		rec.add(event{"ev": "sdcall", "parked": parked})
		go func() {
			rt.Shutdown()
			rec.add(event{"ev": "sdret"})
			close(done)
		}()
		if sc.Recover != "with" {
			deadline := time.Now().Add(harnessDeadline)
		waitSd:
			for !shutdownWaiting(me) {
				select {
				case <-done:
					break waitSd
				default:
				}
				if time.Now().After(deadline) {
					rec.add(event{"ev": "harness", "what": "the Shutdown call neither blocked nor returned"})
					break
				}
				time.Sleep(time.Millisecond)
			}
			release()
		}
		select {
		case <-done:
			returned = true
		case <-time.After(shutdownLimit):
			rec.add(event{"ev": "sdtimeout", "limit_s": int(shutdownLimit / time.Second)})
		}
		if !returned {
			rec.add(event{"ev": "quiesce", "ok": quiesce()})
		}
		// calls that are still parked now were never accepted (and are not judged); everything else has returned
		left := settle()
		if left < 0 {
			rec.add(event{"ev": "harness", "what": "after Shutdown: the dispatching goroutines did not all return or stay parked"})
		} else {
			rec.add(event{"ev": "blocked", "n": left})
		}
	} else if sc.Shutdown {
		done := make(chan struct{})
		rec.add(event{"ev": "sdcall", "parked": 0})
		go func() {
			rt.Shutdown()
			// recorded by the returning goroutine itself: nothing the route does afterwards can precede it
			rec.add(event{"ev": "sdret"})
			close(done)
		}()
		select {
		case <-done:
			returned = true
		case <-time.After(shutdownLimit):
			rec.add(event{"ev": "sdtimeout", "limit_s": int(shutdownLimit / time.Second)})
		}
	}
	if !returned && len(sc.Pile) == 0 {
		// no (completed) shutdown: let the route finish on its own so that the remaining clauses can be judged
		rec.add(event{"ev": "quiesce", "ok": quiesce()})
	}
	gw.mu.Lock()
	np, nh := gw.nposts, gw.hung
	gw.mu.Unlock()
	rec.add(event{"ev": "final", "drops": int(drops.Count() - drops0), "errs": int(errs.Count() - errs0),
		"posts": np, "hung": nh})
	progress.Emit(event{"k": sc.K, "at": "done"})
	if !sc.Shutdown && len(sc.Pile) == 0 {
		// clean-up only (not recorded): stop the workers of a route the scenario left running
		go rt.Shutdown()
	}
	rec.mu.Lock()
	defer rec.mu.Unlock()
	return rec.evs
}

var stuckScenarios int32

func TestGNet(t *testing.T) {
	out := hx.Out(t)
	scenFile := os.Getenv("VERIF_GN_SCEN")
	traceFile := os.Getenv("VERIF_GN_TRACE")
	if scenFile == "" || traceFile == "" {
		t.Skip("no scenario file")
	}
	log.SetOutput(ioutil.Discard)
	log.SetLevel(log.PanicLevel)
	stdlog.SetOutput(ioutil.Discard)
	stats.New("verif")

	lines, err := hx.ReadLines(scenFile)
	if err != nil {
		t.Fatal(err)
	}
	var scens []scenario
	for _, l := range lines {
		var sc scenario
		if err := json.Unmarshal(l, &sc); err != nil {
			t.Fatalf("bad scenario: %v", err)
		}
		scens = append(scens, sc)
	}
	sf, af := writeConfFiles(out)
	progress := hx.NewLog(filepath.Join(out, "gnet_progress.ndjson"))
	progress.Unbuffered = true
	defer progress.Close()
	tr := hx.NewLog(traceFile)
	defer tr.Close()

	par := hx.EnvInt("VERIF_GN_PAR", 6)
	results := make([][]event, len(scens))
	sem := make(chan struct{}, par)
	var wg sync.WaitGroup
	for i := range scens {
		wg.Add(1)
		sem <- struct{}{}
		go func(i int) {
			defer wg.Done()
			defer func() { <-sem }()
			if atomic.LoadInt32(&stuckScenarios) >= 6 {
				// the route strands data (each such scenario costs its 30 s deadlines): what is
				// recorded so far already shows it, skip the rest instead of running into the test timeout
				progress.Emit(event{"k": scens[i].K, "at": "skipped"})
				return
			}
			results[i] = runScenario(t, scens[i], sf, af, progress)
			for _, e := range results[i] {
				if ok, isBool := e["ok"].(bool); (e["ev"] == "quiesce" && isBool && !ok) || e["ev"] == "sdtimeout" {
					atomic.AddInt32(&stuckScenarios, 1)
					break
				}
			}
		}(i)
	}
	wg.Wait()
	for _, evs := range results {
		for _, e := range evs {
			tr.Emit(e)
		}
	}
}
