package adm

import (
	"bytes"
	"encoding/json"
	"errors"
	"fmt"
	"io"
	"io/ioutil"
	"net"
	"net/http"
	"os"
	"path/filepath"
	"runtime/debug"
	"strconv"
	"strings"
	"sync"
	"sync/atomic"
	"testing"
	"time"

	"verifharness/hx"

	"github.com/BurntSushi/toml"
	metrics "github.com/Dieterbe/go-metrics"
	"github.com/grafana/carbon-relay-ng/aggregator"
	"github.com/grafana/carbon-relay-ng/cfg"
	"github.com/grafana/carbon-relay-ng/destination"
	"github.com/grafana/carbon-relay-ng/imperatives"
	"github.com/grafana/carbon-relay-ng/input"
	"github.com/grafana/carbon-relay-ng/table"
	"github.com/sirupsen/logrus"
	"github.com/streadway/amqp"
)

const (
	exitHang    = 3
	exitRecycle = 4
)

// sink accepts connections, counts and discards what it reads; every accepted conn stays referenced
type sink struct {
	l     net.Listener
	mu    sync.Mutex
	conns []net.Conn
	bytes int64
}

func newSink() *sink {
	l, err := net.Listen("tcp", "127.0.0.1:0")
	if err != nil {
		panic(err)
	}
	s := &sink{l: l}
	go func() {
		for {
			c, err := l.Accept()
			if err != nil {
				return
			}
			s.mu.Lock()
			s.conns = append(s.conns, c)
			s.mu.Unlock()
			go func() {
				buf := make([]byte, 32*1024)
				for {
					n, err := c.Read(buf)
					atomic.AddInt64(&s.bytes, int64(n))
					if err != nil {
						return
					}
				}
			}()
		}
	}()
	return s
}

func (s *sink) addr() string { return s.l.Addr().String() }

type env struct {
	dir      string
	sinks    []*sink
	httpAddr string
	repl     *strings.Replacer
	log      *hx.Log
	tbl      *table.Table // reused by consecutive cases as long as the cleanup emptied it
	curH     int
}

func newEnv(evPath string) *env {
	base := hx.ShmBase()
	if st, err := os.Stat(base); err != nil || !st.IsDir() {
		base = os.TempDir()
	}
	if b := os.Getenv("VERIF_ADM_SHM"); b != "" { // set by the parent, which removes it at the end
		base = b
	}
	dir, err := ioutil.TempDir(base, "verif-c14-")
	if err != nil {
		panic(err)
	}
	e := &env{dir: dir}
	for i := 0; i < 3; i++ {
		e.sinks = append(e.sinks, newSink())
	}
	hl, err := net.Listen("tcp", "127.0.0.1:0")
	if err != nil {
		panic(err)
	}
	go http.Serve(hl, http.HandlerFunc(func(w http.ResponseWriter, r *http.Request) {
		io.Copy(ioutil.Discard, r.Body)
		w.Header().Set("Content-Type", "application/json")
		w.Write([]byte(`{"invalid":0,"published":1}`))
	}))
	e.httpAddr = "http://" + hl.Addr().String() + "/metrics"
	schemas := filepath.Join(dir, "storage-schemas.conf")
	aggs := filepath.Join(dir, "storage-aggregation.conf")
	bad := filepath.Join(dir, "bad-schemas.conf")
	ioutil.WriteFile(schemas, []byte("[default]\npattern = .*\nretentions = 10s:1d\n"), 0644)
	ioutil.WriteFile(aggs, []byte("[default]\npattern = .*\nxFilesFactor = 0.5\naggregationMethod = avg\n"), 0644)
	ioutil.WriteFile(bad, []byte("[default\npattern = (\nretentions = 0s:x\n\x00"), 0644)
	e.repl = strings.NewReplacer("@SINK@", e.sinks[0].addr(), "@SINK2@", e.sinks[1].addr(), "@SINK3@", e.sinks[2].addr(),
		"@HTTP@", e.httpAddr, "@HTTPHOST@", strings.TrimSuffix(e.httpAddr, "/metrics"), "@SCHEMAS@", schemas, "@AGGS@", aggs, "@BADSCHEMAS@", bad)
	e.log = hx.NewLog(evPath)
	e.log.Unbuffered = true
	return e
}

func (e *env) isSink(addr string) bool {
	for _, s := range e.sinks {
		if addr == s.addr() {
			return true
		}
	}
	return false
}

// counts is a reading of the relay's own instrumentation (go-metrics registry, process-global: use deltas)
// plus the bytes the sinks received
type counts struct {
	badPickle int64 // dest=*.action=drop.reason=bad_pickle: lines a pickle=true connection could not parse
	out       int64 // dest=*.direction=out: lines written to a connection / posted by grafanaNet
	drop      int64 // dest=*.action=drop.* other than bad_pickle
	aggOut    int64 // direction=out.aggregator=*: aggregation results flushed into the table
	buffered  int64 // dest=*.what=numBuffered gauges: lines a connection has not yet taken from its channel
	all       int64 // sum of all counters (activity signature)
	sink      int64
}

func (e *env) counts() counts {
	var c counts
	metrics.DefaultRegistry.Each(func(name string, i interface{}) {
		switch m := i.(type) {
		case metrics.Counter:
			v := m.Count()
			c.all += v
			switch {
			case strings.Contains(name, "reason_is_bad_pickle"):
				c.badPickle += v
			case strings.Contains(name, "dest_is_") && strings.Contains(name, "action_is_drop"):
				c.drop += v
			case strings.Contains(name, "dest_is_") && strings.HasSuffix(name, "unit_is_Metric.direction_is_out"):
				c.out += v
			case strings.Contains(name, "direction_is_out.aggregator_is_"):
				c.aggOut += v
			}
		case metrics.Gauge:
			if strings.Contains(name, "dest_is_") && strings.HasSuffix(name, "what_is_numBuffered") {
				c.buffered += m.Value()
			}
		}
	})
	for _, s := range e.sinks {
		c.sink += atomic.LoadInt64(&s.bytes)
	}
	return c
}

// quiesce polls until neither a counter of the relay, nor the number of lines waiting in connection channels,
// nor the sinks moved for a few consecutive polls; false if that did not happen within d
func (e *env) quiesce(d time.Duration) bool {
	deadline := time.Now().Add(d)
	last, same := e.counts(), 0
	var m0 map[string]int64
	if os.Getenv("VERIF_ADM_DEBUG") != "" {
		m0 = rawCounts()
	}
	for {
		time.Sleep(2 * time.Millisecond)
		c := e.counts()
		if c == last {
			if same++; same >= 3 {
				return true
			}
		} else {
			last, same = c, 0
		}
		if time.Now().After(deadline) {
			if m0 != nil {
				var moved []string
				for k, v := range rawCounts() {
					if v != m0[k] {
						moved = append(moved, fmt.Sprintf("%s:%d->%d", k, m0[k], v))
					}
				}
				e.emit(ev{"ev": "debug", "h": e.curH, "moved": moved, "buffered": c.buffered})
			}
			return false
		}
	}
}

func rawCounts() map[string]int64 {
	m := map[string]int64{}
	metrics.DefaultRegistry.Each(func(name string, i interface{}) {
		switch x := i.(type) {
		case metrics.Counter:
			m[name] = x.Count()
		case metrics.Gauge:
			m[name] = x.Value()
		}
	})
	return m
}

type ev map[string]interface{}

var t0 = time.Now()

func (e *env) emit(v ev) {
	v["t"] = time.Since(t0).Milliseconds()
	e.log.Emit(v)
}

// guarded runs f; false if it did not return in time (the goroutine is abandoned)
func guarded(d time.Duration, f func()) bool {
	done := make(chan struct{})
	go func() {
		f()
		close(done)
	}()
	select {
	case <-done:
		return true
	case <-time.After(d):
		return false
	}
}

type chunkReader struct {
	chunks [][]byte
	end    string
}

func (c *chunkReader) Read(p []byte) (int, error) {
	for len(c.chunks) > 0 && len(c.chunks[0]) == 0 {
		c.chunks = c.chunks[1:]
	}
	if len(c.chunks) == 0 {
		if c.end == "err" {
			return 0, errors.New("read tcp: i/o timeout")
		}
		return 0, io.EOF
	}
	n := copy(p, c.chunks[0])
	c.chunks[0] = c.chunks[0][n:]
	return n, nil
}

type caseRun struct {
	e      *env
	cc     concCase
	tbl    *table.Table
	rev    map[string]string // concrete key -> abstract key
	dirty  bool
	naggs  int
	hangAt time.Duration
	rules  []*step // accepted rewriters / aggregations of the degenerate-name classes
	ownTbl bool    // the table of this case was built from a `config` command of the history
}

// startTable does what main() does with the top-level configuration: TOML -> cfg.Config -> TableConfig() ->
// table.New -> cfg.InitTable.  table.New starts the table's background goroutines (bad-metrics bookkeeping):
// a request to that goroutine is answered only once it is past its set-up and serving - or the process is gone.
func (cr *caseRun) startTable(text string) error {
	config := cfg.NewConfig()
	meta, err := toml.Decode(text, &config)
	if err != nil {
		return err
	}
	if config.Spool_dir == "" {
		config.Spool_dir = cr.e.dir
	}
	tc, err := config.TableConfig()
	if err != nil {
		return err
	}
	tbl := table.New(tc)
	if err := cfg.InitTable(tbl, config, meta); err != nil {
		return err
	}
	tbl.Bad().Get(time.Hour)
	tbl.SpoolDir = cr.tbl.SpoolDir
	cr.tbl, cr.e.tbl, cr.ownTbl = tbl, tbl, true
	return nil
}

// rulePump sends well-formed metrics that the accepted degenerate-name rules match through Table.Dispatch and
// waits (polling the relay's counters, bounded) until what the rules made of them was dealt with by the
// destinations: counted as written / bad_pickle / dropped by a connection, for aggregations after the flush.
func (cr *caseRun) rulePump() ev {
	e := cr.e
	start := time.Now()
	online := cr.waitOnline(5 * time.Second)
	pk, nsink := false, 0
	for _, r := range cr.tbl.Snapshot().Routes {
		if r.Type == "GrafanaNet" {
			nsink++
		}
		for _, d := range r.Dests {
			if e.isSink(d.Addr) && d.Online {
				nsink++
				if d.Pickle {
					pk = true
				}
			}
		}
	}
	e.quiesce(time.Second)
	c0 := e.counts()
	anyAgg := false
	var rules []interface{}
	for _, st := range cr.rules {
		rules = append(rules, ev{"op": st.Cmd.Op, "via": st.Cmd.Via, "val": st.Cmd.Val})
		if st.IsAgg {
			anyAgg = true
		}
	}
	dispatch := func(round int) {
		for _, st := range cr.rules {
			for _, l := range ruleLines(st.Names, round) {
				cr.tbl.Dispatch([]byte(l))
			}
		}
	}
	dispatch(0)
	// Dispatch hands a rewritten line to the destinations synchronously (unbuffered channels), the connection
	// then takes it from its own channel: quiesce() below covers that.  The result of an aggregation appears
	// at its next flush (the next whole second) and is then routed the same way: wait for the flush first.
	reached := true
	if anyAgg && nsink > 0 {
		deadline := time.Now().Add(4500 * time.Millisecond)
		for round := 1; e.counts().aggOut == c0.aggOut; round++ {
			if time.Now().After(deadline) {
				reached = false
				break
			}
			time.Sleep(5 * time.Millisecond)
			if round%40 == 0 { // keep feeding the current second
				dispatch(round)
			}
		}
	}
	settled := e.quiesce(time.Second)
	c := e.counts()
	return ev{"rules": rules, "pk": pk, "online": online, "sinks": nsink, "reached": reached, "settled": settled,
		"bad_pickle": c.badPickle - c0.badPickle, "out": c.out - c0.out, "drop": c.drop - c0.drop, "agg_out": c.aggOut - c0.aggOut,
		"sink_bytes": c.sink - c0.sink, "waited_ms": time.Since(start).Milliseconds()}
}

func (cr *caseRun) shape() (routes [][]interface{}, na, nb, nw int, allOnline bool) {
	snap := cr.tbl.Snapshot()
	allOnline = true
	routes = [][]interface{}{}
	for _, r := range snap.Routes {
		k, ok := cr.rev[r.Key]
		if !ok {
			k = "?"
		}
		routes = append(routes, []interface{}{k, r.Type, len(r.Dests)})
		for _, d := range r.Dests {
			if cr.e.isSink(d.Addr) && !d.Online {
				allOnline = false
			}
		}
	}
	return routes, len(snap.Aggregators), len(snap.Blacklist), len(snap.Rewriters), allOnline
}

func (cr *caseRun) apply(st *step) error {
	text := cr.e.repl.Replace(st.Text)
	c := st.Cmd
	switch {
	case c.Op == "config":
		return cr.startTable(text)
	case c.Op == "view":
		s := cr.tbl.Print()
		b, err := json.Marshal(cr.tbl.Snapshot())
		if err != nil {
			return err
		}
		if len(s) == 0 || len(b) == 0 {
			return errors.New("empty view")
		}
		return nil
	case c.Via == "api":
		switch c.Op {
		case "delDest":
			return cr.tbl.DelDestination(st.ApiKey, c.N)
		case "delAgg":
			return cr.tbl.DelAggregator(c.N)
		case "delBlack":
			return cr.tbl.DelBlacklist(c.N)
		case "delRewriter":
			return cr.tbl.DelRewriter(c.N)
		}
		return errors.New("unknown api op")
	case c.Via == "toml":
		config := cfg.NewConfig()
		meta, err := toml.Decode(text, &config)
		if err != nil {
			return err
		}
		return cfg.InitTable(cr.tbl, config, meta)
	default:
		return imperatives.Apply(cr.tbl, text)
	}
}

// ruleLines renders well-formed lines for the names the rules of the history match, stamped now and now+1
// (an aggregation with wait=1 accepts a point only while its second has not passed)
func ruleLines(names []string, round int) []string {
	now := time.Now().Unix()
	var out []string
	for i, n := range names {
		out = append(out, n+" "+strconv.Itoa(round*7+i)+" "+strconv.FormatInt(now, 10), n+" "+strconv.Itoa(i)+" "+strconv.FormatInt(now+1, 10))
	}
	return out
}

func (cr *caseRun) item(st *step) string {
	chunks := make([][]byte, len(st.Chunks))
	copy(chunks, st.Chunks)
	if st.Item.Cls == "rulematch" {
		lines := ruleLines(st.Names, 1)
		if st.Item.Proto == "plain" {
			chunks = [][]byte{[]byte(strings.Join(lines, "\n") + "\n")}
		} else {
			now := time.Now().Unix()
			var items [][]byte
			for i, n := range st.Names {
				items = append(items, pkItem(pkStr(n), pkInt(int32(now)), pkFloat(float64(i))), pkItem(pkStr(n), pkInt(int32(now+1)), pkFloat(float64(i))))
			}
			chunks = [][]byte{frame(pkList(items...))}
		}
	}
	var err error
	switch st.Item.Proto {
	case "plain":
		err = input.NewPlain(cr.tbl).Handle(&chunkReader{chunks, st.End})
	case "pickle":
		err = input.NewPickle(cr.tbl).Handle(&chunkReader{chunks, st.End})
	case "udp":
		// listen.go handleData: one Handle call per packet on a bytes.Reader
		for _, p := range chunks {
			var h input.Handler = input.NewPlain(cr.tbl)
			if st.Item.Cls == "picklebytes" && len(p)%2 == 0 {
				h = input.NewPickle(cr.tbl)
			}
			if e := h.Handle(bytes.NewReader(p)); e != nil {
				err = e
			}
		}
	case "amqp":
		a, delivery := input.VerifC14MockAMQP(cfg.NewConfig(), cr.tbl)
		a.Start()
		for _, p := range chunks {
			delivery <- amqp.Delivery{Body: p}
		}
		a.Stop()
	}
	if err != nil {
		return "err"
	}
	return "ok"
}

func (cr *caseRun) waitOnline(d time.Duration) bool {
	deadline := time.Now().Add(d)
	for {
		_, _, _, _, on := cr.shape()
		if on {
			return true
		}
		if time.Now().After(deadline) {
			return false
		}
		time.Sleep(2 * time.Millisecond)
	}
}

func (cr *caseRun) pump(n int) {
	now := time.Now().Unix()
	for i := 0; i < n; i++ {
		name := namePool[i%len(namePool)]
		cr.tbl.Dispatch([]byte(name + " " + strconv.Itoa(i) + " " + strconv.FormatInt(now-int64(i%3), 10)))
	}
}

// run executes one case; returns the child exit code to use (0: go on)
func (cr *caseRun) run() int {
	e, cc := cr.e, cr.cc
	h := cc.H
	e.curH = h
	e.emit(ev{"ev": "hist", "h": h})
	spool := filepath.Join(e.dir, fmt.Sprintf("spool%d", h))
	os.MkdirAll(spool, 0755)
	defer os.RemoveAll(spool)
	if e.tbl == nil {
		config := cfg.NewConfig()
		config.Spool_dir = e.dir
		config.Bad_metrics_max_age = "24h"
		tc, err := config.TableConfig()
		if err != nil {
			panic(err)
		}
		e.tbl = table.New(tc)
	}
	cr.tbl = e.tbl
	defer func() {
		if cr.ownTbl { // the next history starts from the default configuration again
			e.tbl = nil
		}
	}()
	cr.tbl.SpoolDir = spool
	cr.rev = map[string]string{}
	for a, c := range cc.Keys {
		cr.rev[c] = a
	}
	hang := func(i int, what string) int {
		e.emit(ev{"ev": "hang", "h": h, "step": i, "what": what})
		return exitHang
	}
	pumped := false
	doPump := func(i int) int {
		e.emit(ev{"ev": "begin", "h": h, "step": i, "what": "pump"})
		online := false
		ok := guarded(cr.hangAt, func() {
			online = cr.waitOnline(5 * time.Second)
			cr.pump(40)
		})
		if !ok {
			return hang(i, "pump")
		}
		e.emit(ev{"ev": "pump", "h": h, "online": online})
		pumped = true
		return 0
	}
	for i := range cc.Steps {
		st := &cc.Steps[i]
		if st.Kind == "item" && !pumped {
			if rc := doPump(i); rc != 0 {
				return rc
			}
		}
		if st.Kind == "cmd" {
			e.emit(ev{"ev": "begin", "h": h, "step": i, "what": "cmd", "cmd": st.Cmd, "text": clip(st.Text, 300)})
			var err error
			var routes [][]interface{}
			var na, nb, nw int
			before := map[string]bool{}
			for _, r := range cr.tbl.Snapshot().Routes {
				before[r.Key] = true
			}
			ok := guarded(cr.hangAt, func() {
				err = cr.apply(st)
				if err == nil && (st.Cmd.Op == "addRoute" || st.Cmd.Op == "addGnet") {
					// a degenerate key string is still "the" key of the abstract route
					for _, r := range cr.tbl.Snapshot().Routes {
						if _, known := cr.rev[r.Key]; !known && !before[r.Key] {
							cr.rev[r.Key] = st.Cmd.Key
						}
					}
				}
				routes, na, nb, nw, _ = cr.shape()
			})
			if !ok {
				return hang(i, "cmd")
			}
			res, es := "acc", ""
			if err != nil {
				res, es = "rej", clip(err.Error(), 200)
			}
			cr.naggs = na
			if err == nil && len(st.Names) > 0 {
				cr.rules = append(cr.rules, st)
			}
			e.emit(ev{"ev": "apply", "h": h, "step": i, "cmd": st.Cmd, "res": res, "err": es, "routes": routes, "na": na, "nb": nb, "nw": nw})
			continue
		}
		e.emit(ev{"ev": "begin", "h": h, "step": i, "what": "item", "item": st.Item})
		ret := ""
		if !guarded(cr.hangAt, func() { ret = cr.item(st) }) {
			return hang(i, "item")
		}
		e.emit(ev{"ev": "traffic", "h": h, "step": i, "item": st.Item, "ret": ret})
	}
	n := len(cc.Steps)
	if !pumped {
		if rc := doPump(n); rc != 0 {
			return rc
		}
	}
	// what the degenerate-name rules of the history produce really has to flow to the destinations
	if len(cr.rules) > 0 {
		e.emit(ev{"ev": "begin", "h": h, "step": n, "what": "rulepump"})
		var rp ev
		if !guarded(cr.hangAt, func() { rp = cr.rulePump() }) {
			return hang(n, "rulepump")
		}
		rp["ev"], rp["h"] = "rulepump", h
		e.emit(rp)
	}
	// let tickers with tiny periods fire, push a second burst through the now-flushed connections,
	// every fourth history with an aggregator waits for an aggregation tick
	e.emit(ev{"ev": "begin", "h": h, "step": n, "what": "settle"})
	wait := 25 * time.Millisecond
	if cr.naggs > 0 && h%4 == 0 {
		wait = 1300 * time.Millisecond
	}
	time.Sleep(wait)
	if !guarded(cr.hangAt, func() {
		cr.pump(10)
		cr.tbl.Flush()
		cr.tbl.Print()
		json.Marshal(cr.tbl.Snapshot())
	}) {
		return hang(n, "settle")
	}
	e.emit(ev{"ev": "done", "h": h})
	// cleanup (not part of the case): stop what can be stopped
	e.emit(ev{"ev": "begin", "h": h, "step": n + 1, "what": "cleanup"})
	snap := cr.tbl.Snapshot()
	gnetHang := false
	for _, r := range snap.Routes {
		key := r.Key
		if r.Type == "GrafanaNet" {
			// its Shutdown is C17's business (it used to block forever): probe once with a short deadline,
			// the parent tells later children to skip the probe
			if os.Getenv("VERIF_ADM_SKIP_GNET_SHUTDOWN") == "1" || !guarded(10*time.Second, func() { cr.tbl.DelRoute(key) }) {
				gnetHang = os.Getenv("VERIF_ADM_SKIP_GNET_SHUTDOWN") != "1"
				cr.dirty = true
				break
			}
			continue
		}
		if !guarded(cr.hangAt, func() { cr.tbl.DelRoute(key) }) {
			cr.dirty = true
			break
		}
	}
	for i := 0; i < len(snap.Aggregators) && !cr.dirty; i++ {
		if !guarded(cr.hangAt, func() { cr.tbl.DelAggregator(0) }) {
			cr.dirty = true
		}
	}
	for i := 0; i < len(snap.Blacklist); i++ {
		cr.tbl.DelBlacklist(0)
	}
	for i := 0; i < len(snap.Rewriters); i++ {
		cr.tbl.DelRewriter(0)
	}
	if rs, na, nb, nw, _ := cr.shape(); len(rs)+na+nb+nw != 0 {
		cr.dirty = true
	}
	e.emit(ev{"ev": "cleaned", "h": h, "dirty": cr.dirty, "gnethang": gnetHang})
	if cr.dirty {
		return exitRecycle
	}
	return 0
}

func clip(s string, n int) string {
	if len(s) > n {
		return s[:n] + "..."
	}
	return s
}

// TestAdmChild runs the cases [from,to) of the concrete case file in this process.
func TestAdmChild(t *testing.T) {
	file := os.Getenv("VERIF_ADM_CHILD")
	if file == "" {
		t.Skip("child mode only")
	}
	from, to := hx.EnvInt("VERIF_ADM_FROM", 0), hx.EnvInt("VERIF_ADM_TO", 0)
	logrus.SetOutput(ioutil.Discard)
	logrus.SetLevel(logrus.InfoLevel)
	aggregator.InitMetrics() // as main() does before building the table
	destination.VerifC14SetKeepSafeCap(16)
	debug.SetGCPercent(300)
	lines, err := hx.ReadLines(file)
	if err != nil {
		t.Fatal(err)
	}
	e := newEnv(os.Getenv("VERIF_ADM_EVENTS"))
	hangAt := time.Duration(hx.EnvInt("VERIF_ADM_HANG_MS", 30000)) * time.Millisecond
	rc := 0
	for i := from; i < to && i < len(lines); i++ {
		var cc concCase
		if err := json.Unmarshal(lines[i], &cc); err != nil {
			t.Fatal(err)
		}
		cr := &caseRun{e: e, cc: cc, hangAt: hangAt}
		if rc = cr.run(); rc != 0 {
			break
		}
	}
	e.emit(ev{"ev": "exit", "rc": rc})
	e.log.Close()
	os.RemoveAll(e.dir)
	if rc != 0 {
		os.Exit(rc)
	}
}
