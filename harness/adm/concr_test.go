// Package adm is the C14 driver: it renders abstract admin/TOML/stream
// histories (enumerated by TLC from spec/AdminOps.tla) to concrete command
// text, TOML and bytes, applies them to a real table in child processes and
// records what happened.  It only records; verdicts are taken by TLC
// (spec/AdminTrace.tla) on the recorded trace.
package adm

import (
	"bytes"
	"encoding/binary"
	"fmt"
	"math"
	"math/rand"
	"strings"
	"time"
)

// abstract command (spec/AdminOps.tla!Cmd)
type absCmd struct {
	Op    string `json:"op"`
	Via   string `json:"via"`
	Rtype string `json:"rtype"`
	Key   string `json:"key"`
	N     int    `json:"n"`
	Opt   string `json:"opt"`
	Val   string `json:"val"`
	Flag  bool   `json:"flag"`
	Pk    bool   `json:"pk"`
}

type absItem struct {
	Proto string `json:"proto"`
	Cls   string `json:"cls"`
}

type absCase struct {
	H     int       `json:"h"`
	Cmds  []absCmd  `json:"cmds"`
	Items []absItem `json:"items"`
}

// concrete step. Placeholders resolved by the child (it owns the listeners):
// @SINK@ @SINK2@ @SINK3@ tcp sinks, @HTTP@ grafana.net endpoint (http://host:port/metrics), @HTTPHOST@ the same
// without the path, @SCHEMAS@ @AGGS@ files.
type step struct {
	Kind   string   `json:"kind"` // cmd | item
	Cmd    *absCmd  `json:"cmd,omitempty"`
	Item   *absItem `json:"item,omitempty"`
	Text   string   `json:"text,omitempty"`   // command text or TOML
	ApiKey string   `json:"apikey,omitempty"` // api: concrete route key
	Chunks [][]byte `json:"chunks,omitempty"` // item: reads / packets / bodies
	End    string   `json:"end,omitempty"`    // item: eof | err
	// cmd: names of well-formed metrics the generated rewriter / aggregation matches (degenerate-name classes);
	// item of class rulematch: the names matched by the rules of the history so far (the child renders the
	// lines when it runs them, with current timestamps)
	Names []string `json:"names,omitempty"`
	IsAgg bool     `json:"isagg,omitempty"` // cmd: the rule is an aggregation (its output appears at the next tick)
}

type concCase struct {
	H     int               `json:"h"`
	Keys  map[string]string `json:"keys"` // abstract key -> concrete key
	Steps []step            `json:"steps"`
}

var namePool = []string{
	"servers.web01.cpu.user", "servers.web02.cpu.system", "servers.db01.cpu.user", "stats.timers.app1.requests.count",
	"stats.timers.proxy2.requests.upper_90", "collectd.localhost.load.shortterm", "foo.bar.cpu", "prod.Err/s.logger",
	"a.b.c", "raw.abc.def", "stats.gauges.x", "k8s.pod.mem;env=prod;dc=us", "unit=B.what=disk.host=a",
}

var typicalRegex = []string{
	`^servers\.(web|db)[0-9]+\.cpu\.(.*)`, `^stats\.timers\.(app|proxy|static)[0-9]+\.requests\.(.*)`, `.*`, `cpu`,
	`^raw\.(...)\.([A-Za-z0-9_-]+)$`, `(Err/s|wait_time|logger)`, `^foo\..*\.cpu+`, `^a\.b`, `[a-z]+\.[a-z]+`,
}
var typicalFmt = []string{`agg.$1.$2`, `stats.timers._sum_$1.requests.$2`, `aggregated.totals.$1`, `out.all`, `$0.sum`, `x.${1}y`}
var typicalPrefix = []string{"servers.", "stats.", "collectd.localhost", "foo", "a.", "prod.", "raw", "s"}
var typicalSub = []string{"cpu", "requests", ".b.", "web", "timers", "0"}
var badRegex = []string{`(`, `[a-`, `a{2,1}`, `(?P<n`, `\`, `*abc`, `a**`, `(?i`, `[[:foo:]]`, `\p{Foo}`, `x{1001}`, `(x{500}){500}`,
	`(?<!a)b`, `\1`, `a)`, `[z-a]`, `(?P<n>a)(?P<n>b)`, "\xff(", `++`}
var funs = []string{"avg", "count", "delta", "derive", "last", "max", "min", "stdev", "sum"}

type rnd struct {
	*rand.Rand
	nofilter bool // routes and destinations without prefix / regex filters (histories with degenerate-name rules)
}

func (r rnd) pick(s []string) string { return s[r.Intn(len(s))] }

func (r rnd) garbage(n int) string {
	alpha := []string{"a", "Z", "0", ".", "=", "\"", "'", "#", "$", "{", "}", "\\", "\t", "\x00", "\x7f", "é", "漢", "\xff", "%s", "*", "(", ")", "[", "]", ";", ":", "-", "+", "~", "`"}
	var b strings.Builder
	for i := 0; i < n; i++ {
		b.WriteString(alpha[r.Intn(len(alpha))])
	}
	return b.String()
}

func (r rnd) long(n int) string {
	var b strings.Builder
	for b.Len() < n {
		b.WriteString(r.pick(namePool))
		b.WriteByte('.')
	}
	return b.String()[:n]
}

// a token without spaces of a string class
func (r rnd) strTok(cls, kind string) (tok string, present bool) {
	switch cls {
	case "missing":
		return "", false
	case "empty":
		return "", true
	case "badregex":
		return r.pick(badRegex), true
	case "huge":
		n := []int{1025, 5000, 20000}[r.Intn(3)]
		if kind == "regex" && r.Intn(2) == 0 {
			return "^(" + strings.Repeat("a|b|", n/4) + "c)+$", true
		}
		return r.long(n), true
	case "nonnum":
		return r.garbage(1 + r.Intn(12)), true
	}
	switch kind { // typical
	case "regex":
		return r.pick(typicalRegex), true
	case "prefix":
		return r.pick(typicalPrefix), true
	case "sub":
		return r.pick(typicalSub), true
	case "fmt":
		return r.pick(typicalFmt), true
	}
	return r.pick(namePool), true
}

// unit: multiplier to nanoseconds for duration options (0: not a duration); kind selects ranges
func (r rnd) numTok(cls string, unit int64, small bool) (tok string, present bool) {
	switch cls {
	case "missing":
		return "", false
	case "empty":
		return "", true
	case "zero":
		return []string{"0", "0", "00", "0000000"}[r.Intn(4)], true
	case "one":
		return []string{"1", "1", "01"}[r.Intn(3)], true
	case "typical":
		if small {
			return fmt.Sprint(2 + r.Intn(60)), true
		}
		return fmt.Sprint([]int{2, 5, 10, 50, 100, 1000, 4096, 10000, 30000}[r.Intn(9)]), true
	case "huge":
		if unit > 0 { // representable, no wrap
			max := int64(math.MaxInt64) / unit
			c := []int64{86400000, 2147483647, 4294967296, max / 3, max}
			v := c[r.Intn(len(c))]
			if v > max {
				v = max
			}
			return fmt.Sprint(v), true
		}
		if small {
			return fmt.Sprint([]int{300, 500, 1000}[r.Intn(3)]), true
		}
		return fmt.Sprint([]int{65536, 1000000, 3000000}[r.Intn(3)]), true
	case "wrap":
		for {
			v := int64(math.MaxInt64)/unit + 1 + r.Int63n(int64(math.MaxInt64)/unit*7)
			if time.Duration(v)*time.Duration(unit) <= 0 {
				return fmt.Sprint(v), true
			}
		}
	case "neg":
		return []string{"-1", "-5", "-1000", "-1000000", "-9223372036854775808"}[r.Intn(5)], true
	case "nonnum":
		return []string{"abc", "1.5", "1e3", "0x10", "99999999999999999999", "١٢٣", "+5", "5s", "true", "NaN", "1_000", "½", "1,5", "0b1", "--1", "1-"}[r.Intn(16)], true
	}
	return "7", true
}

var destUnit = map[string]int64{"flush": 1e6, "reconn": 1e6, "spoolsyncperiod": 1e6, "spoolsleep": 1e3, "unspoolsleep": 1e3}

func isDestNum(o string) bool {
	switch o {
	case "flush", "reconn", "spoolsyncperiod", "spoolsleep", "unspoolsleep", "connbuf", "iobuf", "spoolbuf", "spoolmaxbytesperfile", "spoolsyncevery":
		return true
	}
	return false
}

// interval / wait of aggregations: seconds
func (r rnd) aggNum(cls string) (string, bool) {
	switch cls {
	case "wrap": // seconds -> nanoseconds wraps to exactly 0: multiples of 2^55
		return fmt.Sprint(int64(1+r.Intn(200)) << 55), true
	case "huge":
		return fmt.Sprint([]int64{86400, 31536000, 4294967296, 9223372036}[r.Intn(4)]), true
	case "typical":
		return fmt.Sprint([]int{2, 5, 10, 60}[r.Intn(4)]), true
	}
	return r.numTok(cls, 0, true)
}

func optTok(name, tok string, present bool) string {
	if !present {
		return ""
	}
	return " " + name + "=" + tok
}

var badAddrs = []string{"bad!host:2003", "127.0.0.1", ":::", "127.0.0.1:99999", "[::1]:2003", "127.0.0.1:1:inst:extra", ":0", "127.0.0.1:-1",
	"127.0.0.1:http", "@SINK@:a:b", "::1", "127.0.0.1:", "[::1", "127.0.0.1:2003/x", "tcp://127.0.0.1:1", "127.0.0.1:1"}

// one destination in command syntax; deg: render the degenerate option of c on this destination
func (r rnd) dest(c *absCmd, i int, deg bool) string {
	addr := []string{"@SINK@", "@SINK2@", "@SINK3@"}[i%3]
	if c.Rtype == "consistentHashing" && r.Intn(2) == 0 {
		addr += ":" + []string{"a", "b", "c"}[i%3]
	}
	var b strings.Builder
	spool := c.Flag
	if deg && c.Opt == "addr" {
		switch c.Val {
		case "missing":
			addr = ""
		case "empty":
			addr = ""
		case "nonnum":
			addr = r.pick(badAddrs)
		case "huge":
			addr = r.long(3000) + ":2003"
		default:
			addr = "@SINK@"
		}
	}
	b.WriteString(addr)
	// typical options around the degenerate one (small periods so that tickers really fire)
	typ := [][2]string{{"flush", fmt.Sprint(1 + r.Intn(20))}, {"reconn", fmt.Sprint(5 + r.Intn(50))}, {"connbuf", fmt.Sprint(10 + r.Intn(1000))},
		{"iobuf", fmt.Sprint(1 + r.Intn(5000))}, {"spoolbuf", fmt.Sprint(1 + r.Intn(100))}, {"spoolsyncperiod", fmt.Sprint(1 + r.Intn(30))},
		{"spoolsyncevery", fmt.Sprint(1 + r.Intn(10))}, {"spoolmaxbytesperfile", fmt.Sprint(100 + r.Intn(100000))}}
	for _, kv := range typ {
		if deg && kv[0] == c.Opt {
			continue
		}
		if r.Intn(3) > 0 {
			b.WriteString(" " + kv[0] + "=" + kv[1])
		}
	}
	if c.Rtype != "consistentHashing" && r.Intn(3) == 0 {
		if pfx := r.pick([]string{"s", "a", "servers", "st"}); !r.nofilter {
			b.WriteString(" prefix=" + pfx)
		}
	}
	if deg {
		switch {
		case isDestNum(c.Opt):
			tok, present := r.numTok(c.Val, destUnit[c.Opt], false)
			b.WriteString(optTok(c.Opt, tok, present))
		case c.Opt == "regex" || c.Opt == "prefix":
			tok, present := r.strTok(c.Val, c.Opt)
			b.WriteString(optTok(c.Opt, tok, present))
		case c.Opt == "pickle" || c.Opt == "spool":
			tok := ""
			if c.Val == "nonnum" {
				tok = r.pick([]string{"yes", "1", "TRUE", "t", "maybe", "0", "falsey"})
			}
			b.WriteString(" " + c.Opt + "=" + tok)
			if c.Opt == "spool" {
				spool = false
			}
		}
	}
	if spool {
		b.WriteString(" spool=true")
	}
	if some := r.Intn(4) == 0; some || c.Pk {
		b.WriteString(" pickle=true")
	}
	return b.String()
}

func tomlStr(s string) string {
	if !strings.ContainsAny(s, "'\n\r") {
		return "'" + s + "'"
	}
	var b strings.Builder
	b.WriteByte('"')
	for _, c := range []byte(s) {
		switch {
		case c == '"' || c == '\\':
			b.WriteByte('\\')
			b.WriteByte(c)
		case c == '\n':
			b.WriteString("\\n")
		case c == '\r':
			b.WriteString("\\r")
		default:
			b.WriteByte(c)
		}
	}
	b.WriteByte('"')
	return b.String()
}

func tomlKV(name, tok string, present, str bool) string {
	if !present {
		return ""
	}
	if str {
		return name + " = " + tomlStr(tok) + "\n"
	}
	return name + " = " + tok + "\n"
}

func (r rnd) matcherOpts(c *absCmd) string {
	s := ""
	if r.Intn(3) == 0 {
		s += " prefix=" + r.pick(typicalPrefix)
	}
	if c.Opt == "routeregex" {
		tok, present := r.strTok(c.Val, "regex")
		s += optTok("regex", tok, present)
	} else if r.Intn(4) == 0 {
		s += " regex=" + r.pick(typicalRegex)
	}
	if r.nofilter && c.Opt != "routeregex" {
		return ""
	}
	return s
}

func (r rnd) addRoute(c *absCmd, key string) string {
	if c.Opt == "key" {
		switch c.Val {
		case "missing":
			key = ""
		}
	}
	degAt := 0
	if c.N > 0 {
		degAt = r.Intn(c.N)
	}
	var dests []string
	for i := 0; i < c.N; i++ {
		dests = append(dests, r.dest(c, i, c.Opt != "none" && i == degAt))
	}
	if c.Via == "cmd" {
		s := "addRoute " + c.Rtype
		if key != "" {
			s += " " + key
		}
		s += r.matcherOpts(c)
		for _, d := range dests {
			s += "  " + d
		}
		return s
	}
	var b strings.Builder
	b.WriteString("[[route]]\n")
	if key != "" {
		b.WriteString("key = " + tomlStr(key) + "\n")
	}
	b.WriteString("type = '" + c.Rtype + "'\n")
	if c.Opt == "routeregex" {
		tok, present := r.strTok(c.Val, "regex")
		b.WriteString(tomlKV("regex", tok, present, true))
	} else if r.Intn(3) == 0 {
		if pfx := r.pick(typicalPrefix); !r.nofilter {
			b.WriteString("prefix = " + tomlStr(pfx) + "\n")
		}
	}
	b.WriteString("destinations = [\n")
	for _, d := range dests {
		b.WriteString("  " + tomlStr(d) + ",\n")
	}
	b.WriteString("]\n")
	return b.String()
}

var gnetCmdName = map[string]string{"concurrency": "concurrency", "bufSize": "bufSize", "flushMaxNum": "flushMaxNum", "orgId": "orgId",
	"flushMaxWait": "flushMaxWait", "timeout": "timeout", "errBackoffMin": "errBackoffMin", "errBackoffFactor": "errBackoffFactor",
	"sslverify": "sslverify", "spool": "spool", "blocking": "blocking"}

// the grafanaNet addr of a URL-shape class (AdminOps!AddrClasses); cmd: a command token cannot contain a space
func (r rnd) gnetAddr(cls string, cmd bool) string {
	switch cls {
	case "withquery":
		return "@HTTP@" + r.pick([]string{"?x=1", "?", "/?a=b&c=d", "?org=1&debug", "?x=/metrics/y"})
	case "withfragment":
		return "@HTTP@" + r.pick([]string{"#frag", "#", "/#a", "#/x", "#metrics"})
	case "pctencoded":
		return r.pick([]string{"@HTTPHOST@/%6Detrics", "@HTTP@%2F", "@HTTPHOST@/graphite/metric%73", "@HTTPHOST@/metrics%2f"})
	case "trailingslash":
		return "@HTTP@/"
	case "notaurl":
		l := []string{"127.0.0.1:80", "http://", "/metrics", "%zz", "http://[::1/metrics", "metrics", "//127.0.0.1/metrics", "localhost/metrics", "http:///metrics", "http:metrics"}
		if !cmd {
			l = append(l, "http://a b/metrics", " @HTTP@", "@HTTP@\n")
		}
		return r.pick(l)
	}
	// pathnotmetrics
	return r.pick([]string{"@HTTPHOST@/foo", "@HTTPHOST@", "@HTTPHOST@/", "@HTTP@x", "@HTTP@/x", "@HTTPHOST@/metrics/api", "@HTTPHOST@/Metrics", "@HTTP@//", "@HTTPHOST@/?/metrics", "@HTTPHOST@/x#/metrics"})
}

// the top-level configuration (TOML) of a bad_metrics_max_age class (AdminOps!MaxAgeClasses)
func (r rnd) config(c *absCmd) string {
	var b strings.Builder
	// typical settings around it, as in the example configuration
	if r.Intn(2) == 0 {
		b.WriteString("instance = \"verif\"\n")
	}
	if r.Intn(3) == 0 {
		b.WriteString("validation_level_legacy = " + tomlStr(r.pick([]string{"strict", "medium", "none"})) + "\n")
	}
	if r.Intn(3) == 0 {
		b.WriteString("validation_level_m20 = " + tomlStr(r.pick([]string{"medium", "none"})) + "\n")
	}
	if r.Intn(3) == 0 {
		b.WriteString("validate_order = " + r.pick([]string{"true", "false"}) + "\n")
	}
	v, present, quoted := "", true, true
	switch c.Val {
	case "zero":
		v = r.pick([]string{"0s", "0", "0h", "0ms", "-0s", "+0s", "0h0m0s", "0.0s", "0ns"})
	case "tiny": // positive, but a tenth of it is less than a nanosecond
		v = r.pick([]string{"1ns", "5ns", "9ns", "0.009us", "0.000000003s", "9.9ns", "0h0m0.000000007s"})
	case "neg":
		v = r.pick([]string{"-1h", "-24h", "-5s", "-1ns", "-100ms", "-10ns", "-2562047h", "-0.5h"})
	case "nonnum":
		switch r.Intn(8) {
		case 0:
			present = false
		case 1:
			v, quoted = r.pick([]string{"24", "3600", "1.5", "true", "-1"}), false // wrong TOML type
		default:
			v = r.pick([]string{"abc", "24", "1d", "", "24 h", "h", "1h1", "1e3s", "1w", "24H", "\u221e", "1h 30m", "0x10s", ".s", "--1h", "9223372036854775808ns", "3000000h"})
		}
	default: // typical
		v = r.pick([]string{"24h", "1h", "90m", "10s", "1h30m", "100ms", "250us", "48h", "1ms", "0.5h", "2562047h"})
	}
	if present {
		b.WriteString(tomlKV("bad_metrics_max_age", v, true, quoted))
	}
	if r.Intn(3) == 0 {
		b.WriteString("max_procs = 2\n")
	}
	return b.String()
}

func (r rnd) addGnet(c *absCmd, key string) string {
	pos := map[string]string{"addr": "@HTTP@", "apikey": "secretkey", "schemas": "@SCHEMAS@", "aggfile": "@AGGS@"}
	present := map[string]bool{"addr": true, "apikey": true, "schemas": true, "aggfile": true}
	if _, ok := pos[c.Opt]; ok {
		switch c.Val {
		case "missing":
			present[c.Opt] = false
		case "empty":
			pos[c.Opt] = ""
		case "nonnum":
			if c.Opt == "addr" {
				pos[c.Opt] = r.pick([]string{"127.0.0.1:80", "http://", "http://127.0.0.1:1/foo", "ftp://x/metrics", "@HTTP@x", "http://[::1/metrics", "/metrics", "http://127.0.0.1:1/metrics/", "%zz", "http://a b/metrics"})
			} else {
				pos[c.Opt] = r.pick([]string{"/nonexistent/file", "/dev/null", "/", "@SCHEMAS@x", r.garbage(8), "/proc/self/mem", "@BADSCHEMAS@"})
			}
		case "huge":
			pos[c.Opt] = r.long(5000)
		case "withquery", "withfragment", "pctencoded", "trailingslash", "notaurl", "pathnotmetrics":
			pos[c.Opt] = r.gnetAddr(c.Val, c.Via == "cmd")
		}
	}
	// optional numeric settings; typical ones keep memory small
	opts := map[string]string{"bufSize": fmt.Sprint(100 + r.Intn(2000)), "concurrency": fmt.Sprint(1 + r.Intn(8)),
		"flushMaxNum": fmt.Sprint(1 + r.Intn(50)), "flushMaxWait": fmt.Sprint(1 + r.Intn(100)), "timeout": fmt.Sprint(100 + r.Intn(2000))}
	optPresent := map[string]bool{"bufSize": true, "concurrency": true, "flushMaxNum": r.Intn(2) == 0, "flushMaxWait": true, "timeout": true}
	if c.Flag {
		opts["blocking"] = "true"
		optPresent["blocking"] = true
	}
	if _, ok := gnetCmdName[c.Opt]; ok {
		var tok string
		var p bool
		switch c.Opt {
		case "flushMaxWait", "timeout", "errBackoffMin":
			tok, p = r.numTok(c.Val, 1e6, false)
		case "errBackoffFactor":
			tok, p = map[string]string{"zero": "0", "neg": "-1.5", "nonnum": "x.y", "huge": "1e308", "typical": "1.5"}[c.Val], true
		case "sslverify", "spool", "blocking":
			tok, p = map[string]string{"nonnum": r.pick([]string{"yes", "1", "TRUE", ""}), "typical": r.pick([]string{"true", "false"})}[c.Val], true
		case "concurrency", "flushMaxNum", "orgId":
			tok, p = r.numTok(c.Val, 0, true)
		default: // bufSize
			tok, p = r.numTok(c.Val, 0, false)
			if c.Val == "neg" {
				tok = r.pick([]string{"-1000", "-100000", "-4611686018427387904"})
			}
		}
		opts[c.Opt], optPresent[c.Opt] = tok, p
	}
	order := []string{"bufSize", "concurrency", "flushMaxNum", "flushMaxWait", "timeout", "orgId", "errBackoffMin", "errBackoffFactor", "sslverify", "spool", "blocking"}
	if c.Via == "cmd" {
		s := "addRoute grafanaNet " + key + r.matcherOpts(c) + " "
		for _, k := range []string{"addr", "apikey", "schemas", "aggfile"} {
			if present[k] {
				s += " " + pos[k]
			}
		}
		for _, k := range order {
			if optPresent[k] {
				s += " " + k + "=" + opts[k]
			}
		}
		return s
	}
	var b strings.Builder
	b.WriteString("[[route]]\nkey = " + tomlStr(key) + "\ntype = 'grafanaNet'\n")
	if c.Opt == "routeregex" {
		tok, p := r.strTok(c.Val, "regex")
		b.WriteString(tomlKV("regex", tok, p, true))
	}
	names := map[string]string{"addr": "addr", "apikey": "apikey", "schemas": "schemasFile", "aggfile": "aggregationFile"}
	for _, k := range []string{"addr", "apikey", "schemas", "aggfile"} {
		b.WriteString(tomlKV(names[k], pos[k], present[k], true))
	}
	for _, k := range order {
		if optPresent[k] {
			tok := opts[k]
			if c.Opt == k && c.Val == "nonnum" {
				tok = tomlStr(tok)
			}
			b.WriteString(tomlKV(k, tok, true, false))
		}
	}
	return b.String()
}

func (r rnd) addAgg(c *absCmd) string {
	fun, funP := r.pick(funs), true
	regex, regexP := r.pick(typicalRegex), true
	outFmt, fmtP := r.pick(typicalFmt), true
	interval, intervalP := r.aggNum(r.pick([]string{"one", "typical", "typical"}))
	wait, waitP := r.aggNum(r.pick([]string{"zero", "one", "typical"}))
	cache := r.pick([]string{"", "true", "false"})
	switch c.Opt {
	case "fun":
		if c.Val == "missing" {
			funP = false
		} else {
			fun = r.pick([]string{"median", "SUM", "p99", "su", "sum,avg", r.garbage(4)})
		}
	case "regex":
		regex, regexP = r.strTok(c.Val, "regex")
	case "fmt":
		outFmt, fmtP = r.strTok(c.Val, "fmt")
	case "interval":
		interval, intervalP = r.aggNum(c.Val)
	case "wait":
		wait, waitP = r.aggNum(c.Val)
	case "cache":
		cache = r.pick([]string{"yes", "1", "TRUE", ""})
	}
	if c.Via == "cmd" {
		s := "addAgg"
		if funP {
			s += " " + fun
		}
		if regexP {
			if r.Intn(3) == 0 && regex != "" {
				s += " " + regex // old syntax: raw regex
			} else {
				s += " regex=" + regex
			}
		}
		if r.Intn(4) == 0 {
			s += " sub=" + r.pick(typicalSub)
		}
		if fmtP {
			s += " " + outFmt
		}
		if intervalP {
			s += " " + interval
		}
		if waitP {
			s += " " + wait
		}
		if cache != "" || c.Opt == "cache" {
			s += " cache=" + cache
		}
		if c.Flag {
			s += " dropRaw=true"
		}
		return s
	}
	var b strings.Builder
	b.WriteString("[[aggregation]]\n")
	b.WriteString(tomlKV("function", fun, funP, true))
	b.WriteString(tomlKV("regex", regex, regexP, true))
	b.WriteString(tomlKV("format", outFmt, fmtP, true))
	q := func(tok, cls string) string {
		if cls == "nonnum" || cls == "empty" {
			return tomlStr(tok)
		}
		return tok
	}
	iv, wv := "", ""
	if c.Opt == "interval" {
		iv = c.Val
	}
	if c.Opt == "wait" {
		wv = c.Val
	}
	b.WriteString(tomlKV("interval", q(interval, iv), intervalP, false))
	b.WriteString(tomlKV("wait", q(wait, wv), waitP, false))
	if c.Opt == "cache" {
		b.WriteString("cache = " + tomlStr(cache) + "\n")
	} else if cache != "" {
		b.WriteString("cache = " + cache + "\n")
	}
	if c.Flag {
		b.WriteString("dropRaw = true\n")
	}
	return b.String()
}

func (r rnd) addBlack(c *absCmd) string {
	method := c.Opt
	if method == "bogus" {
		method = r.pick([]string{"substr", "Prefix", "re", "regex=", ""})
	}
	kind := "regex"
	if strings.Contains(strings.ToLower(c.Opt), "prefix") || c.Opt == "sub" {
		kind = "prefix"
	}
	pat, p := r.strTok(c.Val, kind)
	s := method
	if p {
		s += " " + pat
	}
	if c.Via == "cmd" {
		return "addBlack " + s
	}
	return "blacklist = [ " + tomlStr(s) + " ]\n"
}

func (r rnd) addRewriter(c *absCmd) string {
	old, oldP := r.pick([]string{"foo", "servers", ".", "cpu", "/web([0-9]+)/", "/^stats\\./"}), true
	nw, nwP := r.pick([]string{"bar", "srv", "_", "host$1", "${1}x", ""}), true
	not, notP := "", false
	max, maxP := r.pick([]string{"-1", "1", "3"}), true
	if strings.HasPrefix(old, "/") {
		max = "-1"
	}
	switch c.Opt {
	case "old":
		old, oldP = r.strTok(c.Val, "name")
		if c.Val == "badregex" {
			old = "/" + old + "/"
			max = "-1"
		}
	case "new":
		nw, nwP = r.strTok(c.Val, "name")
	case "not":
		not, notP = r.strTok(c.Val, "name")
		if c.Val == "badregex" {
			not = "/" + not + "/"
		}
	case "max":
		max, maxP = r.numTok(c.Val, 0, true)
	}
	if c.Via == "cmd" {
		s := "addRewriter"
		if oldP {
			s += " " + old
		}
		if nwP {
			s += " " + nw
		}
		if maxP {
			s += " " + max
		}
		return s
	}
	var b strings.Builder
	b.WriteString("[[rewriter]]\n")
	b.WriteString(tomlKV("old", old, oldP, true))
	b.WriteString(tomlKV("new", nw, nwP, true))
	b.WriteString(tomlKV("not", not, notP, true))
	if c.Opt == "max" && (c.Val == "nonnum" || c.Val == "empty") {
		max = tomlStr(max)
	}
	b.WriteString(tomlKV("max", max, maxP, false))
	return b.String()
}

// ------------------------------------------------- rules that produce degenerate metric names
// (AdminOps!NameClasses).  The concretiser knows the regex it generates, so it also knows well-formed
// metric names the rule matches entirely: these are what the child sends after the commands.

type nameRule struct {
	re     string
	groups int
	names  []string
}

var nameRules = []nameRule{
	{`^servers\.(web|db)[0-9]+\.cpu\.(.*)$`, 2, []string{"servers.web01.cpu.user", "servers.db01.cpu.user", "servers.web02.cpu.system"}},
	{`^stats\.timers\.(app|proxy|static)[0-9]+\.requests\.(.*)$`, 2, []string{"stats.timers.app1.requests.count", "stats.timers.proxy2.requests.upper_90"}},
	{`^tmp\..*$`, 0, []string{"tmp.scratch", "tmp.a.b.c"}},
	{`^.*$`, 0, []string{"a.b.c", "foo.bar.cpu", "collectd.localhost.load.shortterm", "stats.gauges.x"}},
	{`^([a-z]+)\.([a-z]+)\.([a-z]+)$`, 3, []string{"a.b.c", "raw.abc.def", "foo.bar.cpu"}},
	{`^collectd\.(localhost)\.load\.(.+)$`, 2, []string{"collectd.localhost.load.shortterm", "collectd.localhost.load.midterm"}},
	{`^stats\.gauges\.[a-z]$`, 0, []string{"stats.gauges.x", "stats.gauges.y"}},
}

func isNameClass(v string) bool {
	return v == "emptyexp" || v == "spacename" || v == "dotsname" || v == "longname"
}

// the replacement / output format of a name class; toml: any byte may occur (the command syntax splits at spaces)
func (r rnd) nameRepl(cls string, groups int, toml bool) string {
	// references to groups the regex does not have expand to nothing ("$1x" and "$1_" name the groups "1x" and "1_")
	missing := []string{fmt.Sprintf("${%d}", groups+1), fmt.Sprintf("$%d", groups+1+r.Intn(8)), "$nosuch", "${none}", "$1x", "$1_",
		fmt.Sprintf("${%d}${%d}", groups+1, groups+2)}
	switch cls {
	case "emptyexp":
		if toml && r.Intn(3) == 0 {
			return ""
		}
		return r.pick(missing)
	case "spacename":
		ws := r.pick([]string{"\t", "\t", "\v", "\f", "\r", "\u00a0", "\u0085"})
		if toml {
			ws = r.pick([]string{" ", " ", "\n", "\t", "  "})
		}
		switch r.Intn(4) {
		case 0:
			return "a" + ws + "b"
		case 1:
			return "$0" + ws + "$0"
		case 2:
			if toml {
				return ws + "lead.x"
			}
			return "x" + ws
		}
		return "new.name" + ws + "1" + ws + "2"
	case "dotsname":
		return r.pick([]string{".", "..", "...", "." + r.pick(missing) + ".", strings.Repeat(".", 200)})
	}
	// longname
	if r.Intn(2) == 0 {
		return strings.Repeat("$0.", 100+r.Intn(400)) + "end"
	}
	return r.long([]int{3000, 9000, 70000}[r.Intn(3)])
}

func (r rnd) nameRewriter(c *absCmd) (string, []string) {
	nr := nameRules[r.Intn(len(nameRules))]
	toml := c.Via == "toml"
	old, names, max := "/"+nr.re+"/", nr.names, "-1"
	nw := r.nameRepl(c.Val, nr.groups, toml)
	if toml && c.Val == "emptyexp" && r.Intn(3) == 0 { // plain substring rewriter: the whole name replaced by nothing
		old, names, nw, max = nr.names[0], nr.names[:1], "", r.pick([]string{"-1", "1"})
	}
	if !toml {
		return "addRewriter " + old + " " + nw + " " + max, names
	}
	return "[[rewriter]]\n" + tomlKV("old", old, true, true) + tomlKV("new", nw, true, true) + tomlKV("max", max, true, false), names
}

func (r rnd) nameAgg(c *absCmd) (string, []string) {
	nr := nameRules[r.Intn(len(nameRules))]
	toml := c.Via == "toml"
	outFmt := r.nameRepl(c.Val, nr.groups, toml)
	fun := r.pick(funs)
	if fun == "derive" { // needs two points of different seconds in one bucket: never flushes anything with interval 1
		fun = "delta"
	}
	cache := r.pick([]string{"", "true", "false"})
	// interval 1s, wait 1s: a point stamped "now" is flushed at the next whole second
	if !toml {
		s := "addAgg " + fun + " regex=" + nr.re + " " + outFmt + " 1 1"
		if cache != "" {
			s += " cache=" + cache
		}
		if c.Flag {
			s += " dropRaw=true"
		}
		return s, nr.names
	}
	s := "[[aggregation]]\n" + tomlKV("function", fun, true, true) + tomlKV("regex", nr.re, true, true) + tomlKV("format", outFmt, true, true) +
		"interval = 1\nwait = 1\n"
	if cache != "" {
		s += "cache = " + cache + "\n"
	}
	if c.Flag {
		s += "dropRaw = true\n"
	}
	return s, nr.names
}

func (r rnd) mod(c *absCmd, key string) string {
	s := c.Op + " " + key
	if c.Op == "modDest" {
		idx, p := fmt.Sprint(c.N), true
		if c.N == 9 {
			idx = r.pick([]string{"9", "1000", "9223372036854775807"})
		}
		if c.Opt == "idx" {
			idx, p = r.numTok(c.Val, 0, true)
			if c.Val == "huge" {
				idx = "99999999999999999999999"
			}
		}
		if p {
			s += " " + idx
		}
	}
	switch c.Opt {
	case "none":
	case "idx":
		s += " prefix=" + r.pick(typicalPrefix)
	case "bogus":
		s += " " + r.pick([]string{"flush=5", "pickle=true", "foo=bar", "spool=true", "addr", "prefix"})
	case "addr":
		a := "@SINK2@"
		switch c.Val {
		case "empty":
			a = ""
		case "nonnum":
			a = r.pick(badAddrs)
		case "huge":
			a = r.long(3000) + ":1"
		}
		s += " addr=" + a
	default:
		kind := "regex"
		if c.Opt == "prefix" || c.Opt == "sub" {
			kind = c.Opt
		}
		tok, _ := r.strTok(c.Val, kind)
		s += " " + c.Opt + "=" + tok
		if r.Intn(3) == 0 {
			s += " notSub=" + r.pick(typicalSub)
		}
	}
	return s
}

var docExamples = []string{
	"addRoute sendAllMatch carbon-default  @SINK@ spool=true pickle=false",
	"addRoute grafanaNet grafanaNet  @HTTP@ your-grafana.net-api-key @SCHEMAS@ @AGGS@",
	"addBlack prefix collectd.localhost",
	`addBlack regex ^foo\..*\.cpu+`,
	`addAgg sum regex=^stats\.timers\.(app|proxy|static)[0-9]+\.requests\.(.*) stats.timers._sum_$1.requests.$2 10 20 cache=true`,
	`addAgg avg regex=^stats\.timers\.(app|proxy|static)[0-9]+\.requests\.(.*) stats.timers._avg_$1.requests.$2 5 10 dropRaw=true`,
	"addRoute sendAllMatch carbon-default  @SINK@ spool=true pickle=false",
	"addRoute sendAllMatch demo sub=carbon-relay-ng  @SINK@ flush=10 reconn=50 connbuf=100 iobuf=64",
	"addRoute sendFirstMatch analytics regex=(Err/s|wait_time|logger)  @SINK@ prefix=prod. spool=true pickle=true  @SINK2@ prefix=staging. spool=true pickle=true",
	"addRoute consistentHashing ch prefix=servers.  @SINK@:a  @SINK2@:b  @SINK3@",
	"addRewriter /fooold/ foonew -1", "addRewriter servers srv 1",
	"modDest carbon-default 0 prefix=foo", "modRoute carbon-default prefix=x regex=a.*", "delRoute carbon-default",
	"addDest carbon-default @SINK@", "view", "help",
}

func (r rnd) garbageCmd(c *absCmd) string {
	if c.Via == "toml" {
		base := "[[route]]\nkey = 'g'\ntype = 'sendAllMatch'\ndestinations = [ '@SINK@ flush=5' ]\n[[aggregation]]\nfunction = 'sum'\nregex = 'a(.*)'\nformat = 'x.$1'\ninterval = 5\nwait = 1\n"
		switch c.Val {
		case "syntax":
			return r.pick([]string{"[[route]\nkey='a'", "key = ", "= 5", "[[route]]\nkey = 'a'\nkey = 'b'\n", "[route]\nkey='x'\n", "destinations = [ 'a', 5 ]", "\x00", "[[aggregation]]\ninterval = 1 2\n"})
		case "wrongtype":
			return r.pick([]string{"[[route]]\nkey = 5\ntype = 'sendAllMatch'\n", "[[route]]\nkey='a'\ntype='sendAllMatch'\ndestinations = 'x'\n", "route = 5\n", "aggregation = 'x'\n",
				"[[aggregation]]\nfunction = 'sum'\nregex = 'a'\nformat='b'\ninterval = '5'\nwait = 1\n", "blacklist = 'prefix a'\n", "[[rewriter]]\nold = 5\n", "[route]\nkey='a'\n",
				"[[route]]\nkey='a'\ntype='grafanaNet'\naddr='@HTTP@'\napikey='k'\nschemasFile='@SCHEMAS@'\naggregationFile='@AGGS@'\nsslverify='no'\n", "[init]\ncmds = 'view'\n"})
		case "unknownroute":
			return "[[route]]\nkey = 'u'\ntype = " + tomlStr(r.pick([]string{"sendall", "", "SendAllMatch", "kafka", "cloudwatch", r.garbage(5)})) + "\ndestinations = [ '@SINK@' ]\n"
		case "nodests":
			return "[[route]]\nkey = 'n'\ntype = '" + r.pick([]string{"sendAllMatch", "sendFirstMatch", "consistentHashing"}) + "'\n" + r.pick([]string{"", "destinations = []\n", "destinations = [ '' ]\n", "destinations = [ '  ' ]\n"})
		case "trunc":
			return base[:r.Intn(len(base))]
		default: // bytes
			b := []byte(base)
			for i := 0; i < 1+r.Intn(4); i++ {
				b[r.Intn(len(b))] = byte(r.Intn(256))
			}
			return "[init]\ncmds = [ " + tomlStr(r.pick(docExamples)) + " ]\n" + string(b)
		}
	}
	ex := r.pick(docExamples)
	toks := strings.Split(ex, " ")
	switch c.Val {
	case "empty":
		return r.pick([]string{"", " ", "  ", "\n", "\t"})
	case "unknown":
		return r.pick([]string{"addFoo x", "delDest a 0", "addroute sendAllMatch a  @SINK@", "ADDBLACK prefix a", "add", "del", "mod", "addRoute", "addRoute foo a  @SINK@", "addRoute kafkaMdm", "addRoute pubsub", "delRoute", "modDest", "modRoute", "addAgg", "addBlack", "addRewriter", r.garbage(10)})
	case "random":
		return r.garbage(1 + r.Intn(200))
	case "trunc":
		return ex[:r.Intn(len(ex)+1)]
	case "dup":
		i := r.Intn(len(toks))
		return strings.Join(append(append(append([]string{}, toks[:i+1]...), toks[i]), toks[i+1:]...), " ")
	case "swap":
		i, j := r.Intn(len(toks)), r.Intn(len(toks))
		toks[i], toks[j] = toks[j], toks[i]
		return strings.Join(toks, " ")
	case "bytes":
		b := []byte(ex)
		for i := 0; i < 1+r.Intn(3); i++ {
			if r.Intn(2) == 0 {
				b[r.Intn(len(b))] = byte(r.Intn(256))
			} else {
				p := r.Intn(len(b))
				b = append(b[:p], append([]byte{byte(32 + r.Intn(95))}, b[p:]...)...)
			}
		}
		return string(b)
	case "case":
		if r.Intn(2) == 0 {
			return strings.ToUpper(ex)
		}
		return strings.ToLower(ex)
	case "longline":
		return ex + " " + r.long(70000)
	case "addDest":
		return r.pick([]string{"addDest", "addDest k", "addDest k @SINK@", "help", "view x"})
	case "spaces":
		return strings.Replace(strings.Replace(ex, "  ", r.pick([]string{" ", "   ", "    ", "\t"}), -1), " ", r.pick([]string{" ", "  "}), 1+r.Intn(3))
	default: // quotes
		i := r.Intn(len(toks))
		toks[i] = `"` + toks[i] + `"`
		if r.Intn(2) == 0 {
			toks[len(toks)-1] += `"`
		}
		return strings.Join(toks, " ")
	}
}

// ---------------------------------------------------------------- stream items

func validLine(r rnd) string {
	return fmt.Sprintf("%s %d %d", r.pick(namePool), r.Intn(1000), time.Now().Unix()-int64(r.Intn(3)))
}

func chop(r rnd, b []byte) [][]byte {
	var out [][]byte
	mode := r.Intn(3)
	for len(b) > 0 {
		n := len(b)
		switch mode {
		case 0:
			n = 1 + r.Intn(3)
		case 1:
			n = 1 + r.Intn(4096)
		}
		if n > len(b) {
			n = len(b)
		}
		out = append(out, b[:n])
		b = b[n:]
	}
	return out
}

func plainBytes(r rnd, cls string) []byte {
	v := validLine(r)
	nm := r.pick(namePool)
	switch cls {
	case "wellformed":
		return []byte(v + "\n" + validLine(r) + "\n")
	case "emptyline":
		return []byte("\n\n" + v + "\n\n")
	case "nonewline":
		return []byte(v)
	case "onefield":
		return []byte(nm + "\n")
	case "twofields":
		return []byte(nm + " 1\n")
	case "fourfields":
		return []byte(v + " extra\n")
	case "nonnumvalue":
		return []byte(nm + " " + r.pick([]string{"abc", "1,5", "0x1p-2", "--1", "", "NaN", "Inf", "-Inf", "1e"}) + " 1500000000\n")
	case "nonnumts":
		return []byte(nm + " 1 " + r.pick([]string{"abc", "1.5", "-", "1e9", "99999999999999999999", "N"}) + "\n")
	case "hugevalue":
		return []byte(nm + " " + r.pick([]string{"1e400", "-1e400", strings.Repeat("9", 400), "1e-400", "4.9e-324"}) + " 1500000000\n")
	case "negts":
		return []byte(nm + " 1 " + r.pick([]string{"-1", "-1500000000", "0", "4294967296", "18446744073709551616"}) + "\n")
	case "toolong":
		return []byte(strings.Repeat("a", 65536+r.Intn(100)) + " 1 2\n" + v + "\n")
	case "nul":
		return []byte("a\x00b 1 2\n\x00\n" + v + "\x00\n")
	case "binary":
		b := make([]byte, 1+r.Intn(3000))
		r.Read(b)
		return b
	case "badutf8":
		return []byte("a.\xff\xfe.b 1 2\n\xc3\x28 1 2\n")
	case "tags":
		return []byte("a.b;x=y;z=1 1 2\na.b; 1 2\na.b;=y 1 2\n;a=b 1 2\na.b;x=y;x=z 1 2\n")
	case "m20":
		return []byte("unit=B.what=disk 1 2\nunit=B 1 2\na=b,c=d 1 2\n=.= 1 2\nunit=.x=y 1 2\n")
	case "crlf":
		return []byte(v + "\r\n" + v + "\r\n\r\n")
	case "spaces":
		return []byte("   \n" + nm + "  1  2\n\t\n " + v + " \n" + nm + "\t1\t2\n")
	default: // mixed
		var b bytes.Buffer
		for i := 0; i < 20; i++ {
			b.Write(plainBytes(r, []string{"wellformed", "onefield", "nonnumvalue", "nul", "tags", "m20", "spaces", "negts", "fourfields"}[r.Intn(9)]))
		}
		return b.Bytes()
	}
}

func frame(payload []byte) []byte {
	b := make([]byte, 4, 4+len(payload))
	binary.BigEndian.PutUint32(b, uint32(len(payload)))
	return append(b, payload...)
}

func pkStr(s string) []byte { // BINUNICODE
	b := []byte{'X', 0, 0, 0, 0}
	binary.LittleEndian.PutUint32(b[1:], uint32(len(s)))
	return append(b, s...)
}
func pkInt(v int32) []byte {
	b := []byte{'J', 0, 0, 0, 0}
	binary.LittleEndian.PutUint32(b[1:], uint32(v))
	return b
}
func pkFloat(f float64) []byte {
	b := []byte{'G', 0, 0, 0, 0, 0, 0, 0, 0}
	binary.BigEndian.PutUint64(b[1:], math.Float64bits(f))
	return b
}
func pkItem(name, ts, val []byte) []byte {
	var b []byte
	b = append(b, name...)
	b = append(b, ts...)
	b = append(b, val...)
	return append(b, 0x86, 0x86) // TUPLE2 TUPLE2
}
func pkList(items ...[]byte) []byte {
	b := []byte{0x80, 2, ']', '('}
	for _, it := range items {
		b = append(b, it...)
	}
	return append(b, 'e', '.')
}

func goodPickle(r rnd) []byte {
	var items [][]byte
	for i := 0; i < 1+r.Intn(4); i++ {
		items = append(items, pkItem(pkStr(r.pick(namePool)), pkInt(int32(time.Now().Unix())), pkFloat(float64(r.Intn(100)))))
	}
	return pkList(items...)
}

func pickleBytes(r rnd, cls string) []byte {
	good := goodPickle(r)
	switch cls {
	case "wellformed":
		return append(frame(good), frame(goodPickle(r))...)
	case "truncprefix":
		return frame(good)[:1+r.Intn(3)]
	case "lengtcap":
		b := frame(good)
		binary.BigEndian.PutUint32(b, uint32(500*1024*1024+1+r.Intn(1<<20)))
		if r.Intn(2) == 0 {
			binary.BigEndian.PutUint32(b, 0xffffffff)
		}
		return b
	case "lenzero":
		return append([]byte{0, 0, 0, 0}, frame(good)...)
	case "truncpayload":
		b := frame(good)
		return b[:4+r.Intn(len(b)-4)]
	case "badprefix":
		p := append([]byte{}, good...)
		p[0] = byte(r.Intn(256))
		if r.Intn(2) == 0 {
			p = []byte{0x80}
		}
		return frame(p)
	case "nonlist":
		return frame(r.pickB([][]byte{{0x80, 2, '}', '.'}, {0x80, 2, 'K', 5, '.'}, append(append([]byte{0x80, 2}, pkStr("abc")...), '.'), {0x80, 2, 'N', '.'}, {0x80, 2, ')', '.'},
			{0x80, 2, ']', '.'}, []byte("(lp0\n."), {0x80, 2, 0x88, '.'}}))
	case "wrongarity":
		one := append(pkStr("a.b"), 0x85)                                                 // TUPLE1
		three := append(append(append(pkStr("a.b"), pkInt(1)...), pkFloat(2)...), 0x87)  // TUPLE3
		d1 := append(append(pkStr("a.b"), append(pkInt(1), 0x85)...), 0x86)              // (name,(ts,))
		d3 := append(append(pkStr("a.b"), append(append(append(pkInt(1), pkInt(2)...), pkInt(3)...), 0x87)...), 0x86)
		empty := []byte{')'}
		return frame(pkList(one, three, d1, d3, empty, pkItem(pkStr("ok.x"), pkInt(5), pkFloat(1))))
	case "wrongtypes":
		none, tru, lst, dct := []byte{'N'}, []byte{0x88}, []byte{']'}, []byte{'}'}
		return frame(pkList(pkItem(pkInt(5), pkInt(1), pkFloat(1)), pkItem(pkStr("a"), none, pkFloat(1)), pkItem(pkStr("a"), pkInt(1), tru),
			pkItem(pkStr("a"), lst, dct), pkItem(none, none, none), pkItem(pkStr(""), pkStr(""), pkStr("")), pkItem(pkStr("a b"), pkStr("x y"), pkStr("1 2")),
			pkItem(pkStr("a\nb"), pkFloat(math.NaN()), pkFloat(math.Inf(1))), pkInt(7), none, pkStr("str"), append(pkStr("a"), pkStr("b")...)))
	case "unknownopcode":
		p := append([]byte{}, good...)
		p[4+r.Intn(len(p)-5)] = []byte{0xff, 0x00, 0x01, 0x7f, 'z', 0xb0, 'R', 'c', 'o', 'b', 0x81, 'i'}[r.Intn(12)]
		return frame(p)
	case "random":
		b := make([]byte, 3+r.Intn(300))
		r.Read(b)
		if r.Intn(2) == 0 {
			copy(b, []byte{0x80, 2, ']'})
		}
		return frame(b)
	case "nested":
		n := 1000 + r.Intn(100000)
		return frame(append(append([]byte{0x80, 2, ']'}, bytes.Repeat([]byte{']'}, n)...), append(bytes.Repeat([]byte{'a'}, n), '.')...))
	case "biglong":
		long := append([]byte{0x8a, 9}, 1, 2, 3, 4, 5, 6, 7, 8, 0) // LONG1 9 bytes
		l4 := append([]byte{0x8b, 0xff, 0xff, 0xff, 0x7f}, 1, 2, 3) // LONG4 with a lying length
		textlong := []byte("L" + strings.Repeat("9", 400) + "L\n")
		return append(frame(pkList(pkItem(pkStr("a.b"), long, long), pkItem(pkStr("a.c"), textlong, textlong))), frame(pkList(pkItem(pkStr("a.b"), l4, l4)))...)
	case "badmemo":
		return frame(r.pickB([][]byte{{0x80, 2, ']', 'h', 7, '.'}, {0x80, 2, ']', 'j', 0xff, 0xff, 0xff, 0x7f, '.'}, []byte("(lg99\n."), {0x80, 2, ']', 'q', 0, 'h', 0, 'h', 0, 'a', '.'}}))
	case "stackunderflow":
		return frame(r.pickB([][]byte{{0x80, 2, ']', 0x86, '.'}, {0x80, 2, ']', 'a', '.'}, {0x80, 2, ']', 'e', '.'}, {0x80, 2, ']', 't', '.'}, {0x80, 2, ']', '0', '0', '.'}, {0x80, 2, ']', 's', '.'},
			{0x80, 2, ']', 'u', '.'}, {0x80, 2, ']', '2', '.'}, []byte("(l."), {0x80, 2, ']'}, {0x80, 2, ']', '(', '(', '('}}))
	case "protohigh":
		p := append([]byte{}, good...)
		p[1] = byte(5 + r.Intn(250))
		return frame(p)
	case "lenlies":
		b := frame(good)
		binary.BigEndian.PutUint32(b, uint32(len(good)+1+r.Intn(5000)))
		return append(b, frame(goodPickle(r))...)
	default: // mixed
		var b []byte
		for i := 0; i < 6; i++ {
			b = append(b, pickleBytes(r, []string{"wellformed", "wrongarity", "wrongtypes", "nonlist", "biglong", "wellformed"}[r.Intn(6)])...)
		}
		return b
	}
}

func (r rnd) pickB(s [][]byte) []byte { return s[r.Intn(len(s))] }

func (r rnd) item(it *absItem) step {
	st := step{Kind: "item", Item: it, End: "eof"}
	switch it.Proto {
	case "plain":
		if it.Cls != "rulematch" { // rulematch: rendered by the child (current timestamps)
			st.Chunks = chop(r, plainBytes(r, it.Cls))
		}
		if r.Intn(4) == 0 {
			st.End = "err"
		}
	case "pickle":
		if it.Cls != "rulematch" {
			st.Chunks = chop(r, pickleBytes(r, it.Cls))
		}
		if r.Intn(4) == 0 {
			st.End = "err"
		}
	case "udp":
		switch it.Cls {
		case "wellformed":
			st.Chunks = [][]byte{[]byte(validLine(r) + "\n"), []byte(validLine(r) + "\n" + validLine(r) + "\n")}
		case "emptypacket":
			st.Chunks = [][]byte{{}, []byte("\n"), {}}
		case "nonewline":
			st.Chunks = [][]byte{[]byte(validLine(r)), []byte("a.b 1")}
		case "binary":
			st.Chunks = [][]byte{plainBytes(r, "binary"), plainBytes(r, "nul"), plainBytes(r, "badutf8")}
		case "maxsize":
			b := bytes.Repeat([]byte(validLine(r)+"\n"), 5000)
			st.Chunks = [][]byte{b[:65507], bytes.Repeat([]byte("x"), 65507)}
		case "manylines":
			st.Chunks = [][]byte{plainBytes(r, "mixed")}
		default: // picklebytes on the plain port and vice versa
			st.Chunks = [][]byte{pickleBytes(r, "wellformed"), frame(goodPickle(r))[:5]}
		}
	case "amqp":
		switch it.Cls {
		case "wellformed":
			st.Chunks = [][]byte{[]byte(validLine(r)), []byte(validLine(r) + "\n" + validLine(r) + "\n")}
		case "emptybody":
			st.Chunks = [][]byte{{}, []byte("\n\n")}
		case "longline":
			st.Chunks = [][]byte{[]byte(strings.Repeat("a", 4096+r.Intn(10000)) + " 1 2\n" + validLine(r)), []byte(strings.Repeat("b", 4096) + " 1 2")}
		case "binary":
			st.Chunks = [][]byte{plainBytes(r, "binary"), plainBytes(r, "nul")}
		case "manylines":
			st.Chunks = [][]byte{plainBytes(r, "mixed"), plainBytes(r, "crlf")}
		default:
			st.Chunks = [][]byte{[]byte("a.b 1"), []byte(validLine(r))}
		}
	}
	return st
}

// concretise renders one abstract history; deterministic in (seed, h)
func concretise(seed int64, ac absCase) concCase {
	r := rnd{Rand: rand.New(rand.NewSource(seed*1000003 + int64(ac.H)*7919 + 17))}
	for _, c := range ac.Cmds {
		if isNameClass(c.Val) {
			r.nofilter = true // what the rule produces must reach the destinations
		}
	}
	var ruleNames []string
	cc := concCase{H: ac.H, Keys: map[string]string{}}
	for _, k := range []string{"k1", "k2"} {
		cc.Keys[k] = fmt.Sprintf("%sh%d", k, ac.H)
	}
	cc.Keys["nokey"] = fmt.Sprintf("nokeyh%d", ac.H)
	for i := range ac.Cmds {
		c := ac.Cmds[i]
		st := step{Kind: "cmd", Cmd: &c}
		key := cc.Keys[c.Key]
		if c.Op == "addRoute" && c.Opt == "key" && c.Val != "missing" {
			// a degenerate key string; still "the" key of the abstract route
			tok, _ := r.strTok(c.Val, "name")
			key = strings.Replace(tok, " ", "_", -1)
			if key == "" {
				key = "x"
			}
			cc.Keys[c.Key] = key
		}
		switch c.Op {
		case "addBlack":
			st.Text = r.addBlack(&c)
		case "addRewriter":
			if isNameClass(c.Val) {
				st.Text, st.Names = r.nameRewriter(&c)
				ruleNames = append(ruleNames, st.Names...)
			} else {
				st.Text = r.addRewriter(&c)
			}
		case "addAgg":
			if isNameClass(c.Val) {
				st.Text, st.Names = r.nameAgg(&c)
				st.IsAgg = true
				ruleNames = append(ruleNames, st.Names...)
			} else {
				st.Text = r.addAgg(&c)
			}
		case "addRoute":
			st.Text = r.addRoute(&c, key)
		case "addGnet":
			st.Text = r.addGnet(&c, key)
		case "modDest", "modRoute":
			st.Text = r.mod(&c, key)
		case "delRoute":
			st.Text = "delRoute " + key
			if c.Opt == "key" {
				st.Text = "delRoute"
			}
		case "delDest":
			st.ApiKey = key
		case "garbage":
			st.Text = r.garbageCmd(&c)
		case "config":
			st.Text = r.config(&c)
		}
		cc.Steps = append(cc.Steps, st)
	}
	for i := range ac.Items {
		it := ac.Items[i]
		st := r.item(&it)
		if it.Cls == "rulematch" {
			st.Names = ruleNames
			if len(st.Names) == 0 { // no rule in the history: any well-formed names
				st.Names = []string{r.pick(namePool), r.pick(namePool)}
			}
		}
		cc.Steps = append(cc.Steps, st)
	}
	return cc
}
