package adm

import (
	"bytes"
	"context"
	"encoding/json"
	"fmt"
	"io/ioutil"
	"os"
	"os/exec"
	"path/filepath"
	"regexp"
	"sort"
	"strings"
	"sync"
	"sync/atomic"
	"syscall"
	"testing"
	"time"

	"verifharness/hx"
)

type childResult struct {
	events []map[string]interface{}
	rc     int    // exit code (-1: killed by signal / parent deadline)
	how    string // ok | hang | recycle | crash | timeout
	stderr string
}

var frameRe = regexp.MustCompile(`^(github\.com/grafana/carbon-relay-ng/[^\s(]+(?:\([^)]*\))?[^\s(]*)\(`)

// panicInfo extracts the first panic / fatal error line and the first frames inside the repository
func panicInfo(stderr string) (string, []string) {
	lines := strings.Split(stderr, "\n")
	msg := ""
	var frames []string
	start := -1
	for i, l := range lines {
		if strings.HasPrefix(l, "panic: ") || strings.HasPrefix(l, "fatal error: ") {
			msg = l
			start = i
			break
		}
	}
	if start < 0 {
		return "", nil
	}
	for _, l := range lines[start:] {
		if m := frameRe.FindStringSubmatch(strings.TrimSpace(l)); m != nil && len(frames) < 4 {
			f := strings.TrimPrefix(m[1], "github.com/grafana/carbon-relay-ng/")
			frames = append(frames, f)
		}
	}
	return clip(msg, 200), frames
}

var skipGnetShutdown int32 // set once children saw GrafanaNet.Shutdown block three times
var gnetHangs int32

func runChild(out, caseFile string, from, to int, tag string, deadline time.Duration) childResult {
	evf := filepath.Join(out, "adm_ev_"+tag+".ndjson")
	errf := filepath.Join(out, "adm_err_"+tag+".txt")
	os.Remove(evf)
	ctx, cancel := context.WithTimeout(context.Background(), deadline)
	defer cancel()
	cmd := exec.CommandContext(ctx, os.Args[0], "-test.run=^TestAdmChild$", "-test.timeout=0")
	cmd.Env = append(os.Environ(), "VERIF_ADM_CHILD="+caseFile, fmt.Sprintf("VERIF_ADM_FROM=%d", from),
		fmt.Sprintf("VERIF_ADM_TO=%d", to), "VERIF_ADM_EVENTS="+evf,
		fmt.Sprintf("VERIF_ADM_SKIP_GNET_SHUTDOWN=%d", atomic.LoadInt32(&skipGnetShutdown)))
	ef, _ := os.Create(errf)
	cmd.Stdout = ioutil.Discard
	cmd.Stderr = ef
	err := cmd.Run()
	ef.Close()
	res := childResult{how: "ok"}
	if b, e := ioutil.ReadFile(errf); e == nil {
		if len(b) > 1<<20 {
			b = append(b[:1<<19], b[len(b)-(1<<19):]...)
		}
		res.stderr = string(b)
	}
	if raw, e := hx.ReadLines(evf); e == nil {
		for _, l := range raw {
			var m map[string]interface{}
			if json.Unmarshal(l, &m) == nil {
				res.events = append(res.events, m)
				if m["gnethang"] == true && atomic.AddInt32(&gnetHangs, 1) >= 3 {
					atomic.StoreInt32(&skipGnetShutdown, 1)
				}
			}
		}
	}
	if err != nil {
		res.rc = -1
		res.how = "crash"
		if ee, ok := err.(*exec.ExitError); ok {
			if ws, ok := ee.Sys().(syscall.WaitStatus); ok && ws.Exited() {
				res.rc = ws.ExitStatus()
			}
		}
		switch {
		case ctx.Err() != nil:
			res.how = "timeout"
		case res.rc == exitHang:
			res.how = "hang"
		case res.rc == exitRecycle:
			res.how = "recycle"
		}
	}
	os.Remove(errf)
	os.Remove(evf)
	return res
}

// lastBegun returns (h, step, what) of the last step the child announced
func lastBegun(evs []map[string]interface{}) (int, int, string, bool) {
	for i := len(evs) - 1; i >= 0; i-- {
		e := evs[i]
		if e["ev"] == "begin" {
			return int(e["h"].(float64)), int(e["step"].(float64)), fmt.Sprint(e["what"]), true
		}
		if e["ev"] == "hist" {
			return int(e["h"].(float64)), -1, "start", true
		}
	}
	return 0, 0, "", false
}

type runner struct {
	out      string
	seed     int64
	mu       sync.Mutex
	minimise int // remaining minimisation budget
	seenSig  map[string]bool
}

func (rn *runner) writeCases(name string, ccs []concCase) string {
	p := filepath.Join(rn.out, name)
	var b bytes.Buffer
	for _, c := range ccs {
		j, _ := json.Marshal(c)
		b.Write(j)
		b.WriteByte('\n')
	}
	ioutil.WriteFile(p, b.Bytes(), 0644)
	return p
}

// crashes reports whether the sub-history (steps by index) of cc still kills a child
func (rn *runner) crashes(cc concCase, idx []int, tag string) bool {
	sub := concCase{H: cc.H, Keys: cc.Keys}
	for _, i := range idx {
		sub.Steps = append(sub.Steps, cc.Steps[i])
	}
	f := rn.writeCases("adm_min_"+tag+".ndjson", []concCase{sub})
	defer os.Remove(f)
	r := runChild(rn.out, f, 0, 1, "min"+tag, 300*time.Second)
	return r.how == "crash"
}

// minimal sub-history that still crashes (indices into cc.Steps); nil if not reproducible
func (rn *runner) minimiseCase(cc concCase, upto int, tag string) []int {
	var all []int
	for i := 0; i < len(cc.Steps) && i <= upto; i++ {
		all = append(all, i)
	}
	if !rn.crashes(cc, all, tag) {
		return nil
	}
	for _, i := range all { // a single step?
		if rn.crashes(cc, []int{i}, tag) {
			return []int{i}
		}
	}
	cur := all
	for changed := true; changed && len(cur) > 1; { // drop one at a time
		changed = false
		for k := range cur {
			cand := append(append([]int{}, cur[:k]...), cur[k+1:]...)
			if rn.crashes(cc, cand, tag) {
				cur, changed = cand, true
				break
			}
		}
	}
	return cur
}

// TestAdm is the parent: it concretises the abstract histories, runs them in child processes
// (a child that dies is attributed to the last announced case, the rest continues in a new child)
// and writes the merged trace.
func TestAdm(t *testing.T) {
	out := hx.Out(t)
	if os.Getenv("VERIF_ADM_CHILD") != "" {
		t.Skip("child")
	}
	raw, err := hx.ReadLines(os.Getenv("VERIF_ADM_CASES"))
	if err != nil {
		t.Fatal(err)
	}
	// scratch directories of the children live under one base that the parent removes: a child that
	// crashes or is recycled cannot clean up after itself
	shmBase := hx.ShmBase()
	if st, err := os.Stat(shmBase); err != nil || !st.IsDir() {
		shmBase = os.TempDir()
	}
	if d, err := ioutil.TempDir(shmBase, "verif-c14p-"); err == nil {
		os.Setenv("VERIF_ADM_SHM", d)
		defer os.RemoveAll(d)
	}
	rn := &runner{out: out, seed: hx.Seed(), minimise: hx.EnvInt("VERIF_ADM_MINIMISE", 6), seenSig: map[string]bool{}}
	var ccs []concCase
	for i, l := range raw {
		var ac absCase
		if err := json.Unmarshal(l, &ac); err != nil {
			t.Fatalf("case %d: %v", i, err)
		}
		ac.H = i
		ccs = append(ccs, concretise(rn.seed, ac))
	}
	caseFile := rn.writeCases("adm_concrete.ndjson", ccs)
	workers := hx.EnvInt("VERIF_ADM_WORKERS", 4)
	batch := hx.EnvInt("VERIF_ADM_BATCH", 60)
	perCase := make([][]map[string]interface{}, len(ccs))
	var stats struct {
		sync.Mutex
		children, crashes, hangs, timeouts, recycles int
	}
	var wg sync.WaitGroup
	next := 0
	var nmu sync.Mutex
	take := func() (int, int) {
		nmu.Lock()
		defer nmu.Unlock()
		if next >= len(ccs) {
			return -1, -1
		}
		a := next
		next += batch
		if next > len(ccs) {
			next = len(ccs)
		}
		return a, next
	}
	for w := 0; w < workers; w++ {
		wg.Add(1)
		go func(w int) {
			defer wg.Done()
			nchild := 0
			for {
				a, b := take()
				if a < 0 {
					return
				}
				from := a
				for from < b {
					nchild++
					tag := fmt.Sprintf("%d_%d", w, nchild)
					r := runChild(out, caseFile, from, b, tag, time.Duration(600+20*(b-from))*time.Second)
					stats.Lock()
					stats.children++
					stats.Unlock()
					for _, e := range r.events {
						if hf, ok := e["h"].(float64); ok && e["ev"] != "begin" && e["ev"] != "cleaned" {
							perCase[int(hf)] = append(perCase[int(hf)], e)
						}
					}
					h, stp, what, any := lastBegun(r.events)
					switch r.how {
					case "ok":
						from = b
					case "recycle", "hang":
						stats.Lock()
						if r.how == "hang" {
							stats.hangs++
						} else {
							stats.recycles++
						}
						stats.Unlock()
						if !any {
							h = from
						}
						from = h + 1
					default: // crash | timeout
						if !any {
							h, stp, what = from, -1, "start"
						}
						msg, frames := panicInfo(r.stderr)
						evn := "crash"
						if r.how == "timeout" || strings.Contains(msg, "test timed out") {
							evn = "timeout"
						}
						rec := map[string]interface{}{"ev": evn, "h": h, "step": stp, "what": what, "rc": r.rc, "panic": msg, "frames": frames,
							"stderr": clip(tailFrom(r.stderr, msg), 1500)}
						stats.Lock()
						if evn == "crash" {
							stats.crashes++
						} else {
							stats.timeouts++
						}
						stats.Unlock()
						if evn == "crash" {
							sig := msg + "|" + strings.Join(frames, ",")
							rn.mu.Lock()
							do := !rn.seenSig[sig] && rn.minimise > 0
							if do {
								rn.seenSig[sig] = true
								rn.minimise--
							}
							rn.mu.Unlock()
							if do {
								upto := stp
								if what != "cmd" && what != "item" {
									upto = len(ccs[h].Steps) - 1
								}
								if m := rn.minimiseCase(ccs[h], upto, tag); m != nil {
									var txt []string
									for _, i := range m {
										s := ccs[h].Steps[i]
										if s.Kind == "cmd" {
											txt = append(txt, clip(s.Text, 300))
										} else {
											txt = append(txt, s.Item.Proto+"/"+s.Item.Cls)
										}
									}
									rec["min"] = m
									rec["min_text"] = txt
								}
							}
						}
						// drop a trailing "done" of this case if the crash came during cleanup: the case itself completed
						perCase[h] = append(perCase[h], rec)
						from = h + 1
					}
				}
			}
		}(w)
	}
	wg.Wait()
	tr := hx.NewLog(os.Getenv("VERIF_ADM_TRACE"))
	for h := range perCase {
		evs := perCase[h]
		sort.SliceStable(evs, func(i, j int) bool { return false })
		for _, e := range evs {
			tr.Emit(e)
		}
	}
	tr.Emit(map[string]interface{}{"ev": "summary", "cases": len(ccs), "children": stats.children, "crashes": stats.crashes,
		"hangs": stats.hangs, "timeouts": stats.timeouts, "recycles": stats.recycles})
	tr.Close()
}

func tailFrom(stderr, msg string) string {
	if msg == "" {
		if len(stderr) > 1500 {
			return stderr[len(stderr)-1500:]
		}
		return stderr
	}
	if i := strings.Index(stderr, msg); i >= 0 {
		return stderr[i:]
	}
	return stderr
}
