// Package tbl drives the real table.Table / route.SendAllMatch for C18
// (runtime table changes are atomic with respect to traffic).  It only forces
// schedules and records what the real code did; every verdict is taken by TLC
// on the recorded events (spec/TableTrace.tla).
//
// Scheduler gates without any hook in the relay: capture routes are harness
// code (their Match blocks on a channel the driver controls); inside a real
// route the dispatcher is held at the Tracef call that precedes `dest.In <-
// buf` by a logrus hook installed by the driver.
//
// Kind "fe" (the whole table): a dispatcher is additionally held INSIDE the
// front end of Table.Dispatch, after it loaded the configuration and before
// its route loop: the first aggregator of the table is built by the driver
// with aggregator.NewMocked (drop-raw, regex cache on, a regex that matches
// nothing); its AddMaybe asks the mock clock for the time from the Dispatch
// goroutine, and the mock clock is the gate.  While it is held there the
// schedule changes the blacklist / rewriters / aggregators AND the routes;
// the fate of the metric (dropped by the blacklist, consumed by a drop-raw
// aggregator, handed to the routes) is read off the table's own Tracef lines
// and cross-checked against the table's blacklist counter.
//
// Kind "ovl" (overlapping admin operations on one real route): the relay
// goroutine of every destination of the route is parked at the top of its loop
// (destination.VerifSetHook, point "relay.loop") from its birth on.  Operation
// ov1 of the schedule, a DelDestination, is started in a goroutine of its own:
// it takes the route lock, loads the configuration and waits inside
// Destination.Shutdown for the parked relay.  Operation ov2 is started in a
// second goroutine while ov1 is parked there; when ov2 waits for the route lock
// (or has returned) the relays are released.  Every wait is for an observable
// state (hook event, goroutine state in runtime.Stack) with a deadline; a gate
// that cannot be established fails the driver (exit 2 of the check).  Recorded:
// call / return of each operation and the route as Table.Snapshot() shows it.
//
// Kind "tovl" (overlapping admin operations on the TABLE): the table of kind fe;
// ov1 is DelAggregator of the gate aggregator: it takes the table lock, loads
// the configuration and waits inside Aggregator.Shutdown, whose goroutine asks
// the mock clock for the time when it takes the shutdown signal -- and is held
// there.  ov2 is any operation on any list of the table.
package tbl

import (
	"encoding/json"
	"fmt"
	"io/ioutil"
	"math/rand"
	"os"
	"reflect"
	"runtime"
	"strconv"
	"strings"
	"sync"
	"sync/atomic"
	"testing"
	"time"

	"verifharness/hx"

	"github.com/grafana/carbon-relay-ng/aggregator"
	"github.com/grafana/carbon-relay-ng/destination"
	"github.com/grafana/carbon-relay-ng/imperatives"
	"github.com/grafana/carbon-relay-ng/matcher"
	"github.com/grafana/carbon-relay-ng/rewriter"
	"github.com/grafana/carbon-relay-ng/route"
	"github.com/grafana/carbon-relay-ng/stats"
	"github.com/grafana/carbon-relay-ng/table"
	"github.com/grafana/carbon-relay-ng/util"
	"github.com/grafana/carbon-relay-ng/validate"
	m20 "github.com/metrics20/go-metrics20/carbon20"
	log "github.com/sirupsen/logrus"
)

// ---------------------------------------------------------------- schedule

type step struct {
	Ev string `json:"ev"`
	D  int    `json:"d"`
	C  int    `json:"c"`
	L  string `json:"l"` // list operated on (kind fe: main | bl | rw | agg; other kinds: the list of the kind)
	Op string `json:"op"`
	E  int    `json:"e"`
	F  int    `json:"f"`
	I  int    `json:"i"`
	K  int    `json:"k"`
}

type scenario struct {
	H     int    `json:"h"`
	Kind  string `json:"kind"` // route (capture routes) | rroute (real routes) | dest | rw | bl | agg | fe (whole table)
	Init  int    `json:"init"`
	FeBl  int    `json:"febl"`  // kind fe: inert blacklist / rewriter / aggregator entries of the initial table
	FeRw  int    `json:"ferw"`  // (ids 101.., 201.., 301..; the gate aggregator, id 99, comes first)
	FeAgg int    `json:"feagg"`
	RGate bool   `json:"rgate"` // kind fe: the capture routes are gates too
	Steps []step `json:"steps"`
}

// ------------------------------------------------------------ the harness

var runTag string
var scnCounter int64

type dispState struct {
	mu      sync.Mutex
	vis     []int
	rw      []int
	rwobs   bool
	gated   bool
	reached chan int
	release chan struct{}
	fin     chan struct{}
	held    bool
	done    bool
	dead    int
	fate    string // "bl" | "agg" (the table's own trace lines); "" = handed to the route loop
}

type harness struct {
	t     *testing.T
	lg    *hx.Log
	tbl   *table.Table
	kind  string
	tag   string // unique per scenario: part of route keys (go-metrics counters are global)
	rkey  string // kind dest: key of the one real route
	rt    route.Route
	useCmd func() bool

	mu     sync.Mutex
	disp   map[int]*dispState
	destID map[string]int // destination.Key -> id
	dests  map[int]*destination.Destination
	sends  map[int]int // id -> sends observed by the log hook
	drains map[int]*int64
	stopDr chan struct{}
	aggID  map[*aggregator.Aggregator]int
	held   map[string][]heldSnap // per list: every slice seen published so far in this history

	rgate   bool       // kind fe: capture routes hold the dispatcher
	feArmed *dispState // kind fe: the dispatcher that is to be held at the front-end gate
	blBase  int64      // the table's blacklist counter when the history started (process-global counter)
	blSeen  int64      // dispatches the hook saw dropped by the blacklist

	parkAll bool   // kind ovl: relays of new destinations are parked at birth
	aggPark *parkState // kind tovl: armed -> the gate aggregator's goroutine is held in its clock when it shuts down
	aggDown map[*aggregator.Aggregator]bool // kind tovl: aggregators a returned DelAggregator has shut down
	okDels  int    // kind ovl: deletes of a destination that returned without error (each shut one relay down)
	evKind  string // kind as recorded in the hist event (ovl runs on the harness of kind dest)
}

// ---- parking of relay goroutines (destination verif hook, point "relay.loop")

type parkState struct {
	parked   chan struct{} // closed when the relay has arrived at the gate
	release  chan struct{} // closed to let it go (and to disarm the gate)
	once     sync.Once
	released bool
}

var parkMu sync.Mutex
var parkReg = map[string]*parkState{}
var parkArmed int32
var relayWatch int32              // kind ovl running: relays that take the shutdown signal are noted
var relayGone = map[string]bool{} // destination key -> its relay has taken the shutdown signal and returns

func destHook(name string, args ...interface{}) {
	if name == "relay.shutdown" && atomic.LoadInt32(&relayWatch) != 0 && len(args) > 0 {
		if key, ok := args[0].(string); ok {
			parkMu.Lock()
			relayGone[key] = true
			parkMu.Unlock()
		}
		return
	}
	if name != "relay.loop" || atomic.LoadInt32(&parkArmed) == 0 || len(args) == 0 {
		return
	}
	key, ok := args[0].(string)
	if !ok {
		return
	}
	parkMu.Lock()
	p := parkReg[key]
	parkMu.Unlock()
	if p == nil {
		return
	}
	p.once.Do(func() { close(p.parked) })
	<-p.release
}

func parkArm(key string) {
	parkMu.Lock()
	if parkReg[key] == nil {
		parkReg[key] = &parkState{parked: make(chan struct{}), release: make(chan struct{})}
		atomic.AddInt32(&parkArmed, 1)
	}
	parkMu.Unlock()
}

func parkGet(key string) *parkState {
	parkMu.Lock()
	defer parkMu.Unlock()
	return parkReg[key]
}

func parkRelease(key string) {
	parkMu.Lock()
	p := parkReg[key]
	if p != nil && !p.released {
		p.released = true
		close(p.release)
	}
	parkMu.Unlock()
}

// release every relay and stop parking new ones
func (h *harness) parkReleaseAll() {
	h.parkAll = false
	parkMu.Lock()
	for k, p := range parkReg {
		if !p.released {
			p.released = true
			close(p.release)
		}
		delete(parkReg, k)
		atomic.AddInt32(&parkArmed, -1)
	}
	parkMu.Unlock()
}

const gateAggID = 99

var blCounter = func() interface{ Count() int64 } { return stats.Counter("unit=Metric.direction=blacklist") }

// feGate is the mock clock of the gate aggregator.  AddMaybe calls it from the
// Dispatch goroutine (matchWithCache, under the aggregator's cache lock), i.e.
// after Dispatch loaded the configuration and ran blacklist and rewriters,
// before the remaining aggregators and the route loop.  Only an armed
// dispatcher is held; the aggregator's own goroutine (shutdown) passes.
func (h *harness) feGate() time.Time {
	h.mu.Lock()
	s := h.feArmed
	h.feArmed = nil
	var p *parkState
	if s == nil { // kind tovl: no dispatcher; the aggregator's own goroutine asks when it takes the shutdown signal
		p = h.aggPark
		h.aggPark = nil
	}
	h.mu.Unlock()
	if s != nil {
		s.reached <- -1
		<-s.release
	}
	if p != nil {
		close(p.parked)
		<-p.release
	}
	return time.Unix(1000, 0)
}

// heldSnap is one published slice as a dispatcher that loaded it holds it: the
// very slice header (array, length at the time of publication); read returns
// the ids in its cells NOW.
type heldSnap struct {
	ptr  uintptr
	n    int
	read func() []int
}

var listNames = []string{"main", "rw", "bl", "agg"}

var cur atomic.Value // *harness, for the log hook

func lineFor(c, d int, tag string) []byte {
	return []byte(fmt.Sprintf("c%d.c18.%s.d%d._ 1 1000", c, tag, d))
}

// name: c<c>.c18.<tag>.d<d>.<rw ids joined by ->_   -> (c, d, rw seq)
func parseName(name []byte) (c, d int, rw []int, ok bool) {
	s := string(name)
	if i := strings.IndexByte(s, ' '); i >= 0 {
		s = s[:i]
	}
	p := strings.Split(s, ".")
	if len(p) < 5 || p[1] != "c18" {
		return
	}
	c, _ = strconv.Atoi(p[0][1:])
	d, _ = strconv.Atoi(p[3][1:])
	tail := p[len(p)-1]
	for _, x := range strings.Split(tail, "-") {
		if x == "_" || x == "" {
			continue
		}
		n, err := strconv.Atoi(x)
		if err != nil {
			return
		}
		rw = append(rw, n)
	}
	ok = true
	return
}

func (h *harness) ds(d int) *dispState {
	h.mu.Lock()
	defer h.mu.Unlock()
	return h.disp[d]
}

// gate: called in the dispatcher goroutine when it arrives at entry id
func (h *harness) gate(d, id int) {
	s := h.ds(d)
	if s == nil || !s.gated || (h.kind == "fe" && !h.rgate) {
		return
	}
	s.reached <- id
	<-s.release
}

// ---- capture route (harness code: the scheduler gate and the observer)
type capRoute struct {
	h   *harness
	id  int
	f   int
	key string
}

func (r *capRoute) Match(s []byte) bool {
	c, d, _, ok := parseName(s)
	if !ok {
		return false
	}
	r.h.gate(d, r.id)
	return r.f == 0 || r.f == c
}
func (r *capRoute) Dispatch(buf []byte) {
	_, d, rw, ok := parseName(buf)
	if !ok {
		return
	}
	if s := r.h.ds(d); s != nil {
		s.mu.Lock()
		s.vis = append(s.vis, r.id)
		s.rw = rw
		s.rwobs = true
		s.mu.Unlock()
	}
}
func (r *capRoute) Snapshot() route.Snapshot {
	m := matcher.Matcher{}
	if r.f != 0 {
		m.Prefix = fmt.Sprintf("c%d.", r.f)
	}
	return route.Snapshot{Matcher: m, Type: "capture", Key: r.key}
}
func (r *capRoute) Key() string    { return r.key }
func (r *capRoute) Flush() error   { return nil }
func (r *capRoute) Shutdown() error { return nil }
func (r *capRoute) GetDestination(index int) (*destination.Destination, error) {
	return nil, fmt.Errorf("capture route")
}
func (r *capRoute) DelDestination(index int) error { return fmt.Errorf("capture route") }
func (r *capRoute) UpdateDestination(index int, opts map[string]string) error {
	return fmt.Errorf("capture route")
}
func (r *capRoute) Update(opts map[string]string) error { return fmt.Errorf("capture route") }

// ---- log hook: observer + gate inside real routes ("route %s sending to dest %s: %s")
type lrHook struct{}

func (lrHook) Levels() []log.Level { return []log.Level{log.TraceLevel} }
func (lrHook) Fire(e *log.Entry) error {
	msg := e.Message
	if strings.HasPrefix(msg, "table dropped ") {
		// "table dropped <buf>, matched blacklist entry <m>" / "..., matched dropRaw aggregator <re>"
		fate := ""
		i := strings.Index(msg, ", matched blacklist entry ")
		if i >= 0 {
			fate = "bl"
		} else if i = strings.Index(msg, ", matched dropRaw aggregator "); i >= 0 {
			fate = "agg"
		}
		h, _ := cur.Load().(*harness)
		if fate == "" || h == nil {
			return nil
		}
		if _, d, _, ok := parseName([]byte(msg[len("table dropped "):i])); ok {
			if s := h.ds(d); s != nil {
				s.mu.Lock()
				s.fate = fate
				s.mu.Unlock()
				if fate == "bl" {
					atomic.AddInt64(&h.blSeen, 1)
				}
			}
		}
		return nil
	}
	if !strings.HasPrefix(msg, "route ") {
		return nil
	}
	i := strings.Index(msg, " sending to dest ")
	if i < 0 {
		return nil
	}
	rest := msg[i+len(" sending to dest "):]
	j := strings.Index(rest, ": ")
	if j < 0 {
		return nil
	}
	dkey, buf := rest[:j], rest[j+2:]
	h, _ := cur.Load().(*harness)
	if h == nil {
		return nil
	}
	_, d, rw, ok := parseName([]byte(buf))
	if !ok {
		return nil
	}
	h.mu.Lock()
	id, known := h.destID[dkey]
	if known {
		h.sends[id]++
	}
	s := h.disp[d]
	h.mu.Unlock()
	if !known || s == nil {
		return nil
	}
	if s.gated {
		s.reached <- id
		<-s.release
	}
	s.mu.Lock()
	s.vis = append(s.vis, id)
	s.rw = rw
	s.rwobs = true
	s.mu.Unlock()
	return nil
}

var hookOnce sync.Once

func installHook() {
	hookOnce.Do(func() {
		l := log.StandardLogger()
		l.SetNoLock() // hooks fire under the logger mutex otherwise: a held dispatcher would block every other logger
		l.SetOutput(ioutil.Discard)
		l.AddHook(lrHook{})
		l.SetLevel(log.TraceLevel)
		destination.VerifSetHook(destHook) // once, before any destination runs; inert unless a key is armed
		aggregator.InitMetrics() // as the relay's main does: aggregators that take a metric sample its timestamp
	})
}

// -------------------------------------------------------------- the table

func newHarness(t *testing.T, lg *hx.Log, kind string, rng *rand.Rand) *harness {
	n := atomic.AddInt64(&scnCounter, 1)
	evKind := kind
	if kind == "ovl" { // one real route and its destinations, as kind dest; the relays under control of the gate
		kind = "dest"
	}
	if kind == "tovl" { // the whole table as in kind fe (capture routes, front end, gate aggregator first)
		kind = "fe"
	}
	h := &harness{t: t, lg: lg, kind: kind, evKind: evKind, parkAll: evKind == "ovl", tag: fmt.Sprintf("%sx%d", runTag, n),
		disp: map[int]*dispState{}, destID: map[string]int{}, dests: map[int]*destination.Destination{},
		sends: map[int]int{}, drains: map[int]*int64{}, stopDr: make(chan struct{}),
		aggID: map[*aggregator.Aggregator]int{}, held: map[string][]heldSnap{}, aggDown: map[*aggregator.Aggregator]bool{}}
	h.useCmd = func() bool { return rng.Intn(2) == 0 }
	cfg, err := table.NewTableConfig("/dev/shm/verif-c18-nospool", "24h",
		validate.LevelLegacy{Level: m20.NoneLegacy}, validate.LevelM20{Level: m20.NoneM20}, false)
	if err != nil {
		t.Fatal(err)
	}
	h.tbl = table.New(cfg)
	h.blBase = blCounter().Count()
	if evKind == "ovl" {
		parkMu.Lock()
		relayGone = map[string]bool{}
		parkMu.Unlock()
		atomic.StoreInt32(&relayWatch, 1)
	}
	cur.Store(h)
	if kind == "dest" {
		h.rkey = "R" + h.tag
		m, _ := matcher.New("", "", "", "", "", "")
		r, err := route.NewSendAllMatch(h.rkey, m, nil)
		if err != nil {
			t.Fatal(err)
		}
		h.rt = r
		h.tbl.AddRoute(r)
	}
	return h
}

func (h *harness) newDest(routeKey string, id, f int) *destination.Destination {
	prefix := ""
	if f != 0 {
		prefix = fmt.Sprintf("c%d.", f)
	}
	m, _ := matcher.New(prefix, "", "", "", "", "")
	addr := fmt.Sprintf("127.0.0.1:%d", 1+id) // nothing listens there: every line is counted conn_down_no_spool
	d, err := destination.New(routeKey, m, addr, "/dev/shm/verif-c18-nospool", false, false, time.Second, time.Hour, 100, 4096, 100, 1000, 100, time.Second, time.Second, time.Second)
	if err != nil {
		h.t.Fatal(err)
	}
	if h.parkAll {
		parkArm(d.Key) // it does not run yet: its relay will park at the first turn of its loop
	}
	h.regDest(d, id)
	return d
}

func (h *harness) regDest(d *destination.Destination, id int) {
	h.mu.Lock()
	h.destID[d.Key] = id
	h.dests[id] = d
	h.mu.Unlock()
}

func (h *harness) routeKey(id int) string { return fmt.Sprintf("r%d%s", id, h.tag) }

func idFromPrefix(p, lead string) int {
	if !strings.HasPrefix(p, lead) {
		return -1
	}
	n, err := strconv.Atoi(strings.TrimSuffix(p[len(lead):], "."))
	if err != nil {
		return -1
	}
	return n
}

func fOfPrefix(p string) int {
	if p == "" {
		return 0
	}
	return idFromPrefix(p, "c")
}

func (h *harness) routeID(key string) int {
	if !strings.HasSuffix(key, h.tag) || len(key) < 2 {
		return -1
	}
	n, err := strconv.Atoi(key[1 : len(key)-len(h.tag)])
	if err != nil {
		return -1
	}
	return n
}

func rwID(r rewriter.RW) int {
	n, err := strconv.Atoi(strings.TrimSuffix(r.New, "-_"))
	if err != nil {
		return -1
	}
	return n
}

func aggIDOf(a *aggregator.Aggregator) int {
	return idFromPrefix(strings.TrimSuffix(a.OutFmt, ".out"), "agg")
}

// an aggregator that hits class f has the regex ^c<f>[.] (the inert ones: ^agg<id>[.]never)
func aggFOf(a *aggregator.Aggregator) int {
	re := a.Matcher.Regex
	if strings.HasPrefix(re, "^c") && strings.HasSuffix(re, "[.]") {
		if n, err := strconv.Atoi(re[2 : len(re)-3]); err == nil {
			return n
		}
	}
	return 0
}

// a blacklist entry is inert (prefix bl<id>.) or hits class f (regex ^(c<f>|bl<id>)[.])
func blIDF(m *matcher.Matcher) (id, f int) {
	if m.Prefix != "" {
		return idFromPrefix(m.Prefix, "bl"), 0
	}
	re := m.Regex
	if strings.HasPrefix(re, "^(c") && strings.HasSuffix(re, ")[.]") {
		p := strings.Split(re[2:len(re)-4], "|")
		if len(p) == 2 {
			f, err := strconv.Atoi(p[0][1:])
			if err == nil {
				return idFromPrefix(p[1]+".", "bl"), f
			}
		}
	}
	return -1, 0
}

// list name in the trace spec
func (h *harness) listOf() string {
	switch h.kind {
	case "rw":
		return "rw"
	case "bl":
		return "bl"
	case "agg":
		return "agg"
	}
	return "main"
}

// raw: the currently published slice of a list, exactly as a dispatcher that
// loads the configuration now holds it (same array, same length): its identity
// and a reader of its cells for later
func (h *harness) raw(list string) heldSnap {
	routes, bl, rws, aggs := h.tbl.VerifRawConfig()
	switch list {
	case "rw":
		return heldSnap{reflect.ValueOf(rws).Pointer(), len(rws), func() []int {
			o := make([]int, len(rws))
			for i := range rws {
				o[i] = rwID(rws[i])
			}
			return o
		}}
	case "bl":
		return heldSnap{reflect.ValueOf(bl).Pointer(), len(bl), func() []int {
			o := make([]int, len(bl))
			for i := range bl {
				o[i] = -1
				if bl[i] != nil {
					o[i], _ = blIDF(bl[i])
				}
			}
			return o
		}}
	case "agg":
		return heldSnap{reflect.ValueOf(aggs).Pointer(), len(aggs), func() []int {
			o := make([]int, len(aggs))
			for i := range aggs {
				o[i] = -1
				if aggs[i] != nil {
					o[i] = aggIDOf(aggs[i])
				}
			}
			return o
		}}
	}
	if h.kind == "dest" {
		ds := route.VerifRawDests(h.rt)
		return heldSnap{reflect.ValueOf(ds).Pointer(), len(ds), func() []int {
			o := make([]int, len(ds))
			h.mu.Lock()
			for i := range ds {
				id := -1
				if ds[i] != nil {
					if x, ok := h.destID[ds[i].Key]; ok {
						id = x
					}
				}
				o[i] = id
			}
			h.mu.Unlock()
			return o
		}}
	}
	return heldSnap{reflect.ValueOf(routes).Pointer(), len(routes), func() []int {
		o := make([]int, len(routes))
		for i := range routes {
			o[i] = -1
			if routes[i] != nil {
				o[i] = h.routeID(routes[i].Key())
			}
		}
		return o
	}}
}

// capture adds the slices that are published now to the held ones (a slice
// header that is still the one held last for its list is not added twice) and
// returns, per list, what EVERY held slice reads now, oldest first.
func (h *harness) capture() map[string][][]int {
	out := map[string][][]int{}
	for _, l := range listNames {
		s := h.raw(l)
		hs := h.held[l]
		if len(hs) == 0 || hs[len(hs)-1].ptr != s.ptr || hs[len(hs)-1].n != s.n {
			hs = append(hs, s)
			h.held[l] = hs
		}
		rd := make([][]int, len(hs))
		for i := range hs {
			rd[i] = hs[i].read()
		}
		out[l] = rd
	}
	return out
}

// view: the list as Table.Snapshot() shows it, [id, f] pairs
func (h *harness) view(list string) [][2]int {
	s := h.tbl.Snapshot()
	out := [][2]int{}
	switch list {
	case "rw":
		for _, r := range s.Rewriters {
			out = append(out, [2]int{rwID(r), 0})
		}
		return out
	case "bl":
		for _, b := range s.Blacklist {
			id, f := blIDF(b)
			out = append(out, [2]int{id, f})
		}
		return out
	case "agg":
		for _, a := range s.Aggregators {
			out = append(out, [2]int{aggIDOf(a), aggFOf(a)})
		}
		return out
	case "rt":
		for _, r := range s.Routes {
			if r.Key == h.rkey {
				out = append(out, [2]int{0, fOfPrefix(r.Matcher.Prefix)})
			}
		}
		return out
	}
	if h.kind == "dest" {
		for _, r := range s.Routes {
			if r.Key != h.rkey {
				continue
			}
			for _, d := range r.Dests {
				h.mu.Lock()
				id, ok := h.destID[d.Key]
				h.mu.Unlock()
				if !ok {
					id = -1
				}
				out = append(out, [2]int{id, fOfPrefix(d.Matcher.Prefix)})
			}
		}
		return out
	}
	for _, r := range s.Routes {
		out = append(out, [2]int{h.routeID(r.Key), fOfPrefix(r.Matcher.Prefix)})
	}
	return out
}

// kind tovl: does the published configuration list an aggregator that a returned DelAggregator has shut down?
func (h *harness) listsDeadAgg() bool {
	_, _, _, aggs := h.tbl.VerifRawConfig()
	for _, a := range aggs {
		if h.aggDown[a] {
			return true
		}
	}
	return false
}

// viewRaw: the lists of the table of kind fe / tovl ([id, f] pairs) read off the published configuration
func (h *harness) viewRaw(list string) [][2]int {
	routes, bl, rws, aggs := h.tbl.VerifRawConfig()
	out := [][2]int{}
	switch list {
	case "rw":
		for _, r := range rws {
			out = append(out, [2]int{rwID(r), 0})
		}
	case "bl":
		for _, b := range bl {
			id, f := blIDF(b)
			out = append(out, [2]int{id, f})
		}
	case "agg":
		for _, a := range aggs {
			out = append(out, [2]int{aggIDOf(a), aggFOf(a)})
		}
	default:
		for _, r := range routes {
			sn := r.Snapshot()
			out = append(out, [2]int{h.routeID(sn.Key), fOfPrefix(sn.Matcher.Prefix)})
		}
	}
	return out
}

// the destinations that are currently reachable from the table (kind dest / rroute)
func (h *harness) liveDests() map[*destination.Destination]bool {
	live := map[*destination.Destination]bool{}
	routes, _, _, _ := h.tbl.VerifRawConfig()
	for _, r := range routes {
		for _, d := range route.VerifRawDests(r) {
			live[d] = true
		}
	}
	return live
}

// a destination that was shut down by a delete has no reader on In any more; a
// dispatcher that still holds the previous configuration would block on it for
// ever.  The driver receives instead (and counts).
func (h *harness) drainRemoved(before map[*destination.Destination]bool) {
	after := h.liveDests()
	for d := range before {
		if after[d] {
			continue
		}
		h.mu.Lock()
		id, ok := h.destID[d.Key]
		if !ok || h.drains[id] != nil {
			h.mu.Unlock()
			continue
		}
		var n int64
		h.drains[id] = &n
		h.mu.Unlock()
		go func(d *destination.Destination, n *int64) {
			for {
				select {
				case buf := <-d.In:
					atomic.AddInt64(n, 1)
					if _, dd, _, ok := parseName(buf); ok {
						if s := h.ds(dd); s != nil {
							s.mu.Lock()
							s.dead++
							s.mu.Unlock()
						}
					}
				case <-h.stopDr:
					return
				}
			}
		}(d, &n)
	}
}

// doOp performs one admin operation on the real table and records it
func (h *harness) doOp(list string, o step) {
	h.lg.Emit(map[string]interface{}{"ev": "opbegin", "l": list, "op": o.Op, "e": o.E, "f": o.F, "i": o.I, "k": o.K})
	var liveBefore map[*destination.Destination]bool
	if h.kind == "dest" || h.kind == "rroute" {
		liveBefore = h.liveDests()
	}
	if h.evKind == "ovl" && list == "main" && o.Op == "delidx" {
		// a sequential delete: the relay of the destination it shuts down must run
		if ds := route.VerifRawDests(h.rt); o.I >= 0 && o.I < len(ds) {
			parkRelease(ds[o.I].Key)
		}
	}
	err, via := h.apply(list, o, h.useCmd)
	if h.evKind == "ovl" && list == "main" && o.Op == "delidx" && err == nil {
		h.okDels++
	}
	if liveBefore != nil {
		h.drainRemoved(liveBefore)
	}
	// white box: every slice published so far (this operation's included), read now
	snaps := h.capture()
	errs := ""
	if err != nil {
		errs = err.Error()
	}
	h.lg.Emit(map[string]interface{}{"ev": "opdone", "err": err != nil, "errs": errs, "via": via, "view": h.view(list),
		"snaps": snaps})
}

// apply calls the real code for one admin operation (useCmd: through a command line of the admin interface
// where there is one, or the Go API)
func (h *harness) apply(list string, o step, useCmd func() bool) (err error, via string) {
	via = "api"
	cmd := func(s string) {
		via = "cmd"
		err = imperatives.Apply(h.tbl, s)
	}
	fpre := ""
	if o.F != 0 {
		fpre = fmt.Sprintf("c%d.", o.F)
	}
	switch list {
	case "rt": // the filter of the one real route (kind dest / ovl)
		if o.Op == "updidx" {
			if useCmd() {
				cmd(fmt.Sprintf("modRoute %s prefix=%s", h.rkey, fpre))
			} else {
				err = h.tbl.UpdateRoute(h.rkey, map[string]string{"prefix": fpre})
			}
		}
	case "rw":
		switch o.Op {
		case "add":
			if useCmd() {
				cmd(fmt.Sprintf("addRewriter _ %d-_ 1", o.E))
			} else {
				var rw rewriter.RW
				rw, err = rewriter.New("_", fmt.Sprintf("%d-_", o.E), "", 1)
				if err == nil {
					h.tbl.AddRewriter(rw)
				}
			}
		case "delidx":
			err = h.tbl.DelRewriter(o.I)
		}
	case "bl":
		switch o.Op {
		case "add":
			if o.F != 0 { // an entry that drops every class-F metric
				re := fmt.Sprintf("^(c%d|bl%d)[.]", o.F, o.E)
				if useCmd() {
					cmd("addBlack regex " + re)
				} else {
					var m matcher.Matcher
					m, err = matcher.New("", "", "", "", re, "")
					if err == nil {
						h.tbl.AddBlacklist(&m)
					}
				}
			} else if useCmd() {
				cmd(fmt.Sprintf("addBlack prefix bl%d.", o.E))
			} else {
				var m matcher.Matcher
				m, err = matcher.New(fmt.Sprintf("bl%d.", o.E), "", "", "", "", "")
				if err == nil {
					h.tbl.AddBlacklist(&m)
				}
			}
		case "delidx":
			err = h.tbl.DelBlacklist(o.I)
		}
	case "agg":
		switch o.Op {
		case "add":
			if o.E == gateAggID {
				// the front-end gate: matches nothing, drop-raw + regex cache => AddMaybe consults the mock clock
				var m matcher.Matcher
				m, err = matcher.New("", "", "", "", fmt.Sprintf("agg%d[.]never$", o.E), "") // no literal prefix: PreMatch passes every metric
				if err == nil {
					var a *aggregator.Aggregator
					a, err = aggregator.NewMocked("sum", m, fmt.Sprintf("agg%d.out", o.E), true, 3600, 7200, true, h.tbl.In, 10,
						h.feGate, make(chan time.Time))
					if err == nil {
						h.tbl.AddAggregator(a)
					}
				}
			} else if o.F != 0 { // a drop-raw aggregator that consumes every class-F metric
				if useCmd() {
					cmd(fmt.Sprintf("addAgg sum ^c%d[.] agg%d.out 3600 7200 dropRaw=true", o.F, o.E))
				} else {
					var m matcher.Matcher
					m, err = matcher.New("", "", "", "", fmt.Sprintf("^c%d[.]", o.F), "")
					if err == nil {
						var a *aggregator.Aggregator
						a, err = aggregator.New("sum", m, fmt.Sprintf("agg%d.out", o.E), true, 3600, 7200, true, h.tbl.In)
						if err == nil {
							h.tbl.AddAggregator(a)
						}
					}
				}
			} else if useCmd() {
				cmd(fmt.Sprintf("addAgg sum ^agg%d[.]never agg%d.out 3600 7200", o.E, o.E))
			} else {
				var m matcher.Matcher
				m, err = matcher.New("", "", "", "", fmt.Sprintf("^agg%d[.]never", o.E), "")
				if err == nil {
					var a *aggregator.Aggregator
					a, err = aggregator.New("sum", m, fmt.Sprintf("agg%d.out", o.E), false, 3600, 7200, false, h.tbl.In)
					if err == nil {
						h.tbl.AddAggregator(a)
					}
				}
			}
		case "delidx":
			err = h.tbl.DelAggregator(o.I)
		}
	default:
		switch h.kind {
		case "route", "fe":
			switch o.Op {
			case "add":
				h.tbl.AddRoute(&capRoute{h: h, id: o.E, f: o.F, key: h.routeKey(o.E)})
			case "delkey":
				if useCmd() {
					cmd("delRoute " + h.routeKey(o.K))
				} else {
					err = h.tbl.DelRoute(h.routeKey(o.K))
				}
			}
		case "rroute":
			switch o.Op {
			case "add":
				key := h.routeKey(o.E)
				if useCmd() {
					addr := fmt.Sprintf("127.0.0.1:%d", 1+o.E)
					h.mu.Lock()
					h.destID[util.Key(key, addr)] = o.E // registered before the route is published
					h.mu.Unlock()
					opt := ""
					if fpre != "" {
						opt = " prefix=" + fpre
					}
					cmd(fmt.Sprintf("addRoute sendAllMatch %s%s  %s reconn=3600000 spool=false", key, opt, addr))
					if err == nil {
						for _, r := range h.routesRaw() {
							if r.Key() == key {
								for _, d := range route.VerifRawDests(r) {
									h.regDest(d, o.E)
								}
							}
						}
					}
				} else {
					m, _ := matcher.New(fpre, "", "", "", "", "")
					var r route.Route
					r, err = route.NewSendAllMatch(key, m, []*destination.Destination{h.newDest(key, o.E, 0)})
					if err == nil {
						h.tbl.AddRoute(r)
					}
				}
			case "delkey":
				if useCmd() {
					cmd("delRoute " + h.routeKey(o.K))
				} else {
					err = h.tbl.DelRoute(h.routeKey(o.K))
				}
			case "updkey":
				if useCmd() {
					cmd(fmt.Sprintf("modRoute %s prefix=%s", h.routeKey(o.K), fpre))
				} else {
					err = h.tbl.UpdateRoute(h.routeKey(o.K), map[string]string{"prefix": fpre})
				}
			}
		case "dest":
			switch o.Op {
			case "add":
				d := h.newDest(h.rkey, o.E, o.F)
				h.rt.(*route.SendAllMatch).Add(d)
			case "delidx":
				err = h.tbl.DelDestination(h.rkey, o.I)
			case "updidx":
				if useCmd() {
					cmd(fmt.Sprintf("modDest %s %d prefix=%s", h.rkey, o.I, fpre))
				} else {
					err = h.tbl.UpdateDestination(h.rkey, o.I, map[string]string{"prefix": fpre})
				}
			}
		}
	}
	return
}

// ---- overlapping admin operations (kind ovl)

// goroutines returns the stack dump of all goroutines, one block per goroutine
func goroutines() []string {
	buf := make([]byte, 1<<20)
	for {
		n := runtime.Stack(buf, true)
		if n < len(buf) {
			return strings.Split(string(buf[:n]), "\n\n")
		}
		buf = make([]byte, 2*len(buf))
	}
}

// gstate finds the goroutine that runs the marker function: its wait state ("chan send", "sync.Mutex.Lock", ...;
// "running" / "runnable" when it is not parked) and the functions on its stack, innermost first
func gstate(marker string) (state string, funcs []string, found bool) {
	for _, g := range goroutines() {
		if !strings.Contains(g, marker) {
			continue
		}
		lines := strings.Split(g, "\n")
		hdr := lines[0]
		if i, j := strings.IndexByte(hdr, '['), strings.IndexByte(hdr, ']'); i >= 0 && j > i {
			state = strings.TrimSpace(strings.Split(hdr[i+1:j], ",")[0])
		}
		for _, l := range lines[1:] {
			if l != "" && l[0] != '\t' {
				funcs = append(funcs, l)
			}
		}
		return state, funcs, true
	}
	return "", nil, false
}

func hasFunc(funcs []string, sub string) bool {
	for _, f := range funcs {
		if strings.Contains(f, sub) {
			return true
		}
	}
	return false
}

// inside Destination.Shutdown, waiting for the relay to take the shutdown signal
func parkedInShutdown(state string, funcs []string) bool {
	return state == "chan send" && hasFunc(funcs, "destination.(*Destination).Shutdown")
}

// waiting for a mutex that an admin function of the route / table package asked for
func parkedOnAdminLock(state string, funcs []string) bool {
	if state != "sync.Mutex.Lock" && state != "semacquire" {
		return false
	}
	for i, f := range funcs {
		if strings.HasPrefix(f, "sync.(*Mutex).Lock") && i+1 < len(funcs) {
			nx := funcs[i+1]
			return strings.Contains(nx, "carbon-relay-ng/route.") || strings.Contains(nx, "carbon-relay-ng/table.")
		}
	}
	return false
}

//go:noinline
func ovlFirstOp(f func() error, out chan<- error) { out <- f() }

//go:noinline
func ovlSecondOp(f func() error, out chan<- error) { out <- f() }

const gateDeadline = 60 * time.Second

func (h *harness) gateFail(what string) {
	h.parkReleaseAll()
	h.lg.Emit(map[string]interface{}{"ev": "gatefail", "what": what})
	h.t.Fatalf("kind ovl: gate not established: %s", what)
}

// overlap: o1 (a DelDestination of an existing destination) is parked inside Shutdown, where it holds the route
// lock; o2 is started; when o2 waits for the route lock (or has returned) the relays are released.
func (h *harness) overlap(o1, o2 step) {
	rec := func(a int, o step) {
		h.lg.Emit(map[string]interface{}{"ev": "acall", "a": a, "l": o.L, "op": o.Op, "e": o.E, "f": o.F, "i": o.I, "k": o.K})
	}
	table := h.evKind == "tovl"
	var gateAgg *aggregator.Aggregator
	var aggGate *parkState
	if table {
		_, _, _, aggs := h.tbl.VerifRawConfig()
		if o1.L != "agg" || o1.Op != "delidx" || o1.I != 0 || len(aggs) == 0 || aggIDOf(aggs[0]) != gateAggID {
			h.gateFail(fmt.Sprintf("ov1 must delete the gate aggregator: %+v", o1))
		}
		gateAgg = aggs[0]
		aggGate = &parkState{parked: make(chan struct{}), release: make(chan struct{})}
		h.mu.Lock()
		h.aggPark = aggGate
		h.mu.Unlock()
	} else {
		ds := route.VerifRawDests(h.rt)
		if o1.L != "main" || o1.Op != "delidx" || o1.I < 0 || o1.I >= len(ds) {
			h.gateFail(fmt.Sprintf("ov1 must delete an existing destination: %+v with %d destinations", o1, len(ds)))
		}
		victim := parkGet(ds[o1.I].Key)
		if victim == nil {
			h.gateFail("the destination to be deleted is not under control of the relay gate")
		}
		select {
		case <-victim.parked:
		case <-time.After(gateDeadline):
			h.gateFail("the relay of the destination to be deleted never came to the gate (hook point relay.loop gone?)")
		}
	}
	liveBefore := h.liveDests()
	use1, use2 := h.useCmd(), h.useCmd() // drawn here: the generator is not shared between the goroutines
	via := [3]string{}
	res1, res2 := make(chan error, 1), make(chan error, 1)

	rec(1, o1)
	go ovlFirstOp(func() error {
		err, v := h.apply(o1.L, o1, func() bool { return use1 })
		via[1] = v
		return err
	}, res1)
	deadline := time.Now().Add(gateDeadline)
	if table {
		// the aggregator's goroutine took the shutdown signal (only Shutdown gives it) and is held in its clock
		select {
		case <-aggGate.parked:
		case err := <-res1:
			res1 <- err
			h.gateFail("ov1 returned although the goroutine of the aggregator it shuts down is held")
		case <-time.After(gateDeadline):
			h.gateFail("the gate aggregator's goroutine never asked its clock on shutdown (gate point gone from Aggregator.run?)")
		}
	}
	for {
		st, fn, ok := gstate("tbl.ovlFirstOp")
		if ok && !table && parkedInShutdown(st, fn) {
			break
		}
		if ok && table && hasFunc(fn, "aggregator.(*Aggregator).Shutdown") {
			break // (it cannot leave it: the goroutine it waits for is held)
		}
		if len(res1) > 0 {
			h.gateFail("ov1 returned although the goroutine it waits for in Shutdown is parked")
		}
		if time.Now().After(deadline) {
			h.gateFail(fmt.Sprintf("ov1 never got into Shutdown (state %q, stack %v)", st, fn))
		}
		time.Sleep(100 * time.Microsecond)
	}
	// does it hold the route / table lock there?  (recorded, not judged)
	locked := true
	var lk interface{} = h.rt
	if table {
		lk = h.tbl
	}
	if mu, ok := lk.(interface {
		TryLock() bool
		Unlock()
	}); ok && mu.TryLock() {
		mu.Unlock()
		locked = false
	}

	rec(2, o2)
	go ovlSecondOp(func() error {
		err, v := h.apply(o2.L, o2, func() bool { return use2 })
		via[2] = v
		return err
	}, res2)
	g2 := ""
	for g2 == "" {
		st, fn, ok := gstate("tbl.ovlSecondOp")
		switch {
		case len(res2) > 0:
			g2 = "returned"
		case ok && parkedOnAdminLock(st, fn):
			g2 = "lock"
		case ok && parkedInShutdown(st, fn):
			g2 = "shutdown"
		case time.Now().After(deadline):
			h.gateFail(fmt.Sprintf("ov2 neither returned nor came to wait for the route lock (state %q, stack %v)", st, fn))
		default:
			time.Sleep(100 * time.Microsecond)
		}
	}

	// let ov1 finish; ov2 follows
	if table {
		close(aggGate.release)
	} else {
		h.parkReleaseAll()
	}
	for n := 0; n < 2; n++ {
		var a int
		var err error
		select {
		case err = <-res1:
			a = 1
		case err = <-res2:
			a = 2
		case <-time.After(gateDeadline):
			h.lg.Emit(map[string]interface{}{"ev": "gatefail", "what": "an overlapped operation did not return"})
			h.t.Fatalf("kind ovl: an overlapped operation did not return after the relays were released")
		}
		errs := ""
		if err != nil {
			errs = err.Error()
		}
		h.lg.Emit(map[string]interface{}{"ev": "aret", "a": a, "err": err != nil, "errs": errs, "via": via[a]})
		if o := [3]step{{}, o1, o2}[a]; !table && o.L == "main" && o.Op == "delidx" && err == nil {
			h.okDels++
		}
		if table && a == 1 && err == nil {
			h.aggDown[gateAgg] = true
		}
	}
	h.drainRemoved(liveBefore)
	snaps := h.capture()
	views := map[string]interface{}{}
	src := "snapshot"
	if table && h.listsDeadAgg() {
		// Table.Snapshot() asks every listed aggregator's goroutine for a copy and would wait for ever for one that has
		// shut down: the lists are read off the published configuration itself (what a Dispatch loads)
		src = "config"
		for _, l := range listNames {
			views[l] = h.viewRaw(l)
		}
	} else {
		for _, l := range listNames {
			views[l] = h.view(l)
		}
	}
	if !table {
		views["rt"] = h.view("rt")
	}
	h.lg.Emit(map[string]interface{}{"ev": "aview", "views": views, "viewsrc": src, "snaps": snaps, "g1": "shutdown", "locked": locked, "g2": g2})
}

func (h *harness) routesRaw() []route.Route {
	r, _, _, _ := h.tbl.VerifRawConfig()
	return r
}

// start launches Dispatch of a class-c metric as dispatcher d
func (h *harness) start(d, c int, gated bool) *dispState {
	s := &dispState{gated: gated, reached: make(chan int), release: make(chan struct{}), fin: make(chan struct{})}
	h.mu.Lock()
	h.disp[d] = s
	if h.kind == "fe" && gated {
		h.feArmed = s
	}
	h.mu.Unlock()
	h.lg.Emit(map[string]interface{}{"ev": "start", "d": d, "c": c})
	line := lineFor(c, d, h.tag)
	go func() {
		h.tbl.Dispatch(line)
		close(s.fin)
	}()
	return s
}

// wait until dispatcher d is held at a gate or has returned
func (h *harness) settle(d int) {
	s := h.ds(d)
	if s == nil || s.done {
		return
	}
	select {
	case <-s.reached:
		s.held = true
	case <-s.fin:
		s.done = true
		h.mu.Lock()
		if h.feArmed == s { // it never came to the front-end gate (dropped by the blacklist)
			h.feArmed = nil
		}
		h.mu.Unlock()
		h.end(d)
	}
}

func (h *harness) stepD(d int) {
	s := h.ds(d)
	if s == nil || s.done || !s.held {
		return
	}
	s.held = false
	s.release <- struct{}{}
	h.settle(d)
}

func (h *harness) end(d int) {
	s := h.ds(d)
	s.mu.Lock()
	vis := append([]int{}, s.vis...)
	rw := append([]int{}, s.rw...)
	rwobs, dead, fate := s.rwobs, s.dead, s.fate
	s.mu.Unlock()
	if fate == "" {
		fate = "routed"
	}
	h.lg.Emit(map[string]interface{}{"ev": "end", "d": d, "vis": vis, "rw": rw, "rwobs": rwobs, "dead": dead, "fate": fate})
	h.mu.Lock()
	delete(h.disp, d)
	h.mu.Unlock()
}

// close: shut the table down, cross-check the log-hook observation with the
// destinations' own counters (independent channel), stop the drains
func (h *harness) close() {
	if h.evKind == "ovl" {
		h.parkReleaseAll()
		// Table.Shutdown shuts every LISTED destination down and would wait for ever for one whose relay has
		// returned already (a deleted destination that is listed again).  The relays that took the shutdown
		// signal are known from the hook: one per successful delete.
		gone := func() map[string]bool {
			parkMu.Lock()
			defer parkMu.Unlock()
			m := map[string]bool{}
			for k := range relayGone {
				m[k] = true
			}
			return m
		}
		g := gone()
		for dl := time.Now().Add(10 * time.Second); len(g) < h.okDels && time.Now().Before(dl); g = gone() {
			time.Sleep(100 * time.Microsecond)
		}
		listedDead := false
		for d := range h.liveDests() {
			if g[d.Key] {
				listedDead = true
			}
		}
		atomic.StoreInt32(&relayWatch, 0)
		if listedDead {
			h.lg.Emit(map[string]interface{}{"ev": "note", "what": "a destination whose relay has shut down is listed by the route; destinations shut down one by one"})
			h.mu.Lock()
			var ds []*destination.Destination
			for _, d := range h.dests {
				ds = append(ds, d)
			}
			h.mu.Unlock()
			for _, d := range ds {
				if !g[d.Key] && d.In != nil {
					d.Shutdown()
				}
			}
			close(h.stopDr)
			close(h.tbl.In)
			cur.Store((*harness)(nil))
			return
		}
	}
	if h.kind == "dest" || h.kind == "rroute" {
		deadline := time.Now().Add(20 * time.Second)
		h.mu.Lock()
		ids := []int{}
		for id := range h.dests {
			ids = append(ids, id)
		}
		h.mu.Unlock()
		for _, id := range ids {
			h.mu.Lock()
			d := h.dests[id]
			want := int64(h.sends[id])
			dr := h.drains[id]
			h.mu.Unlock()
			cnt := stats.Counter("dest=" + d.Key + ".unit=Metric.action=drop.reason=conn_down_no_spool")
			var got int64
			for {
				got = cnt.Count()
				if dr != nil {
					got += atomic.LoadInt64(dr)
				}
				if got == want || time.Now().After(deadline) {
					break
				}
				time.Sleep(time.Millisecond)
			}
			if got != want {
				h.lg.Emit(map[string]interface{}{"ev": "obs_mismatch", "id": id, "hook": want, "counter": got})
			}
		}
	}
	// the fate read off the trace lines against the table's own blacklist counter (no dispatch is running any more)
	if got, want := blCounter().Count()-h.blBase, atomic.LoadInt64(&h.blSeen); got != want {
		h.lg.Emit(map[string]interface{}{"ev": "obs_mismatch", "id": -1, "hook": want, "counter": got})
	}
	h.tbl.Shutdown()
	_, _, _, aggs := h.tbl.VerifRawConfig()
	for _, a := range aggs {
		if !h.aggDown[a] { // (a deleted, shut-down aggregator that is listed again: Shutdown would close its channel twice)
			a.Shutdown()
		}
	}
	close(h.stopDr)
	close(h.tbl.In)
	cur.Store((*harness)(nil))
}

// ------------------------------------------------------------------ replay

func runScenario(t *testing.T, lg *hx.Log, sc scenario, rng *rand.Rand) {
	h := newHarness(t, lg, sc.Kind, rng)
	lg.Emit(map[string]interface{}{"ev": "hist", "h": sc.H, "kind": sc.Kind})
	list := h.listOf()
	if h.kind == "fe" {
		// the whole table: the front end first (the gate aggregator leads the aggregator list), then the routes
		h.rgate = sc.RGate
		h.doOp("agg", step{Ev: "op", L: "agg", Op: "add", E: gateAggID})
		for i := 1; i <= sc.FeAgg; i++ {
			h.doOp("agg", step{Ev: "op", L: "agg", Op: "add", E: 300 + i})
		}
		for i := 1; i <= sc.FeBl; i++ {
			h.doOp("bl", step{Ev: "op", L: "bl", Op: "add", E: 100 + i})
		}
		for i := 1; i <= sc.FeRw; i++ {
			h.doOp("rw", step{Ev: "op", L: "rw", Op: "add", E: 200 + i})
		}
	}
	for i := 1; i <= sc.Init; i++ {
		h.doOp(list, step{Ev: "op", Op: "add", E: i})
	}
	var ov1 step
	for _, st := range sc.Steps {
		switch st.Ev {
		case "ov1":
			ov1 = st
		case "ov2":
			h.overlap(ov1, st)
		case "op":
			if (h.kind == "fe" || sc.Kind == "ovl") && st.L != "" {
				h.doOp(st.L, st)
				break
			}
			h.doOp(list, st)
		case "start":
			h.start(st.D, st.C, true)
			h.settle(st.D)
		case "step":
			h.stepD(st.D)
		case "disp":
			h.start(st.D, st.C, false)
			h.settle(st.D)
		}
	}
	// let every dispatcher that is still held run to its end
	for {
		h.mu.Lock()
		var ds []int
		for d := range h.disp {
			ds = append(ds, d)
		}
		h.mu.Unlock()
		if len(ds) == 0 {
			break
		}
		for _, d := range ds {
			h.stepD(d)
		}
	}
	h.close()
}

func TestReplay(t *testing.T) {
	out := hx.Out(t)
	_ = out
	installHook()
	runTag = fmt.Sprintf("s%dp%d", hx.Seed(), os.Getpid())
	lines, err := hx.ReadLines(os.Getenv("VERIF_TBL_SCN"))
	if err != nil {
		t.Fatal(err)
	}
	lg := hx.NewLog(os.Getenv("VERIF_TBL_TRACE"))
	defer lg.Close()
	prog := hx.NewLog(os.Getenv("VERIF_TBL_TRACE") + ".progress")
	prog.Unbuffered = true
	defer prog.Close()
	rng := rand.New(rand.NewSource(hx.Seed()))
	for _, l := range lines {
		var sc scenario
		if err := json.Unmarshal(l, &sc); err != nil {
			t.Fatal(err)
		}
		prog.Emit(map[string]interface{}{"h": sc.H})
		runScenario(t, lg, sc, rng)
	}
	lg.Emit(map[string]interface{}{"ev": "fin", "n": len(lines)})
}

// ------------------------------------------------------- concurrent traces

type loadSpec struct {
	H       int    `json:"h"`
	Kind    string `json:"kind"` // route | dest
	Disp    int    `json:"disp"`
	PerDisp int    `json:"perdisp"`
	MaxOps  int    `json:"maxops"`
	Seed    int64  `json:"seed"`
}

// random admin histories (commands and Go API, valid and invalid arguments) on a
// table under concurrent dispatch load
func runLoad(t *testing.T, lg *hx.Log, ls loadSpec) {
	rng := rand.New(rand.NewSource(ls.Seed))
	h := newHarness(t, lg, ls.Kind, rng)
	lg.Emit(map[string]interface{}{"ev": "hist", "h": ls.H, "kind": ls.Kind})
	var wg sync.WaitGroup
	var running int64 = int64(ls.Disp)
	classes := 2
	for g := 0; g < ls.Disp; g++ {
		wg.Add(1)
		go func(g int) {
			defer wg.Done()
			defer atomic.AddInt64(&running, -1)
			for n := 0; n < ls.PerDisp; n++ {
				d := (g+1)*1000000 + n
				c := 1 + (n+g)%classes
				s := h.start(d, c, false)
				<-s.fin
				h.end(d)
			}
		}(g)
	}
	// the admin goroutine keeps a private mirror of list lengths only to choose
	// arguments around the interesting boundaries (it is not an oracle)
	nextID := 1
	lens := map[string]int{}
	ids := map[string][]int{}
	lists := []string{"main", "rw", "bl", "agg"}
	if ls.Kind == "dest" {
		lists = []string{"main", "main", "rw"}
	}
	for n := 0; n < ls.MaxOps && atomic.LoadInt64(&running) > 0; n++ {
		list := lists[rng.Intn(len(lists))]
		var o step
		o.Ev = "op"
		x := rng.Intn(10)
		ln := lens[list]
		switch {
		case x < 4 && ln < 6 || ln == 0 && x < 8:
			o.Op, o.E = "add", nextID
			if list == "main" && rng.Intn(3) == 0 {
				o.F = 1 + rng.Intn(classes)
			}
			nextID++
		case x < 8:
			if list == "main" && ls.Kind == "route" {
				o.Op = "delkey"
				if len(ids[list]) > 0 && rng.Intn(5) > 0 {
					o.K = ids[list][rng.Intn(len(ids[list]))]
				} else {
					o.K = 900 + rng.Intn(3) // unknown key
				}
			} else {
				o.Op = "delidx"
				o.I = rng.Intn(ln + 2) // includes len and len+1: refused
			}
		default:
			if list == "main" && ls.Kind == "dest" {
				o.Op, o.I, o.F = "updidx", rng.Intn(ln+2), 1+rng.Intn(classes)
			} else {
				o.Op, o.E = "add", nextID
				nextID++
			}
		}
		h.doOp(list, o)
		// refresh the mirror from the table itself
		v := h.view(list)
		lens[list] = len(v)
		ids[list] = ids[list][:0]
		for _, p := range v {
			ids[list] = append(ids[list], p[0])
		}
	}
	wg.Wait()
	h.close()
}

func TestLoad(t *testing.T) {
	hx.Out(t)
	installHook()
	runTag = fmt.Sprintf("L%dp%d", hx.Seed(), os.Getpid())
	lines, err := hx.ReadLines(os.Getenv("VERIF_TBL_SCN"))
	if err != nil {
		t.Fatal(err)
	}
	lg := hx.NewLog(os.Getenv("VERIF_TBL_TRACE"))
	defer lg.Close()
	for _, l := range lines {
		var ls loadSpec
		if err := json.Unmarshal(l, &ls); err != nil {
			t.Fatal(err)
		}
		runLoad(t, lg, ls)
	}
	lg.Emit(map[string]interface{}{"ev": "fin", "n": len(lines)})
}
