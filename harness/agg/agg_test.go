// Package agg drives the real aggregator.Aggregator for C10.  It only
// executes and records: which lines appeared on `out` after every step and how
// the process-global TooOld counter moved.  What should have appeared is
// computed by TLC from spec/Aggregator.tla and compared by checks/c10.py.
package agg

import (
	"encoding/json"
	"fmt"
	"math/rand"
	"os"
	"strconv"
	"sync/atomic"
	"testing"
	"time"

	"verifharness/hx"

	"github.com/grafana/carbon-relay-ng/aggregator"
	"github.com/grafana/carbon-relay-ng/destination"
	"github.com/grafana/carbon-relay-ng/matcher"
	"github.com/grafana/carbon-relay-ng/route"
	"github.com/grafana/carbon-relay-ng/stats"
	"github.com/grafana/carbon-relay-ng/table"
	"github.com/grafana/carbon-relay-ng/validate"
	m20 "github.com/metrics20/go-metrics20/carbon20"
)

type step struct {
	Op   string  `json:"op"`
	Now  int64   `json:"now"`  // adv
	Name string  `json:"name"` // proc: concrete metric name
	Val  float64 `json:"val"`
	Ts   int64   `json:"ts"`
	T    int64   `json:"t"` // tick
}

// one aggregator configuration a behaviour is replayed on
type variant struct {
	Fun     string `json:"fun"`
	Prefix  string `json:"prefix"`
	Sub     string `json:"sub"`
	Cache   bool   `json:"cache"`
	DropRaw bool   `json:"dropraw"`
}

type behaviour struct {
	B        int       `json:"b"`
	Interval uint      `json:"interval"`
	Wait     uint      `json:"wait"`
	Regex    string    `json:"regex"`
	OutFmt   string    `json:"outfmt"`
	Base     int64     `json:"base"`
	Steps    []step    `json:"steps"`
	Variants []variant `json:"variants"`
}

type run struct {
	behaviour
	variant
}

type runOut struct {
	Ev    string     `json:"ev"`
	B     int        `json:"b"`
	Fun   string     `json:"fun"`
	Too   []int64    `json:"too"`   // TooOld counter delta per step
	Lines [][]string `json:"lines"` // lines that were on `out` after each step
	Final []string   `json:"final"` // lines flushed by Shutdown (not judged)
	Bad   string     `json:"bad,omitempty"`
}

func drain(out chan []byte) []string {
	l := []string{}
	for {
		select {
		case b := <-out:
			l = append(l, string(b))
		default:
			return l
		}
	}
}

// within runs fn and reports whether it returned before the (very generous) deadline
func within(d time.Duration, fn func()) bool {
	done := make(chan struct{})
	go func() { fn(); close(done) }()
	select {
	case <-done:
		return true
	case <-time.After(d):
		return false
	}
}

const deadline = 120 * time.Second

func TestReplay(t *testing.T) {
	hx.Out(t)
	in := os.Getenv("VERIF_AGG_RUNS")
	outf := os.Getenv("VERIF_AGG_OUT")
	lines, err := hx.ReadLines(in)
	if err != nil {
		t.Fatal(err)
	}
	log := hx.NewLog(outf)
	defer log.Close()
	prog := hx.NewLog(outf + ".progress")
	prog.Unbuffered = true
	defer prog.Close()

	aggregator.InitMetrics()
	tooOld := stats.Counter("module=aggregator.unit=Metric.what=TooOld")

	var runs []run
	for _, raw := range lines {
		var b behaviour
		if err := json.Unmarshal(raw, &b); err != nil {
			t.Fatal(err)
		}
		for _, v := range b.Variants {
			runs = append(runs, run{b, v})
		}
	}
	lines = nil
	for _, r := range runs {
		prog.Emit(map[string]interface{}{"b": r.B, "fun": r.Fun})
		m, err := matcher.New(r.Prefix, "", r.Sub, "", r.Regex, "")
		if err != nil {
			t.Fatal(err)
		}
		var now int64 = r.Base
		clock := func() time.Time { return time.Unix(atomic.LoadInt64(&now), 0) }
		tick := make(chan time.Time) // unbuffered: the hand-off is the receipt
		out := make(chan []byte, 1<<14)
		a, err := aggregator.NewMocked(r.Fun, m, r.OutFmt, r.Cache, r.Interval, r.Wait, r.DropRaw, out, 0, clock, tick)
		if err != nil {
			t.Fatal(err)
		}
		ro := runOut{Ev: "run", B: r.B, Fun: r.Fun}
		ok := within(deadline, func() {
			for _, s := range r.Steps {
				before := tooOld.Count()
				switch s.Op {
				case "adv":
					atomic.StoreInt64(&now, r.Base+s.Now)
				case "proc":
					ts := r.Base + s.Ts
					buf := [][]byte{[]byte(s.Name), []byte(strconv.FormatFloat(s.Val, 'f', -1, 64)), []byte(strconv.FormatInt(ts, 10))}
					a.AddMaybe(buf, s.Val, uint32(ts))
				case "tick":
					tick <- time.Unix(r.Base+s.T, 0)
				}
				// barrier: the run loop answers a snapshot request only after it has completely
				// processed the previous message (the clock is read inside AddOrCreate)
				a.Snapshot()
				ro.Too = append(ro.Too, tooOld.Count()-before)
				ro.Lines = append(ro.Lines, drain(out))
			}
			a.Shutdown()
			ro.Final = drain(out)
		})
		if !ok {
			ro.Bad = "hang"
			log.Emit(ro)
			log.Close()
			t.Fatalf("aggregator did not answer within %v (behaviour %d, %s)", deadline, r.B, r.Fun)
		}
		log.Emit(ro)
	}
}

// ---------------------------------------------------------------------------
// T variant: the aggregator behind a real table.Table, buffered inbox, ticks
// placed at random.  Events: hist, enq, adv, tick, sync, out, end.

type capRoute struct {
	log    *hx.Log
	prefix []byte
	n      int64
	closed int32
}

func (r *capRoute) Match(s []byte) bool {
	return len(s) >= len(r.prefix) && string(s[:len(r.prefix)]) == string(r.prefix)
}
func (r *capRoute) Dispatch(buf []byte) {
	if atomic.LoadInt32(&r.closed) != 0 {
		return
	}
	r.log.Emit(map[string]interface{}{"ev": "out", "line": string(buf)})
	atomic.AddInt64(&r.n, 1)
}
func (r *capRoute) Snapshot() route.Snapshot {
	return route.Snapshot{Matcher: matcher.Matcher{Prefix: string(r.prefix)}, Type: "capture", Key: "cap"}
}
func (r *capRoute) Key() string     { return "cap" }
func (r *capRoute) Flush() error    { return nil }
func (r *capRoute) Shutdown() error { return nil }
func (r *capRoute) GetDestination(index int) (*destination.Destination, error) {
	return nil, fmt.Errorf("capture route")
}
func (r *capRoute) DelDestination(index int) error { return fmt.Errorf("capture route") }
func (r *capRoute) UpdateDestination(index int, opts map[string]string) error {
	return fmt.Errorf("capture route")
}
func (r *capRoute) Update(opts map[string]string) error { return fmt.Errorf("capture route") }

type traceCfg struct {
	H        int               `json:"h"`
	Fun      string            `json:"fun"`
	Fmt      string            `json:"fmt"`
	Interval uint              `json:"interval"`
	Wait     uint              `json:"wait"`
	Regex    string            `json:"regex"`
	OutFmt   string            `json:"outfmt"`
	Names    map[string]string `json:"names"` // abstract -> concrete, all matching the regex
	Base     int64             `json:"base"`
	Steps    int               `json:"steps"`
	MaxEnq   int               `json:"maxenq"`
}

// poll waits (generously) for cond; false = deadline missed
func poll(cond func() bool) bool {
	end := time.Now().Add(deadline)
	for i := 0; ; i++ {
		if cond() {
			return true
		}
		if time.Now().After(end) {
			return false
		}
		if i < 200 {
			time.Sleep(20 * time.Microsecond)
		} else {
			time.Sleep(time.Millisecond)
		}
	}
}

func TestTrace(t *testing.T) {
	hx.Out(t)
	lines, err := hx.ReadLines(os.Getenv("VERIF_AGG_TCFG"))
	if err != nil {
		t.Fatal(err)
	}
	log := hx.NewLog(os.Getenv("VERIF_AGG_TRACE"))
	defer log.Close()
	aggregator.InitMetrics()
	tooOld := stats.Counter("module=aggregator.unit=Metric.what=TooOld")
	rng := rand.New(rand.NewSource(hx.Seed()*7919 + 17))

	for _, raw := range lines {
		var c traceCfg
		if err := json.Unmarshal(raw, &c); err != nil {
			t.Fatal(err)
		}
		tcfg, err := table.NewTableConfig("/dev/shm/verif-c10-nospool", "24h",
			validate.LevelLegacy{Level: m20.NoneLegacy}, validate.LevelM20{Level: m20.NoneM20}, false)
		if err != nil {
			t.Fatal(err)
		}
		tbl := table.New(tcfg)
		cap := &capRoute{log: log, prefix: []byte("agg.")}
		tbl.AddRoute(cap)
		m, err := matcher.New("", "", "", "", c.Regex, "")
		if err != nil {
			t.Fatal(err)
		}
		var now int64 = c.Base
		clock := func() time.Time { return time.Unix(atomic.LoadInt64(&now), 0) }
		tick := make(chan time.Time)
		inBuf := []int{1, 3, 16}[rng.Intn(3)]
		cache := rng.Intn(2) == 0
		drop := rng.Intn(2) == 0
		a, err := aggregator.NewMocked(c.Fun, m, c.OutFmt, cache, c.Interval, c.Wait, drop, tbl.In, inBuf, clock, tick)
		if err != nil {
			t.Fatal(err)
		}
		tbl.AddAggregator(a)
		numIn := stats.Counter("unit=Metric.direction=in.aggregator=" + a.Key)
		numOut := stats.Counter("unit=Metric.direction=out.aggregator=" + a.Key)
		in0, out0, too0 := numIn.Count(), numOut.Count(), tooOld.Count()

		log.Emit(map[string]interface{}{"ev": "hist", "h": c.H, "interval": c.Interval, "wait": c.Wait, "fmt": c.Fmt,
			"fun": c.Fun, "inbuf": inBuf, "cache": cache, "dropraw": drop})
		names := []string{}
		for k := range c.Names {
			names = append(names, k)
		}
		sortStrings(names)
		var cur, lastTick int64
		enq := int64(0)
		iv, w := int64(c.Interval), int64(c.Wait)
		// barrier: every enqueued message (all names match) has been counted in, and the loop has
		// finished the iteration that counted the last one
		barrier := func() bool {
			if !poll(func() bool { return numIn.Count()-in0 == enq }) {
				return false
			}
			a.Snapshot()
			return true
		}
		stuck := false
		for i := 0; i < c.Steps && !stuck; i++ {
			x := rng.Intn(100)
			switch {
			case x < 50 && enq < int64(c.MaxEnq):
				lo := cur - w - iv
				if lo < 0 {
					lo = 0
				}
				hi := cur + iv + 1
				ts := lo + rng.Int63n(hi-lo+1)
				if rng.Intn(4) == 0 { // bucket start exactly on the closed / open boundary (now-wait, now-wait+1)
					ts = cur - w + int64(rng.Intn(2))
					ts += (iv - ts%iv) % iv * int64(rng.Intn(2))
					if ts < 0 {
						ts = 0
					}
				}
				n := names[rng.Intn(len(names))]
				val := int64(1) << uint(enq%7)
				log.Emit(map[string]interface{}{"ev": "enq", "name": n, "val": val, "ts": ts})
				enq++
				tbl.Dispatch([]byte(fmt.Sprintf("%s %d %d", c.Names[n], val, c.Base+ts)))
			case x < 68:
				cur += 1 + int64(rng.Intn(3))
				if rng.Intn(3) == 0 {
					cur += iv + w
				}
				log.Emit(map[string]interface{}{"ev": "adv", "now": cur})
				atomic.StoreInt64(&now, c.Base+cur)
			case x < 90:
				tv := cur - int64(rng.Intn(3))*int64(rng.Intn(2))
				if tv < lastTick {
					tv = lastTick
				}
				lastTick = tv
				log.Emit(map[string]interface{}{"ev": "tick", "t": tv})
				if !within(deadline, func() { tick <- time.Unix(c.Base+tv, 0) }) {
					stuck = true
				}
			default:
				if !barrier() {
					stuck = true
					break
				}
				log.Emit(map[string]interface{}{"ev": "sync", "too": tooOld.Count() - too0})
			}
		}
		if !stuck && barrier() && poll(func() bool { return atomic.LoadInt64(&cap.n) == numOut.Count()-out0 }) {
			log.Emit(map[string]interface{}{"ev": "end", "too": tooOld.Count() - too0, "enq": enq, "outs": atomic.LoadInt64(&cap.n)})
		} else {
			log.Emit(map[string]interface{}{"ev": "stuck", "enq": enq, "in": numIn.Count() - in0})
			log.Close()
			t.Fatalf("aggregator stuck in trace %d", c.H)
		}
		// the aggregator's final flush on shutdown goes to the table as well; it is not part of the trace
		atomic.StoreInt32(&cap.closed, 1)
		a.Shutdown()
	}
}

func sortStrings(s []string) {
	for i := 1; i < len(s); i++ {
		for j := i; j > 0 && s[j] < s[j-1]; j-- {
			s[j], s[j-1] = s[j-1], s[j]
		}
	}
}
