// Package ring drives real route.ConsistentHashing routes for C15.  It only records: which
// destination's counter accounts for every dispatched line, the ring the route dispatches with
// (hook VerifRing) and the route's destination list after every membership change.  The verdict
// is taken by TLC (spec/HashRingTrace.tla) with ring positions computed by tools/carbon_ring.py.
package ring

import (
	"encoding/json"
	"fmt"
	"io/ioutil"
	stdlog "log"
	"os"
	"path/filepath"
	"sync/atomic"
	"testing"
	"time"

	"verifharness/hx"

	"github.com/Dieterbe/go-metrics"
	dest "github.com/grafana/carbon-relay-ng/destination"
	"github.com/grafana/carbon-relay-ng/matcher"
	"github.com/grafana/carbon-relay-ng/route"
	"github.com/grafana/carbon-relay-ng/stats"
	"github.com/sirupsen/logrus"
)

type node struct {
	ID   int    `json:"id"`
	Addr string `json:"addr"` // as given to destination.New: host[:port[:instance]]
	Host string `json:"host"`
	Inst string `json:"inst"` // "" = no instance
}

type op struct {
	Op   string `json:"op"` // add | del
	Node int    `json:"node"`
	Slot int    `json:"slot"`
}

type history struct {
	H     int      `json:"h"`
	Route string   `json:"route"`
	Nodes []node   `json:"nodes"`
	Init  []int    `json:"init"`
	Ops   []op     `json:"ops"`
	Keys  []string `json:"keys"`
}

var progressTick int64

func newDest(routeName string, n node) *dest.Destination {
	m, err := matcher.New("", "", "", "", "", "")
	if err != nil {
		panic(err)
	}
	// refusing / unusable address, no spool: every line is counted as conn_down_no_spool by
	// the destination that received it.  One connection attempt at start, the next in an hour.
	d, err := dest.New(routeName, m, n.Addr, "", false, false, time.Second, time.Hour, 100, 4096, 100, 1000, 10,
		time.Second, time.Millisecond, time.Millisecond)
	if err != nil {
		panic(err)
	}
	return d
}

func counterOf(d *dest.Destination) metrics.Counter {
	return stats.Counter("dest=" + d.Key + ".unit=Metric.action=drop.reason=conn_down_no_spool")
}

type runner struct {
	h     *history
	log   *hx.Log
	r     route.Route
	ch    *route.ConsistentHashing
	byKey map[string]int // host|inst -> node id
}

func (x *runner) destList() []*dest.Destination {
	_, n := x.ch.VerifRing()
	out := make([]*dest.Destination, 0, n)
	for i := 0; i < n; i++ {
		d, err := x.r.GetDestination(i)
		if err != nil {
			break
		}
		out = append(out, d)
	}
	return out
}

func (x *runner) nodeID(host, inst string) int {
	return x.byKey[host+"|"+inst]
}

func hostOf(addr string) string {
	for i := 0; i < len(addr); i++ {
		if addr[i] == ':' {
			return addr[:i]
		}
	}
	return addr
}

func (x *runner) emitRing() {
	ring, nd := x.ch.VerifRing()
	ents := make([][3]int, len(ring))
	for i, e := range ring {
		ents[i] = [3]int{int(e.Position), e.DestinationIndex, x.nodeID(e.Hostname, e.Instance)}
	}
	dl := []int{}
	for _, d := range x.destList() {
		dl = append(dl, x.nodeID(hostOf(d.Addr), d.Instance))
	}
	x.log.Emit(map[string]interface{}{"ev": "ring", "h": x.h.H, "ndest": nd, "dl": dl, "ring": ents})
}

// dispatch every key once, one at a time; Flush() is the barrier after which the destination
// that received the line has counted it.
func (x *runner) dispatchAll() {
	ds := x.destList()
	cs := make([]metrics.Counter, len(ds))
	c0 := make([]int64, len(ds))
	for i, d := range ds {
		cs[i] = counterOf(d)
		c0[i] = cs[i].Count()
	}
	got := make([][][2]int, len(x.h.Keys))
	for k, name := range x.h.Keys {
		atomic.AddInt64(&progressTick, 1)
		x.r.Dispatch([]byte(name + " 1 1500000000"))
		x.r.Flush()
		g := [][2]int{}
		for i := range cs {
			c := cs[i].Count()
			if c != c0[i] {
				g = append(g, [2]int{i, int(c - c0[i])})
				c0[i] = c
			}
		}
		got[k] = g
	}
	online := []bool{}
	for _, d := range x.r.Snapshot().Dests {
		online = append(online, d.Online)
	}
	x.log.Emit(map[string]interface{}{"ev": "disp", "h": x.h.H, "got": got, "online": online})
}

func runHistory(h *history, log *hx.Log, progress *hx.Log) {
	x := &runner{h: h, log: log, byKey: map[string]int{}}
	byID := map[int]node{}
	for _, n := range h.Nodes {
		x.byKey[n.Host+"|"+n.Inst] = n.ID
		byID[n.ID] = n
	}
	progress.Emit(map[string]interface{}{"h": h.H, "step": "init"})
	var ds []*dest.Destination
	for _, id := range h.Init {
		ds = append(ds, newDest(h.Route, byID[id]))
	}
	m, _ := matcher.New("", "", "", "", "", "")
	r, err := route.NewConsistentHashing(h.Route, m, ds)
	if err != nil {
		panic(err)
	}
	x.r = r
	x.ch = r.(*route.ConsistentHashing)
	log.Emit(map[string]interface{}{"ev": "init", "h": h.H, "members": h.Init})
	x.emitRing()
	x.dispatchAll()
	for i, o := range h.Ops {
		progress.Emit(map[string]interface{}{"h": h.H, "step": i, "op": o})
		switch o.Op {
		case "add":
			x.ch.Add(newDest(h.Route, byID[o.Node]))
			log.Emit(map[string]interface{}{"ev": "add", "h": h.H, "node": o.Node})
		case "del":
			err := x.r.DelDestination(o.Slot)
			if err != nil {
				log.Emit(map[string]interface{}{"ev": "delerr", "h": h.H, "slot": o.Slot, "err": err.Error()})
				continue
			}
			log.Emit(map[string]interface{}{"ev": "del", "h": h.H, "slot": o.Slot})
		}
		x.emitRing()
		x.dispatchAll()
	}
	progress.Emit(map[string]interface{}{"h": h.H, "step": "shutdown"})
	x.r.Shutdown()
	log.Emit(map[string]interface{}{"ev": "end", "h": h.H})
}

func TestRing(t *testing.T) {
	out := hx.Out(t)
	stdlog.SetOutput(ioutil.Discard)
	logrus.SetOutput(ioutil.Discard)
	logrus.SetLevel(logrus.PanicLevel)
	lines, err := hx.ReadLines(os.Getenv("VERIF_RING_HIST"))
	if err != nil {
		t.Fatal(err)
	}
	log := hx.NewLog(os.Getenv("VERIF_RING_TRACE"))
	defer log.Close()
	progress := hx.NewLog(filepath.Join(out, "ring_progress.ndjson"))
	progress.Unbuffered = true
	defer progress.Close()

	// watchdog: a Dispatch/Flush/DelDestination that never returns is recorded, not waited for
	done := make(chan struct{})
	go func() {
		last, since := int64(-1), time.Now()
		for {
			select {
			case <-done:
				return
			case <-time.After(2 * time.Second):
			}
			cur := atomic.LoadInt64(&progressTick)
			if cur != last {
				last, since = cur, time.Now()
				continue
			}
			if time.Since(since) > 60*time.Second {
				log.Emit(map[string]interface{}{"ev": "stuck", "tick": cur})
				log.Close()
				progress.Emit(map[string]interface{}{"step": "stuck"})
				fmt.Fprintln(os.Stderr, "VERIF-STUCK: no progress for 60s")
				os.Exit(3)
			}
		}
	}()
	for _, raw := range lines {
		var h history
		if err := json.Unmarshal(raw, &h); err != nil {
			t.Fatal(err)
		}
		atomic.AddInt64(&progressTick, 1)
		runHistory(&h, log, progress)
	}
	close(done)
}
