// Package ring drives real route.ConsistentHashing routes for C15.  It only records: which
// destination accounts for every dispatched line (its drop counters while it has no connection,
// the lines received by the driver's loopback listener it is connected to otherwise), the ring the
// route dispatches with (hook VerifRing) and the route's destination list after every membership
// change (Add, DelDestination, UpdateDestination addr=...).  The verdict is taken by TLC
// (spec/HashRingTrace.tla) with ring positions computed by tools/carbon_ring.py.
package ring

import (
	"encoding/json"
	"fmt"
	"bufio"
	"io/ioutil"
	stdlog "log"
	"net"
	"os"
	"path/filepath"
	"strings"
	"sync"
	"sync/atomic"
	"testing"
	"time"

	"verifharness/hx"

	"github.com/Dieterbe/go-metrics"
	dest "github.com/grafana/carbon-relay-ng/destination"
	"github.com/grafana/carbon-relay-ng/matcher"
	"github.com/grafana/carbon-relay-ng/route"
	"github.com/grafana/carbon-relay-ng/stats"
	"github.com/sirupsen/logrus"
)

type node struct {
	ID   int    `json:"id"`
	Addr string `json:"addr"` // as given to destination.New: host[:port[:instance]] (refusing nodes)
	Host string `json:"host"`
	Inst string `json:"inst"` // "" = no instance
	// Listen > 0: the node is served by a loopback listener of the driver (group Listen, bound
	// to Host:0; nodes of one group share host and port and differ in the instance only); its
	// address is Host:<port of the listener>[:Inst].  0 = the address in Addr refuses connections.
	Listen int `json:"listen"`
}

type op struct {
	Op   string `json:"op"` // add | del | upd
	Node int    `json:"node"`
	Slot int    `json:"slot"`
	Alt  int    `json:"alt"` // add/upd of a listening node: 1 = the second listener (another port) of its group
}

type history struct {
	H     int      `json:"h"`
	Route string   `json:"route"`
	Nodes []node   `json:"nodes"`
	Init  []int    `json:"init"`
	Ops   []op     `json:"ops"`
	Keys  []string `json:"keys"`
}

var progressTick int64

// listener is a loopback line sink owned by the driver.  It only counts the names it receives.
type listener struct {
	id   int
	addr string // host:port
	l    net.Listener
	mu   sync.Mutex
	got  map[string]int // metric name -> lines received since the last take()
}

func listen(id int, host string) *listener {
	l, err := net.Listen("tcp", host+":0")
	if err != nil {
		panic(fmt.Sprintf("VERIF-LISTEN: cannot listen on %s: %v", host, err))
	}
	ls := &listener{id: id, addr: l.Addr().String(), l: l, got: map[string]int{}}
	go func() {
		for {
			c, err := l.Accept()
			if err != nil {
				return
			}
			go func(c net.Conn) {
				defer c.Close()
				sc := bufio.NewScanner(c)
				sc.Buffer(make([]byte, 1<<16), 1<<20)
				for sc.Scan() {
					f := strings.Fields(sc.Text())
					if len(f) == 0 {
						continue
					}
					ls.mu.Lock()
					ls.got[f[0]]++
					ls.mu.Unlock()
				}
			}(c)
		}
	}()
	return ls
}

func (ls *listener) seen(name string) int {
	ls.mu.Lock()
	defer ls.mu.Unlock()
	return ls.got[name]
}

func (ls *listener) take() map[string]int {
	ls.mu.Lock()
	defer ls.mu.Unlock()
	g := ls.got
	ls.got = map[string]int{}
	return g
}

func newDest(routeName, addr string) *dest.Destination {
	m, err := matcher.New("", "", "", "", "", "")
	if err != nil {
		panic(err)
	}
	// no spool: while the destination has no connection every line is counted as
	// conn_down_no_spool by the destination that received it.  One connection attempt at start
	// (and one per address update), the next in an hour.  Every key is followed by a Flush(), which
	// the connection's writer handles itself, so its buffer of 1000 lines never fills up (a line
	// dropped for a slow connection would be seen in the slow_conn counter all the same).
	d, err := dest.New(routeName, m, addr, "", false, false, time.Second, time.Hour, 1000, 4096, 100, 1000, 10,
		time.Second, time.Millisecond, time.Millisecond)
	if err != nil {
		panic(err)
	}
	return d
}

// the counters with which a destination accounts for a line it does not write to a connection
func countersOf(d *dest.Destination) [2]metrics.Counter {
	return [2]metrics.Counter{
		stats.Counter("dest=" + d.Key + ".unit=Metric.action=drop.reason=conn_down_no_spool"),
		stats.Counter("dest=" + d.Key + ".unit=Metric.action=drop.reason=slow_conn")}
}

type runner struct {
	h     *history
	log   *hx.Log
	r     route.Route
	ch    *route.ConsistentHashing
	byKey map[string]int // host|inst -> node id
	byID  map[int]node
	lis   map[[2]int]*listener // (group, alt) -> listener
	all   []*listener
	nsent int
}

// the address of a node: as given (refusing) or on a listener of the driver
func (x *runner) addrOf(n node, alt int) string {
	if n.Listen == 0 {
		return n.Addr
	}
	k := [2]int{n.Listen, alt}
	ls := x.lis[k]
	if ls == nil {
		ls = listen(len(x.all)+1, n.Host)
		x.lis[k] = ls
		x.all = append(x.all, ls)
	}
	if n.Inst == "" {
		return ls.addr
	}
	return ls.addr + ":" + n.Inst
}

func (x *runner) destList() []*dest.Destination {
	_, n := x.ch.VerifRing()
	out := make([]*dest.Destination, 0, n)
	for i := 0; i < n; i++ {
		d, err := x.r.GetDestination(i)
		if err != nil {
			break
		}
		out = append(out, d)
	}
	return out
}

func (x *runner) nodeID(host, inst string) int {
	return x.byKey[host+"|"+inst]
}

func hostOf(addr string) string {
	// an IPv6 server is written in brackets; the node universe (and carbon) name it without them
	if len(addr) > 0 && addr[0] == '[' {
		for i := 1; i < len(addr); i++ {
			if addr[i] == ']' {
				return addr[1:i]
			}
		}
	}
	for i := 0; i < len(addr); i++ {
		if addr[i] == ':' {
			return addr[:i]
		}
	}
	return addr
}

func (x *runner) emitRing() {
	ring, nd := x.ch.VerifRing()
	ents := make([][3]int, len(ring))
	for i, e := range ring {
		ents[i] = [3]int{int(e.Position), e.DestinationIndex, x.nodeID(e.Hostname, e.Instance)}
	}
	dl := []int{}
	for _, d := range x.destList() {
		dl = append(dl, x.nodeID(hostOf(d.Addr), d.Instance))
	}
	x.log.Emit(map[string]interface{}{"ev": "ring", "h": x.h.H, "ndest": nd, "dl": dl, "ring": ents})
}

// dispatch every key once, one at a time.  A destination without a connection counts the line
// (Flush() is the barrier after which it has done so); a connected destination writes it to the
// listener of the driver it is connected to.  After the last key a sentinel line is put into every
// destination directly (not through the route): a connection is an ordered stream, so once a
// listener has the sentinel of its destination it has every line the destination wrote before.
// got[k] = [slot, n] for every destination that accounted for key k (n times), slot < 0 = a
// listener that no destination of the route is configured for.
func (x *runner) dispatchAll() {
	ds := x.destList()
	cs := make([][2]metrics.Counter, len(ds))
	c0 := make([][2]int64, len(ds))
	slotOf := map[*listener]int{}
	ambiguous := false
	for i, d := range ds {
		cs[i] = countersOf(d)
		c0[i] = [2]int64{cs[i][0].Count(), cs[i][1].Count()}
		for _, ls := range x.all {
			if ls.addr == d.Addr {
				if _, dup := slotOf[ls]; dup {
					ambiguous = true
				}
				slotOf[ls] = i
			}
		}
	}
	for _, ls := range x.all {
		ls.take()
	}
	got := make([][][2]int, len(x.h.Keys))
	idx := make(map[string]int, len(x.h.Keys))
	flushErrs := 0
	for k, name := range x.h.Keys {
		atomic.AddInt64(&progressTick, 1)
		idx[name] = k
		x.r.Dispatch([]byte(name + " 1 1500000000"))
		if x.r.Flush() != nil {
			flushErrs++
		}
		g := [][2]int{}
		for i := range cs {
			n := 0
			for j := 0; j < 2; j++ {
				c := cs[i][j].Count()
				n += int(c - c0[i][j])
				c0[i][j] = c
			}
			if n != 0 {
				g = append(g, [2]int{i, n})
			}
		}
		got[k] = g
	}
	// barrier for the connected destinations
	x.nsent++
	missed := []int{}
	nonline := 0
	for i, d := range ds {
		if !d.Online {
			continue
		}
		nonline++
		var ls *listener
		for _, c := range x.all {
			if c.addr == d.Addr {
				ls = c
			}
		}
		if ls == nil {
			missed = append(missed, i)
			continue
		}
		name := fmt.Sprintf("c15.sentinel.%d.%d", x.nsent, i)
		d.In <- []byte(name + " 1 1500000000")
		deadline := time.Now().Add(30 * time.Second)
		for ls.seen(name) == 0 {
			atomic.AddInt64(&progressTick, 1)
			if time.Now().After(deadline) {
				missed = append(missed, i)
				break
			}
			d.Flush()
			time.Sleep(200 * time.Microsecond)
		}
	}
	// the sentinel of a destination that lost its connection meanwhile is counted, not written
	extra := 0
	for _, ls := range x.all {
		for name, n := range ls.take() {
			k, ok := idx[name]
			if !ok {
				if !strings.HasPrefix(name, "c15.sentinel.") {
					extra += n
				}
				continue
			}
			slot, ok := slotOf[ls]
			if !ok {
				slot = -ls.id
			}
			got[k] = append(got[k], [2]int{slot, n})
		}
	}
	online := []bool{}
	for _, d := range x.r.Snapshot().Dests {
		online = append(online, d.Online)
	}
	x.log.Emit(map[string]interface{}{"ev": "disp", "h": x.h.H, "got": got, "online": online, "nonline": nonline,
		"missed": missed, "ambiguous": ambiguous, "extra": extra, "flusherrs": flushErrs})
}

// a destination on a listener of the driver dials when it starts to run: wait until its relay loop
// has the connection, so that a batch of keys is not half counted and half written (both would be
// recorded, this only keeps the observation uniform)
func (x *runner) waitOnline() {
	deadline := time.Now().Add(20 * time.Second)
	for _, d := range x.destList() {
		mine := false
		for _, ls := range x.all {
			mine = mine || ls.addr == d.Addr
		}
		for mine && !d.Online && time.Now().Before(deadline) {
			atomic.AddInt64(&progressTick, 1)
			time.Sleep(200 * time.Microsecond)
		}
	}
}

// change the address of the destination in a slot (the "modDest <route> <slot> addr=..." command)
func (x *runner) update(o op) {
	n := x.byID[o.Node]
	addr := x.addrOf(n, o.Alt)
	hostport, inst := addr, ""
	if strings.Count(addr, ":") == 2 {
		i := strings.LastIndex(addr, ":")
		hostport, inst = addr[:i], addr[i+1:]
	}
	ev := map[string]interface{}{"ev": "upd", "h": x.h.H, "slot": o.Slot, "node": o.Node, "alt": o.Alt, "addr": addr}
	before, err := x.r.GetDestination(o.Slot)
	if err != nil {
		ev["err"] = err.Error()
		x.log.Emit(ev)
		return
	}
	ev["from"] = before.Addr + "|" + before.Instance
	err = x.r.UpdateDestination(o.Slot, map[string]string{"addr": addr})
	if err != nil {
		ev["err"] = err.Error()
	}
	// Destination.Update dials synchronously (under the route lock) and takes the new address over
	// only when the dial succeeded, before UpdateDestination returns; for an address of the driver's
	// own listener that is expected.  Nothing asynchronous is involved, the poll is only a margin.
	adopted := false
	deadline := time.Now().Add(time.Second)
	for {
		d, err := x.r.GetDestination(o.Slot)
		if err == nil && d.Addr == hostport && d.Instance == inst {
			adopted = true
			break
		}
		if n.Listen == 0 || time.Now().After(deadline) {
			if err == nil {
				ev["now"] = d.Addr + "|" + d.Instance
			}
			break
		}
		atomic.AddInt64(&progressTick, 1)
		time.Sleep(time.Millisecond)
	}
	ev["adopted"] = adopted
	if adopted && n.Listen != 0 {
		// the relay loop takes the new connection over asynchronously
		d, _ := x.r.GetDestination(o.Slot)
		deadline = time.Now().Add(20 * time.Second)
		for !d.Online && time.Now().Before(deadline) {
			atomic.AddInt64(&progressTick, 1)
			time.Sleep(200 * time.Microsecond)
		}
		ev["online"] = d.Online
	}
	x.log.Emit(ev)
}

func runHistory(h *history, log *hx.Log, progress *hx.Log) {
	x := &runner{h: h, log: log, byKey: map[string]int{}, byID: map[int]node{}, lis: map[[2]int]*listener{}}
	byID := x.byID
	for _, n := range h.Nodes {
		x.byKey[n.Host+"|"+n.Inst] = n.ID
		byID[n.ID] = n
	}
	defer func() {
		for _, ls := range x.all {
			ls.l.Close()
		}
	}()
	progress.Emit(map[string]interface{}{"h": h.H, "step": "init"})
	var ds []*dest.Destination
	for _, id := range h.Init {
		ds = append(ds, newDest(h.Route, x.addrOf(byID[id], 0)))
	}
	m, _ := matcher.New("", "", "", "", "", "")
	r, err := route.NewConsistentHashing(h.Route, m, ds)
	if err != nil {
		panic(err)
	}
	x.r = r
	x.ch = r.(*route.ConsistentHashing)
	log.Emit(map[string]interface{}{"ev": "init", "h": h.H, "members": h.Init})
	x.waitOnline()
	x.emitRing()
	x.dispatchAll()
	for i, o := range h.Ops {
		progress.Emit(map[string]interface{}{"h": h.H, "step": i, "op": o})
		switch o.Op {
		case "add":
			x.ch.Add(newDest(h.Route, x.addrOf(byID[o.Node], o.Alt)))
			log.Emit(map[string]interface{}{"ev": "add", "h": h.H, "node": o.Node})
		case "upd":
			x.update(o)
		case "del":
			err := x.r.DelDestination(o.Slot)
			if err != nil {
				log.Emit(map[string]interface{}{"ev": "delerr", "h": h.H, "slot": o.Slot, "err": err.Error()})
				continue
			}
			log.Emit(map[string]interface{}{"ev": "del", "h": h.H, "slot": o.Slot})
		}
		x.waitOnline()
		x.emitRing()
		x.dispatchAll()
	}
	progress.Emit(map[string]interface{}{"h": h.H, "step": "shutdown"})
	x.r.Shutdown()
	log.Emit(map[string]interface{}{"ev": "end", "h": h.H})
}

func TestRing(t *testing.T) {
	out := hx.Out(t)
	stdlog.SetOutput(ioutil.Discard)
	logrus.SetOutput(ioutil.Discard)
	logrus.SetLevel(logrus.PanicLevel)
	lines, err := hx.ReadLines(os.Getenv("VERIF_RING_HIST"))
	if err != nil {
		t.Fatal(err)
	}
	// every connection allocates two keepSafe buffers of this capacity (default 100000 slots, and
	// again every 10 s); nothing here needs them, and with dozens of connections they dominate the run
	dest.VerifC14SetKeepSafeCap(256)
	log := hx.NewLog(os.Getenv("VERIF_RING_TRACE"))
	defer log.Close()
	progress := hx.NewLog(filepath.Join(out, "ring_progress.ndjson"))
	progress.Unbuffered = true
	defer progress.Close()

	// watchdog: a Dispatch/Flush/DelDestination that never returns is recorded, not waited for
	done := make(chan struct{})
	go func() {
		last, since := int64(-1), time.Now()
		for {
			select {
			case <-done:
				return
			case <-time.After(2 * time.Second):
			}
			cur := atomic.LoadInt64(&progressTick)
			if cur != last {
				last, since = cur, time.Now()
				continue
			}
			if time.Since(since) > 60*time.Second {
				log.Emit(map[string]interface{}{"ev": "stuck", "tick": cur})
				log.Close()
				progress.Emit(map[string]interface{}{"step": "stuck"})
				fmt.Fprintln(os.Stderr, "VERIF-STUCK: no progress for 60s")
				os.Exit(3)
			}
		}
	}()
	for _, raw := range lines {
		var h history
		if err := json.Unmarshal(raw, &h); err != nil {
			t.Fatal(err)
		}
		atomic.AddInt64(&progressTick, 1)
		runHistory(&h, log, progress)
	}
	close(done)
}
