//go:build verif
// +build verif

// Package conf is the C20 driver: it loads configuration entries through the real
// paths and records every field of the routing-table entry they produced.
//
//	form "toml", "init": text of a whole configuration file (already passed through the real
//	    readConfigFile by the overlay test in package main) -> toml.Decode -> cfg.InitTable
//	form "cmd": a sequence of admin commands -> imperatives.Apply, one after the other
//
// on a real table.Table created, like main() does, from the decoded configuration.  One load
// may add several entries (several sections / blacklist lines / commands): every entry the load
// added is read back, in table order.
// Whether the loader accepted the configuration or refused it with an error is an outcome like any
// other (ok / rejected + the error text): an explicit 0 for some options must be refused.
// It records only; the expected entry (or "refused") is computed by TLC from spec/Config.tla and
// compared by the check.
package conf

import (
	"encoding/json"
	"fmt"
	"os"
	"os/exec"
	"path/filepath"
	"runtime"
	"runtime/debug"
	"strconv"
	"testing"
	"time"

	"github.com/BurntSushi/toml"
	"github.com/grafana/carbon-relay-ng/cfg"
	"github.com/grafana/carbon-relay-ng/destination"
	"github.com/grafana/carbon-relay-ng/imperatives"
	"github.com/grafana/carbon-relay-ng/matcher"
	"github.com/grafana/carbon-relay-ng/route"
	"github.com/grafana/carbon-relay-ng/table"
	log "github.com/sirupsen/logrus"

	"verifharness/hx"
)

type inCase struct {
	Id   int      `json:"id"`
	Kind string   `json:"kind"` // "gnet" if the load creates a grafanaNet route (chunking only)
	Form string   `json:"form"`
	Text string   `json:"text"` // forms toml, init
	Cmds []string `json:"cmds"` // form cmd
}

type outRec struct {
	Id       int                      `json:"id"`
	Form     string                   `json:"form"`
	Ok       bool                     `json:"ok"`
	Err      string                   `json:"err"`
	Rejected bool                     `json:"rejected"` // the real loader (InitTable / Apply) refused the configuration with an error
	Stage    string                   `json:"stage"`    // where the error came from: "decode" (TOML syntax), "load"
	Instance string                   `json:"instance"`
	SpoolDir string                   `json:"spool_dir"`
	Added    map[string]int           `json:"added"`   // how many entries of each kind the load added
	Entries  []map[string]interface{} `json:"entries"` // every added entry, in table order
}

// durations are reported in microseconds; a value that is not a whole number of
// microseconds is reported as text so that it cannot be mistaken for one
func us(d time.Duration) interface{} {
	if d%time.Microsecond != 0 {
		return d.String()
	}
	return int64(d / time.Microsecond)
}

func matcherFields(m matcher.Matcher, p string, e map[string]interface{}) {
	e[p+"prefix"] = m.Prefix
	e[p+"notPrefix"] = m.NotPrefix
	e[p+"sub"] = m.Sub
	e[p+"notSub"] = m.NotSub
	e[p+"regex"] = m.Regex
	e[p+"notRegex"] = m.NotRegex
}

func destFields(d *destination.Destination, p string, e map[string]interface{}) {
	f := d.VerifFields()
	e[p+"addr"] = f.Addr
	e[p+"instance"] = f.Instance
	e[p+"spooldir"] = f.SpoolDir
	e[p+"route"] = f.RouteName
	matcherFields(d.GetMatcher(), p, e)
	e[p+"spool"] = f.Spool
	e[p+"pickle"] = f.Pickle
	e[p+"flush_us"] = us(f.PeriodFlush)
	e[p+"reconn_us"] = us(f.PeriodReConn)
	e[p+"connbuf"] = f.ConnBufSize
	e[p+"iobuf"] = f.IoBufSize
	e[p+"spoolbuf"] = f.SpoolBufSize
	e[p+"spoolmaxbytesperfile"] = f.SpoolMaxBytesPerFile
	e[p+"spoolsyncevery"] = f.SpoolSyncEvery
	e[p+"spoolsyncperiod_us"] = us(f.SpoolSyncPeriod)
	e[p+"spoolsleep_us"] = us(f.SpoolSleep)
	e[p+"unspoolsleep_us"] = us(f.UnspoolSleep)
}

type counts struct{ black, rew, agg, routes int }

func count(t *table.Table) counts {
	s := t.Snapshot()
	return counts{len(s.Blacklist), len(s.Rewriters), len(s.Aggregators), len(s.Routes)}
}

// within runs f in a goroutine and reports whether it returned in time
func within(d time.Duration, f func()) bool {
	done := make(chan struct{})
	go func() { f(); close(done) }()
	select {
	case <-done:
		return true
	case <-time.After(d):
		return false
	}
}

func TestConf(t *testing.T) {
	out := hx.Out(t)
	inPath, outPath, hdrPath := os.Getenv("VERIF_CONF_IN"), os.Getenv("VERIF_CONF_OUT"), os.Getenv("VERIF_CONF_HEADER")
	if inPath == "" || outPath == "" || hdrPath == "" {
		t.Skip("run by bin/vcheck C20")
	}
	if os.Getenv("VERIF_CONF_CHILD") == "" {
		parent(t, out, inPath, outPath)
		return
	}
	child(t, inPath, outPath, hdrPath, os.Getenv("VERIF_CONF_PROGRESS"))
}

// parent splits the work into chunks and runs each chunk in a fresh copy of this test binary:
// every loaded entry leaves a few goroutines behind (AlignedTick of aggregators, grafanaNet
// config posters and their channel buffers), so one process must not load too many.
func parent(t *testing.T, out, inPath, outPath string) {
	lines, err := hx.ReadLines(inPath)
	if err != nil {
		t.Fatal(err)
	}
	var plain, gnet []json.RawMessage
	for _, raw := range lines {
		var c inCase
		if err := json.Unmarshal(raw, &c); err != nil {
			t.Fatal(err)
		}
		if c.Kind == "gnet" {
			gnet = append(gnet, raw)
		} else {
			plain = append(plain, raw)
		}
	}
	type chunk struct {
		lines []json.RawMessage
		nogc  bool
	}
	var chunks []chunk
	split := func(l []json.RawMessage, n int, nogc bool) {
		for len(l) > 0 {
			k := n
			if k > len(l) {
				k = len(l)
			}
			chunks = append(chunks, chunk{l[:k], nogc})
			l = l[k:]
		}
	}
	split(plain, hx.EnvInt("VERIF_CONF_CHUNK", 5000), false)
	split(gnet, hx.EnvInt("VERIF_CONF_GNET_CHUNK", 150), true)

	prog := hx.NewLog(filepath.Join(out, "conf_progress.ndjson"))
	prog.Unbuffered = true
	defer prog.Close()
	final, err := os.Create(outPath)
	if err != nil {
		t.Fatal(err)
	}
	defer final.Close()

	par := hx.EnvInt("VERIF_CONF_PAR", 2)
	sem := make(chan struct{}, par)
	type result struct {
		i    int
		err  error
		tail string
	}
	results := make(chan result, len(chunks))
	for i, ch := range chunks {
		i, ch := i, ch
		in := filepath.Join(out, fmt.Sprintf("conf_chunk_%d_in.ndjson", i))
		f, err := os.Create(in)
		if err != nil {
			t.Fatal(err)
		}
		for _, l := range ch.lines {
			f.Write(l)
			f.Write([]byte("\n"))
		}
		f.Close()
		go func() {
			sem <- struct{}{}
			defer func() { <-sem }()
			cmd := exec.Command(os.Args[0], "-test.run", "^TestConf$", "-test.timeout", "0")
			cmd.Env = append(os.Environ(), "VERIF_CONF_CHILD=1", "VERIF_CONF_IN="+in,
				"VERIF_CONF_OUT="+filepath.Join(out, fmt.Sprintf("conf_chunk_%d_out.ndjson", i)),
				"VERIF_CONF_PROGRESS="+filepath.Join(out, fmt.Sprintf("conf_chunk_%d_progress.ndjson", i)))
			if ch.nogc {
				cmd.Env = append(cmd.Env, "VERIF_CONF_NOGC=1")
			}
			b, err := cmd.CombinedOutput()
			tail := string(b)
			if len(tail) > 6000 {
				tail = tail[len(tail)-6000:]
			}
			results <- result{i, err, tail}
		}()
	}
	failed := false
	for range chunks {
		r := <-results
		if r.err != nil {
			failed = true
			var last json.RawMessage
			if pl, err := hx.ReadLines(filepath.Join(out, fmt.Sprintf("conf_chunk_%d_progress.ndjson", r.i))); err == nil && len(pl) > 0 {
				last = pl[len(pl)-1]
			}
			prog.Emit(map[string]interface{}{"chunk": r.i, "failed": r.err.Error(), "last": last})
			fmt.Printf("chunk %d failed: %v\n%s\n", r.i, r.err, r.tail)
		}
	}
	n := 0
	stuck := 0
	for i := range chunks {
		recs, _ := hx.ReadLines(filepath.Join(out, fmt.Sprintf("conf_chunk_%d_out.ndjson", i)))
		for _, r := range recs {
			final.Write(r)
			final.Write([]byte("\n"))
			n++
		}
		if pl, err := hx.ReadLines(filepath.Join(out, fmt.Sprintf("conf_chunk_%d_progress.ndjson", i))); err == nil && len(pl) > 0 {
			var d struct {
				Stuck int `json:"stuck_routes"`
			}
			json.Unmarshal(pl[len(pl)-1], &d)
			stuck += d.Stuck
		}
	}
	prog.Emit(map[string]interface{}{"chunks": len(chunks), "records": n, "stuck_routes": stuck})
	if failed {
		t.Fatalf("a chunk failed")
	}
}

func child(t *testing.T, inPath, outPath, hdrPath, progPath string) {
	log.SetLevel(log.PanicLevel)
	if os.Getenv("VERIF_CONF_NOGC") == "1" {
		// grafanaNet routes allocate (bufSize / concurrency) * concurrency channel slots, 240 MB
		// of never-touched memory with the defaults; without GC it stays untouched
		debug.SetGCPercent(-1)
	}
	t0 := time.Now()
	lines, err := hx.ReadLines(inPath)
	if err != nil {
		t.Fatal(err)
	}
	olog := hx.NewLog(outPath)
	defer olog.Close()
	prog := hx.NewLog(progPath)
	prog.Unbuffered = true
	defer prog.Close()

	// the table, created the way main() creates it
	hdr, err := os.ReadFile(hdrPath)
	if err != nil {
		t.Fatal(err)
	}
	newTable := func() *table.Table {
		config := cfg.NewConfig()
		if _, err := toml.Decode(string(hdr), &config); err != nil {
			t.Fatalf("header config: %v", err)
		}
		tc, err := config.TableConfig()
		if err != nil {
			t.Fatalf("header config: %v", err)
		}
		return table.New(tc)
	}
	tab := newTable()
	stuck := 0 // routes whose Shutdown did not return (left in the table)

	for _, raw := range lines {
		var c inCase
		if err := json.Unmarshal(raw, &c); err != nil {
			t.Fatal(err)
		}
		prog.Emit(map[string]interface{}{"id": c.Id, "form": c.Form})
		rec := outRec{Id: c.Id, Form: c.Form, Added: map[string]int{}, Entries: []map[string]interface{}{}}
		before := count(tab)
		switch c.Form {
		case "toml", "init":
			config := cfg.NewConfig()
			meta, err := toml.Decode(c.Text, &config)
			if err != nil {
				rec.Err = "toml.Decode: " + err.Error()
				rec.Stage = "decode"
				break
			}
			rec.Instance, rec.SpoolDir = config.Instance, config.Spool_dir
			if err := cfg.InitTable(tab, config, meta); err != nil {
				rec.Err = "InitTable: " + err.Error()
				rec.Rejected, rec.Stage = true, "load"
				break
			}
			rec.Ok = true
		case "cmd":
			rec.Ok = true
			for i, cmd := range c.Cmds {
				if err := imperatives.Apply(tab, cmd); err != nil {
					rec.Err = fmt.Sprintf("Apply #%d: %s", i+1, err.Error())
					rec.Ok = false
					rec.Rejected, rec.Stage = true, "load"
					break
				}
			}
		default:
			t.Fatalf("unknown form %q", c.Form)
		}
		snap := tab.Snapshot()
		after := counts{len(snap.Blacklist), len(snap.Rewriters), len(snap.Aggregators), len(snap.Routes)}
		rec.Added["added_black"] = after.black - before.black
		rec.Added["added_rewriter"] = after.rew - before.rew
		rec.Added["added_agg"] = after.agg - before.agg
		rec.Added["added_route"] = after.routes - before.routes

		// read the new entries back (the tail of each list, in order); they are taken out again below
		for i := before.black; i < after.black; i++ {
			e := map[string]interface{}{}
			matcherFields(*snap.Blacklist[i], "", e)
			rec.Entries = append(rec.Entries, e)
		}
		for i := before.rew; i < after.rew; i++ {
			rw := snap.Rewriters[i]
			rec.Entries = append(rec.Entries, map[string]interface{}{"old": rw.Old, "new": rw.New, "not": rw.Not, "max": rw.Max})
		}
		for i := before.agg; i < after.agg; i++ {
			a := snap.Aggregators[i]
			e := map[string]interface{}{}
			matcherFields(a.Matcher, "", e)
			e["fun"], e["format"], e["cache"], e["dropRaw"] = a.Fun, a.OutFmt, a.Cache, a.DropRaw
			e["interval"], e["wait"] = a.Interval, a.Wait
			rec.Entries = append(rec.Entries, e)
		}
		for i := before.routes; i < after.routes; i++ {
			rs := snap.Routes[i]
			e := map[string]interface{}{}
			e["type"], e["key"], e["ndests"] = rs.Type, rs.Key, len(rs.Dests)
			matcherFields(rs.Matcher, "", e)
			r := tab.GetRoute(rs.Key)
			if g, ok := r.(*route.GrafanaNet); ok {
				e["addr"], e["apiKey"] = g.Cfg.Addr, g.Cfg.ApiKey
				e["schemasFile"], e["aggregationFile"] = g.Cfg.SchemasFile, g.Cfg.AggregationFile
				e["sslverify"], e["spool"], e["blocking"] = g.Cfg.SSLVerify, g.Cfg.Spool, g.Cfg.Blocking
				e["concurrency"], e["bufSize"], e["flushMaxNum"], e["orgId"] = g.Cfg.Concurrency, g.Cfg.BufSize, g.Cfg.FlushMaxNum, g.Cfg.OrgID
				e["flushMaxWait_us"], e["timeout_us"], e["errBackoffMin_us"] = us(g.Cfg.FlushMaxWait), us(g.Cfg.Timeout), us(g.Cfg.ErrBackoffMin)
				e["errBackoffFactor"] = strconv.FormatFloat(g.Cfg.ErrBackoffFactor, 'g', -1, 64)
			}
			for j := range rs.Dests {
				d, err := r.GetDestination(j)
				if err != nil {
					e[fmt.Sprintf("d%d.error", j+1)] = err.Error()
					continue
				}
				destFields(d, fmt.Sprintf("d%d.", j+1), e)
			}
			rec.Entries = append(rec.Entries, e)
		}
		olog.Emit(rec)

		// clean up so that the table stays small and nothing keeps running
		for i := after.black; i > before.black; i-- {
			tab.DelBlacklist(i - 1)
		}
		for i := after.rew; i > before.rew; i-- {
			tab.DelRewriter(i - 1)
		}
		for i := after.agg; i > before.agg; i-- {
			tab.DelAggregator(i - 1)
		}
		for i := after.routes; i > before.routes; i-- {
			key := snap.Routes[i-1].Key
			if stuck > 0 && snap.Routes[i-1].Type == "GrafanaNet" {
				stuck++ // this tree's GrafanaNet.Shutdown does not return: leave the route where it is
				continue
			}
			tb := tab
			if !within(15*time.Second, func() { tb.DelRoute(key) }) {
				// DelRoute holds the table lock while the route shuts down: that table is lost
				stuck++
				prog.Emit(map[string]interface{}{"id": c.Id, "note": "shutdown of route did not return", "type": snap.Routes[i-1].Type})
				tab = newTable()
			}
		}
	}
	prog.Emit(map[string]interface{}{"done": len(lines), "goroutines": runtime.NumGoroutine(), "stuck_routes": stuck,
		"elapsed_ms": time.Since(t0).Milliseconds()})
}
