//go:build verif
// +build verif

// Package bad is the XBAD driver: it runs the real badmetrics.BadMetrics -- directly, and inside a
// real table.Table built through the configuration path (toml -> cfg.Config -> TableConfig ->
// table.New, validation strict, order validation on) with table.Dispatch as the producer and
// Table.Bad().Get / the web handler /badMetrics/{timespec}.json as the readers -- under concurrent
// producers and readers, and RECORDS, per call, a monotonic clock reading taken before the call and
// one taken after it returned, plus what Get answered.  Nothing is judged here:
// spec/BadMetricsTrace.tla decides with interval reasoning (no reading of the clock is compared
// with anything but another reading of the same clock; there are no sleeps whose length matters).
//
// One instance (one BadMetrics / one Table) runs its executions one after the other; an execution
// ends when Get(very long) is empty after a barrier, so the next one starts from the empty state.
// Instances run concurrently.  Time is real (time.Now and a Ticker inside badMetrics.go).
package bad

import (
	"encoding/json"
	"errors"
	"fmt"
	"io"
	"net/http"
	"net/http/httptest"
	"os"
	"reflect"
	"sync"
	"sync/atomic"
	"testing"
	"time"
	"unsafe"

	"github.com/BurntSushi/toml"
	"github.com/grafana/carbon-relay-ng/badmetrics"
	"github.com/grafana/carbon-relay-ng/cfg"
	"github.com/grafana/carbon-relay-ng/table"
	"github.com/grafana/carbon-relay-ng/ui/web"
	"github.com/grafana/carbon-relay-ng/validate"
	m20 "github.com/metrics20/go-metrics20/carbon20"
	log "github.com/sirupsen/logrus"

	"verifharness/hx"
)

func init() {
	log.SetLevel(log.PanicLevel)
	log.SetOutput(io.Discard)
}

type op struct {
	K      int    `json:"k"` // index of the add in the execution's table; 0: a valid line (table mode), not a rejection
	Name   string `json:"name"`
	Text   string `json:"text"`
	Reason string `json:"reason"`
	GapUs  int    `json:"gap"`
}

type getop struct {
	EUs   int64  `json:"e"`
	Via   string `json:"via"` // api | web
	GapUs int    `json:"gap"`
}

type phase struct {
	T       string    `json:"t"` // par | sleep | marker | gets | full | drain
	Prods   [][]op    `json:"prods"`
	Readers [][]getop `json:"readers"`
	Us      int       `json:"us"`
	Add     *op       `json:"add"`
	Gets    []getop   `json:"gets"`
	Fill    string    `json:"fillname"`
	Late    [][]op    `json:"late"`
	WaitUs  int       `json:"wait_us"`
}

type execution struct {
	ID     int     `json:"id"`
	Phases []phase `json:"phases"`
}

type ref struct {
	Cls  int    `json:"cls"`
	Line string `json:"line"` // "" : the order-validation error
}

type instance struct {
	Inst   int         `json:"inst"`
	Mode   string      `json:"mode"` // direct | table
	MaxAge string      `json:"maxage"`
	Web    bool        `json:"web"`
	BigUs  int64       `json:"big_us"` // the "very long" expiry of the polls
	Refs   []ref       `json:"refs"`
	Execs  []execution `json:"execs"`
}

type ev map[string]interface{}

type rec struct {
	M   string `json:"m"`
	Msg string `json:"msg"`
	Err string `json:"err"`
	S   int64  `json:"s"` // LastSeen, ns since the execution began (monotonic); -1: not known (web)
}

const pollDeadline = 30 * time.Second

// the unexported request / response channels of the manage goroutine (a Get caller's two steps, taken apart)
func chanField(b *badmetrics.BadMetrics, name string) interface{} {
	f := reflect.ValueOf(b).Elem().FieldByName(name)
	if !f.IsValid() {
		panic("badmetrics.BadMetrics has no field " + name)
	}
	return reflect.NewAt(f.Type(), unsafe.Pointer(f.UnsafeAddr())).Elem().Interface()
}

// hold does what Get does up to and including the request, and returns the rest: until release is called the
// manage goroutine waits for its answer to be taken (exactly as with a Get caller that is slow to be scheduled)
func hold(b *badmetrics.BadMetrics) (release func()) {
	req := chanField(b, "getReq").(chan time.Time)
	resp := chanField(b, "getResp").(chan []badmetrics.Record)
	req <- time.Now()
	return func() { <-resp }
}

type runner struct {
	in     instance
	b      *badmetrics.BadMetrics
	tab    *table.Table
	maxAge time.Duration
	base   time.Time
	mu     sync.Mutex
	evs    []ev
	stuck  int32
}

func (r *runner) now() int64 { return int64(time.Since(r.base)) }

func (r *runner) emit(e ev) {
	r.mu.Lock()
	r.evs = append(r.evs, e)
	r.mu.Unlock()
}

func (r *runner) add(o op) {
	if o.GapUs > 0 {
		time.Sleep(time.Duration(o.GapUs) * time.Microsecond)
	}
	var t0, t1 int64
	if r.in.Mode == "table" {
		line := []byte(o.Text)
		t0 = r.now()
		r.tab.Dispatch(line)
		t1 = r.now()
	} else {
		name, text, err := []byte(o.Name), []byte(o.Text), errors.New(o.Reason)
		t0 = r.now()
		r.b.Add(name, text, err)
		t1 = r.now()
	}
	if o.K > 0 {
		r.emit(ev{"ev": "add", "k": o.K, "t0": t0, "t1": t1})
	}
}

type webRec struct {
	Metric   string
	LastMsg  string
	LastErr  string
	LastSeen time.Time
}

func (r *runner) get(g getop, why string) []rec {
	if g.GapUs > 0 {
		time.Sleep(time.Duration(g.GapUs) * time.Microsecond)
	}
	d := time.Duration(g.EUs) * time.Microsecond
	var out []rec
	var t0, t1 int64
	if g.Via == "web" {
		req := httptest.NewRequest("GET", "/badMetrics/"+d.String()+".json", nil)
		w := httptest.NewRecorder()
		t0 = r.now()
		http.DefaultServeMux.ServeHTTP(w, req)
		t1 = r.now()
		var wr []webRec
		if w.Code != 200 {
			r.emit(ev{"ev": "weberr", "code": w.Code, "body": w.Body.String()})
			return nil
		}
		if err := json.Unmarshal(w.Body.Bytes(), &wr); err != nil {
			r.emit(ev{"ev": "weberr", "code": w.Code, "body": w.Body.String()})
			return nil
		}
		out = make([]rec, 0, len(wr))
		for _, x := range wr {
			out = append(out, rec{x.Metric, x.LastMsg, x.LastErr, -1})
		}
	} else {
		t0 = r.now()
		res := r.b.Get(d)
		t1 = r.now()
		out = make([]rec, 0, len(res))
		for _, x := range res {
			out = append(out, rec{x.Metric, x.LastMsg, x.LastErr, int64(x.LastSeen.Sub(r.base))})
		}
	}
	r.emit(ev{"ev": "get", "t0": t0, "t1": t1, "e": g.EUs, "via": g.Via, "why": why, "res": out})
	return out
}

func (r *runner) runExec(x execution) {
	r.base = time.Now()
	r.evs = nil
	r.stuck = 0
	period := r.maxAge / 10
	big := getop{EUs: r.in.BigUs, Via: "api"}
	for _, p := range x.Phases {
		switch p.T {
		case "par":
			var wg sync.WaitGroup
			start := make(chan struct{})
			for _, ops := range p.Prods {
				wg.Add(1)
				go func(ops []op) {
					defer wg.Done()
					<-start
					for _, o := range ops {
						r.add(o)
					}
				}(ops)
			}
			for _, gs := range p.Readers {
				wg.Add(1)
				go func(gs []getop) {
					defer wg.Done()
					<-start
					for _, g := range gs {
						r.get(g, "par")
					}
				}(gs)
			}
			close(start)
			wg.Wait()
		case "sleep":
			time.Sleep(time.Duration(p.Us) * time.Microsecond)
		case "marker":
			// the barrier: a record added after every earlier Add has returned is behind them in In; once a
			// Get returns it, the manage goroutine has consumed all of them
			r.add(*p.Add)
			dl := time.Now().Add(pollDeadline)
			wait := 50 * time.Microsecond
			for {
				seen := false
				for _, rc := range r.get(big, "marker") {
					if rc.Msg == p.Add.Text {
						seen = true
					}
				}
				if seen {
					break
				}
				if time.Now().After(dl) {
					atomic.AddInt32(&r.stuck, 1)
					r.emit(ev{"ev": "note", "what": "marker never returned by Get", "text": p.Add.Text})
					break
				}
				time.Sleep(wait)
				if wait < 5*time.Millisecond {
					wait *= 2
				}
			}
		case "gets":
			for _, g := range p.Gets {
				r.get(g, "gets")
			}
		case "full":
			release := hold(r.b)
			n := cap(r.b.In) - len(r.b.In)
			fill := []byte(p.Fill)
			ferr := errors.New("fill")
			for i := 0; i < n; i++ {
				r.b.Add(fill, []byte(fmt.Sprintf("%s fill %d", p.Fill, i)), ferr)
			}
			ln, cp := len(r.b.In), cap(r.b.In)
			var returned int32
			var wg sync.WaitGroup
			nlate := 0
			for _, ops := range p.Late {
				nlate += len(ops)
				wg.Add(1)
				go func(ops []op) {
					defer wg.Done()
					for _, o := range ops {
						r.add(o)
						atomic.AddInt32(&returned, 1)
					}
				}(ops)
			}
			time.Sleep(time.Duration(p.WaitUs) * time.Microsecond)
			r.emit(ev{"ev": "held", "returned": int(atomic.LoadInt32(&returned)), "len": ln, "cap": cp, "late": nlate, "at": r.now()})
			release()
			done := make(chan struct{})
			go func() { wg.Wait(); close(done) }()
			select {
			case <-done:
			case <-time.After(pollDeadline):
				atomic.AddInt32(&r.stuck, 1)
				r.emit(ev{"ev": "note", "what": "an Add did not return after the manager was released"})
			}
		case "drain":
			dl := time.Now().Add(r.maxAge + period + pollDeadline)
			for {
				if len(r.get(big, "drain")) == 0 {
					break
				}
				if time.Now().After(dl) {
					atomic.AddInt32(&r.stuck, 1)
					r.emit(ev{"ev": "note", "what": "records never cleaned"})
					break
				}
				time.Sleep(period / 2)
			}
		}
	}
	r.emit(ev{"ev": "end", "stuck": int(atomic.LoadInt32(&r.stuck))})
}

func startWeb(t *testing.T, config cfg.Config, tab *table.Table) {
	devnull, err := os.OpenFile(os.DevNull, os.O_WRONLY, 0)
	if err != nil {
		t.Fatal(err)
	}
	saved := os.Stdout
	os.Stdout = devnull // the access log of web.Start goes to the os.Stdout it finds
	go web.Start("127.0.0.1:0", config, tab, false)
	dl := time.Now().Add(20 * time.Second)
	for {
		_, pat := http.DefaultServeMux.Handler(httptest.NewRequest("GET", "/badMetrics/1s.json", nil))
		if pat == "/" {
			break
		}
		if time.Now().After(dl) {
			os.Stdout = saved
			t.Fatal("web.Start did not register its router")
		}
		time.Sleep(time.Millisecond)
	}
	os.Stdout = saved
}

func TestBad(t *testing.T) {
	hx.Out(t)
	raw, err := hx.ReadLines(os.Getenv("VERIF_XB_SCEN"))
	if err != nil {
		t.Fatal(err)
	}
	lg := hx.NewLog(os.Getenv("VERIF_XB_RESULT"))
	defer lg.Close()
	var insts []instance
	for _, b := range raw {
		var in instance
		if err := json.Unmarshal(b, &in); err != nil {
			t.Fatal(err)
		}
		insts = append(insts, in)
	}
	runners := make([]*runner, len(insts))
	webs := 0
	for i, in := range insts {
		r := &runner{in: in}
		r.maxAge, err = time.ParseDuration(in.MaxAge)
		if err != nil {
			t.Fatal(err)
		}
		if in.Mode == "table" {
			// the configuration path of cmd/carbon-relay-ng
			config := cfg.NewConfig()
			text := fmt.Sprintf("instance = \"verif\"\nbad_metrics_max_age = %q\nvalidation_level_legacy = \"strict\"\nvalidation_level_m20 = \"medium\"\nvalidate_order = true\n", in.MaxAge)
			if _, err := toml.Decode(text, &config); err != nil {
				t.Fatal(err)
			}
			tc, err := config.TableConfig()
			if err != nil {
				t.Fatal(err)
			}
			r.tab = table.New(tc)
			r.b = r.tab.Bad()
			if in.Web {
				webs++
				if webs > 1 {
					t.Fatal("one web instance per process")
				}
				startWeb(t, config, r.tab)
			}
			// the reason strings of the classes, from the validators themselves (pure renaming string -> class)
			for _, rf := range in.Refs {
				var e error
				if rf.Line == "" {
					key := []byte(fmt.Sprintf("xbad.ref.%d.%d", os.Getpid(), time.Now().UnixNano()))
					validate.Ordered(key, 10)
					e = validate.Ordered(key, 5)
				} else {
					_, _, _, e = m20.ValidatePacket([]byte(rf.Line), m20.StrictLegacy, m20.MediumM20)
				}
				s := ""
				if e != nil {
					s = e.Error()
				}
				lg.Emit(ev{"ev": "ref", "inst": in.Inst, "cls": rf.Cls, "reason": s})
			}
		} else {
			r.b = badmetrics.New(r.maxAge)
		}
		runners[i] = r
	}
	var wg sync.WaitGroup
	var mu sync.Mutex
	for _, r := range runners {
		wg.Add(1)
		go func(r *runner) {
			defer wg.Done()
			for _, x := range r.in.Execs {
				r.runExec(x)
				mu.Lock()
				lg.Emit(ev{"ev": "hist", "id": x.ID, "inst": r.in.Inst})
				for _, e := range r.evs {
					lg.Emit(e)
				}
				mu.Unlock()
			}
		}(r)
	}
	wg.Wait()
	lg.Emit(ev{"ev": "done"})
}
