// Package sch drives the re-encoding paths of C16: the line -> MetricData conversion of the
// grafanaNet / kafkaMdm routes (white-box through route.VerifParseMetricWith, and end to end
// through a real grafanaNet route posting to an httptest server) and the pickle encoder of the
// carbon destinations (destination.Pickle and a real pickle-mode destination writing to a loopback
// listener).  It records what the real code produced; expectations come from spec/Schemas.tla
// (TLC) and are compared by checks/c16.py.
package sch

import (
	"encoding/hex"
	"encoding/json"
	"fmt"
	"io"
	"io/ioutil"
	stdlog "log"
	"math"
	"net"
	"net/http"
	"net/http/httptest"
	"os"
	"path/filepath"
	"sync"
	"testing"
	"time"

	"verifharness/hx"

	"github.com/golang/snappy"
	dest "github.com/grafana/carbon-relay-ng/destination"
	"github.com/grafana/carbon-relay-ng/matcher"
	"github.com/grafana/carbon-relay-ng/route"
	"github.com/grafana/carbon-relay-ng/stats"
	"github.com/grafana/metrictank/schema"
	"github.com/grafana/metrictank/schema/msg"
	"github.com/sirupsen/logrus"
)

type scase struct {
	C       int      `json:"c"`
	Schemas string   `json:"schemas"` // text of the storage-schemas file
	OrgID   int      `json:"org"`
	Lines   []string `json:"lines"`
	GNet    bool     `json:"gnet"` // also through a real grafanaNet route
}

func quiet() {
	stdlog.SetOutput(ioutil.Discard)
	logrus.SetOutput(ioutil.Discard)
	logrus.SetLevel(logrus.PanicLevel)
}

func mdRec(md *schema.MetricData) map[string]interface{} {
	tags := md.Tags
	if tags == nil {
		tags = []string{}
	}
	return map[string]interface{}{"name": md.Name, "tags": tags, "interval": md.Interval, "time": md.Time,
		"vbits": fmt.Sprintf("%016x", math.Float64bits(md.Value)), "org": md.OrgId, "unit": md.Unit, "mtype": md.Mtype, "id": md.Id}
}

type collector struct {
	mu   sync.Mutex
	recs []*schema.MetricData
	bad  []string
}

func (c *collector) handler(w http.ResponseWriter, r *http.Request) {
	body, _ := ioutil.ReadAll(r.Body)
	if filepath.Base(r.URL.Path) != "metrics" {
		w.WriteHeader(200)
		return
	}
	raw, err := ioutil.ReadAll(snappy.NewReader(bytesReader(body)))
	c.mu.Lock()
	defer c.mu.Unlock()
	if err != nil {
		c.bad = append(c.bad, "snappy: "+err.Error())
	} else {
		var m msg.MetricData
		if err := m.InitFromMsg(raw); err != nil {
			c.bad = append(c.bad, "msg: "+err.Error())
		} else if err := m.DecodeMetricData(); err != nil {
			c.bad = append(c.bad, "msgp: "+err.Error())
		} else {
			c.recs = append(c.recs, m.Metrics...)
		}
	}
	w.Header().Set("Content-Type", "application/json")
	w.Write([]byte(`{"invalid":0,"published":1}`))
}

type br struct {
	b []byte
	i int
}

func (r *br) Read(p []byte) (int, error) {
	if r.i >= len(r.b) {
		return 0, io.EOF
	}
	n := copy(p, r.b[r.i:])
	r.i += n
	return n, nil
}
func bytesReader(b []byte) io.Reader { return &br{b: b} }

const sentinel = "zz.c16.sentinel"

func TestSchemas(t *testing.T) {
	out := hx.Out(t)
	quiet()
	lines, err := hx.ReadLines(os.Getenv("VERIF_SCH_CASES"))
	if err != nil {
		t.Fatal(err)
	}
	log := hx.NewLog(os.Getenv("VERIF_SCH_TRACE"))
	defer log.Close()
	progress := hx.NewLog(filepath.Join(out, "sch_progress.ndjson"))
	progress.Unbuffered = true
	defer progress.Close()
	dir := filepath.Join(out, "schemas")
	os.MkdirAll(dir, 0755)
	aggFile := filepath.Join(dir, "storage-aggregation.conf")
	ioutil.WriteFile(aggFile, []byte("[default]\npattern = .*\nxFilesFactor = 0.5\naggregationMethod = avg\n"), 0644)
	m, _ := matcher.New("", "", "", "", "", "")

	for _, raw := range lines {
		var c scase
		if err := json.Unmarshal(raw, &c); err != nil {
			t.Fatal(err)
		}
		progress.Emit(map[string]interface{}{"c": c.C})
		file := filepath.Join(dir, fmt.Sprintf("schemas-%d.conf", c.C))
		ioutil.WriteFile(file, []byte(c.Schemas), 0644)
		schemas, err := route.VerifGetSchemas(file)
		if err != nil {
			log.Emit(map[string]interface{}{"ev": "schemaserr", "c": c.C, "err": err.Error()})
			continue
		}
		// (a) white box: the conversion used by the grafanaNet and kafkaMdm routes
		for i, ln := range c.Lines {
			md, err := route.VerifParseMetricWith([]byte(ln), schemas, c.OrgID)
			if i == 0 {
				// the file-reading variant must agree
				md2, err2 := route.VerifParseMetric([]byte(ln), file, c.OrgID)
				if (err == nil) != (err2 == nil) || (err == nil && fmt.Sprint(*md) != fmt.Sprint(*md2)) {
					log.Emit(map[string]interface{}{"ev": "hookdiff", "c": c.C})
				}
			}
			if err != nil {
				log.Emit(map[string]interface{}{"ev": "pm", "c": c.C, "i": i, "skipped": true, "err": err.Error()})
				continue
			}
			r := mdRec(md)
			r["ev"], r["c"], r["i"], r["skipped"] = "pm", c.C, i, false
			log.Emit(r)
		}
		if !c.GNet {
			continue
		}
		// (b) a real grafanaNet route
		col := &collector{}
		srv := httptest.NewServer(http.HandlerFunc(col.handler))
		cfg, err := route.NewGrafanaNetConfig(srv.URL+"/metrics", "key", file, aggFile)
		if err != nil {
			log.Emit(map[string]interface{}{"ev": "gneterr", "c": c.C, "err": err.Error()})
			srv.Close()
			continue
		}
		cfg.Concurrency = 1 // one worker: lines are converted in dispatch order
		cfg.BufSize = 1000
		cfg.FlushMaxNum = 7
		cfg.FlushMaxWait = 20 * time.Millisecond
		cfg.OrgID = c.OrgID
		cfg.Blocking = true
		r, err := route.NewGrafanaNet(fmt.Sprintf("c16gn_%d_%d_%d", hx.Seed(), os.Getpid(), c.C), m, cfg)
		if err != nil {
			log.Emit(map[string]interface{}{"ev": "gneterr", "c": c.C, "err": err.Error()})
			srv.Close()
			continue
		}
		for _, ln := range c.Lines {
			r.Dispatch([]byte(ln))
		}
		r.Dispatch([]byte(sentinel + " 1 1"))
		deadline := time.Now().Add(60 * time.Second)
		seen := false
		for !seen && time.Now().Before(deadline) {
			col.mu.Lock()
			for _, md := range col.recs {
				if md.Name == sentinel {
					seen = true
				}
			}
			col.mu.Unlock()
			if !seen {
				time.Sleep(2 * time.Millisecond)
			}
		}
		col.mu.Lock()
		recs := []map[string]interface{}{}
		for _, md := range col.recs {
			if md.Name != sentinel {
				recs = append(recs, mdRec(md))
			}
		}
		log.Emit(map[string]interface{}{"ev": "gnet", "c": c.C, "sentinel": seen, "recs": recs, "bad": append([]string{}, col.bad...)})
		col.mu.Unlock()
		go r.Shutdown() // may never return on the pinned tree (C17); not our subject
		srv.CloseClientConnections()
		go srv.Close()
	}
}

// ------------------------------------------------------------------ pickle

type pcase struct {
	Lines []string `json:"lines"`
	// end-to-end scenarios: each is one send-all-match route with pickle-mode destinations; a
	// destination gets the lines whose name has its prefix and does not have its notPrefix
	Scen []pscen `json:"scen"`
}

type pscen struct {
	S     int     `json:"s"`
	Dests []pdest `json:"dests"`
}

type pdest struct {
	Prefix    string `json:"prefix"`
	NotPrefix string `json:"notprefix"`
	IOBuf     int    `json:"iobuf"`
	FlushMs   int    `json:"flushms"`
}

// pkEndpoint is a loopback listener that keeps every byte it receives
type pkEndpoint struct {
	ln    net.Listener
	mu    sync.Mutex
	got   []byte
	conns []net.Conn // keep accepted connections referenced
}

func newPkEndpoint() (*pkEndpoint, error) {
	ln, err := net.Listen("tcp", "127.0.0.1:0")
	if err != nil {
		return nil, err
	}
	e := &pkEndpoint{ln: ln}
	go func() {
		for {
			c, err := ln.Accept()
			if err != nil {
				return
			}
			e.mu.Lock()
			e.conns = append(e.conns, c)
			e.mu.Unlock()
			go func(c net.Conn) {
				buf := make([]byte, 65536)
				for {
					n, err := c.Read(buf)
					e.mu.Lock()
					e.got = append(e.got, buf[:n]...)
					e.mu.Unlock()
					if err != nil {
						return
					}
				}
			}(c)
		}
	}()
	return e, nil
}

// frames counts the complete length-prefixed frames received so far (polling only) and the bytes received
func (e *pkEndpoint) frames() (int, int) {
	e.mu.Lock()
	defer e.mu.Unlock()
	frames, off := 0, 0
	for off+4 <= len(e.got) {
		n := int(e.got[off])<<24 | int(e.got[off+1])<<16 | int(e.got[off+2])<<8 | int(e.got[off+3])
		if off+4+n > len(e.got) {
			break
		}
		off += 4 + n
		frames++
	}
	return frames, len(e.got)
}

func TestPickle(t *testing.T) {
	out := hx.Out(t)
	quiet()
	raw, err := ioutil.ReadFile(os.Getenv("VERIF_PK_LINES"))
	if err != nil {
		t.Fatal(err)
	}
	var pc pcase
	if err := json.Unmarshal(raw, &pc); err != nil {
		t.Fatal(err)
	}
	log := hx.NewLog(os.Getenv("VERIF_PK_TRACE"))
	defer log.Close()

	// (a) the encoder as the connection uses it: ParseDataPoint, then Pickle.  Every returned
	// message is recorded at once ("pk") and kept; all kept messages are recorded a second time
	// after the last Pickle call ("pk2": what a holder finds in its message later on).
	kept := make([][]byte, len(pc.Lines))
	for i, ln := range pc.Lines {
		dp, err := dest.ParseDataPoint([]byte(ln))
		if err != nil {
			log.Emit(map[string]interface{}{"ev": "pk", "i": i, "skipped": true, "err": err.Error()})
			continue
		}
		kept[i] = dest.Pickle(dp)
		log.Emit(map[string]interface{}{"ev": "pk", "i": i, "skipped": false, "frame": hex.EncodeToString(kept[i])})
	}
	for i, msg := range kept {
		if msg != nil {
			log.Emit(map[string]interface{}{"ev": "pk2", "i": i, "frame": hex.EncodeToString(msg)})
		}
	}

	// (b) real pickle-mode destinations behind a send-all-match route writing to loopback listeners
	for _, sc := range pc.Scen {
		pickleScenario(out, log, pc.Lines, sc)
	}
}

func pickleScenario(out string, log *hx.Log, lines []string, sc pscen) {
	m, _ := matcher.New("", "", "", "", "", "")
	rname := fmt.Sprintf("c16pk_%d_%d_%d", hx.Seed(), os.Getpid(), sc.S)
	type dstate struct {
		ep               *pkEndpoint
		d                *dest.Destination
		bad, slow, down  func() int64
		sent             []int
		frames, nbytes   int
		lastChange       time.Time
		complete, online bool
	}
	var ds []*dstate
	var dests []*dest.Destination
	fail := func(why string) {
		log.Emit(map[string]interface{}{"ev": "wireerr", "s": sc.S, "err": why})
	}
	for k, pd := range sc.Dests {
		ep, err := newPkEndpoint()
		if err != nil {
			fail(err.Error())
			return
		}
		dm, err := matcher.New(pd.Prefix, pd.NotPrefix, "", "", "", "")
		if err != nil {
			fail(err.Error())
			return
		}
		d, err := dest.New(rname, dm, ep.ln.Addr().String(), filepath.Join(out, fmt.Sprintf("spool%d_%d", sc.S, k)), false, true,
			time.Duration(pd.FlushMs)*time.Millisecond, time.Second, len(lines)+100, pd.IOBuf, 100, 1000, 10, time.Second, time.Millisecond, time.Millisecond)
		if err != nil {
			fail(err.Error())
			return
		}
		st := &dstate{ep: ep, d: d}
		for _, c := range []struct {
			f    *func() int64
			what string
		}{{&st.bad, "bad_pickle"}, {&st.slow, "slow_conn"}, {&st.down, "conn_down_no_spool"}} {
			cnt := stats.Counter("dest=" + d.Key + ".unit=Metric.action=drop.reason=" + c.what)
			c0 := cnt.Count()
			*c.f = func() int64 { return cnt.Count() - c0 }
		}
		ds = append(ds, st)
		dests = append(dests, d)
	}
	rt, err := route.NewSendAllMatch(rname, m, dests) // runs the destinations
	if err != nil {
		fail(err.Error())
		return
	}
	deadline := time.Now().Add(60 * time.Second)
	allOnline := false
	for !allOnline && time.Now().Before(deadline) {
		allOnline = true
		for _, st := range ds {
			st.online = st.d.Snapshot().Online
			allOnline = allOnline && st.online
		}
		if !allOnline {
			time.Sleep(5 * time.Millisecond)
		}
	}
	if allOnline {
		for i, l := range lines {
			b := []byte(l)
			name := b
			for j, ch := range b {
				if ch == ' ' {
					name = b[:j]
					break
				}
			}
			for _, st := range ds {
				if st.d.Match(name) { // recorded: which destination the route handed line i to
					st.sent = append(st.sent, i)
				}
			}
			rt.Dispatch(b)
		}
	}
	// every line handed over is on the wire as a frame, or counted as dropped (observable condition);
	// the wait is given up when an endpoint has received nothing new for 20 s (or after 120 s)
	start := time.Now()
	for _, st := range ds {
		st.lastChange = start
	}
	for {
		done := true
		for _, st := range ds {
			if st.complete {
				continue
			}
			st.d.Flush()
			f, nb := st.ep.frames()
			if nb != st.nbytes {
				st.nbytes, st.lastChange = nb, time.Now()
			}
			st.frames = f
			if int64(f)+st.bad()+st.slow()+st.down() >= int64(len(st.sent)) {
				st.complete = true
			} else if time.Since(st.lastChange) < 20*time.Second && time.Since(start) < 120*time.Second {
				done = false
			}
		}
		if done {
			break
		}
		time.Sleep(10 * time.Millisecond)
	}
	for k, st := range ds {
		st.ep.mu.Lock()
		wire := hex.EncodeToString(st.ep.got)
		st.ep.mu.Unlock()
		sent := st.sent
		if sent == nil {
			sent = []int{}
		}
		log.Emit(map[string]interface{}{"ev": "wire", "s": sc.S, "k": k, "ndests": len(ds), "online": st.online, "sent": sent, "wire": wire,
			"complete": st.complete, "iobuf": sc.Dests[k].IOBuf,
			"bad_pickle": st.bad(), "slow_conn": st.slow(), "conn_down": st.down()})
	}
	go rt.Shutdown()
	for _, st := range ds {
		st.ep.ln.Close()
	}
}
