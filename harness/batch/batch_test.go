//go:build verif
// +build verif

package batch

import (
	"testing"

	_ "cloud.google.com/go/pubsub"
	_ "github.com/Shopify/sarama"
	_ "github.com/aws/aws-sdk-go/service/cloudwatch"
	_ "github.com/grafana/carbon-relay-ng/route"
	_ "github.com/kisielk/og-rek"
	_ "google.golang.org/genproto/googleapis/pubsub/v1"
	_ "google.golang.org/grpc"
	_ "google.golang.org/grpc/codes"
	_ "google.golang.org/grpc/status"
)

func TestNothing(t *testing.T) {}
