//go:build verif
// +build verif

// Package batch drives the three real "batching" routes (route.NewKafkaMdm, route.NewPubSub, route.NewCloudWatch)
// against local fakes, offline, and records what can be seen from outside (XBATCH).  It judges nothing: the verdict
// is TLC's, on the recorded events (spec/BatchRouteTrace.tla).
//
//	kafkaMdm    sarama.MockBroker (metadata + produce responses with a scripted error sequence) behind a recording
//	            TCP proxy that decodes every ProduceRequest (v0 message sets, msgp MetricData) and the
//	            ProduceResponse that answers it, and can hold a response back
//	pubsub      an in-process gRPC Publisher (GetTopic, Publish) reached through PUBSUB_EMULATOR_HOST
//	cloudwatch  an httptest TLS server for monitoring.<region>.amazonaws.com reached through HTTPS_PROXY (a CONNECT
//	            proxy of this package) and trusted through SSL_CERT_FILE; credentials from the environment
//
// No route is changed or hooked: the fakes are selected through the routes' own configuration surface (broker
// address, environment variables).
package batch

import (
	"bufio"
	"bytes"
	"compress/gzip"
	"context"
	"crypto/ecdsa"
	"crypto/elliptic"
	"crypto/rand"
	"crypto/tls"
	"crypto/x509"
	"crypto/x509/pkix"
	"encoding/binary"
	"encoding/json"
	"encoding/pem"
	"fmt"
	"io"
	"io/ioutil"
	stdlog "log"
	"math/big"
	"net"
	"net/http"
	"net/http/httptest"
	"net/url"
	"os"
	"path/filepath"
	"regexp"
	"runtime"
	"strconv"
	"strings"
	"sync"
	"sync/atomic"
	"testing"
	"time"

	"verifharness/hx"

	metrics "github.com/Dieterbe/go-metrics"
	"github.com/Shopify/sarama"
	dest "github.com/grafana/carbon-relay-ng/destination"
	"github.com/grafana/carbon-relay-ng/matcher"
	"github.com/grafana/carbon-relay-ng/route"
	"github.com/grafana/carbon-relay-ng/stats"
	"github.com/grafana/carbon-relay-ng/util"
	"github.com/grafana/metrictank/schema"
	ogorek "github.com/kisielk/og-rek"
	log "github.com/sirupsen/logrus"
	pb "google.golang.org/genproto/googleapis/pubsub/v1"
	"google.golang.org/grpc"
	"google.golang.org/grpc/codes"
	"google.golang.org/grpc/status"
)

type step struct {
	Op  string `json:"op"` // d = dispatch one item; q = settle (timer on); i = wait until the loop idles (timer off); hold / release; y = sleep N ms
	Sz  int    `json:"sz,omitempty"`
	Bad int    `json:"bad,omitempty"` // 0 = parsable; 1.. = a way of being unparsable
	N   int    `json:"n,omitempty"`
}

type scenario struct {
	K        int      `json:"k"`
	Kind     string   `json:"kind"` // kafka | pubsub | cloudwatch
	Blocking bool     `json:"blocking"`
	BufSize  int      `json:"bufsize"`
	FMax     int      `json:"fmax"`
	FMWms    int      `json:"fmw_ms"`
	Timer    bool     `json:"timer"`  // fmw_ms is short; false: it is longer than the execution
	Format   string   `json:"format"` // pubsub: plain | pickle
	Codec    string   `json:"codec"`  // pubsub: none | gzip
	Steps    []step   `json:"steps"`
	Faults   []string `json:"faults"`   // answer to the i-th send (kafka: i-th ProduceRequest): ok | fail; afterwards ok
	Shutdown string   `json:"shutdown"` // plain | held (while the endpoint holds a send back)
}

const (
	slowDispatch    = 5 * time.Second  // non-blocking Dispatch (normal: microseconds)
	settleDeadline  = 30 * time.Second // everything accepted must be done with by then (normal: a few flushMaxWait)
	shutdownLimit   = 20 * time.Second
	exitDeadline    = 30 * time.Second // the run loop must have returned by then after Shutdown
	harnessDeadline = 20 * time.Second
	tsBase          = 1500000000
)

type event map[string]interface{}

type recorder struct {
	mu  sync.Mutex
	evs []event
}

func (r *recorder) add(e event) {
	r.mu.Lock()
	r.evs = append(r.evs, e)
	r.mu.Unlock()
}

// ---------------------------------------------------------------- the endpoint's script (all kinds)

type endpoint struct {
	sc      *scenario
	rec     *recorder
	mu      sync.Mutex
	next    int // sends answered so far
	holding bool
	held    bool // a send is being held back right now
	relCh   chan struct{}
	seen    map[int]bool
	nsend   int
	tagf    func() int // attempt tag of a send that arrives now
}

func newEndpoint(sc *scenario, rec *recorder) *endpoint {
	return &endpoint{sc: sc, rec: rec, relCh: make(chan struct{}), seen: map[int]bool{}}
}

// the scripted answer to the next send
func (e *endpoint) answer() string {
	e.mu.Lock()
	defer e.mu.Unlock()
	st := "ok"
	if e.next < len(e.sc.Faults) {
		st = e.sc.Faults[e.next]
	}
	e.next++
	return st
}

// a send arrived and the endpoint is about to answer it with st: record it, hold it back if told to
func (e *endpoint) arrived(ids []int, st string, tag int) {
	e.mu.Lock()
	e.nsend++
	if tag < 0 {
		tag = e.nsend // every send is an attempt of its own
	}
	for _, id := range ids {
		e.seen[id] = true
	}
	e.rec.add(event{"ev": "piece", "a": tag, "ids": ids, "st": st})
	var wait chan struct{}
	if e.holding {
		e.held = true
		wait = e.relCh
	}
	e.mu.Unlock()
	if wait != nil {
		select {
		case <-wait:
		case <-time.After(3 * settleDeadline):
		}
	}
}

func (e *endpoint) hold() {
	e.mu.Lock()
	if !e.holding {
		e.holding = true
		e.relCh = make(chan struct{})
	}
	e.mu.Unlock()
}

func (e *endpoint) release() {
	e.mu.Lock()
	if e.holding {
		e.holding = false
		e.held = false
		close(e.relCh)
	}
	e.mu.Unlock()
}

func (e *endpoint) isHeld() bool {
	e.mu.Lock()
	defer e.mu.Unlock()
	return e.held
}

func (e *endpoint) nSeen() int {
	e.mu.Lock()
	defer e.mu.Unlock()
	return len(e.seen)
}

// item id from a metric name "xb<k>.i<id>[.p...]" (-1: not one of this scenario's)
var nameRe = regexp.MustCompile(`^xb(\d+)\.i(\d+)(\.|$)`)

func idOf(k int, name string, val float64) int {
	m := nameRe.FindStringSubmatch(name)
	if m == nil {
		return -1
	}
	kk, _ := strconv.Atoi(m[1])
	id, _ := strconv.Atoi(m[2])
	if kk != k || float64(id) != val {
		return -1
	}
	return id
}

// the line of item id: exactly sz-1 bytes when sz is given (pubsub: size = len(line)+1)
func lineOf(k, id, sz, bad int) ([]byte, error) {
	name := fmt.Sprintf("xb%d.i%d", k, id)
	var tail string
	switch bad {
	case 0:
		tail = fmt.Sprintf(" %d %d", id, tsBase+id)
	case 1:
		tail = fmt.Sprintf(" %d", id) // two fields
	case 2:
		tail = fmt.Sprintf(" x%d %d", id, tsBase+id) // the value is not a number
	case 3:
		tail = fmt.Sprintf(" %d %dx", id, tsBase+id) // the timestamp is not a number
	default:
		tail = fmt.Sprintf(" %d %d extra", id, tsBase+id) // four fields
	}
	if sz > 0 {
		pad := sz - 1 - len(name) - len(tail)
		if pad < 0 || pad == 1 {
			return nil, fmt.Errorf("size %d too small for item %d", sz, id)
		}
		if pad > 0 {
			name += ".p" + strings.Repeat("x", pad-2)
		}
	}
	return []byte(name + tail), nil
}

// ---------------------------------------------------------------- kafka: recording proxy in front of sarama.MockBroker

type reporter struct{ rec *recorder }

func (r reporter) Error(a ...interface{}) {
	r.rec.add(event{"ev": "harness", "what": "mockbroker: " + fmt.Sprint(a...)})
}
func (r reporter) Errorf(f string, a ...interface{}) {
	r.rec.add(event{"ev": "harness", "what": "mockbroker: " + fmt.Sprintf(f, a...)})
}
func (r reporter) Fatal(a ...interface{})            { r.Error(a...) }
func (r reporter) Fatalf(f string, a ...interface{}) { r.Errorf(f, a...) }

type kafkaFake struct {
	ep     *endpoint
	broker *sarama.MockBroker
	ln     net.Listener
	k      int
	wg     sync.WaitGroup
	quit   chan struct{}
}

type rd struct {
	b   []byte
	err error
}

func (r *rd) take(n int) []byte {
	if r.err != nil {
		return nil
	}
	if n < 0 || n > len(r.b) {
		r.err = io.ErrUnexpectedEOF
		return nil
	}
	x := r.b[:n]
	r.b = r.b[n:]
	return x
}
func (r *rd) i16() int {
	x := r.take(2)
	if x == nil {
		return 0
	}
	return int(int16(binary.BigEndian.Uint16(x)))
}
func (r *rd) i32() int {
	x := r.take(4)
	if x == nil {
		return 0
	}
	return int(int32(binary.BigEndian.Uint32(x)))
}
func (r *rd) str() string {
	n := r.i16()
	if n < 0 {
		return ""
	}
	return string(r.take(n))
}
func (r *rd) bytes32() []byte {
	n := r.i32()
	if n < 0 {
		return nil
	}
	return r.take(n)
}

// decode a ProduceRequest v0..v2 body with uncompressed message sets (magic 0 / 1) into item ids, in payload order
func decodeProduce(k int, body []byte) ([]int, error) {
	r := &rd{b: body}
	r.i16() // required acks
	r.i32() // timeout
	var ids []int
	nt := r.i32()
	for t := 0; t < nt && r.err == nil; t++ {
		r.str()
		np := r.i32()
		for p := 0; p < np && r.err == nil; p++ {
			r.i32() // partition
			set := &rd{b: r.take(r.i32())}
			for len(set.b) > 0 && set.err == nil {
				set.take(8) // offset
				m := &rd{b: set.take(set.i32())}
				m.take(4) // crc
				magic := m.take(1)
				attr := m.take(1)
				if m.err != nil || magic[0] > 1 || attr[0]&7 != 0 {
					return nil, fmt.Errorf("unsupported message (magic/compression)")
				}
				if magic[0] == 1 {
					m.take(8)
				}
				m.bytes32() // key
				val := m.bytes32()
				if m.err != nil {
					return nil, m.err
				}
				var md schema.MetricData
				if _, err := md.UnmarshalMsg(val); err != nil {
					return nil, fmt.Errorf("msgp: %v", err)
				}
				id := idOf(k, md.Name, md.Value)
				if id > 0 && md.Time != int64(tsBase+id) {
					id = -1
				}
				ids = append(ids, id)
			}
			if set.err != nil {
				return nil, set.err
			}
		}
	}
	return ids, r.err
}

// the error code of a ProduceResponse v0 body (0 = no error on every partition)
func decodeProduceResponse(body []byte) (int, error) {
	r := &rd{b: body}
	code := 0
	nt := r.i32()
	for t := 0; t < nt && r.err == nil; t++ {
		r.str()
		np := r.i32()
		for p := 0; p < np && r.err == nil; p++ {
			r.i32()
			if c := r.i16(); c != 0 {
				code = c
			}
			r.take(8)
		}
	}
	return code, r.err
}

func readFrame(c io.Reader) ([]byte, error) {
	var h [4]byte
	if _, err := io.ReadFull(c, h[:]); err != nil {
		return nil, err
	}
	n := int(binary.BigEndian.Uint32(h[:]))
	if n < 0 || n > 64<<20 {
		return nil, fmt.Errorf("frame of %d bytes", n)
	}
	b := make([]byte, n)
	_, err := io.ReadFull(c, b)
	return b, err
}

func writeFrame(c io.Writer, b []byte) error {
	var h [4]byte
	binary.BigEndian.PutUint32(h[:], uint32(len(b)))
	if _, err := c.Write(h[:]); err != nil {
		return err
	}
	_, err := c.Write(b)
	return err
}

func newKafkaFake(sc *scenario, ep *endpoint, topic string) (*kafkaFake, error) {
	ln, err := net.Listen("tcp", "127.0.0.1:0")
	if err != nil {
		return nil, err
	}
	f := &kafkaFake{ep: ep, ln: ln, k: sc.K, quit: make(chan struct{})}
	rep := reporter{ep.rec}
	f.broker = sarama.NewMockBrokerAddr(rep, 1, "127.0.0.1:0")
	var seq []interface{}
	for _, st := range sc.Faults {
		r := sarama.NewMockProduceResponse(rep)
		if st != "ok" {
			// not one of the errors sarama retries by itself: SendMessages reports it to the route
			r.SetError(topic, 0, sarama.ErrMessageSizeTooLarge)
		}
		seq = append(seq, r)
	}
	seq = append(seq, sarama.NewMockProduceResponse(rep))
	f.broker.SetHandlerByMap(map[string]sarama.MockResponse{
		"MetadataRequest": sarama.NewMockMetadataResponse(rep).SetBroker(ln.Addr().String(), 1).SetLeader(topic, 0, 1),
		"ProduceRequest":  sarama.NewMockSequence(seq...),
	})
	f.wg.Add(1)
	go f.accept()
	return f, nil
}

func (f *kafkaFake) addr() string { return f.ln.Addr().String() }

func (f *kafkaFake) accept() {
	defer f.wg.Done()
	for {
		c, err := f.ln.Accept()
		if err != nil {
			return
		}
		b, err := net.Dial("tcp", f.broker.Addr())
		if err != nil {
			c.Close()
			continue
		}
		f.wg.Add(1)
		go f.serve(c, b)
	}
}

// one client connection: requests are forwarded as they are; a ProduceRequest is decoded, the response that
// answers it (same correlation id; the mock broker answers in order) is decoded, recorded, possibly held, forwarded
func (f *kafkaFake) serve(c, b net.Conn) {
	defer f.wg.Done()
	defer c.Close()
	defer b.Close()
	go func() {
		<-f.quit
		c.Close()
		b.Close()
	}()
	for {
		req, err := readFrame(c)
		if err != nil {
			return
		}
		h := &rd{b: req}
		key, ver, corr := h.i16(), h.i16(), h.i32()
		h.str() // client id
		var ids []int
		tag := 0
		if key == 0 {
			if ver > 2 {
				f.ep.rec.add(event{"ev": "harness", "what": fmt.Sprintf("ProduceRequest v%d", ver)})
			}
			ids, err = decodeProduce(f.k, h.b)
			if err != nil || h.err != nil {
				f.ep.rec.add(event{"ev": "harness", "what": fmt.Sprintf("undecodable ProduceRequest: %v %v", err, h.err)})
			}
			tag = f.ep.tagf()
		}
		if err := writeFrame(b, req); err != nil {
			return
		}
		resp, err := readFrame(b)
		if err != nil {
			return
		}
		if key == 0 {
			r := &rd{b: resp}
			rc := r.i32()
			code, derr := decodeProduceResponse(r.b)
			if rc != corr || derr != nil || ver != 0 {
				f.ep.rec.add(event{"ev": "harness", "what": fmt.Sprintf("ProduceResponse: corr %d/%d err %v version %d", rc, corr, derr, ver)})
			}
			st := "ok"
			if code != 0 {
				st = "fail"
			}
			f.ep.answer() // (keeps the count of answered sends; the mock broker's sequence decides)
			f.ep.arrived(ids, st, tag)
		}
		if err := writeFrame(c, resp); err != nil {
			return
		}
	}
}

func (f *kafkaFake) close() {
	close(f.quit)
	f.ln.Close()
	f.broker.Close()
	f.wg.Wait()
}

// ---------------------------------------------------------------- pubsub: in-process gRPC Publisher

type pubsubFake struct {
	pb.PublisherServer // (the methods the route does not use are not implemented)
	mu                 sync.Mutex
	topics             map[string]*endpoint
	srv                *grpc.Server
	addr               string
}

var psFake *pubsubFake

func startPubsubFake() (*pubsubFake, error) {
	ln, err := net.Listen("tcp", "127.0.0.1:0")
	if err != nil {
		return nil, err
	}
	f := &pubsubFake{topics: map[string]*endpoint{}, srv: grpc.NewServer(), addr: ln.Addr().String()}
	pb.RegisterPublisherServer(f.srv, f)
	go f.srv.Serve(ln)
	return f, nil
}

func (f *pubsubFake) endpointOf(topic string) *endpoint {
	f.mu.Lock()
	defer f.mu.Unlock()
	return f.topics[topic]
}

func (f *pubsubFake) GetTopic(ctx context.Context, req *pb.GetTopicRequest) (*pb.Topic, error) {
	if f.endpointOf(req.Topic) == nil {
		return nil, status.Error(codes.NotFound, "no such topic")
	}
	return &pb.Topic{Name: req.Topic}, nil
}

func decodePubsub(k int, m *pb.PubsubMessage) ([]int, error) {
	data := m.Data
	if m.Attributes["codec"] == "gzip" {
		zr, err := gzip.NewReader(bytes.NewReader(data))
		if err != nil {
			return nil, err
		}
		if data, err = ioutil.ReadAll(zr); err != nil {
			return nil, err
		}
	}
	var ids []int
	switch m.Attributes["content-type"] {
	case "application/text":
		for _, l := range strings.Split(strings.TrimSuffix(string(data), "\n"), "\n") {
			fs := strings.Fields(l)
			id := -1
			if len(fs) == 3 {
				v, _ := strconv.ParseFloat(fs[1], 64)
				id = idOf(k, fs[0], v)
			}
			ids = append(ids, id)
		}
	case "application/python-pickle":
		for len(data) > 0 {
			if len(data) < 4 {
				return nil, io.ErrUnexpectedEOF
			}
			n := int(binary.BigEndian.Uint32(data))
			if 4+n > len(data) {
				return nil, io.ErrUnexpectedEOF
			}
			v, err := ogorek.NewDecoder(bytes.NewReader(data[4 : 4+n])).Decode()
			data = data[4+n:]
			if err != nil {
				return nil, err
			}
			l, ok := v.([]interface{})
			if !ok {
				return nil, fmt.Errorf("pickle: %T", v)
			}
			for _, p := range l {
				id := -1
				if t, ok := p.(ogorek.Tuple); ok && len(t) == 2 {
					name, _ := t[0].(string)
					if tv, ok := t[1].(ogorek.Tuple); ok && len(tv) == 2 {
						if val, ok := tv[1].(float64); ok {
							id = idOf(k, name, val)
						}
					}
				}
				ids = append(ids, id)
			}
		}
	default:
		return nil, fmt.Errorf("content-type %q", m.Attributes["content-type"])
	}
	return ids, nil
}

func (f *pubsubFake) Publish(ctx context.Context, req *pb.PublishRequest) (*pb.PublishResponse, error) {
	ep := f.endpointOf(req.Topic)
	if ep == nil {
		return nil, status.Error(codes.NotFound, "no such topic")
	}
	if len(req.Messages) != 1 {
		ep.rec.add(event{"ev": "harness", "what": fmt.Sprintf("PublishRequest with %d messages", len(req.Messages))})
	}
	var ids []int
	for _, m := range req.Messages {
		x, err := decodePubsub(ep.sc.K, m)
		if err != nil {
			ep.rec.add(event{"ev": "harness", "what": "undecodable pubsub message: " + err.Error()})
		}
		ids = append(ids, x...)
	}
	st := ep.answer()
	ep.arrived(ids, st, -1)
	if st != "ok" {
		// not one of the codes the client library retries by itself
		return nil, status.Error(codes.InvalidArgument, "scripted failure")
	}
	out := &pb.PublishResponse{}
	for range req.Messages {
		out.MessageIds = append(out.MessageIds, fmt.Sprintf("m%d", time.Now().UnixNano()))
	}
	return out, nil
}

// ---------------------------------------------------------------- cloudwatch: TLS endpoint behind a CONNECT proxy

type cwFake struct {
	mu  sync.Mutex
	eps map[string]*endpoint // by namespace
	srv *httptest.Server
}

var cw *cwFake

const cwRegion = "us-east-1"
const cwHost = "monitoring." + cwRegion + ".amazonaws.com"

func (f *cwFake) ServeHTTP(w http.ResponseWriter, r *http.Request) {
	body, _ := ioutil.ReadAll(r.Body)
	q, err := url.ParseQuery(string(body))
	f.mu.Lock()
	ep := f.eps[q.Get("Namespace")]
	f.mu.Unlock()
	if ep == nil {
		w.WriteHeader(500)
		return
	}
	if err != nil || q.Get("Action") != "PutMetricData" {
		ep.rec.add(event{"ev": "harness", "what": fmt.Sprintf("cloudwatch request: %v action %q", err, q.Get("Action"))})
	}
	var ids []int
	for i := 1; ; i++ {
		p := fmt.Sprintf("MetricData.member.%d.", i)
		name := q.Get(p + "MetricName")
		if name == "" {
			break
		}
		v, _ := strconv.ParseFloat(q.Get(p+"Value"), 64)
		id := idOf(ep.sc.K, name, v)
		if ts, err := time.Parse(time.RFC3339, q.Get(p+"Timestamp")); id > 0 && (err != nil || ts.Unix() != int64(tsBase+id)) {
			id = -1
		}
		ids = append(ids, id)
	}
	st := ep.answer()
	ep.arrived(ids, st, -1)
	w.Header().Set("Content-Type", "text/xml")
	if st != "ok" {
		// a client error: the SDK does not retry it
		w.WriteHeader(400)
		fmt.Fprint(w, `<ErrorResponse xmlns="http://monitoring.amazonaws.com/doc/2010-08-01/"><Error><Type>Sender</Type><Code>InvalidParameterValue</Code><Message>scripted failure</Message></Error><RequestId>r</RequestId></ErrorResponse>`)
		return
	}
	fmt.Fprint(w, `<PutMetricDataResponse xmlns="http://monitoring.amazonaws.com/doc/2010-08-01/"><ResponseMetadata><RequestId>r</RequestId></ResponseMetadata></PutMetricDataResponse>`)
}

// a self-signed certificate for cwHost (its own root), an https server that presents it, a CONNECT proxy that
// tunnels every request to that server; returns the PEM of the certificate and the proxy address
func startCloudwatchFake() (*cwFake, []byte, string, error) {
	key, err := ecdsa.GenerateKey(elliptic.P256(), rand.Reader)
	if err != nil {
		return nil, nil, "", err
	}
	tmpl := &x509.Certificate{SerialNumber: big.NewInt(1), Subject: pkix.Name{CommonName: cwHost}, DNSNames: []string{cwHost},
		NotBefore: time.Now().Add(-time.Hour), NotAfter: time.Now().Add(48 * time.Hour), IsCA: true, BasicConstraintsValid: true,
		KeyUsage: x509.KeyUsageDigitalSignature | x509.KeyUsageCertSign, ExtKeyUsage: []x509.ExtKeyUsage{x509.ExtKeyUsageServerAuth}}
	der, err := x509.CreateCertificate(rand.Reader, tmpl, tmpl, &key.PublicKey, key)
	if err != nil {
		return nil, nil, "", err
	}
	certPEM := pem.EncodeToMemory(&pem.Block{Type: "CERTIFICATE", Bytes: der})
	f := &cwFake{eps: map[string]*endpoint{}}
	f.srv = httptest.NewUnstartedServer(f)
	f.srv.TLS = &tls.Config{Certificates: []tls.Certificate{{Certificate: [][]byte{der}, PrivateKey: key}}}
	f.srv.StartTLS()
	target := f.srv.Listener.Addr().String()
	pl, err := net.Listen("tcp", "127.0.0.1:0")
	if err != nil {
		return nil, nil, "", err
	}
	go func() {
		for {
			c, err := pl.Accept()
			if err != nil {
				return
			}
			go func(c net.Conn) {
				br := bufio.NewReader(c)
				req, err := http.ReadRequest(br)
				if err != nil || req.Method != "CONNECT" || !strings.HasPrefix(req.Host, cwHost) {
					c.Close()
					return
				}
				t, err := net.Dial("tcp", target)
				if err != nil {
					c.Close()
					return
				}
				fmt.Fprint(c, "HTTP/1.1 200 Connection established\r\n\r\n")
				go func() { io.Copy(t, br); t.Close() }()
				io.Copy(c, t)
				c.Close()
			}(c)
		}
	}()
	return f, certPEM, pl.Addr().String(), nil
}

// ---------------------------------------------------------------- goroutine states (runtime.Stack)

var gorHead = regexp.MustCompile(`^goroutine (\d+) \[([^\]]*)\]:`)

func curGoroutine() string {
	buf := make([]byte, 64)
	buf = buf[:runtime.Stack(buf, false)]
	f := strings.Fields(string(buf))
	if len(f) >= 2 && f[0] == "goroutine" {
		return f[1]
	}
	return "?"
}

type gor struct{ state, top, stack string }

// goroutines created by goroutine `creator` ("created by F in goroutine N")
func createdBy(creator string) []gor {
	buf := make([]byte, 1<<18)
	for {
		n := runtime.Stack(buf, true)
		if n < len(buf) {
			buf = buf[:n]
			break
		}
		buf = make([]byte, 2*len(buf))
	}
	var out []gor
	suffix := " in goroutine " + creator
	for _, blk := range strings.Split(string(buf), "\n\n") {
		m := gorHead.FindStringSubmatch(blk)
		if m == nil {
			continue
		}
		i := strings.LastIndex(blk, "created by ")
		if i < 0 {
			continue
		}
		line := blk[i:]
		if j := strings.IndexByte(line, '\n'); j >= 0 {
			line = line[:j]
		}
		if !strings.HasSuffix(strings.TrimSpace(line), suffix) {
			continue
		}
		st := m[2]
		if j := strings.IndexByte(st, ','); j >= 0 {
			st = st[:j]
		}
		lines := strings.SplitN(blk, "\n", 3)
		top := ""
		if len(lines) > 1 {
			top = lines[1]
		}
		out = append(out, gor{state: st, top: top, stack: blk})
	}
	return out
}

var runFn = map[string]string{"kafka": "route.(*KafkaMdm).run(", "pubsub": "route.(*PubSub).run(", "cloudwatch": "route.(*CloudWatch).run("}
var ctorFn = map[string]string{"kafka": "route.NewKafkaMdm", "pubsub": "route.NewPubSub", "cloudwatch": "route.NewCloudWatch"}

// the run loop of the route that goroutine `creator` constructed: the goroutine its constructor started (it may not
// have run yet: then its stack shows only the start wrapper).
// "running" | "idle" (parked in the select of run() itself) | "gone"
func loopState(creator, kind string) string {
	for _, g := range createdBy(creator) {
		i := strings.LastIndex(g.stack, "created by ")
		if !strings.Contains(g.stack[i:], "carbon-relay-ng/"+ctorFn[kind]+" in goroutine") {
			continue
		}
		if g.state == "select" && strings.Contains(g.top, runFn[kind]) {
			return "idle"
		}
		return "running"
	}
	return "gone"
}

func blockedIn(creator, fn string, states ...string) bool {
	for _, g := range createdBy(creator) {
		if strings.Contains(g.stack, fn) {
			for _, s := range states {
				if g.state == s {
					return true
				}
			}
		}
	}
	return false
}

// ---------------------------------------------------------------- one scenario

type counters struct {
	drops, errs, out, parse metrics.Counter
	gauge                   metrics.Gauge
}

func countersOf(dest string, parse bool) counters {
	c := counters{
		drops: stats.Counter("dest=" + dest + ".unit=Metric.action=drop.reason=queue_full"),
		errs:  stats.Counter("dest=" + dest + ".unit=Err.type=flush"),
		out:   stats.Counter("dest=" + dest + ".unit=Metric.direction=out"),
		gauge: stats.Gauge("dest=" + dest + ".unit=Metric.what=numBuffered"),
	}
	if parse {
		c.parse = stats.Counter("dest=" + dest + ".unit.Err.type=parse")
	}
	return c
}

func runScenario(t *testing.T, sc scenario, schemas string, progress *hx.Log) []event {
	rec := &recorder{}
	rec.add(event{"ev": "scen", "k": sc.K, "kind": sc.Kind, "blocking": sc.Blocking, "bufsize": sc.BufSize, "fmax": sc.FMax, "timer": sc.Timer})
	me := curGoroutine()
	ep := newEndpoint(&sc, rec)
	key := fmt.Sprintf("xbatch-%d-%d", hx.Seed(), sc.K)
	progress.Emit(event{"k": sc.K, "at": "new", "kind": sc.Kind})

	var rt route.Route
	var err error
	var cnt counters
	var cleanup func()
	switch sc.Kind {
	case "kafka":
		topic := fmt.Sprintf("xb%d", sc.K)
		kf, kerr := newKafkaFake(&sc, ep, topic)
		if kerr != nil {
			t.Fatalf("kafka fake: %v", kerr)
		}
		cleanup = kf.close
		cnt = countersOf(util.AddrToPath(kf.addr()), false)
		o0, e0 := cnt.out.Count(), cnt.errs.Count()
		// attempts completed so far: every one of them moved numOut (>= 1 item) or numErrFlush (1) before the
		// next SendMessages began
		ep.tagf = func() int { return int(cnt.out.Count() - o0 + cnt.errs.Count() - e0) }
		rt, err = route.NewKafkaMdm(key, matcher.Matcher{}, topic, "none", schemas, "byOrg", []string{kf.addr()}, sc.BufSize, 1,
			sc.FMax, sc.FMWms, 2000, sc.Blocking, false, false, "", "", false, "", "", "")
	case "pubsub":
		topic := fmt.Sprintf("xb-%d-%d", hx.Seed(), sc.K)
		full := "projects/xbatch/topics/" + topic
		psFake.mu.Lock()
		psFake.topics[full] = ep
		psFake.mu.Unlock()
		cleanup = func() {}
		cnt = countersOf(topic, true)
		rt, err = route.NewPubSub(key, matcher.Matcher{}, "xbatch", topic, sc.Format, sc.Codec, sc.BufSize, sc.FMax, sc.FMWms, sc.Blocking)
	case "cloudwatch":
		ns := fmt.Sprintf("xbatch-%d", sc.K)
		cw.mu.Lock()
		cw.eps[ns] = ep
		cw.mu.Unlock()
		cleanup = func() {}
		cnt = countersOf("cloudwatch", false)
		rt, err = route.NewCloudWatch(key, matcher.Matcher{}, "", cwRegion, ns, [][]string{{"relay", "verif"}}, sc.BufSize, sc.FMax, sc.FMWms, 60, sc.Blocking)
	default:
		t.Fatalf("kind %q", sc.Kind)
	}
	if err != nil {
		t.Fatalf("constructor of %s: %v", sc.Kind, err)
	}
	defer cleanup()
	drops0, errs0, out0, gauge0 := cnt.drops.Count(), cnt.errs.Count(), cnt.out.Count(), cnt.gauge.Value()
	var parse0 int64
	if cnt.parse != nil {
		parse0 = cnt.parse.Count()
	}

	// the dispatcher: one goroutine, created by this one
	var want int64 // accepted parsable items so far
	aborted := false
	id := 0
	type call struct {
		line []byte
		done chan struct{}
	}
	calls := make(chan call)
	go func() {
		for c := range calls {
			rt.Dispatch(c.line)
			close(c.done)
		}
	}()
	defer close(calls)

	dispatch := func(st step) bool {
		id++
		line, lerr := lineOf(sc.K, id, st.Sz, st.Bad)
		if lerr != nil {
			rec.add(event{"ev": "harness", "what": lerr.Error()})
			return false
		}
		sz := st.Sz
		if sz == 0 {
			sz = 1
		}
		// what the item adds to the pending batch: the line and its newline, or (pubsub pickle) the pickled point -
		// measured with the repository's own conversion
		asz := sz
		if sc.Kind == "pubsub" && sc.Format == "pickle" && st.Bad == 0 {
			dp, perr := dest.ParseDataPoint(line)
			if perr != nil {
				rec.add(event{"ev": "harness", "what": "a parsable line does not parse: " + perr.Error()})
				return false
			}
			asz = len(dest.Pickle(dp))
		}
		rec.add(event{"ev": "disp", "id": id, "sz": sz, "asz": asz, "bad": st.Bad != 0})
		d0 := cnt.drops.Count()
		c := call{line, make(chan struct{})}
		calls <- c
		t0 := time.Now()
		for {
			select {
			case <-c.done:
				status := "acc"
				if cnt.drops.Count() != d0 {
					status = "drop"
				} else if st.Bad == 0 {
					atomic.AddInt64(&want, 1)
				}
				rec.add(event{"ev": "ret", "id": id, "st": status})
				return true
			case <-time.After(time.Millisecond):
			}
			// a caller parked on the full buffer while the endpoint holds a send back: that is what the hold was
			// for; let the endpoint go on
			if sc.Blocking && ep.isHeld() && blockedIn(me, "route.dispatchBlocking(", "chan send") {
				rec.add(event{"ev": "parked", "id": id})
				ep.release()
			}
			if d := time.Since(t0); (!sc.Blocking && d > slowDispatch) || d > settleDeadline {
				rec.add(event{"ev": "stall", "id": id})
				return false
			}
		}
	}

	for _, st := range sc.Steps {
		if aborted {
			break
		}
		switch st.Op {
		case "d":
			if !dispatch(st) {
				aborted = true
			}
		case "q":
			deadline := time.Now().Add(settleDeadline)
			ok := false
			for {
				w := int(atomic.LoadInt64(&want))
				if sc.Kind == "kafka" {
					ok = int(cnt.out.Count()-out0) >= w
				} else {
					ok = ep.nSeen() >= w
				}
				if ok || time.Now().After(deadline) {
					break
				}
				time.Sleep(time.Millisecond)
			}
			rec.add(event{"ev": "settle", "ok": ok})
		case "i":
			deadline := time.Now().Add(settleDeadline)
			ok := false
			for {
				if cnt.gauge.Value() == gauge0 && loopState(me, sc.Kind) == "idle" && cnt.gauge.Value() == gauge0 {
					ok = true
					break
				}
				if time.Now().After(deadline) {
					break
				}
				time.Sleep(time.Millisecond)
			}
			rec.add(event{"ev": "idle", "ok": ok})
		case "hold":
			ep.hold()
		case "release":
			ep.release()
		case "y":
			time.Sleep(time.Duration(st.N) * time.Millisecond)
		}
	}
	progress.Emit(event{"k": sc.K, "at": "dispatched"})

	if aborted {
		ep.release()
		rec.add(event{"ev": "abort"})
		rec.mu.Lock()
		defer rec.mu.Unlock()
		return rec.evs
	}

	// Shutdown
	if sc.Shutdown != "held" {
		ep.release()
	} else {
		// give the route the time to run into the held endpoint (or to find nothing to send)
		deadline := time.Now().Add(2 * time.Second)
		for !ep.isHeld() && time.Now().Before(deadline) {
			if cnt.gauge.Value() == gauge0 && loopState(me, sc.Kind) == "idle" && cnt.gauge.Value() == gauge0 && !ep.isHeld() {
				break
			}
			time.Sleep(time.Millisecond)
		}
	}
	done := make(chan struct{})
	rec.add(event{"ev": "sdcall", "held": ep.isHeld(), "queued": int(cnt.gauge.Value() - gauge0)})
	go func() {
		rt.Shutdown()
		// recorded by the returning goroutine itself: nothing the route does afterwards can precede it
		rec.add(event{"ev": "sdret"})
		close(done)
	}()
	returned := false
	if sc.Shutdown == "held" {
		// the endpoint goes on once Shutdown has returned or is waiting for something
		deadline := time.Now().Add(harnessDeadline)
	wait:
		for {
			select {
			case <-done:
				returned = true
				break wait
			default:
			}
			if blockedIn(me, ").Shutdown(", "semacquire", "chan receive", "select", "sync.WaitGroup.Wait", "sync.Mutex.Lock", "sync.Cond.Wait", "chan send") {
				rec.add(event{"ev": "sdwaits"})
				break
			}
			if time.Now().After(deadline) {
				rec.add(event{"ev": "harness", "what": "the Shutdown call neither blocked nor returned"})
				break
			}
			time.Sleep(time.Millisecond)
		}
		ep.release()
	}
	if !returned {
		select {
		case <-done:
			returned = true
		case <-time.After(shutdownLimit):
			rec.add(event{"ev": "sdtimeout", "limit_s": int(shutdownLimit / time.Second)})
		}
	}
	// the run loop returns
	deadline := time.Now().Add(exitDeadline)
	gone := false
	for {
		if loopState(me, sc.Kind) == "gone" {
			gone = true
			break
		}
		if time.Now().After(deadline) {
			break
		}
		time.Sleep(time.Millisecond)
	}
	rec.add(event{"ev": "exit", "ok": gone})
	nparse := -1
	if cnt.parse != nil && sc.Format == "pickle" {
		nparse = int(cnt.parse.Count() - parse0)
	}
	ep.mu.Lock()
	nsend := ep.nsend
	ep.mu.Unlock()
	rec.add(event{"ev": "final", "drops": int(cnt.drops.Count() - drops0), "errs": int(cnt.errs.Count() - errs0),
		"nout": int(cnt.out.Count() - out0), "nparse": nparse, "gauge": int(cnt.gauge.Value() - gauge0), "sends": nsend})
	progress.Emit(event{"k": sc.K, "at": "done"})
	rec.mu.Lock()
	defer rec.mu.Unlock()
	return rec.evs
}

func TestBatch(t *testing.T) {
	out := hx.Out(t)
	scenFile := os.Getenv("VERIF_XB_SCEN")
	traceFile := os.Getenv("VERIF_XB_TRACE")
	if scenFile == "" || traceFile == "" {
		t.Skip("no scenario file")
	}
	log.SetOutput(ioutil.Discard)
	log.SetLevel(log.PanicLevel)
	stdlog.SetOutput(ioutil.Discard)
	stats.New("verif")

	lines, err := hx.ReadLines(scenFile)
	if err != nil {
		t.Fatal(err)
	}
	var scens []scenario
	for _, l := range lines {
		var sc scenario
		if err := json.Unmarshal(l, &sc); err != nil {
			t.Fatalf("bad scenario: %v", err)
		}
		scens = append(scens, sc)
	}
	schemas := filepath.Join(out, "xb-storage-schemas.conf")
	if err := ioutil.WriteFile(schemas, []byte("[default]\npattern = .*\nretentions = 10s:1d\n"), 0644); err != nil {
		t.Fatal(err)
	}

	// the fakes and the environment that leads the routes to them (before any route is created)
	if psFake, err = startPubsubFake(); err != nil {
		t.Fatal(err)
	}
	os.Setenv("PUBSUB_EMULATOR_HOST", psFake.addr)
	var certPEM []byte
	var proxy string
	if cw, certPEM, proxy, err = startCloudwatchFake(); err != nil {
		t.Fatal(err)
	}
	certFile := filepath.Join(out, "xb-cloudwatch-ca.pem")
	if err := ioutil.WriteFile(certFile, certPEM, 0644); err != nil {
		t.Fatal(err)
	}
	os.Setenv("SSL_CERT_FILE", certFile)
	os.Setenv("SSL_CERT_DIR", filepath.Join(out, "xb-no-such-dir"))
	os.Setenv("HTTPS_PROXY", "http://"+proxy)
	os.Setenv("https_proxy", "http://"+proxy)
	os.Unsetenv("NO_PROXY")
	os.Unsetenv("no_proxy")
	os.Setenv("AWS_ACCESS_KEY_ID", "AKIDVERIF")
	os.Setenv("AWS_SECRET_ACCESS_KEY", "verifsecret")
	os.Setenv("AWS_EC2_METADATA_DISABLED", "true")
	os.Unsetenv("AWS_PROFILE")
	os.Unsetenv("AWS_SDK_LOAD_CONFIG")
	os.Unsetenv("AWS_CA_BUNDLE")

	progress := hx.NewLog(filepath.Join(out, "batch_progress.ndjson"))
	progress.Unbuffered = true
	defer progress.Close()
	tr := hx.NewLog(traceFile)
	defer tr.Close()

	// kafka and pubsub scenarios run side by side (their counters are named after the broker address / the topic);
	// the cloudwatch counters have fixed names: those scenarios run one after the other, next to the rest
	par := hx.EnvInt("VERIF_XB_PAR", 4)
	results := make([][]event, len(scens))
	sem := make(chan struct{}, par)
	var wg sync.WaitGroup
	wg.Add(1)
	go func() {
		defer wg.Done()
		for i := range scens {
			if scens[i].Kind == "cloudwatch" {
				results[i] = runScenario(t, scens[i], schemas, progress)
			}
		}
	}()
	for i := range scens {
		if scens[i].Kind == "cloudwatch" {
			continue
		}
		wg.Add(1)
		sem <- struct{}{}
		go func(i int) {
			defer wg.Done()
			defer func() { <-sem }()
			results[i] = runScenario(t, scens[i], schemas, progress)
		}(i)
	}
	wg.Wait()
	for _, evs := range results {
		for _, e := range evs {
			tr.Emit(e)
		}
	}
	tr.Emit(event{"ev": "done"})
}
