module verifharness

go 1.13

require (
	cloud.google.com/go v0.18.1-0.20180119164648-b1067c1d21b5
	github.com/BurntSushi/toml v0.0.0-00010101000000-000000000000
	github.com/Dieterbe/go-metrics v0.0.0-20181015090856-87383909479d
	github.com/Shopify/sarama v1.23.0
	github.com/aws/aws-sdk-go v1.15.54
	github.com/golang/snappy v0.0.1
	github.com/grafana/carbon-relay-ng v0.0.0
	github.com/grafana/metrictank v1.0.1-0.20210114150051-52835b9a8775
	github.com/kisielk/og-rek v0.0.0-20170405223746-ec792bc6e6aa
	github.com/metrics20/go-metrics20 v0.0.0-20180821133656-717ed3a27bf9
	github.com/sirupsen/logrus v1.1.2-0.20181020050904-08e90462da34
	github.com/streadway/amqp v0.0.0-20170521212453-dfe15e360485
	google.golang.org/genproto v0.0.0-20171212231943-a8101f21cf98
	google.golang.org/grpc v1.2.1-0.20180119173759-b71aced4a2a1
)

replace github.com/grafana/carbon-relay-ng => /repo

replace github.com/cespare/xxhash => github.com/cespare/xxhash/v2 v2.1.1

replace github.com/BurntSushi/toml v0.0.0-00010101000000-000000000000 => github.com/Dieterbe/toml v0.2.1-0.20181015092100-96f3d827bb6c
