// Package destb records hook-level traces of real destinations for the extension check XDESTB:
// binding the level-B model spec/Destination.tla to destination/*.go.
//
// One scenario = one real destination.Destination (spool on or off) against one loopback endpoint that
// the driver takes up, down, cuts, pauses.  The hook function appends every verifEvent of that
// destination to ONE log under a mutex with a global sequence number, the role of the goroutine that
// fired it (relay / writer / eof / redo / spool-writer / spool-buffer; taken from the call stack), the
// connection as a small integer (order of first appearance) and line ids instead of payloads.  The
// driver's own endpoint operations go to the same log (role driver) with the sequence number at which
// the operation began.  The driver only records: spec/DestinationHookTrace.tla decides whether the log
// is a behaviour of Destination.tla.
package destb

import (
	"bytes"
	"encoding/json"
	"fmt"
	"io/ioutil"
	"net"
	"os"
	"path/filepath"
	"runtime"
	"strconv"
	"strings"
	"sync"
	"sync/atomic"
	"testing"
	"time"

	"verifharness/hx"

	"github.com/grafana/carbon-relay-ng/destination"
	"github.com/grafana/carbon-relay-ng/matcher"
	"github.com/grafana/carbon-relay-ng/stats"
)

type ev map[string]interface{}

type scenario struct {
	ID       int      `json:"id"`
	Name     string   `json:"name"`
	Spool    bool     `json:"spool"`
	ConnBuf  int      `json:"connbuf"`
	IoLines  int      `json:"iolines"` // io buffer = IoLines * LineLen bytes
	LineLen  int      `json:"linelen"` // bytes per line incl. the newline
	FlushMs  int      `json:"flush_ms"`
	ReconnMs int      `json:"reconn_ms"`
	SpoolBuf int      `json:"spoolbuf"`
	UnspUs   int      `json:"unspool_us"`
	KeepMs   int      `json:"keep_ms"` // keepSafe period
	Nmax     int      `json:"nmax"`
	SlowUs   int      `json:"slow_us"` // "slowwriter on": the connection writer is delayed this long after every write
	Steps    []string `json:"steps"`
}

// ---------------------------------------------------------------- recorder

type recorder struct {
	mu      sync.Mutex
	seq     int
	closed  bool
	lg      *hx.Log
	scn     int
	prefix  string
	conns   map[*destination.Conn]int
	counts  map[string]int
	lastEv  int64 // unix nano of the last hook event
	slowUs  int64 // delay of the connection writer after hd.written (slow endpoint emulation), 0 = off
	curConn int   // connection of the last relay.connUpdate, 0 after relay.dead
	dest    *destination.Destination
	ksOld   int
	ksNew   int
}

var recorders sync.Map // dest key -> *recorder

func roleOf(name string) string {
	switch {
	case strings.HasPrefix(name, "relay."), strings.HasPrefix(name, "send."), name == "spool.ok", name == "spool.drop", name == "drop.noconn":
		return "relay"
	case strings.HasPrefix(name, "hd."):
		return "writer"
	case strings.HasPrefix(name, "redo."):
		return "redo"
	case name == "spool.rt", name == "spool.bulk":
		return "spool-writer"
	case name == "spool.put":
		return "spool-buffer"
	}
	return ""
}

// stackRole names the goroutine by the function it runs (the hooks of close() are reached from three goroutines)
func stackRole() string {
	pc := make([]uintptr, 24)
	n := runtime.Callers(2, pc)
	fr := runtime.CallersFrames(pc[:n])
	for {
		f, more := fr.Next()
		fn := f.Function
		switch {
		case strings.Contains(fn, "(*Conn).HandleData"):
			return "writer"
		case strings.Contains(fn, "(*Conn).checkEOF"):
			return "eof"
		case strings.Contains(fn, "(*Conn).getRedo"), strings.Contains(fn, "(*Destination).collectRedo"):
			return "redo"
		case strings.Contains(fn, "(*Destination).relay"):
			return "relay"
		case strings.Contains(fn, "(*Spool).Writer"):
			return "spool-writer"
		case strings.Contains(fn, "(*Spool).Buffer"):
			return "spool-buffer"
		case strings.Contains(fn, "(*Destination).updateConn"):
			return "connector"
		}
		if !more {
			break
		}
	}
	return "other"
}

func (r *recorder) lineID(b []byte) int {
	if !bytes.HasPrefix(b, []byte(r.prefix)) {
		return -1
	}
	rest := b[len(r.prefix):]
	sp := bytes.IndexByte(rest, ' ')
	if sp <= 0 {
		return -1
	}
	id, err := strconv.Atoi(string(rest[:sp]))
	if err != nil {
		return -1
	}
	return id
}

func hook(name string, args ...interface{}) {
	if len(args) == 0 {
		return
	}
	key, _ := args[0].(string)
	v, ok := recorders.Load(key)
	if !ok {
		return
	}
	r := v.(*recorder)
	role := stackRole()
	if exp := roleOf(name); exp != "" && exp != role {
		// a hook reached from a goroutine other than the one the model attributes it to: recorded as such,
		// the trace spec has no action for it
		role = role + "!" + exp
	}
	var delay time.Duration
	r.mu.Lock()
	if r.closed {
		r.mu.Unlock()
		return
	}
	r.seq++
	e := ev{"seq": r.seq, "role": role, "ev": name, "scn": r.scn}
	var c *destination.Conn
	if len(args) > 1 {
		if cc, ok := args[1].(*destination.Conn); ok && cc != nil {
			c = cc
			id, seen := r.conns[cc]
			if !seen {
				id = len(r.conns) + 1
				r.conns[cc] = id
			}
			e["conn"] = id
		} else {
			e["conn"] = 0
		}
	}
	for _, a := range args[2:] {
		switch x := a.(type) {
		case []byte:
			e["id"] = r.lineID(x)
		}
	}
	switch name {
	case "relay.inConnUpdate":
		e["b"] = args[2].(bool)
	case "relay.tick":
		e["ncu"] = args[2].(int)
	case "relay.unspool":
		e["sn"] = args[3].(bool)
		e["sl"] = args[4].(bool)
	case "relay.loop":
		// the relay's slow flags (exported fields, written only by the relay goroutine, which is the one running this hook)
		if role == "relay" && r.dest != nil {
			e["sn"], e["sl"] = r.dest.SlowNow, r.dest.SlowLastLoop
		}
	case "relay.connUpdate":
		r.curConn = e["conn"].(int)
	case "relay.dead":
		r.curConn = 0
	case "hd.written", "hd.flush":
		var err error
		if x, ok := args[len(args)-1].(error); ok {
			err = x
		}
		e["err"] = err != nil
		if name == "hd.written" && err == nil {
			delay = time.Duration(atomic.LoadInt64(&r.slowUs)) * time.Microsecond
		}
	case "redo.ingested":
		e["n"] = args[2].(int)
	case "hd.added", "redo.start", "redo.drain":
		// the two generations of keepSafe at this moment (the rotation has no hook)
		o, n := c.VerifKeepSafeLens()
		e["old"], e["new"] = o, n
		r.ksOld, r.ksNew = o, n
	}
	r.counts[name]++
	r.lastEv = time.Now().UnixNano()
	r.lg.Emit(e)
	r.mu.Unlock()
	if delay > 0 {
		// the writer sits here as it would in a slow socket write; the mark tells the check that this goroutine did
		// nothing before this moment (it narrows the interval of its next event, it is not an event of the model)
		time.Sleep(delay)
		r.mu.Lock()
		if !r.closed {
			r.seq++
			r.lg.Emit(ev{"seq": r.seq, "role": role, "ev": "mark", "scn": r.scn, "conn": e["conn"]})
		}
		r.mu.Unlock()
	}
}

// now returns the current sequence number (the beginning of a driver operation)
func (r *recorder) now() int {
	r.mu.Lock()
	defer r.mu.Unlock()
	return r.seq
}

func (r *recorder) driver(name string, lo int, extra ev) {
	r.mu.Lock()
	r.seq++
	e := ev{"seq": r.seq, "role": "driver", "ev": name, "scn": r.scn, "lo": lo}
	for k, v := range extra {
		e[k] = v
	}
	r.lg.Emit(e)
	r.mu.Unlock()
}

func (r *recorder) count(name string) int {
	r.mu.Lock()
	defer r.mu.Unlock()
	return r.counts[name]
}

func (r *recorder) online() bool {
	r.mu.Lock()
	defer r.mu.Unlock()
	return r.curConn != 0
}

func (r *recorder) idleFor() time.Duration {
	r.mu.Lock()
	defer r.mu.Unlock()
	return time.Duration(time.Now().UnixNano() - r.lastEv)
}

func (r *recorder) ks() (int, int) {
	r.mu.Lock()
	defer r.mu.Unlock()
	return r.ksOld, r.ksNew
}

// ---------------------------------------------------------------- endpoint

type endpoint struct {
	port   int
	prefix string
	nmax   int

	mu     sync.Mutex
	ln     net.Listener
	conns  []net.Conn
	paused int32
	seen   []uint32
	dist   int64
	total  int64
	bad    int64
}

func (e *endpoint) addr() string { return "127.0.0.1:" + strconv.Itoa(e.port) }

func (e *endpoint) up() error {
	e.mu.Lock()
	defer e.mu.Unlock()
	if e.ln != nil {
		return nil
	}
	var ln net.Listener
	var err error
	for i := 0; i < 300; i++ {
		ln, err = net.Listen("tcp4", e.addr())
		if err == nil {
			break
		}
		time.Sleep(10 * time.Millisecond)
	}
	if err != nil {
		return err
	}
	e.ln = ln
	go e.accept(ln)
	return nil
}

func (e *endpoint) accept(ln net.Listener) {
	for {
		c, err := ln.Accept()
		if err != nil {
			return
		}
		e.mu.Lock()
		gone := e.ln != ln
		if !gone {
			e.conns = append(e.conns, c)
		}
		e.mu.Unlock()
		if gone {
			c.Close()
			continue
		}
		go e.read(c)
	}
}

func (e *endpoint) read(c net.Conn) {
	buf := make([]byte, 64*1024)
	var carry []byte
	for {
		if atomic.LoadInt32(&e.paused) == 1 {
			time.Sleep(time.Millisecond)
			continue
		}
		c.SetReadDeadline(time.Now().Add(20 * time.Millisecond)) // so that a pause takes effect
		n, err := c.Read(buf)
		if n > 0 {
			data := buf[:n]
			if len(carry) > 0 {
				data = append(carry, data...)
			}
			for {
				i := bytes.IndexByte(data, '\n')
				if i < 0 {
					break
				}
				e.line(data[:i])
				data = data[i+1:]
			}
			carry = append([]byte(nil), data...)
		}
		if err != nil {
			if ne, ok := err.(net.Error); ok && ne.Timeout() {
				continue
			}
			return
		}
	}
}

func (e *endpoint) line(l []byte) {
	atomic.AddInt64(&e.total, 1)
	if !bytes.HasPrefix(l, []byte(e.prefix)) {
		atomic.AddInt64(&e.bad, 1)
		return
	}
	rest := l[len(e.prefix):]
	sp := bytes.IndexByte(rest, ' ')
	if sp <= 0 {
		atomic.AddInt64(&e.bad, 1)
		return
	}
	id, err := strconv.Atoi(string(rest[:sp]))
	if err != nil || id < 1 || id > e.nmax {
		atomic.AddInt64(&e.bad, 1)
		return
	}
	if atomic.AddUint32(&e.seen[id], 1) == 1 {
		atomic.AddInt64(&e.dist, 1)
	}
}

// down closes the listener and every accepted connection
func (e *endpoint) down() {
	e.mu.Lock()
	if e.ln != nil {
		e.ln.Close()
		e.ln = nil
	}
	cs := e.conns
	e.conns = nil
	e.mu.Unlock()
	for _, c := range cs {
		c.Close()
	}
}

// cut closes the accepted connections, the listener stays
func (e *endpoint) cut() {
	e.mu.Lock()
	cs := e.conns
	e.conns = nil
	e.mu.Unlock()
	for _, c := range cs {
		c.Close()
	}
}

func (e *endpoint) missing(handed int) int {
	n := 0
	for i := 1; i <= handed; i++ {
		if atomic.LoadUint32(&e.seen[i]) == 0 {
			n++
		}
	}
	return n
}

var portCtr int32

func freePort() int {
	for i := 0; i < 5000; i++ {
		k := int(atomic.AddInt32(&portCtr, 1))
		p := 30000 + (os.Getpid()*137+k*19)%9000
		ln, err := net.Listen("tcp4", "127.0.0.1:"+strconv.Itoa(p))
		if err == nil {
			ln.Close()
			return p
		}
	}
	panic("no free port")
}

// ---------------------------------------------------------------- helpers

func poll(deadline time.Duration, cond func() bool) bool {
	t0 := time.Now()
	for {
		if cond() {
			return true
		}
		if time.Since(t0) > deadline {
			return false
		}
		time.Sleep(time.Millisecond)
	}
}

func counter(key, reason string) int64 {
	return stats.Counter("dest=" + key + ".unit=Metric.action=drop.reason=" + reason).Count()
}

func drops(key string) int64 {
	return counter(key, "slow_conn") + counter(key, "slow_spool") + counter(key, "conn_down_no_spool")
}

// mkLine: "<prefix><id> <pad> 1 1500000000", exactly linelen-1 bytes (the connection adds the newline)
func mkLine(prefix string, id, linelen int) []byte {
	head := prefix + strconv.Itoa(id) + " "
	tail := " 1 1500000000"
	pad := linelen - 1 - len(head) - len(tail)
	if pad < 1 {
		panic(fmt.Sprintf("linelen %d too small for prefix %q", linelen, prefix))
	}
	b := make([]byte, 0, linelen)
	b = append(b, head...)
	for i := 0; i < pad; i++ {
		b = append(b, byte('a'+i%26))
	}
	b = append(b, tail...)
	return b
}

var runTag = fmt.Sprintf("p%dt%d", os.Getpid(), time.Now().UnixNano()%100000)

const patience = 30 * time.Second

// ---------------------------------------------------------------- the driver

func TestDestB(t *testing.T) {
	out := hx.Out(t)
	p := os.Getenv("VERIF_DESTB_SCN")
	if p == "" {
		t.Fatal("VERIF_DESTB_SCN not set")
	}
	b, err := ioutil.ReadFile(p)
	if err != nil {
		t.Fatal(err)
	}
	var scns []scenario
	if err := json.Unmarshal(b, &scns); err != nil {
		t.Fatal(err)
	}
	destination.VerifSetHook(hook)
	lg := hx.NewLog(filepath.Join(out, "destb_trace.ndjson"))
	defer lg.Close()
	prog := hx.NewLog(filepath.Join(out, "destb_progress.ndjson"))
	prog.Unbuffered = true
	defer prog.Close()
	spoolRoot, err := ioutil.TempDir(hx.ShmBase(), "verif-destb-")
	if err != nil {
		spoolRoot, err = ioutil.TempDir(out, "verif-destb-")
		if err != nil {
			t.Fatal(err)
		}
	}
	defer os.RemoveAll(spoolRoot)
	for _, s := range scns {
		prog.Emit(ev{"ev": "start", "scn": s.ID, "name": s.Name})
		runScenario(s, spoolRoot, lg, prog)
		prog.Emit(ev{"ev": "end", "scn": s.ID})
	}
}

func runScenario(s scenario, spoolRoot string, lg *hx.Log, prog *hx.Log) {
	rname := fmt.Sprintf("xb%s_s%d", runTag, s.ID)
	prefix := "x" + strconv.Itoa(s.ID) + "."
	e := &endpoint{port: freePort(), prefix: prefix, nmax: s.Nmax, seen: make([]uint32, s.Nmax+2)}
	dir := filepath.Join(spoolRoot, rname)
	os.MkdirAll(dir, 0755)
	keep := time.Duration(s.KeepMs) * time.Millisecond
	if keep <= 0 {
		keep = 10 * time.Second
	}
	prev := destination.VerifSetKeepSafe(keep)
	defer destination.VerifSetKeepSafe(prev)
	unsp := time.Duration(s.UnspUs) * time.Microsecond
	if unsp <= 0 {
		unsp = time.Microsecond
	}
	m, _ := matcher.New("", "", "", "", "", "")
	d, err := destination.New(rname, m, e.addr(), dir, s.Spool, false,
		time.Duration(s.FlushMs)*time.Millisecond, time.Duration(s.ReconnMs)*time.Millisecond,
		s.ConnBuf, s.IoLines*s.LineLen, s.SpoolBuf, 4*1024*1024, 10000, time.Second, time.Microsecond, unsp)
	if err != nil {
		panic(err)
	}
	key := d.Key
	r := &recorder{lg: lg, scn: s.ID, prefix: prefix, conns: map[*destination.Conn]int{}, counts: map[string]int{},
		lastEv: time.Now().UnixNano(), dest: d}
	recorders.Store(key, r)
	base := drops(key)
	lg.Emit(ev{"seq": 0, "role": "driver", "ev": "scn", "scn": s.ID, "name": s.Name, "spool": s.Spool, "connbuf": s.ConnBuf,
		"iolines": s.IoLines, "spoolbuf": s.SpoolBuf})

	fail := func(what string) {
		r.mu.Lock()
		r.closed = true
		r.mu.Unlock()
		lg.Emit(ev{"seq": 0, "role": "driver", "ev": "timeout", "scn": s.ID, "what": what})
	}

	var next int64
	var bgOn int32
	var bg sync.WaitGroup
	send := func(n int, pauseEvery int, pause time.Duration) {
		for i := 0; i < n; i++ {
			id := int(atomic.LoadInt64(&next)) + 1
			if id > s.Nmax {
				return
			}
			d.In <- mkLine(prefix, id, s.LineLen)
			atomic.StoreInt64(&next, int64(id))
			if pauseEvery > 0 && id%pauseEvery == 0 {
				if pause > 0 {
					time.Sleep(pause)
				} else {
					runtime.Gosched()
				}
			}
		}
	}
	isUp := false
	started := false
	var start func()
	start = func() {
		if !started {
			started = true
			mode := "absent"
			if isUp {
				mode = "healthy"
			}
			lg.Emit(ev{"seq": 0, "role": "driver", "ev": "init", "scn": s.ID, "mode": mode})
			d.Run()
		}
	}
	accounted := func() bool {
		h := int(atomic.LoadInt64(&next))
		return int64(e.missing(h)) <= drops(key)-base
	}
	spoolEmpty := func() bool {
		return !s.Spool || (d.VerifSpoolDepth() == 0 && d.VerifSpoolBuffered() == 0)
	}
	for _, step := range s.Steps {
		prog.Emit(ev{"ev": "step", "scn": s.ID, "step": step})
		f := strings.Fields(step)
		n := 0
		if len(f) > 1 {
			n, _ = strconv.Atoi(f[1])
		}
		switch f[0] {
		case "run": // start the destination (the endpoint's state at this moment is the model's initial mode)
			start()
		case "up", "upnw":
			lo := r.now()
			if err := e.up(); err != nil {
				fail("listen: " + err.Error())
				return
			}
			isUp = true
			if started {
				r.driver("ep.up", lo, nil)
			}
			if f[0] == "up" {
				start()
				if !poll(patience, r.online) {
					fail("online after up")
					return
				}
			}
		case "down", "downnw":
			lo := r.now()
			e.down()
			isUp = false
			r.driver("ep.down", lo, nil)
			if f[0] == "down" {
				if !poll(patience, func() bool { return !r.online() }) {
					fail("offline after down")
					return
				}
			}
		case "cut", "cutnw":
			lo := r.now()
			r.driver("ep.closing", lo, nil)
			lo = r.now()
			e.cut()
			r.driver("ep.closed", lo, nil)
			if f[0] == "cut" {
				if !poll(patience, func() bool { return !r.online() }) {
					fail("offline after cut")
					return
				}
			}
		case "pause":
			lo := r.now()
			atomic.StoreInt32(&e.paused, 1)
			time.Sleep(25 * time.Millisecond) // readers notice within one read deadline
			r.driver("ep.pause", lo, nil)
		case "resume":
			lo := r.now()
			atomic.StoreInt32(&e.paused, 0)
			r.driver("ep.resume", lo, nil)
		case "slowwriter": // slowwriter on|off: delay the connection writer after every write (a slow socket)
			if f[1] == "on" {
				atomic.StoreInt64(&r.slowUs, int64(s.SlowUs))
			} else {
				atomic.StoreInt64(&r.slowUs, 0)
			}
		case "send": // send n [pauseEvery pauseUs]
			bg.Wait()
			pe, pu := 0, 0
			if len(f) > 3 {
				pe, _ = strconv.Atoi(f[2])
				pu, _ = strconv.Atoi(f[3])
			}
			send(n, pe, time.Duration(pu)*time.Microsecond)
		case "bg":
			bg.Wait()
			pe, pu := 0, 0
			if len(f) > 3 {
				pe, _ = strconv.Atoi(f[2])
				pu, _ = strconv.Atoi(f[3])
			}
			bg.Add(1)
			atomic.StoreInt32(&bgOn, 1)
			go func() {
				defer bg.Done()
				defer atomic.StoreInt32(&bgOn, 0)
				send(n, pe, time.Duration(pu)*time.Microsecond)
			}()
		case "join":
			bg.Wait()
		case "sleep":
			time.Sleep(time.Duration(n) * time.Millisecond)
		case "waithanded": // until the background sender has handed n more lines
			tgt := atomic.LoadInt64(&next) + int64(n)
			if tgt > int64(s.Nmax) {
				tgt = int64(s.Nmax)
			}
			poll(patience, func() bool { return atomic.LoadInt64(&next) >= tgt || atomic.LoadInt32(&bgOn) == 0 })
		case "online":
			if !poll(patience, r.online) {
				fail("online")
				return
			}
		case "offline":
			if !poll(patience, func() bool { return !r.online() }) {
				fail("offline")
				return
			}
		case "settle": // everything handed so far has arrived or is counted, the spool is empty
			if !s.Spool {
				time.Sleep(50 * time.Millisecond)
			} else if !poll(patience, func() bool { return accounted() && spoolEmpty() }) {
				fail("settle")
				return
			}
		case "backlog": // at least n lines in the disk spool
			poll(patience, func() bool { return d.VerifSpoolDepth() >= int64(n) })
		case "unspooling":
			b0 := r.count("relay.unspool")
			poll(patience, func() bool { return r.count("relay.unspool") > b0 })
		}
	}
	bg.Wait()
	if !isUp {
		lo := r.now()
		if err := e.up(); err != nil {
			fail("listen: " + err.Error())
			return
		}
		r.driver("ep.up", lo, nil)
	}
	start()
	atomic.StoreInt32(&e.paused, 0)
	atomic.StoreInt64(&r.slowUs, 0)
	// the endpoint stays up: wait until everything has arrived or is counted and the hooks are quiet
	// (without spool the lines queued for a connection that died are gone uncounted, by design: nothing to wait for)
	ok := poll(patience, func() bool { return r.online() && (!s.Spool || accounted()) && spoolEmpty() })
	if ok {
		time.Sleep(30 * time.Millisecond)
	}
	r.mu.Lock()
	r.closed = true
	total := r.seq
	cnt := map[string]int{}
	for k, v := range r.counts {
		cnt[k] = v
	}
	r.mu.Unlock()
	h := int(atomic.LoadInt64(&next))
	lg.Emit(ev{"seq": 0, "role": "driver", "ev": "final", "scn": s.ID, "handed": h, "missing": e.missing(h),
		"counted": int(drops(key) - base), "settled": ok, "events": total, "hooks": cnt, "malformed": int(atomic.LoadInt64(&e.bad)),
		"conns": len(r.conns)})
	// stop the goroutines of this destination (not recorded); never wait for ever
	done := make(chan struct{})
	go func() { d.Shutdown(); close(done) }()
	select {
	case <-done:
	case <-time.After(5 * time.Second):
	}
	e.down()
	recorders.Delete(key)
}
