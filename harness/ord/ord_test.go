// Package ord drives the real table.Table with order validation on (C19) from
// several goroutines and records, per call, when it started, when it
// returned and whether the point arrived at the route.  It only records; the
// linearization search and every verdict are TLC's (spec/OrderedTrace.tla).
package ord

import (
	"bytes"
	"encoding/json"
	"fmt"
	"math/rand"
	"os"
	"runtime"
	"strconv"
	"strings"
	"sync"
	"sync/atomic"
	"testing"
	"time"

	"verifharness/hx"

	"github.com/grafana/carbon-relay-ng/destination"
	"github.com/grafana/carbon-relay-ng/matcher"
	"github.com/grafana/carbon-relay-ng/rewriter"
	"github.com/grafana/carbon-relay-ng/route"
	"github.com/grafana/carbon-relay-ng/stats"
	"github.com/grafana/carbon-relay-ng/table"
	"github.com/grafana/carbon-relay-ng/validate"
	m20 "github.com/metrics20/go-metrics20/carbon20"
)

type call struct {
	Dot bool  `json:"dot"`
	Ts  int64 `json:"ts"`
}

type phase struct {
	H     int      `json:"h"`
	Calls [][]call `json:"calls"` // per goroutine
}

// capture route: marks the call id (carried in the value field) as forwarded
type capRoute struct {
	mu  sync.Mutex
	fwd map[string]int // "name callid ts" -> times seen
}

func (r *capRoute) Match(s []byte) bool { return true }
func (r *capRoute) Dispatch(buf []byte) {
	r.mu.Lock()
	r.fwd[string(buf)]++
	r.mu.Unlock()
}
func (r *capRoute) Snapshot() route.Snapshot { return route.Snapshot{Type: "capture", Key: "cap"} }
func (r *capRoute) Key() string              { return "cap" }
func (r *capRoute) Flush() error             { return nil }
func (r *capRoute) Shutdown() error          { return nil }
func (r *capRoute) GetDestination(index int) (*destination.Destination, error) {
	return nil, fmt.Errorf("capture route")
}
func (r *capRoute) DelDestination(index int) error { return fmt.Errorf("capture route") }
func (r *capRoute) UpdateDestination(index int, opts map[string]string) error {
	return fmt.Errorf("capture route")
}
func (r *capRoute) Update(opts map[string]string) error { return fmt.Errorf("capture route") }

// expOf: the result of a call as the driver saw it, written into its "begin" event; the trace specification uses it
// to prune its linearization search (the events are written after the calls of the history have returned)
func expOf(fwd bool) string {
	if fwd {
		return "a"
	}
	return "r"
}

func newTable(t *testing.T) (*table.Table, *capRoute) {
	cfg, err := table.NewTableConfig("/dev/shm/verif-c19-nospool", "24h",
		validate.LevelLegacy{Level: m20.NoneLegacy}, validate.LevelM20{Level: m20.NoneM20}, true)
	if err != nil {
		t.Fatal(err)
	}
	tbl := table.New(cfg)
	r := &capRoute{fwd: map[string]int{}}
	tbl.AddRoute(r)
	return tbl, r
}

func TestOrdered(t *testing.T) {
	hx.Out(t)
	lines, err := hx.ReadLines(os.Getenv("VERIF_ORD_SCN"))
	if err != nil {
		t.Fatal(err)
	}
	lg := hx.NewLog(os.Getenv("VERIF_ORD_TRACE"))
	defer lg.Close()
	tag := fmt.Sprintf("s%dp%dt%d", hx.Seed(), os.Getpid(), time.Now().UnixNano()%1000000)
	ooo := stats.Counter("unit=Err.type=out_of_order")
	var tbl *table.Table
	var cap *capRoute
	for pi, l := range lines {
		var ph phase
		if err := json.Unmarshal(l, &ph); err != nil {
			t.Fatal(err)
		}
		if pi%200 == 0 { // bad-metrics keeps one record per key: start a fresh table now and then
			if tbl != nil {
				close(tbl.In)
			}
			tbl, cap = newTable(t)
		}
		key := fmt.Sprintf("c19.%s.k%d", tag, ph.H) // unique to the run: validate's map is process-global
		lg.Emit(map[string]interface{}{"ev": "hist", "h": ph.H, "g": len(ph.Calls)})
		before := ooo.Count()
		// events are stamped from one atomic counter (begin before the call, end after it returned), so
		// their order is consistent with real time without a logger mutex spreading the callers out
		type rec struct {
			id, ts int64
			dot    bool
			line   string
			b, e   int64
			fwd    bool
			times  int
		}
		var wg sync.WaitGroup
		var seq int64
		var ready int64
		recs := make([][]rec, len(ph.Calls))
		nid := int64(0)
		for g := range ph.Calls {
			for _, c := range ph.Calls[g] {
				nid++
				name := key
				if c.Dot {
					name = "." + key
				}
				recs[g] = append(recs[g], rec{id: nid, ts: c.Ts, dot: c.Dot, line: fmt.Sprintf("%s %d %d", name, nid, c.Ts)})
			}
		}
		ng := int64(len(ph.Calls))
		for g := range ph.Calls {
			wg.Add(1)
			go func(rs []rec) {
				defer wg.Done()
				atomic.AddInt64(&ready, 1)
				for atomic.LoadInt64(&ready) < ng { // spin barrier: all callers enter together
					runtime.Gosched()
				}
				for i := range rs {
					r := &rs[i]
					buf := []byte(r.line)
					r.b = atomic.AddInt64(&seq, 1)
					tbl.Dispatch(buf)
					r.e = atomic.AddInt64(&seq, 1)
				}
			}(recs[g])
		}
		wg.Wait()
		nofwd := int64(0)
		evs := map[int64]map[string]interface{}{}
		for g := range recs {
			for i := range recs[g] {
				r := &recs[g][i]
				cap.mu.Lock()
				r.times = cap.fwd[r.line]
				cap.mu.Unlock()
				r.fwd = r.times > 0
				if !r.fwd {
					nofwd++
				}
				evs[r.b] = map[string]interface{}{"ev": "begin", "c": r.id, "ts": r.ts, "dot": r.dot, "exp": expOf(r.fwd)}
				evs[r.e] = map[string]interface{}{"ev": "end", "c": r.id, "fwd": r.fwd, "times": r.times}
			}
		}
		for q := int64(1); q <= seq; q++ {
			lg.Emit(evs[q])
		}
		delta := ooo.Count() - before
		// the bad-metrics record of this key (records travel through a buffered channel: poll)
		bad, badcall, baderr := false, int64(0), ""
		deadline := time.Now().Add(20 * time.Second)
		for {
			for _, r := range tbl.Bad().Get(24 * time.Hour) {
				if r.Metric == key {
					bad = true
					baderr = r.LastErr
					f := bytes.Fields([]byte(r.LastMsg))
					if len(f) == 3 && strings.TrimPrefix(string(f[0]), ".") == key {
						badcall, _ = strconv.ParseInt(string(f[1]), 10, 64)
					}
				}
			}
			if bad || nofwd == 0 || time.Now().After(deadline) {
				break
			}
			time.Sleep(time.Millisecond)
		}
		lg.Emit(map[string]interface{}{"ev": "fin", "ooo": delta, "bad": bad, "badcall": badcall, "baderr": baderr})
	}
	lg.Emit(map[string]interface{}{"ev": "done", "n": len(lines)})
}

// ---------------------------------------------------------------------------
// "Fold": a table with order validation on, a blacklist entry and rewriters that
// fold the k input names of a history into one emitted name.  All goroutines
// send points of all the names.  The driver records, per input name, the calls
// made on it (begin/end stamped from one atomic counter), whether each point
// arrived at the route (identified by the call id in the value field, whatever
// name it arrives under), the bad-metrics record of the input name, and for
// the history the calls made, the points that arrived and the increase of the
// out_of_order counter.  spec/OrderedTrace.tla decides, input name by input name.

type foldCall struct {
	K   int   `json:"k"`   // input name of the history
	Dot bool  `json:"dot"` // sent with a leading dot
	Ts  int64 `json:"ts"`
}

type foldPhase struct {
	H     int          `json:"h"`
	NK    int          `json:"nk"`  // number of input names
	Blk   int          `json:"blk"` // the input name that is blacklisted, -1: none
	RW    string       `json:"rw"`  // "regex": one regular-expression rewriter, "plain": one substring rewriter per variant
	Calls [][]foldCall `json:"calls"`
}

// capture route of the fold run: the value field of a point is its call id, unique in the run
type foldRoute struct {
	capRoute
	seen map[int64]int
	last map[int64]string
}

func (r *foldRoute) Dispatch(buf []byte) {
	f := bytes.Fields(buf)
	id := int64(-1)
	if len(f) == 3 {
		if v, err := strconv.ParseInt(string(f[1]), 10, 64); err == nil {
			id = v
		}
	}
	r.mu.Lock()
	r.seen[id]++
	r.last[id] = string(buf)
	r.mu.Unlock()
}

const foldMaxVariants = 6

func newFoldTable(t *testing.T, rw string) (*table.Table, *foldRoute) {
	cfg, err := table.NewTableConfig("/dev/shm/verif-c19-nospool", "24h",
		validate.LevelLegacy{Level: m20.NoneLegacy}, validate.LevelM20{Level: m20.NoneM20}, true)
	if err != nil {
		t.Fatal(err)
	}
	tbl := table.New(cfg)
	r := &foldRoute{seen: map[int64]int{}, last: map[int64]string{}}
	r.fwd = map[string]int{}
	tbl.AddRoute(r)
	// blacklisted variants are called w<i>x, the others v<i>x
	bl, err := matcher.New("", "", "", "", `\.w[0-9]+x\.`, "")
	if err != nil {
		t.Fatal(err)
	}
	tbl.AddBlacklist(&bl)
	if rw == "regex" {
		x, err := rewriter.New(`/\.[vw][0-9]+x\./`, ".", "", -1)
		if err != nil {
			t.Fatal(err)
		}
		tbl.AddRewriter(x)
	} else {
		for i := 0; i < foldMaxVariants; i++ {
			for _, c := range []string{"v", "w"} {
				x, err := rewriter.New(fmt.Sprintf(".%s%dx.", c, i), ".", "", -1)
				if err != nil {
					t.Fatal(err)
				}
				tbl.AddRewriter(x)
			}
		}
	}
	return tbl, r
}

func TestFold(t *testing.T) {
	hx.Out(t)
	lines, err := hx.ReadLines(os.Getenv("VERIF_ORD_SCN"))
	if err != nil {
		t.Fatal(err)
	}
	lg := hx.NewLog(os.Getenv("VERIF_ORD_TRACE"))
	defer lg.Close()
	tag := fmt.Sprintf("s%dp%dt%d", hx.Seed(), os.Getpid(), time.Now().UnixNano()%1000000)
	ooo := stats.Counter("unit=Err.type=out_of_order")
	type tb struct {
		tbl  *table.Table
		cap  *foldRoute
		used int
	}
	tables := map[string]*tb{}
	nid := int64(0) // call ids are unique in the run
	for _, l := range lines {
		var ph foldPhase
		if err := json.Unmarshal(l, &ph); err != nil {
			t.Fatal(err)
		}
		if ph.NK > foldMaxVariants {
			t.Fatalf("history %d: %d input names", ph.H, ph.NK)
		}
		x := tables[ph.RW]
		if x == nil || x.used >= 100 { // bad-metrics keeps one record per key: start a fresh table now and then
			if x != nil {
				close(x.tbl.In)
			}
			tbl, cap := newFoldTable(t, ph.RW)
			x = &tb{tbl: tbl, cap: cap}
			tables[ph.RW] = x
		}
		x.used++
		tbl, cap := x.tbl, x.cap
		// input names (unique to the run: validate's map is process-global) and the name they are emitted under
		keys := make([]string, ph.NK)
		for i := range keys {
			c := "v"
			if i == ph.Blk {
				c = "w"
			}
			keys[i] = fmt.Sprintf("c19f.%s.h%d.%s%dx.cpu", tag, ph.H, c, i)
		}
		type rec struct {
			id, ts int64
			k      int
			dot    bool
			line   string
			b, e   int64
			times  int
		}
		recs := make([][]rec, len(ph.Calls))
		for g := range ph.Calls {
			for _, c := range ph.Calls[g] {
				nid++
				name := keys[c.K]
				if c.Dot {
					name = "." + name
				}
				recs[g] = append(recs[g], rec{id: nid, ts: c.Ts, k: c.K, dot: c.Dot, line: fmt.Sprintf("%s %d %d", name, nid, c.Ts)})
			}
		}
		before := ooo.Count()
		var wg sync.WaitGroup
		var seq, ready int64
		ng := int64(len(ph.Calls))
		for g := range ph.Calls {
			wg.Add(1)
			go func(rs []rec) {
				defer wg.Done()
				atomic.AddInt64(&ready, 1)
				for atomic.LoadInt64(&ready) < ng { // spin barrier: all callers enter together
					runtime.Gosched()
				}
				for i := range rs {
					r := &rs[i]
					buf := []byte(r.line)
					r.b = atomic.AddInt64(&seq, 1)
					tbl.Dispatch(buf)
					r.e = atomic.AddInt64(&seq, 1)
				}
			}(recs[g])
		}
		wg.Wait()
		delta := ooo.Count() - before
		ncalls, nfwd := 0, 0
		missing := map[string]bool{} // input names with a point that did not arrive and that are not blacklisted
		evs := make([]map[int64]map[string]interface{}, ph.NK)
		for i := range evs {
			evs[i] = map[int64]map[string]interface{}{}
		}
		var emitted string
		for g := range recs {
			for i := range recs[g] {
				r := &recs[g][i]
				cap.mu.Lock()
				r.times = cap.seen[r.id]
				if r.times > 0 && emitted == "" {
					emitted = strings.Fields(cap.last[r.id])[0]
				}
				cap.mu.Unlock()
				ncalls++
				nfwd += r.times
				if r.times == 0 && r.k != ph.Blk {
					missing[keys[r.k]] = true
				}
				end, exp := "end", expOf(r.times > 0)
				if r.k == ph.Blk {
					end, exp = "endx", "?"
				}
				evs[r.k][r.b] = map[string]interface{}{"ev": "begin", "c": r.id, "ts": r.ts, "dot": r.dot, "exp": exp}
				evs[r.k][r.e] = map[string]interface{}{"ev": end, "c": r.id, "fwd": r.times > 0, "times": r.times}
			}
		}
		// the bad-metrics records of the input names (records travel through a buffered channel: poll)
		bad := map[string]string{}
		deadline := time.Now().Add(20 * time.Second)
		for {
			for _, r := range tbl.Bad().Get(24 * time.Hour) {
				bad[r.Metric] = r.LastMsg
			}
			n := 0
			for k := range missing {
				if _, ok := bad[k]; !ok {
					n++
				}
			}
			if n == 0 || time.Now().After(deadline) {
				break
			}
			time.Sleep(time.Millisecond)
		}
		for i := 0; i < ph.NK; i++ {
			lg.Emit(map[string]interface{}{"ev": "hist", "h": ph.H, "fam": "fold", "k": i, "name": keys[i], "blacklisted": i == ph.Blk,
				"emitted": emitted})
			for q := int64(1); q <= seq; q++ {
				if e, ok := evs[i][q]; ok {
					lg.Emit(e)
				}
			}
			msg, isbad := bad[keys[i]]
			badcall := int64(0)
			if f := strings.Fields(msg); isbad && len(f) == 3 && strings.TrimPrefix(f[0], ".") == keys[i] {
				badcall, _ = strconv.ParseInt(f[1], 10, 64)
			}
			lg.Emit(map[string]interface{}{"ev": "finp", "bad": isbad, "badcall": badcall})
		}
		lg.Emit(map[string]interface{}{"ev": "hist", "h": ph.H, "fam": "fold-total", "k": -1})
		lg.Emit(map[string]interface{}{"ev": "total", "n": ncalls, "fwd": nfwd, "ooo": delta})
	}
	lg.Emit(map[string]interface{}{"ev": "done", "n": len(lines)})
}

// ---------------------------------------------------------------------------
// "Many names": N distinct, realistic metric names, each dispatched exactly once
// with a positive timestamp, timestamps decreasing in dispatch order.  Every
// point is the first of its name.  The driver only records: how often each
// point arrived at the route, the increase of the out_of_order counter and
// the bad-metrics records; it writes the projection of the run to the names
// that did not arrive exactly once, the known colliding pairs and a seeded
// sample of the others.  spec/OrderedTrace.tla decides.

var (
	mnCPU     = []string{"user", "system", "idle", "iowait", "steal", "nice"}
	mnDisk    = []string{"read_bytes", "write_bytes", "iops"}
	mnSvc     = []string{"auth", "billing", "search", "checkout", "inventory"}
	mnApps    = []string{"frontend", "gateway", "worker", "scheduler"}
	mnRegions = []string{"us-east-1", "us-west-2", "eu-west-1", "eu-central-1", "ap-south-1"}
	mnNS      = []string{"default", "monitoring", "payments", "kube-system"}
	mnDeploy  = []string{"api", "web", "cache", "queue-consumer", "ingest", "cron"}
	mnDir     = []string{"rx", "tx"}
)

const mnTemplates = 8

// manyName is injective in n for every template t
func manyName(t int, n int) string {
	switch t {
	case 0:
		return fmt.Sprintf("servers.web%05d.cpu.%s", n/6, mnCPU[n%6])
	case 1:
		return fmt.Sprintf("servers.db%04d.disk.sd%c.%s", n/12, 'a'+byte((n/3)%4), mnDisk[n%3])
	case 2:
		return fmt.Sprintf("stats.timers.api.%s.endpoint%d.upper_90", mnSvc[n%5], n/5)
	case 3:
		return fmt.Sprintf("collectd.host-%06x.interface-eth%d.if_octets.%s", n/4, (n/2)%2, mnDir[n%2])
	case 4:
		return fmt.Sprintf("app.%s.region-%s.pod-%d.requests.count", mnApps[n%4], mnRegions[(n/4)%5], n/20)
	case 5:
		return fmt.Sprintf("k%d", n)
	case 6:
		return fmt.Sprintf("m.%x.v", n)
	default:
		return fmt.Sprintf("telemetry.prod.cluster-%02d.namespace-%s.deployment-%s.container-%d.memory.working_set_bytes",
			n%50, mnNS[(n/50)%4], mnDeploy[(n/200)%6], n/1200)
	}
}

// pairs of names of the templates above with equal 32-bit hashes, found offline by a search over 480 000 names
// (hash, name, name): whatever short key a register map might use, a few of the usual candidates are covered
// for every seed; the generic part is the number of names (birthday bound of a 32-bit key: ~77 000)
var mnCollide = [][3]string{
	{"fnv1a32", "stats.timers.api.billing.endpoint384.upper_90", "k19881"},
	{"fnv1a32", "stats.timers.api.inventory.endpoint1999.upper_90", "m.5026.v"},
	{"fnv1a32", "servers.db1928.disk.sdb.write_bytes", "app.worker.region-ap-south-1.pod-1219.requests.count"},
	{"fnv1_32", "k1818", "collectd.host-000531.interface-eth0.if_octets.rx"},
	{"fnv1_32", "telemetry.prod.cluster-46.namespace-kube-system.deployment-api.container-3.memory.working_set_bytes", "collectd.host-000747.interface-eth0.if_octets.rx"},
	{"fnv1_32", "app.gateway.region-ap-south-1.pod-604.requests.count", "k13434"},
	{"crc32ieee", "k6313", "app.frontend.region-us-east-1.pod-431.requests.count"},
	{"crc32ieee", "k15087", "servers.web02683.cpu.user"},
	{"crc32ieee", "servers.web00166.cpu.steal", "collectd.host-001371.interface-eth0.if_octets.tx"},
	{"crc32c", "app.scheduler.region-us-east-1.pod-150.requests.count", "collectd.host-000426.interface-eth1.if_octets.tx"},
	{"crc32c", "servers.web00456.cpu.user", "collectd.host-0007e0.interface-eth1.if_octets.tx"},
	{"crc32c", "m.1c4e.v", "collectd.host-000d1e.interface-eth1.if_octets.rx"},
	{"fnv1a64lo", "m.1a8b.v", "servers.web02312.cpu.user"},
	{"fnv1a64lo", "telemetry.prod.cluster-11.namespace-monitoring.deployment-cron.container-10.memory.working_set_bytes", "stats.timers.api.auth.endpoint3154.upper_90"},
	{"fnv1a64lo", "app.worker.region-ap-south-1.pod-429.requests.count", "k18678"},
	{"fnv1a64hi", "app.gateway.region-us-east-1.pod-222.requests.count", "k8565"},
	{"fnv1a64hi", "app.scheduler.region-us-west-2.pod-227.requests.count", "app.worker.region-eu-west-1.pod-519.requests.count"},
	{"fnv1a64hi", "stats.timers.api.checkout.endpoint196.upper_90", "k15436"},
	{"fnv1a64fold", "servers.web01272.cpu.user", "m.22ac.v"},
	{"fnv1a64fold", "k9750", "servers.db0977.disk.sdc.read_bytes"},
	{"fnv1a64fold", "app.scheduler.region-eu-west-1.pod-677.requests.count", "servers.db1460.disk.sdc.read_bytes"},
	{"fnv1_64lo", "collectd.host-000bde.interface-eth0.if_octets.rx", "stats.timers.api.billing.endpoint3140.upper_90"},
	{"fnv1_64lo", "collectd.host-000a02.interface-eth0.if_octets.tx", "k21467"},
	{"fnv1_64lo", "servers.web00369.cpu.idle", "servers.db1862.disk.sda.read_bytes"},
	{"adler32", "k120", "k201"},
	{"adler32", "k121", "k202"},
}

// capture route of the many-names run: the value field of a point is its index + 1
type manyRoute struct {
	capRoute
	names   []string
	ts      []uint32
	times   []int32
	total   int64
	garbled int64
	rmu     sync.Mutex
	revisit map[int]string // value id of a revisit call -> the line that arrived
}

func (r *manyRoute) Dispatch(buf []byte) {
	atomic.AddInt64(&r.total, 1)
	f := bytes.Fields(buf)
	if len(f) != 3 {
		atomic.AddInt64(&r.garbled, 1)
		return
	}
	id, err := strconv.Atoi(string(f[1]))
	if err == nil && id > len(r.names) && r.revisit != nil {
		// a revisit call (see TestManyNames): value id = len(names) + 1 + call number
		r.rmu.Lock()
		r.revisit[id] = string(buf)
		r.rmu.Unlock()
		return
	}
	if err != nil || id < 1 || id > len(r.names) || string(f[0]) != r.names[id-1] ||
		string(f[2]) != strconv.FormatUint(uint64(r.ts[id-1]), 10) {
		atomic.AddInt64(&r.garbled, 1)
		return
	}
	atomic.AddInt32(&r.times[id-1], 1)
}

func b2i(b bool) int {
	if b {
		return 1
	}
	return 0
}

func TestManyNames(t *testing.T) {
	hx.Out(t)
	n := hx.EnvInt("VERIF_ORD_MANY_N", 300000)
	nsample := hx.EnvInt("VERIF_ORD_MANY_SAMPLE", 2000)
	ng := hx.EnvInt("VERIF_ORD_MANY_G", 4)
	maxlist := hx.EnvInt("VERIF_ORD_MANY_MAXLIST", 400)
	lg := hx.NewLog(os.Getenv("VERIF_ORD_TRACE"))
	defer lg.Close()
	rng := rand.New(rand.NewSource(hx.Seed()*7919 + 19))

	// the names: the known pairs first, then n generated ones (different ranges of every template per seed)
	names := make([]string, 0, n+2*len(mnCollide))
	known := map[string]bool{}
	lists := make([][]int32, ng) // per goroutine: indices into names, disjoint
	for k, p := range mnCollide {
		for _, s := range p[1:] {
			if known[s] {
				t.Fatalf("name %q is twice in the list of pairs", s)
			}
			known[s] = true
			names = append(names, s)
		}
		_ = k
	}
	npair := len(names)
	var base [mnTemplates]int
	for i := range base {
		base[i] = rng.Intn(100000)
	}
	for i := 0; len(names) < npair+n; i++ {
		s := manyName(i%mnTemplates, i/mnTemplates+base[i%mnTemplates])
		if known[s] {
			continue
		}
		names = append(names, s)
	}
	total := len(names)
	// generated names round-robin over the goroutines; the two names of a known pair go to the same goroutine,
	// one right after the other, at a seeded position
	for i := npair; i < total; i++ {
		lists[i%ng] = append(lists[i%ng], int32(i))
	}
	for k := 0; k < npair/2; k++ {
		g := k % ng
		pos := rng.Intn(len(lists[g]) + 1)
		l := append([]int32{}, lists[g][:pos]...)
		a, b := int32(2*k), int32(2*k+1)
		if rng.Intn(2) == 0 {
			a, b = b, a
		}
		l = append(l, a, b)
		lists[g] = append(l, lists[g][pos:]...)
	}

	cfg, err := table.NewTableConfig("/dev/shm/verif-c19-nospool", "24h",
		validate.LevelLegacy{Level: m20.NoneLegacy}, validate.LevelM20{Level: m20.NoneM20}, true)
	if err != nil {
		t.Fatal(err)
	}
	tbl := table.New(cfg)
	cap := &manyRoute{names: names, ts: make([]uint32, total), times: make([]int32, total)}
	cap.fwd = map[string]int{}
	tbl.AddRoute(cap)

	ooo := stats.Counter("unit=Err.type=out_of_order")
	before := ooo.Count()
	// timestamps decrease in dispatch order (one step per 64 calls, so two calls in flight at the same moment
	// carry the same timestamp whichever enters the critical section first)
	const ts0 = 2000000000
	var ctr, ready int64
	var wg sync.WaitGroup
	t0 := time.Now()
	for g := 0; g < ng; g++ {
		wg.Add(1)
		go func(l []int32) {
			defer wg.Done()
			atomic.AddInt64(&ready, 1)
			for atomic.LoadInt64(&ready) < int64(ng) {
				runtime.Gosched()
			}
			buf := make([]byte, 0, 160)
			for _, i := range l {
				c := atomic.AddInt64(&ctr, 1)
				ts := uint32(ts0 - c/64)
				cap.ts[i] = ts
				buf = append(buf[:0], names[i]...)
				buf = append(buf, ' ')
				buf = strconv.AppendInt(buf, int64(i)+1, 10)
				buf = append(buf, ' ')
				buf = strconv.AppendUint(buf, uint64(ts), 10)
				tbl.Dispatch(buf)
			}
		}(lists[g])
	}
	wg.Wait()
	el := time.Since(t0)
	delta := ooo.Count() - before

	// revisit: the register of a name must still hold its accepted timestamp after millions of points of OTHER names.
	// The names dispatched first come back, one at a time: a point with the SAME timestamp (not newer: rejected,
	// counted, reported) and then one with a newer timestamp (accepted).
	nrev := hx.EnvInt("VERIF_ORD_MANY_REVISIT", 40)
	type rev struct {
		i          int
		cSame, cUp int
		fwdSame    bool
		fwdUp      bool
		oooSame    int64
		oooUp      int64
	}
	var revs []rev
	mainTotal := atomic.LoadInt64(&cap.total)
	cap.revisit = map[int]string{}
	for k := 0; k < nrev && k < len(lists[k%ng]); k++ {
		i := int(lists[k%ng][k/ng]) // among the first names each goroutine dispatched
		if cap.times[i] != 1 {
			continue
		}
		r := rev{i: i, cSame: total + 1 + 2*k, cUp: total + 2 + 2*k}
		for step, c := range []int{r.cSame, r.cUp} {
			ts := cap.ts[i]
			if step == 1 {
				ts = ts0 + 1 + uint32(k)
			}
			b0 := ooo.Count()
			line := []byte(names[i] + " " + strconv.Itoa(c) + " " + strconv.FormatUint(uint64(ts), 10))
			tbl.Dispatch(line)
			cap.rmu.Lock()
			_, fwd := cap.revisit[c]
			cap.rmu.Unlock()
			if step == 0 {
				r.fwdSame, r.oooSame = fwd, ooo.Count()-b0
			} else {
				r.fwdUp, r.oooUp = fwd, ooo.Count()-b0
			}
		}
		revs = append(revs, r)
	}
	_ = mainTotal
	delta = ooo.Count() - before // the rejections of the revisit calls belong to the totals

	// projection
	var odd []int // did not arrive exactly once
	for i := range cap.times {
		if cap.times[i] != 1 {
			odd = append(odd, i)
		}
	}
	proj := map[int]string{}
	var order []int
	add := func(i int, why string) {
		if _, ok := proj[i]; !ok {
			proj[i] = why
			order = append(order, i)
		}
	}
	for k, i := range odd {
		if k < maxlist {
			add(i, "odd")
		}
	}
	for i := 0; i < npair; i++ {
		add(i, "pair:"+mnCollide[i/2][0])
	}
	for k := 0; k < nsample; k++ {
		add(npair+rng.Intn(n), "sample")
	}
	// bad-metrics records (they travel through a buffered channel: poll until every point that did not arrive has one)
	bad := map[string]string{}
	deadline := time.Now().Add(20 * time.Second)
	for {
		for _, r := range tbl.Bad().Get(24 * time.Hour) {
			bad[r.Metric] = r.LastMsg
		}
		missing := 0
		for _, i := range odd {
			if cap.times[i] == 0 {
				if _, ok := bad[names[i]]; !ok {
					missing++
				}
			}
		}
		if missing == 0 || time.Now().After(deadline) {
			break
		}
		time.Sleep(5 * time.Millisecond)
	}
	for _, i := range order {
		c := int64(i) + 1
		lg.Emit(map[string]interface{}{"ev": "hist", "h": fmt.Sprintf("m%d", i), "fam": "many", "name": names[i], "why": proj[i]})
		lg.Emit(map[string]interface{}{"ev": "begin", "c": c, "ts": int64(cap.ts[i]), "dot": false, "exp": expOf(cap.times[i] > 0)})
		lg.Emit(map[string]interface{}{"ev": "end", "c": c, "fwd": cap.times[i] > 0, "times": int(cap.times[i])})
		msg, isbad := bad[names[i]]
		badcall := int64(0)
		if f := strings.Fields(msg); isbad && len(f) == 3 && f[0] == names[i] {
			badcall, _ = strconv.ParseInt(f[1], 10, 64)
		}
		lg.Emit(map[string]interface{}{"ev": "finp", "bad": isbad, "badcall": badcall})
	}
	for _, r := range revs {
		c1 := int64(r.i) + 1
		lg.Emit(map[string]interface{}{"ev": "hist", "h": fmt.Sprintf("r%d", r.i), "fam": "many", "name": names[r.i], "why": "revisit"})
		lg.Emit(map[string]interface{}{"ev": "begin", "c": c1, "ts": int64(cap.ts[r.i]), "dot": false, "exp": expOf(true)})
		lg.Emit(map[string]interface{}{"ev": "end", "c": c1, "fwd": true, "times": 1})
		lg.Emit(map[string]interface{}{"ev": "begin", "c": int64(r.cSame), "ts": int64(cap.ts[r.i]), "dot": false, "exp": expOf(r.fwdSame)})
		lg.Emit(map[string]interface{}{"ev": "end", "c": int64(r.cSame), "fwd": r.fwdSame, "times": b2i(r.fwdSame)})
		lg.Emit(map[string]interface{}{"ev": "begin", "c": int64(r.cUp), "ts": int64(ts0 + 1), "dot": false, "exp": expOf(r.fwdUp)})
		lg.Emit(map[string]interface{}{"ev": "end", "c": int64(r.cUp), "fwd": r.fwdUp, "times": b2i(r.fwdUp)})
		lg.Emit(map[string]interface{}{"ev": "finp", "bad": !r.fwdSame && r.oooSame == 1, "badcall": int64(r.cSame)})
	}
	oddnames := []string{}
	for k, i := range odd {
		if k < 40 {
			oddnames = append(oddnames, fmt.Sprintf("%s ts=%d arrived=%d", names[i], cap.ts[i], cap.times[i]))
		}
	}
	lg.Emit(map[string]interface{}{"ev": "hist", "h": "mtotal", "fam": "many-total"})
	lg.Emit(map[string]interface{}{"ev": "total", "n": total + 2*len(revs), "fwd": atomic.LoadInt64(&cap.total), "ooo": delta,
		"garbled": atomic.LoadInt64(&cap.garbled), "odd": len(odd), "listed": len(order), "oddnames": oddnames,
		"goroutines": ng, "pairs": npair / 2, "badrecords": len(bad), "dispatch_ms": el.Milliseconds(),
		"ts_hi": ts0, "ts_lo": ts0 - int64(total)/64, "revisited": len(revs)})
	lg.Emit(map[string]interface{}{"ev": "done", "n": total})
}
