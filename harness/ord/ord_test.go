// Package ord drives the real table.Table with order validation on (C19) from
// several goroutines and records, per call, when it started, when it
// returned and whether the point arrived at the route.  It only records; the
// linearization search and every verdict are TLC's (spec/OrderedTrace.tla).
package ord

import (
	"bytes"
	"encoding/json"
	"fmt"
	"os"
	"runtime"
	"strconv"
	"strings"
	"sync"
	"sync/atomic"
	"testing"
	"time"

	"verifharness/hx"

	"github.com/grafana/carbon-relay-ng/destination"
	"github.com/grafana/carbon-relay-ng/matcher"
	"github.com/grafana/carbon-relay-ng/route"
	"github.com/grafana/carbon-relay-ng/stats"
	"github.com/grafana/carbon-relay-ng/table"
	"github.com/grafana/carbon-relay-ng/validate"
	m20 "github.com/metrics20/go-metrics20/carbon20"
)

type call struct {
	Dot bool  `json:"dot"`
	Ts  int64 `json:"ts"`
}

type phase struct {
	H     int      `json:"h"`
	Calls [][]call `json:"calls"` // per goroutine
}

// capture route: marks the call id (carried in the value field) as forwarded
type capRoute struct {
	mu  sync.Mutex
	fwd map[string]int // "name callid ts" -> times seen
}

func (r *capRoute) Match(s []byte) bool { return true }
func (r *capRoute) Dispatch(buf []byte) {
	r.mu.Lock()
	r.fwd[string(buf)]++
	r.mu.Unlock()
}
func (r *capRoute) Snapshot() route.Snapshot { return route.Snapshot{Type: "capture", Key: "cap"} }
func (r *capRoute) Key() string              { return "cap" }
func (r *capRoute) Flush() error             { return nil }
func (r *capRoute) Shutdown() error          { return nil }
func (r *capRoute) GetDestination(index int) (*destination.Destination, error) {
	return nil, fmt.Errorf("capture route")
}
func (r *capRoute) DelDestination(index int) error { return fmt.Errorf("capture route") }
func (r *capRoute) UpdateDestination(index int, opts map[string]string) error {
	return fmt.Errorf("capture route")
}
func (r *capRoute) Update(opts map[string]string) error { return fmt.Errorf("capture route") }

var _ = matcher.Matcher{}

func newTable(t *testing.T) (*table.Table, *capRoute) {
	cfg, err := table.NewTableConfig("/dev/shm/verif-c19-nospool", "24h",
		validate.LevelLegacy{Level: m20.NoneLegacy}, validate.LevelM20{Level: m20.NoneM20}, true)
	if err != nil {
		t.Fatal(err)
	}
	tbl := table.New(cfg)
	r := &capRoute{fwd: map[string]int{}}
	tbl.AddRoute(r)
	return tbl, r
}

func TestOrdered(t *testing.T) {
	hx.Out(t)
	lines, err := hx.ReadLines(os.Getenv("VERIF_ORD_SCN"))
	if err != nil {
		t.Fatal(err)
	}
	lg := hx.NewLog(os.Getenv("VERIF_ORD_TRACE"))
	defer lg.Close()
	tag := fmt.Sprintf("s%dp%dt%d", hx.Seed(), os.Getpid(), time.Now().UnixNano()%1000000)
	ooo := stats.Counter("unit=Err.type=out_of_order")
	var tbl *table.Table
	var cap *capRoute
	for pi, l := range lines {
		var ph phase
		if err := json.Unmarshal(l, &ph); err != nil {
			t.Fatal(err)
		}
		if pi%200 == 0 { // bad-metrics keeps one record per key: start a fresh table now and then
			if tbl != nil {
				close(tbl.In)
			}
			tbl, cap = newTable(t)
		}
		key := fmt.Sprintf("c19.%s.k%d", tag, ph.H) // unique to the run: validate's map is process-global
		lg.Emit(map[string]interface{}{"ev": "hist", "h": ph.H, "g": len(ph.Calls)})
		before := ooo.Count()
		// events are stamped from one atomic counter (begin before the call, end after it returned), so
		// their order is consistent with real time without a logger mutex spreading the callers out
		type rec struct {
			id, ts int64
			dot    bool
			line   string
			b, e   int64
			fwd    bool
			times  int
		}
		var wg sync.WaitGroup
		var seq int64
		var ready int64
		recs := make([][]rec, len(ph.Calls))
		nid := int64(0)
		for g := range ph.Calls {
			for _, c := range ph.Calls[g] {
				nid++
				name := key
				if c.Dot {
					name = "." + key
				}
				recs[g] = append(recs[g], rec{id: nid, ts: c.Ts, dot: c.Dot, line: fmt.Sprintf("%s %d %d", name, nid, c.Ts)})
			}
		}
		ng := int64(len(ph.Calls))
		for g := range ph.Calls {
			wg.Add(1)
			go func(rs []rec) {
				defer wg.Done()
				atomic.AddInt64(&ready, 1)
				for atomic.LoadInt64(&ready) < ng { // spin barrier: all callers enter together
					runtime.Gosched()
				}
				for i := range rs {
					r := &rs[i]
					buf := []byte(r.line)
					r.b = atomic.AddInt64(&seq, 1)
					tbl.Dispatch(buf)
					r.e = atomic.AddInt64(&seq, 1)
				}
			}(recs[g])
		}
		wg.Wait()
		nofwd := int64(0)
		evs := map[int64]map[string]interface{}{}
		for g := range recs {
			for i := range recs[g] {
				r := &recs[g][i]
				cap.mu.Lock()
				r.times = cap.fwd[r.line]
				cap.mu.Unlock()
				r.fwd = r.times > 0
				if !r.fwd {
					nofwd++
				}
				evs[r.b] = map[string]interface{}{"ev": "begin", "c": r.id, "ts": r.ts, "dot": r.dot}
				evs[r.e] = map[string]interface{}{"ev": "end", "c": r.id, "fwd": r.fwd, "times": r.times}
			}
		}
		for q := int64(1); q <= seq; q++ {
			lg.Emit(evs[q])
		}
		delta := ooo.Count() - before
		// the bad-metrics record of this key (records travel through a buffered channel: poll)
		bad, badcall, baderr := false, int64(0), ""
		deadline := time.Now().Add(20 * time.Second)
		for {
			for _, r := range tbl.Bad().Get(24 * time.Hour) {
				if r.Metric == key {
					bad = true
					baderr = r.LastErr
					f := bytes.Fields([]byte(r.LastMsg))
					if len(f) == 3 && strings.TrimPrefix(string(f[0]), ".") == key {
						badcall, _ = strconv.ParseInt(string(f[1]), 10, 64)
					}
				}
			}
			if bad || nofwd == 0 || time.Now().After(deadline) {
				break
			}
			time.Sleep(time.Millisecond)
		}
		lg.Emit(map[string]interface{}{"ev": "fin", "ooo": delta, "bad": bad, "badcall": badcall, "baderr": baderr})
	}
	lg.Emit(map[string]interface{}{"ev": "done", "n": len(lines)})
}
