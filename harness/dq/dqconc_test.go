//go:build verif
// +build verif

// C09 with the consumer attached: the spool's SlowChan goroutine reads ReadChan() permanently, so the queue is
// closed and reopened while a consumer is taking messages and a producer may still be putting.  The driver records
// (per cycle: what Put accepted, what the consumer received, Depth() right after the reopen); QueueContractTrace.tla
// decides.  A message counts as delivered exactly when the consumer received it, as enqueued exactly when Put returned nil.
package dq

import (
	"fmt"
	"io/ioutil"
	stdlog "log"
	"math/rand"
	"os"
	"path/filepath"
	"sync"
	"sync/atomic"
	"testing"
	"time"

	"verifharness/hx"

	"github.com/grafana/carbon-relay-ng/nsqd"
)

func TestDQConcurrent(t *testing.T) {
	out := hx.Out(t)
	lg := hx.NewLog(os.Getenv("VERIF_DQC_TRACE"))
	defer lg.Close()
	stdlog.SetOutput(ioutil.Discard)
	nh := hx.EnvInt("VERIF_DQC_HISTORIES", 12)
	work := filepath.Join(out, "dqcwork")
	if st, err := os.Stat(hx.ShmBase()); err == nil && st.IsDir() {
		if d, err := ioutil.TempDir(hx.ShmBase(), "verif-dqc-"); err == nil {
			work = d
		}
	}
	defer os.RemoveAll(work)
	rng := rand.New(rand.NewSource(hx.Seed()*4099 + 9))
	for h := 0; h < nh; h++ {
		dir := filepath.Join(work, fmt.Sprintf("h%d", h))
		os.MkdirAll(dir, 0755)
		maxBytes := int64([]int{64, 200, 1024, 4096, 1 << 20}[rng.Intn(5)])
		syncEvery := int64([]int{1, 3, 50, 2500}[rng.Intn(4)])
		total := 2000 + rng.Intn(6000)
		cycles := 3 + rng.Intn(6)
		lg.Emit(map[string]interface{}{"ev": "hist", "h": h, "maxbytes": maxBytes, "syncevery": syncEvery, "total": total, "cycles": cycles})
		lens := map[int]int{}
		nextPut := 1
		delivered := 0
		bad := ""
		for c := 0; c < cycles && bad == ""; c++ {
			q := nsqd.NewDiskQueue("q", dir, maxBytes, syncEvery, time.Hour)
			dep := q.Depth()
			lg.Emit(map[string]interface{}{"ev": "depth", "v": dep, "cycle": c})
			last := c == cycles-1
			// the producer: puts go on while the consumer drains; some cycles close under a producer in flight
			var puts []int
			var pw sync.WaitGroup
			share := (total - nextPut + 1) / (cycles - c)
			if last {
				share = total - nextPut + 1
			}
			first := nextPut
			for i := 0; i < share; i++ {
				lens[first+i] = 4 + rng.Intn(60)
				if rng.Intn(40) == 0 {
					lens[first+i] = int(maxBytes) + rng.Intn(20) // larger than a segment
				}
			}
			var got []int
			var ngot int64
			stop := make(chan struct{})
			var cw sync.WaitGroup
			cw.Add(1)
			go func() { // the attached consumer
				defer cw.Done()
				for {
					select {
					case m := <-q.ReadChan():
						got = append(got, identify(m, lens))
						atomic.AddInt64(&ngot, 1)
					case <-stop:
						return
					}
				}
			}()
			var nput int64
			pw.Add(1)
			go func() {
				defer pw.Done()
				for i := 0; i < share; i++ {
					if q.Put(payload(first+i, lens[first+i])) != nil {
						return // the queue is closing: this and the following messages were not accepted
					}
					puts = append(puts, first+i)
					atomic.AddInt64(&nput, 1)
				}
			}()
			if last {
				pw.Wait()
				want := int64(first + share - 1 - delivered)
				dl := time.Now().Add(60 * time.Second)
				for atomic.LoadInt64(&ngot) < want && time.Now().Before(dl) {
					time.Sleep(time.Millisecond)
				}
				time.Sleep(5 * time.Millisecond) // anything beyond what was enqueued would show up now
			} else {
				// close while the consumer is attached and (every other cycle) the producer is still putting
				if c%2 == 0 {
					pw.Wait()
				}
				target := int64(50 + rng.Intn(400))
				dl := time.Now().Add(20 * time.Second)
				for atomic.LoadInt64(&ngot) < target && time.Now().Before(dl) {
					time.Sleep(50 * time.Microsecond)
				}
			}
			cdone := make(chan error, 1)
			go func() { cdone <- q.Close() }()
			select {
			case <-cdone:
			case <-time.After(30 * time.Second):
				bad = "close-hangs"
			}
			pw.Wait()
			close(stop)
			cw.Wait()
			nextPut = first + len(puts)
			for i := len(puts); i < share; i++ { // not accepted: the ids are reused by the next cycle
				delete(lens, first+i)
			}
			delivered += len(got)
			for _, id := range puts {
				lg.Emit(map[string]interface{}{"ev": "hook", "label": "w_write", "id": id})
			}
			for _, id := range got {
				lg.Emit(map[string]interface{}{"ev": "hook", "label": "take", "id": id})
			}
			lg.Emit(map[string]interface{}{"ev": "cycle", "cycle": c, "puts": len(puts), "takes": len(got), "producer_in_flight": c%2 == 1 && !last})
		}
		if bad != "" {
			lg.Emit(map[string]interface{}{"ev": "hang", "in": bad})
			continue
		}
		// at rest after the last close: everything enqueued was delivered
		q := nsqd.NewDiskQueue("q", dir, maxBytes, syncEvery, time.Hour)
		lg.Emit(map[string]interface{}{"ev": "depth", "v": q.Depth(), "cycle": cycles})
		q.Close()
		os.RemoveAll(dir)
	}
	lg.Emit(map[string]interface{}{"ev": "end"})
}
