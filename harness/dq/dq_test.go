// Package dq drives the real nsqd.DiskQueue for C08 (crash recovery at every
// filesystem step) and C09 (exact persistent FIFO).  It only records; the
// verdicts are taken by TLC on the recorded traces (QueueContractTrace.tla,
// DiskQueueTrace.tla).
package dq

import (
	"encoding/binary"
	"encoding/json"
	"fmt"
	"io/ioutil"
	stdlog "log"
	"math"
	"math/rand"
	"os"
	"path/filepath"
	"sort"
	"strings"
	"sync"
	"sync/atomic"
	"testing"
	"time"

	"verifharness/hx"

	"github.com/grafana/carbon-relay-ng/nsqd"
)

type op struct {
	Op  string `json:"op"`
	Len int    `json:"len"` // payload length in bytes (put)
}

type history struct {
	H         int   `json:"h"`
	MaxBytes  int64 `json:"maxbytes"`
	SyncEvery int64 `json:"syncevery"`
	Ops       []op  `json:"ops"`
	Crash     bool  `json:"crash"`    // enumerate crash points
	NoLevelB  bool  `json:"nolevelb"` // do not record level-B detail (long histories: it is large)
}

// payload of message id with length n. Laid out so that, with 8-byte cells
// (cell 0 = 4-byte length header + id), cell k>=1 is (id|1<<31, k).
func payload(id, n int) []byte {
	b := make([]byte, n+4)
	for off := 0; off < n+4; off += 8 {
		var c [8]byte
		if off == 0 {
			binary.BigEndian.PutUint32(c[4:], uint32(id))
		} else {
			binary.BigEndian.PutUint32(c[0:], uint32(id)|1<<31)
			binary.BigEndian.PutUint32(c[4:], uint32(off/8))
		}
		copy(b[off:], c[:])
	}
	return b[4 : n+4]
}

const sentinelID = 1 << 20

// identify returns the id of a delivered message (0 = not a message we enqueued, or altered)
func identify(msg []byte, lens map[int]int) int {
	if len(msg) < 4 {
		return 0
	}
	id := int(binary.BigEndian.Uint32(msg[:4]))
	n, ok := lens[id]
	if !ok || n != len(msg) {
		return 0
	}
	if string(payload(id, n)) != string(msg) {
		return 0
	}
	return id
}

// fsState is the content of the queue directory.
type fsState struct {
	files map[string][]byte
}

func readFS(dir string) fsState {
	st := fsState{files: map[string][]byte{}}
	ents, _ := ioutil.ReadDir(dir)
	for _, e := range ents {
		b, err := ioutil.ReadFile(filepath.Join(dir, e.Name()))
		if err == nil {
			st.files[e.Name()] = b
		}
	}
	return st
}

func (s fsState) key() string {
	names := make([]string, 0, len(s.files))
	for n := range s.files {
		names = append(names, n)
	}
	sort.Strings(names)
	var sb strings.Builder
	for _, n := range names {
		fmt.Fprintf(&sb, "%s:%d:%x|", n, len(s.files[n]), s.files[n])
	}
	return sb.String()
}

func (s fsState) write(dir string) {
	os.MkdirAll(dir, 0755)
	for n, b := range s.files {
		if err := ioutil.WriteFile(filepath.Join(dir, n), b, 0600); err != nil {
			panic(err)
		}
	}
}

// abstract view of the directory for the level-B trace: meta numbers, tmp numbers, cells per segment
func (s fsState) abstract() map[string]interface{} {
	out := map[string]interface{}{}
	segs := map[string]interface{}{}
	// five numbers + the number of bytes behind the canonical text (stale tail)
	parse := func(b []byte) []int64 {
		var v [6]int64
		n, _ := fmt.Sscanf(string(b), "%d\n%d,%d\n%d,%d\n", &v[0], &v[1], &v[2], &v[3], &v[4])
		if n != 5 {
			return nil
		}
		v[5] = int64(len(b) - len(fmt.Sprintf("%d\n%d,%d\n%d,%d\n", v[0], v[1], v[2], v[3], v[4])))
		return v[:]
	}
	bad := []string{}
	for n, b := range s.files {
		switch {
		case strings.HasSuffix(n, ".meta.dat"):
			out["meta"] = parse(b)
		case strings.HasSuffix(n, ".meta.dat.tmp"):
			out["tmp"] = parse(b)
		case strings.HasSuffix(n, ".bad"):
			bad = append(bad, n)
		case strings.HasSuffix(n, ".dat"):
			var num int
			fmt.Sscanf(n[len(n)-10:], "%06d.dat", &num)
			cells := [][2]int64{}
			for off := 0; off+8 <= len(b); off += 8 {
				w0 := binary.BigEndian.Uint32(b[off:])
				w1 := binary.BigEndian.Uint32(b[off+4:])
				if w0&(1<<31) != 0 {
					cells = append(cells, [2]int64{int64(w0 &^ (1 << 31)), int64(w1)})
				} else {
					cells = append(cells, [2]int64{int64(w1), 0})
				}
			}
			segs[fmt.Sprint(num)] = map[string]interface{}{"len": len(b), "cells": cells}
		}
	}
	out["segs"] = segs
	out["nbad"] = len(bad)
	return out
}

type marks struct{ N, C, WS, CS int }

type snapshot struct {
	fs    fsState
	m     marks
	label string
	lens  map[int]int
	evIdx int // index of the placeholder event in the history's event list
}

type recResult struct {
	D        []int
	Sentinel bool
	Hang     bool
	Panic    string
	Extra    int // messages delivered after the sentinel (must be 0)
	CloseErr string
	Skipped  bool
	// life after the recovery: three more messages enqueued and taken (put, take, put, put, take, take);
	// what came out, as 1..3 (0 = bytes that are none of them)
	Post []int
}

var hungRecoveries int32

// recover a snapshot: reopen the queue on its files, enqueue a sentinel, drain up to the sentinel.
func recoverSnapshot(dir string, h *history, s *snapshot) (res recResult) {
	os.RemoveAll(dir)
	s.fs.write(dir)
	defer os.RemoveAll(dir)
	q := nsqd.NewDiskQueue("q", dir, h.MaxBytes, h.SyncEvery, time.Hour)
	sent := payload(sentinelID, 12)
	lens := map[int]int{sentinelID: 12}
	for k, v := range s.lens {
		lens[k] = v
	}
	perr := make(chan error, 1)
	go func() { perr <- q.Put(sent) }()
	deadline := time.After(20 * time.Second)
	putDone := false
loop:
	for {
		select {
		case e := <-perr:
			putDone = true
			perr = nil
			if e != nil {
				res.CloseErr = "put: " + e.Error()
			}
		case msg := <-q.ReadChan():
			id := identify(msg, lens)
			if id == sentinelID {
				res.Sentinel = true
				break loop
			}
			res.D = append(res.D, id)
			if len(res.D) > 10000 {
				res.Hang = true // endless redelivery
				break loop
			}
		case <-deadline:
			res.Hang = true
			break loop
		}
	}
	if res.Sentinel {
		if !putDone {
			select {
			case <-perr:
			case <-time.After(20 * time.Second):
				res.Hang = true
			}
		}
		// nothing may follow the sentinel
		select {
		case <-q.ReadChan():
			res.Extra++
		case <-time.After(2 * time.Millisecond):
		}
	}
	if res.Sentinel && !res.Hang && res.Extra == 0 {
		// the restarted queue keeps spooling: writes interleaved with reads, sizes unlike each other
		res.Post = []int{}
		sizes := []int{12, 44, 4}
		for k := range sizes {
			lens[sentinelID+1+k] = sizes[k]
		}
		put := func(k int) bool {
			pe := make(chan error, 1)
			go func() { pe <- q.Put(payload(sentinelID+1+k, sizes[k])) }()
			select {
			case e := <-pe:
				if e != nil {
					res.CloseErr = "put: " + e.Error()
				}
				return true
			case <-time.After(20 * time.Second):
				res.Hang = true
				return false
			}
		}
		take := func() bool {
			select {
			case msg := <-q.ReadChan():
				id := identify(msg, lens)
				if id > sentinelID {
					res.Post = append(res.Post, id-sentinelID)
				} else {
					res.Post = append(res.Post, 0)
				}
				return true
			case <-time.After(20 * time.Second):
				res.Hang = true
				return false
			}
		}
		_ = put(0) && take() && put(1) && put(2) && take() && take()
		if !res.Hang {
			select {
			case <-q.ReadChan():
				res.Extra++
			case <-time.After(time.Millisecond):
			}
		}
	}
	if !res.Hang {
		done := make(chan error, 1)
		go func() { done <- q.Close() }()
		select {
		case e := <-done:
			if e != nil {
				res.CloseErr = e.Error()
			}
		case <-time.After(20 * time.Second):
			res.Hang = true
		}
	}
	return res
}

func postOf(res recResult) []int {
	if res.Post == nil {
		return []int{}
	}
	return res.Post
}

type recorder struct {
	mu     sync.Mutex
	dir    string
	events []map[string]interface{}
	m      marks
	lens   map[int]int
	snaps  []*snapshot
	crash  bool
	gotCh  chan int
	ackCh  chan struct{}
	lvlB   bool
	// second generation (a queue reopened on a crash snapshot, used further, crashed again)
	gen2    bool
	lastAbs int // identity of the message just taken (set before gotCh is written)
	pos     map[int]int
	parent  *snapshot
	x       []int
	xs      int
	ops2    []op
	stale   int // snapshots whose metadata file carries a stale tail of >= 2 bytes
	// probe: a dry run of a second history that only looks at the metadata file after each rename
	probe bool
}

func (r *recorder) hook(d *nsqd.DiskQueue, label string) {
	if r.probe {
		if label == "m_rename" {
			if b, err := ioutil.ReadFile(filepath.Join(r.dir, "q.diskqueue.meta.dat")); err == nil {
				if staleTail(fsState{files: map[string][]byte{"q.diskqueue.meta.dat": b}}) >= 2 {
					r.mu.Lock()
					r.stale++
					r.mu.Unlock()
				}
			}
		}
		return
	}
	takeID := 0
	if label == "take" {
		select {
		case takeID = <-r.gotCh:
		case <-time.After(20 * time.Second):
			takeID = -1
		}
	}
	r.mu.Lock()
	switch label {
	case "w_write":
		r.m.N++
	case "take":
		r.m.C++
	case "m_rename":
		r.m.WS, r.m.CS = r.m.N, r.m.C
	}
	ev := map[string]interface{}{"ev": "hook", "label": label}
	if label == "take" {
		ev["id"] = takeID
		if r.gen2 {
			ev["abs"] = r.lastAbs
		}
	}
	if label == "w_write" {
		ev["id"] = r.m.N
	}
	var fs fsState
	if r.lvlB || r.crash {
		fs = readFS(r.dir)
	}
	if r.lvlB {
		st := d.VerifState()
		ev["st"] = []int64{st.Depth, st.ReadFileNum, st.ReadPos, st.WriteFileNum, st.WritePos, st.NextReadFileNum, st.NextReadPos, b2i(st.NeedSync)}
		ev["fs"] = fs.abstract()
	}
	r.events = append(r.events, ev)
	if r.crash {
		lens := make(map[int]int, len(r.lens))
		for k, v := range r.lens {
			lens[k] = v
		}
		rec := map[string]interface{}{"ev": "rec", "label": label}
		r.events = append(r.events, rec)
		r.snaps = append(r.snaps, &snapshot{fs: fs, m: r.m, label: label, lens: lens, evIdx: len(r.events) - 1})
		if r.gen2 && staleTail(fs) >= 2 {
			r.stale++
		}
	}
	r.mu.Unlock()
	if label == "take" {
		r.ackCh <- struct{}{}
	}
}

func b2i(b bool) int64 {
	if b {
		return 1
	}
	return 0
}

func (r *recorder) emit(ev map[string]interface{}) {
	r.mu.Lock()
	r.events = append(r.events, ev)
	r.mu.Unlock()
}

var hookMu sync.Mutex
var curRec *recorder

func init() {
	nsqd.VerifHook = func(d *nsqd.DiskQueue, label string) {
		hookMu.Lock()
		r := curRec
		hookMu.Unlock()
		if r != nil {
			r.hook(d, label)
		}
	}
}

func setRec(r *recorder) {
	hookMu.Lock()
	curRec = r
	hookMu.Unlock()
}

// record runs one history on the real queue (one blocking call at a time, sync
// ticker at 1h so only counted syncs happen), recording hook events, client
// observations and, if h.Crash, a snapshot of the directory at every hook.
// Recording and recovery never overlap in time (the hook has no queue identity
// before NewDiskQueue returns).
func record(h *history, dir string, lvlB bool) *recorder {
	os.RemoveAll(dir)
	os.MkdirAll(dir, 0755)
	r := &recorder{dir: dir, lens: map[int]int{}, crash: h.Crash, gotCh: make(chan int, 1), ackCh: make(chan struct{}, 1), lvlB: lvlB}
	setRec(r)
	defer setRec(nil)
	var q nsqd.BackendQueue
	open := func() {
		r.emit(map[string]interface{}{"ev": "open"})
		q = nsqd.NewDiskQueue("q", dir, h.MaxBytes, h.SyncEvery, time.Hour)
	}
	closeq := func() bool {
		done := make(chan error, 1)
		go func() { done <- q.Close() }()
		select {
		case <-done:
		case <-time.After(20 * time.Second):
			r.emit(map[string]interface{}{"ev": "hang", "in": "close"})
			return false
		}
		r.emit(map[string]interface{}{"ev": "closed"})
		return true
	}
	depthAtRest := func(want int64) {
		// "at rest": poll until the expected value is reported or a generous deadline passes
		deadline := time.Now().Add(5 * time.Second)
		var d int64
		for {
			d = q.Depth()
			if d == want || time.Now().After(deadline) {
				break
			}
			time.Sleep(50 * time.Microsecond)
		}
		r.emit(map[string]interface{}{"ev": "depth", "v": d})
	}
	open()
	nput, ntake := 0, 0
	for _, o := range h.Ops {
		switch o.Op {
		case "put":
			nput++
			r.mu.Lock()
			r.lens[nput] = o.Len
			r.mu.Unlock()
			perr := make(chan error, 1)
			go func(id, n int) { perr <- q.Put(payload(id, n)) }(nput, o.Len)
			select {
			case e := <-perr:
				if e != nil {
					r.emit(map[string]interface{}{"ev": "puterr", "err": e.Error()})
				}
			case <-time.After(20 * time.Second):
				r.emit(map[string]interface{}{"ev": "hang", "in": "put"})
				return r
			}
			depthAtRest(int64(nput - ntake))
		case "take":
			select {
			case msg := <-q.ReadChan():
				ntake++
				id := 0
				r.mu.Lock()
				want, ok := r.lens[ntake]
				r.mu.Unlock()
				// C09 identity: byte equality with the message expected at this position
				if ok && len(msg) == want && string(msg) == string(payload(ntake, want)) {
					id = ntake
				} else {
					id = identify(msg, r.lens) // some other enqueued message, or 0
					if id == ntake {
						id = 0
					}
				}
				r.gotCh <- id
				select {
				case <-r.ackCh:
				case <-time.After(20 * time.Second):
					r.emit(map[string]interface{}{"ev": "hang", "in": "take-ack"})
					return r
				}
				depthAtRest(int64(nput - ntake))
			case <-time.After(20 * time.Second):
				r.emit(map[string]interface{}{"ev": "hang", "in": "take"})
				return r
			}
		case "reopen":
			if !closeq() {
				return r
			}
			open()
			depthAtRest(int64(nput - ntake))
		}
	}
	closeq()
	return r
}

// staleTail: bytes behind the canonical text of the metadata file (-1 = no parsable metadata file)
func staleTail(fs fsState) int {
	for n, b := range fs.files {
		if strings.HasSuffix(n, ".meta.dat") {
			var v [5]int64
			if k, _ := fmt.Sscanf(string(b), "%d\n%d,%d\n%d,%d\n", &v[0], &v[1], &v[2], &v[3], &v[4]); k != 5 {
				return -1
			}
			return len(b) - len(fmt.Sprintf("%d\n%d,%d\n%d,%d\n", v[0], v[1], v[2], v[3], v[4]))
		}
	}
	return -1
}

// tmpLen: length of the metadata temp file left in the snapshot (-1 = none)
func tmpLen(fs fsState) int {
	for n, b := range fs.files {
		if strings.HasSuffix(n, ".meta.dat.tmp") {
			return len(b)
		}
	}
	return -1
}

// gen2Ops draws the short second history: put small / put large (rolls the segment, which
// forces a sync) / take / take-all; the final Close completes a sync in any case.
func gen2Ops(rng *rand.Rand, h *history, variant int) []op {
	large := int(h.MaxBytes) + 1 // 4+len > maxBytesPerFile: the segment rolls
	if large < 4 {
		large = 4
	}
	if large%8 != 4 {
		large += (12 - large%8) % 8 // whole 8-byte cells, like the unit-scaled histories
	}
	if variant > 0 {
		// templates that move the reader and/or the writer to a fresh segment early: the positions
		// persisted by the first sync of this incarnation become short
		switch rng.Intn(5) {
		case 0:
			return []op{{Op: "takeall"}, {Op: "put", Len: large}}
		case 1:
			return []op{{Op: "put", Len: large}, {Op: "takeall"}}
		case 2:
			return []op{{Op: "put", Len: large}, {Op: "put", Len: 4}}
		case 3:
			return []op{{Op: "takeall"}, {Op: "put", Len: 4}, {Op: "put", Len: large}}
		default:
			return []op{{Op: "put", Len: 4}, {Op: "takeall"}}
		}
	}
	n := 2 + rng.Intn(3)
	if h.SyncEvery > int64(n) && h.SyncEvery <= 6 && rng.Intn(2) == 0 {
		n = int(h.SyncEvery) // enough loop iterations for a counted sync
	}
	var lens []int
	for _, o := range h.Ops {
		if o.Op == "put" && o.Len >= 4 {
			lens = append(lens, o.Len)
		}
	}
	ops := make([]op, 0, n)
	for i := 0; i < n; i++ {
		switch x := rng.Intn(20); {
		case x < 5:
			ops = append(ops, op{Op: "put", Len: []int{4, 12}[rng.Intn(2)]})
		case x < 7 && len(lens) > 0:
			ops = append(ops, op{Op: "put", Len: lens[rng.Intn(len(lens))]})
		case x < 11:
			ops = append(ops, op{Op: "put", Len: large})
		case x < 15:
			ops = append(ops, op{Op: "take"})
		default:
			ops = append(ops, op{Op: "takeall"})
		}
	}
	return ops
}

var gen2TakeHangs int

// record2 runs a short second history on a queue reopened on crash snapshot s (generation 2),
// recording and snapshotting at every hook like record.  x is what the recovery of the same
// snapshot delivered on another copy: the logical content of this incarnation is L = x ++ new
// puts, and the ids recorded for put / take / rec events are positions in L (0 = not in L).
func record2(h *history, dir string, s *snapshot, x []int, xs int, ops []op, probe bool) *recorder {
	os.RemoveAll(dir)
	s.fs.write(dir)
	lens := make(map[int]int, len(s.lens)+len(ops))
	nextAbs := 1
	for k, v := range s.lens {
		lens[k] = v
		if k >= nextAbs {
			nextAbs = k + 1
		}
	}
	r := &recorder{dir: dir, lens: lens, crash: true, gotCh: make(chan int, 1), ackCh: make(chan struct{}, 1),
		gen2: true, pos: map[int]int{}, parent: s, x: x, xs: xs, ops2: ops, probe: probe}
	for i, id := range x {
		r.pos[id] = i + 1
	}
	r.m = marks{N: len(x), C: 0, WS: xs, CS: 0}
	setRec(r)
	defer setRec(nil)
	r.emit(map[string]interface{}{"ev": "open"})
	q := nsqd.NewDiskQueue("q", dir, h.MaxBytes, h.SyncEvery, time.Hour)
	closeq := func() {
		done := make(chan error, 1)
		go func() { done <- q.Close() }()
		select {
		case <-done:
			r.emit(map[string]interface{}{"ev": "closed"})
		case <-time.After(20 * time.Second):
			r.emit(map[string]interface{}{"ev": "hang", "in": "close"})
		}
	}
	nput, ntake := 0, 0
	take := func() bool {
		select {
		case msg := <-q.ReadChan():
			ntake++
			r.mu.Lock()
			abs := identify(msg, r.lens)
			p := r.pos[abs]
			r.lastAbs = abs
			r.mu.Unlock()
			if r.probe {
				return true
			}
			r.gotCh <- p
			select {
			case <-r.ackCh:
			case <-time.After(20 * time.Second):
				r.emit(map[string]interface{}{"ev": "hang", "in": "take-ack"})
				return false
			}
			return true
		case <-time.After(20 * time.Second):
			// the recovery on the other copy delivered a message that this incarnation does not
			gen2TakeHangs++
			r.emit(map[string]interface{}{"ev": "hang", "in": "take"})
			return false
		}
	}
	for _, o := range ops {
		switch o.Op {
		case "put":
			nput++
			abs := nextAbs
			nextAbs++
			r.mu.Lock()
			r.lens[abs] = o.Len
			r.pos[abs] = len(x) + nput
			r.mu.Unlock()
			perr := make(chan error, 1)
			go func(id, n int) { perr <- q.Put(payload(id, n)) }(abs, o.Len)
			select {
			case e := <-perr:
				if e != nil {
					r.emit(map[string]interface{}{"ev": "puterr", "err": e.Error()})
				}
			case <-time.After(20 * time.Second):
				r.emit(map[string]interface{}{"ev": "hang", "in": "put"})
				return r
			}
		case "take":
			if len(x)+nput-ntake > 0 && !take() {
				return r
			}
		case "takeall":
			for len(x)+nput-ntake > 0 {
				if !take() {
					return r
				}
			}
		}
	}
	closeq()
	return r
}

func loadHistories(t *testing.T, path string) []*history {
	lines, err := hx.ReadLines(path)
	if err != nil {
		t.Fatalf("histories: %v", err)
	}
	var hs []*history
	for _, l := range lines {
		h := &history{}
		if err := json.Unmarshal(l, h); err != nil {
			t.Fatalf("history: %v", err)
		}
		hs = append(hs, h)
	}
	return hs
}

// TestDQ: VERIF_DQ_HIST = histories file, VERIF_DQ_TRACE = output trace file.
func TestDQ(t *testing.T) {
	out := hx.Out(t)
	hs := loadHistories(t, os.Getenv("VERIF_DQ_HIST"))
	lvlB := os.Getenv("VERIF_DQ_LEVELB") == "1"
	log := hx.NewLog(os.Getenv("VERIF_DQ_TRACE"))
	defer log.Close()
	progress := hx.NewLog(filepath.Join(out, "dq_progress.ndjson"))
	progress.Unbuffered = true
	stdlog.SetOutput(ioutil.Discard)
	defer progress.Close()
	// queue directories live on tmpfs when available: the queue fsyncs on every sync
	work := filepath.Join(out, "dqwork")
	if st, err := os.Stat(hx.ShmBase()); err == nil && st.IsDir() {
		if d, err := ioutil.TempDir(hx.ShmBase(), "verif-dq-"); err == nil {
			work = d
		}
	}
	defer os.RemoveAll(work)
	nworkers := hx.EnvInt("VERIF_DQ_WORKERS", 16)
	nrec, nuniq, nhung := 0, 0, 0
	const chunk = 64
	type job struct {
		h *history
		s *snapshot
		k string
	}
	recoverAll := func(jobs []job, results map[string]*recResult) {
		var mu sync.Mutex
		var wg sync.WaitGroup
		ch := make(chan job)
		for w := 0; w < nworkers; w++ {
			wg.Add(1)
			go func(w int) {
				defer wg.Done()
				for j := range ch {
					if atomic.LoadInt32(&hungRecoveries) >= 8 {
						// recoveries hang (20 s each): enough has been shown, skip the rest
						mu.Lock()
						results[j.k] = &recResult{Skipped: true}
						mu.Unlock()
						continue
					}
					progress.Emit(map[string]interface{}{"recovering": j.h.H, "label": j.s.label, "marks": j.s.m, "fs": j.s.fs.abstract(), "maxbytes": j.h.MaxBytes, "syncevery": j.h.SyncEvery, "ops": j.h.Ops})
					res := recoverSnapshot(filepath.Join(work, fmt.Sprintf("w%d", w)), j.h, j.s)
					if res.Hang {
						atomic.AddInt32(&hungRecoveries, 1)
					}
					mu.Lock()
					results[j.k] = &res
					mu.Unlock()
				}
			}(w)
		}
		for _, j := range jobs {
			ch <- j
		}
		close(ch)
		wg.Wait()
	}
	// second generation: budget of first-generation snapshots that are used further
	gen2Permille := hx.EnvInt("VERIF_DQ_GEN2_PERMILLE", 0)
	rng2 := rand.New(rand.NewSource(hx.Seed()*1000003 + 17))
	ngen2, nrec2, nuniq2, nstale2, ntried2 := 0, 0, 0, 0, 0
	var gen2RecordTime time.Duration
	gen2ByLabel := map[string]int{}
	for base := 0; base < len(hs); base += chunk {
		end := base + chunk
		if end > len(hs) {
			end = len(hs)
		}
		recs := make([]*recorder, end-base)
		for i := base; i < end; i++ {
			if nhung >= 5 {
				// the queue hangs: every further history would cost its 20 s timeouts; what is
				// recorded so far already shows it
				recs[i-base] = &recorder{events: []map[string]interface{}{{"ev": "skipped"}}}
				continue
			}
			recs[i-base] = record(hs[i], filepath.Join(work, "rec"), lvlB && !hs[i].NoLevelB)
			for _, ev := range recs[i-base].events {
				if ev["ev"] == "hang" {
					nhung++
					break
				}
			}
		}
		// recover every distinct (filesystem, marks) snapshot of the chunk in parallel
		results := map[string]*recResult{}
		var jobs []job
		for i, r := range recs {
			for _, s := range r.snaps {
				k := fmt.Sprintf("%d/%d/%v/%s", hs[base+i].MaxBytes, hs[base+i].SyncEvery, s.m, s.fs.key())
				if _, ok := results[k]; !ok {
					results[k] = nil
					jobs = append(jobs, job{hs[base+i], s, k})
				}
			}
		}
		recoverAll(jobs, results)
		nuniq += len(jobs)
		for i, r := range recs {
			h := hs[base+i]
			for _, s := range r.snaps {
				k := fmt.Sprintf("%d/%d/%v/%s", h.MaxBytes, h.SyncEvery, s.m, s.fs.key())
				res := results[k]
				ev := r.events[s.evIdx]
				d := res.D
				if d == nil {
					d = []int{}
				}
				ev["D"] = d
				ev["sentinel"] = res.Sentinel
				ev["hang"] = res.Hang
				ev["extra"] = res.Extra
				ev["post"] = postOf(*res)
				ev["err"] = res.CloseErr
				ev["skipped"] = res.Skipped
				ev["m"] = []int{s.m.N, s.m.C, s.m.WS, s.m.CS}
				nrec++
			}
			log.Emit(map[string]interface{}{"ev": "hist", "h": h.H, "maxbytes": h.MaxBytes, "syncevery": h.SyncEvery, "ops": h.Ops})
			for _, ev := range r.events {
				log.Emit(ev)
			}
		}

		// ---- second generation: a weighted seeded sample of the chunk's distinct crash snapshots is
		// reopened and used further (hooks recording and snapshotting again), then every distinct
		// second-generation snapshot is recovered like the first-generation ones.
		if gen2Permille <= 0 || nhung >= 5 || atomic.LoadInt32(&hungRecoveries) >= 8 || gen2TakeHangs >= 3 {
			continue
		}
		type cand struct {
			j   job
			key float64
		}
		var cands []cand
		for _, j := range jobs {
			res := results[j.k]
			if res == nil || res.Skipped || res.Hang || !res.Sentinel || res.Extra != 0 {
				continue
			}
			okx := true
			seen := map[int]bool{}
			for _, id := range res.D {
				if id <= 0 || seen[id] {
					okx = false
				}
				seen[id] = true
			}
			if !okx {
				continue
			}
			// crashes around the metadata temp file preferred, the more the longer the text left in it
			// (the shortest text has 10 bytes); non-empty content preferred
			w := 1.0
			switch j.s.label {
			case "m_tmp_write":
				w = 4
			case "m_tmp_create", "w_roll":
				w = 2
			}
			if tl := tmpLen(j.s.fs); tl > 0 {
				ex := float64(tl - 10)
				if ex > 5 {
					ex = 5
				}
				w *= 2 * (1 + ex) * (1 + ex)
			}
			if len(res.D) > 0 {
				w *= 2
			}
			cands = append(cands, cand{j, math.Pow(rng2.Float64(), 1/w)})
		}
		sort.SliceStable(cands, func(a, b int) bool { return cands[a].key > cands[b].key })
		quota := (len(jobs)*gen2Permille + 999) / 1000
		if quota > len(cands) {
			quota = len(cands)
		}
		var recs2 []*recorder
		var hs2 []*history
		t2 := time.Now()
		nsearch := 0
		for ci, c := range cands {
			// the first `quota` candidates get a random second history; candidates that left a
			// non-empty metadata temp file (up to 6 x quota of them) are also tried with the
			// segment-changing templates, and such a run is kept when it reproduces the left-over
			// temp file effect (a metadata file with a stale tail), up to `quota` of them
			search := tmpLen(c.j.s.fs) > 0 && ci < 6*quota && nsearch < quota
			if ci >= quota && !search {
				if ci >= 6*quota {
					break
				}
				continue
			}
			res := results[c.j.k]
			x := append([]int{}, res.D...)
			xs := 0
			for _, id := range x {
				if id <= c.j.s.m.WS {
					xs++
				}
			}
			for v := 0; v < 3; v++ {
				if gen2TakeHangs >= 3 || (v == 0 && ci >= quota) || (v > 0 && !search) {
					continue
				}
				ops := gen2Ops(rng2, c.j.h, v)
				progress.Emit(map[string]interface{}{"gen2": c.j.h.H, "label": c.j.s.label, "marks": c.j.s.m, "X": x, "ops2": ops, "fs": c.j.s.fs.abstract(), "maxbytes": c.j.h.MaxBytes, "syncevery": c.j.h.SyncEvery})
				ntried2++
				if v > 0 {
					// dry run first: keep the run only if it leaves a metadata file with a stale tail
					if record2(c.j.h, filepath.Join(work, "rec2"), c.j.s, x, xs, ops, true).stale == 0 {
						continue
					}
					nsearch++
				}
				r2 := record2(c.j.h, filepath.Join(work, "rec2"), c.j.s, x, xs, ops, false)
				recs2 = append(recs2, r2)
				hs2 = append(hs2, c.j.h)
				gen2ByLabel[c.j.s.label]++
			}
		}
		gen2RecordTime += time.Since(t2)
		results2 := map[string]*recResult{}
		var jobs2 []job
		key2 := func(h *history, s *snapshot) string {
			ids := make([]int, 0, len(s.lens))
			for id := range s.lens {
				ids = append(ids, id)
			}
			sort.Ints(ids)
			var sb strings.Builder
			for _, id := range ids {
				fmt.Fprintf(&sb, "%d:%d,", id, s.lens[id])
			}
			return fmt.Sprintf("%d/%d/%s/%s", h.MaxBytes, h.SyncEvery, sb.String(), s.fs.key())
		}
		keys2 := map[*snapshot]string{}
		for i, r := range recs2 {
			for _, s := range r.snaps {
				k := key2(hs2[i], s)
				keys2[s] = k
				if _, ok := results2[k]; !ok {
					results2[k] = nil
					jobs2 = append(jobs2, job{hs2[i], s, k})
				}
			}
		}
		recoverAll(jobs2, results2)
		nuniq2 += len(jobs2)
		for i, r := range recs2 {
			h := hs2[i]
			for _, s := range r.snaps {
				res := results2[keys2[s]]
				ev := r.events[s.evIdx]
				d := []int{}
				dabs := []int{}
				for _, id := range res.D {
					d = append(d, r.pos[id]) // position in L; 0 = not part of this incarnation's content
					dabs = append(dabs, id)
				}
				ev["D"] = d
				ev["Dabs"] = dabs
				ev["sentinel"] = res.Sentinel
				ev["hang"] = res.Hang
				ev["extra"] = res.Extra
				ev["post"] = postOf(*res)
				ev["err"] = res.CloseErr
				ev["skipped"] = res.Skipped
				ev["m"] = []int{s.m.N, s.m.C, s.m.WS, s.m.CS}
				ev["tail"] = staleTail(s.fs)
				nrec2++
			}
			nstale2 += r.stale
			ngen2++
			p := r.parent
			log.Emit(map[string]interface{}{"ev": "gen2", "h": h.H, "g": ngen2, "label": p.label, "x": len(r.x), "xs": r.xs, "X": r.x,
				"m1": []int{p.m.N, p.m.C, p.m.WS, p.m.CS}, "ops2": r.ops2, "maxbytes": h.MaxBytes, "syncevery": h.SyncEvery, "ops": h.Ops})
			for _, ev := range r.events {
				log.Emit(ev)
			}
		}
	}
	log.Emit(map[string]interface{}{"ev": "end", "histories": len(hs), "recoveries": nrec, "distinct_recoveries": nuniq,
		"gen2_runs": ngen2, "gen2_recoveries": nrec2, "gen2_distinct_recoveries": nuniq2, "gen2_stale_tail_snapshots": nstale2,
		"gen2_parents_by_label": gen2ByLabel, "gen2_runs_tried": ntried2, "gen2_record_ms": gen2RecordTime.Milliseconds()})
}
