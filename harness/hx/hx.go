// Package hx holds the small helpers shared by the conformance drivers.
package hx

import (
	"bufio"
	"encoding/json"
	"fmt"
	"os"
	"path/filepath"
	"strconv"
	"sync"
	"testing"
)

// Out returns the scratch directory of the current check run (VERIF_OUT).
func Out(t testing.TB) string {
	d := os.Getenv("VERIF_OUT")
	if d == "" {
		t.Skip("VERIF_OUT not set: drivers are run by bin/vcheck")
	}
	return d
}

func Seed() int64 {
	s, err := strconv.ParseInt(os.Getenv("VERIF_SEED"), 10, 64)
	if err != nil {
		return 1
	}
	return s
}

func Tier() string {
	if os.Getenv("VERIF_TIER") == "thorough" {
		return "thorough"
	}
	return "quick"
}

func EnvInt(name string, def int) int {
	v, err := strconv.Atoi(os.Getenv(name))
	if err != nil {
		return def
	}
	return v
}

// Log is a goroutine-safe ndjson writer.
type Log struct {
	// Unbuffered: flush after every line (progress logs that must survive a panic)
	Unbuffered bool

	mu  sync.Mutex
	f   *os.File
	w   *bufio.Writer
	seq int64
}

func NewLog(path string) *Log {
	os.MkdirAll(filepath.Dir(path), 0755)
	f, err := os.Create(path)
	if err != nil {
		panic(err)
	}
	return &Log{f: f, w: bufio.NewWriterSize(f, 1<<20)}
}

// Emit writes one JSON object per line. v is any JSON-encodable value.
func (l *Log) Emit(v interface{}) {
	b, err := json.Marshal(v)
	if err != nil {
		panic(fmt.Sprintf("hx.Log: %v", err))
	}
	l.mu.Lock()
	l.w.Write(b)
	l.w.WriteByte('\n')
	l.seq++
	if l.Unbuffered {
		l.w.Flush()
	}
	l.mu.Unlock()
}

func (l *Log) Close() {
	l.mu.Lock()
	l.w.Flush()
	l.f.Close()
	l.mu.Unlock()
}

// ReadLines reads an ndjson file into raw messages.
func ReadLines(path string) ([]json.RawMessage, error) {
	f, err := os.Open(path)
	if err != nil {
		return nil, err
	}
	defer f.Close()
	var out []json.RawMessage
	sc := bufio.NewScanner(f)
	sc.Buffer(make([]byte, 1<<20), 1<<28)
	for sc.Scan() {
		b := sc.Bytes()
		if len(b) == 0 {
			continue
		}
		c := make([]byte, len(b))
		copy(c, b)
		out = append(out, c)
	}
	return out, sc.Err()
}

// ShmBase is the directory under which drivers create their tmpfs scratch directories: a per-run
// directory that the orchestrator removes after the driver has finished (VERIF_SHM_BASE), or /dev/shm.
func ShmBase() string {
	if b := os.Getenv("VERIF_SHM_BASE"); b != "" {
		if st, err := os.Stat(b); err == nil && st.IsDir() {
			return b
		}
	}
	return "/dev/shm"
}
