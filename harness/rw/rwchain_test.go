//go:build verif
// +build verif

// C04 under run-time changes of the rewriter list (RewriteChain.tla): TLC-generated histories of AddRewriter /
// DelRewriter / Dispatch are replayed on ONE real table per history; the line captured behind the table is recorded
// for every dispatch and compared with the line TLC expects under the chain in force at that step.
package rw

import (
	"encoding/json"
	"os"
	"testing"

	"verifharness/hx"
)

type chainStep struct {
	Op   string          `json:"op"`
	Rule json.RawMessage `json:"rule"`
	I    int             `json:"i"`
	N    []int           `json:"n"`
}

type chainIn struct {
	H     int         `json:"h"`
	Steps []chainStep `json:"steps"`
}

func TestRWChain(t *testing.T) {
	hx.Out(t)
	lines, err := hx.ReadLines(os.Getenv("VERIF_RWCHAIN_CASES"))
	if err != nil {
		t.Fatal(err)
	}
	out := hx.NewLog(os.Getenv("VERIF_RWCHAIN_OUT"))
	defer out.Close()
	val := []byte("0xa.bp0")
	ts := []byte("0xb.ap0")
	for _, raw := range lines {
		var c chainIn
		if err := json.Unmarshal(raw, &c); err != nil {
			t.Fatal(err)
		}
		// one table for the whole history: whatever the table remembers from earlier steps is part of the test
		tab := newTable(t)
		cap := &capRoute{key: "cap"}
		tab.AddRoute(cap)
		got := make([]map[string]interface{}, 0, len(c.Steps))
		for k, st := range c.Steps {
			switch st.Op {
			case "add":
				var r rule
				if err := json.Unmarshal(st.Rule, &r); err != nil {
					t.Fatal(err)
				}
				rw, text, err := r.build()
				if err != nil {
					got = append(got, map[string]interface{}{"k": k, "op": "add", "err": text + ": " + err.Error()})
					continue
				}
				tab.AddRewriter(rw)
				got = append(got, map[string]interface{}{"k": k, "op": "add", "text": text, "len": len(tab.Snapshot().Rewriters)})
			case "del":
				e := tab.DelRewriter(st.I)
				es := ""
				if e != nil {
					es = e.Error()
				}
				got = append(got, map[string]interface{}{"k": k, "op": "del", "err": es, "len": len(tab.Snapshot().Rewriters)})
			case "disp":
				line := append(append(append(append(bs(st.N), ' '), val...), ' '), ts...)
				tab.Dispatch(line)
				o := map[string]interface{}{"k": k, "op": "disp", "got": false, "line": []int{}}
				if kk := cap.take(); len(kk) == 1 {
					o["got"] = true
					o["line"] = ints(kk[0].buf)
				} else {
					o["n"] = len(kk)
				}
				got = append(got, o)
			}
		}
		out.Emit(map[string]interface{}{"h": c.H, "steps": got})
	}
	out.Emit(map[string]interface{}{"h": -1, "steps": []int{}})
}
