//go:build verif
// +build verif

// Package rw is the conformance driver of property C04 (forwarded line = rewritten name +
// untouched value/timestamp; buffers isolated).  It only records: what the real rewriter, Table,
// input.Plain, routes, destination and aggregator did is written as ndjson and judged by TLC
// (spec/Rewrite.tla, spec/BufIso.tla, spec/BufIsoTrace.tla).
package rw

import (
	"bufio"
	"bytes"
	"encoding/json"
	"fmt"
	"io"
	"math/rand"
	"net"
	"os"
	"regexp"
	"strconv"
	"strings"
	"sync"
	"syscall"
	"testing"
	"time"

	"github.com/grafana/carbon-relay-ng/aggregator"
	dest "github.com/grafana/carbon-relay-ng/destination"
	"github.com/grafana/carbon-relay-ng/input"
	"github.com/grafana/carbon-relay-ng/matcher"
	"github.com/grafana/carbon-relay-ng/rewriter"
	"github.com/grafana/carbon-relay-ng/route"
	"github.com/grafana/carbon-relay-ng/stats"
	"github.com/grafana/carbon-relay-ng/table"
	"github.com/grafana/carbon-relay-ng/validate"

	"verifharness/hx"
)

// ---------------------------------------------------------------- rule ASTs (as printed by TLC)

type atom struct {
	Neg  bool  `json:"neg"`
	Cs   []int `json:"cs"`
	Plus bool  `json:"plus"`
}
type rx struct {
	Items  []atom  `json:"items"`
	Groups [][]int `json:"groups"`
	Astart bool    `json:"astart"`
	Aend   bool    `json:"aend"`
}
type tok struct {
	K  string `json:"k"`
	C  int    `json:"c"`
	N  int    `json:"n"`
	Br bool   `json:"br"`
}
type rule struct {
	Re    bool   `json:"re"`
	Old   []int  `json:"old"`
	New   []int  `json:"new"`
	Rx    rx     `json:"rx"`
	Tpl   []tok  `json:"tpl"`
	Notk  string `json:"notk"`
	Notl  []int  `json:"notl"`
	Notrx rx     `json:"notrx"`
	Max   int    `json:"max"`
}

func bs(a []int) []byte {
	b := make([]byte, len(a))
	for i, x := range a {
		b[i] = byte(x)
	}
	return b
}

func ints(b []byte) []int {
	a := make([]int, len(b))
	for i, x := range b {
		a[i] = int(x)
	}
	return a
}

func isAlnum(c int) bool {
	return (c >= '0' && c <= '9') || (c >= 'a' && c <= 'z') || (c >= 'A' && c <= 'Z')
}

// concretisation by construction: the regex text is built from the abstract syntax tree
func (a atom) render() string {
	var s string
	switch {
	case !a.Neg && len(a.Cs) == 1:
		s = regexp.QuoteMeta(string([]byte{byte(a.Cs[0])}))
	case a.Neg && len(a.Cs) == 0:
		s = "."
	default:
		s = "["
		if a.Neg {
			s += "^"
		}
		for _, c := range a.Cs {
			if isAlnum(c) {
				s += string([]byte{byte(c)})
			} else {
				s += fmt.Sprintf("\\x%02x", c)
			}
		}
		s += "]"
	}
	if a.Plus {
		s += "+"
	}
	return s
}

func (r rx) render() string {
	s := ""
	if r.Astart {
		s += "^"
	}
	for k := 1; k <= len(r.Items); k++ {
		for _, g := range r.Groups {
			if g[0] == k {
				s += "("
			}
		}
		s += r.Items[k-1].render()
		for _, g := range r.Groups {
			if g[1] == k {
				s += ")"
			}
		}
	}
	if r.Aend {
		s += "$"
	}
	return s
}

func renderTpl(t []tok) string {
	s := ""
	for _, x := range t {
		if x.K == "lit" {
			s += string([]byte{byte(x.C)})
		} else if x.Br {
			s += "${" + strconv.Itoa(x.N) + "}"
		} else {
			s += "$" + strconv.Itoa(x.N)
		}
	}
	return s
}

func (r rule) build() (rewriter.RW, string, error) {
	var old, new, not string
	if r.Re {
		old = "/" + r.Rx.render() + "/"
		new = renderTpl(r.Tpl)
	} else {
		old = string(bs(r.Old))
		new = string(bs(r.New))
	}
	switch r.Notk {
	case "lit":
		not = string(bs(r.Notl))
	case "re":
		not = "/" + r.Notrx.render() + "/"
	}
	rw, err := rewriter.New(old, new, not, r.Max)
	return rw, fmt.Sprintf("old=%q new=%q not=%q max=%d", old, new, not, r.Max), err
}

// ---------------------------------------------------------------- capture route

type kept struct {
	id  int
	buf []byte // the very slice the table handed over (kept, not copied)
}

// capRoute is a route.Route that keeps the slices it is given.
type capRoute struct {
	key   string
	mu    sync.Mutex
	items []kept
	on    func(c string, buf []byte) int // logs the delivery, returns the id
}

func (c *capRoute) Dispatch(buf []byte) {
	id := 0
	if c.on != nil {
		id = c.on(c.key, buf)
	}
	c.mu.Lock()
	c.items = append(c.items, kept{id, buf})
	c.mu.Unlock()
}
func (c *capRoute) Match(s []byte) bool { return true }
func (c *capRoute) Snapshot() route.Snapshot {
	return route.Snapshot{Type: "capture", Key: c.key}
}
func (c *capRoute) Key() string     { return c.key }
func (c *capRoute) Flush() error    { return nil }
func (c *capRoute) Shutdown() error { return nil }
func (c *capRoute) GetDestination(index int) (*dest.Destination, error) {
	return nil, fmt.Errorf("capture route")
}
func (c *capRoute) DelDestination(index int) error { return fmt.Errorf("capture route") }
func (c *capRoute) UpdateDestination(index int, opts map[string]string) error {
	return fmt.Errorf("capture route")
}
func (c *capRoute) Update(opts map[string]string) error { return fmt.Errorf("capture route") }
func (c *capRoute) take() []kept {
	c.mu.Lock()
	defer c.mu.Unlock()
	r := c.items
	c.items = nil
	return r
}

func newTable(t testing.TB) *table.Table {
	// the validation levels of the default configuration (cfg.NewConfig: medium / medium)
	var ll validate.LevelLegacy
	var lm validate.LevelM20
	if err := ll.UnmarshalText([]byte("medium")); err != nil {
		t.Fatal(err)
	}
	if err := lm.UnmarshalText([]byte("medium")); err != nil {
		t.Fatal(err)
	}
	cfg, err := table.NewTableConfig("", "24h", ll, lm, false)
	if err != nil {
		t.Fatal(err)
	}
	return table.New(cfg)
}

func clearRewriters(tab *table.Table) {
	for len(tab.Snapshot().Rewriters) > 0 {
		tab.DelRewriter(0)
	}
}

// ---------------------------------------------------------------- G: TLC-generated cases

type caseIn struct {
	Gid   int     `json:"gid"`
	Rules []rule  `json:"rules"`
	Val   []int   `json:"val"`
	Ts    []int   `json:"ts"`
	Names [][]int `json:"names"`
}
type caseOut struct {
	N   []int `json:"n"`
	Do  []int `json:"do"`  // rewriter.New(...).Do applied in order
	Tbl []int `json:"tbl"` // line captured behind a real Table with these rewriters
	Got bool  `json:"got"` // the table delivered a line
}

// TestRWCases applies the real rewriters to every TLC-generated (rule list, name) case.
func TestRWCases(t *testing.T) {
	hx.Out(t)
	lines, err := hx.ReadLines(os.Getenv("VERIF_RW_CASES"))
	if err != nil {
		t.Fatal(err)
	}
	out := hx.NewLog(os.Getenv("VERIF_RW_OUT"))
	defer out.Close()
	tab := newTable(t)
	cap := &capRoute{key: "cap"}
	tab.AddRoute(cap)
	for _, raw := range lines {
		var c caseIn
		if err := json.Unmarshal(raw, &c); err != nil {
			t.Fatal(err)
		}
		clearRewriters(tab)
		rws := make([]rewriter.RW, 0, len(c.Rules))
		texts := make([]string, 0, len(c.Rules))
		bad := ""
		for _, r := range c.Rules {
			rw, text, err := r.build()
			texts = append(texts, text)
			if err != nil {
				bad = text + ": " + err.Error()
				break
			}
			rws = append(rws, rw)
			tab.AddRewriter(rw)
		}
		if bad != "" {
			out.Emit(map[string]interface{}{"gid": c.Gid, "err": bad, "texts": texts, "outs": []caseOut{}})
			continue
		}
		outs := make([]caseOut, 0, len(c.Names))
		for _, n := range c.Names {
			name := bs(n)
			cur := append([]byte(nil), name...)
			for _, rw := range rws {
				cur = rw.Do(cur)
			}
			line := append([]byte(nil), name...)
			line = append(append(line, ' '), bs(c.Val)...)
			line = append(append(line, ' '), bs(c.Ts)...)
			tab.Dispatch(line)
			o := caseOut{N: n, Do: ints(cur), Tbl: []int{}}
			if k := cap.take(); len(k) == 1 {
				o.Got = true
				o.Tbl = ints(k[0].buf)
			}
			outs = append(outs, o)
		}
		out.Emit(map[string]interface{}{"gid": c.Gid, "err": "", "texts": texts, "outs": outs})
	}
}

// ---------------------------------------------------------------- T: buffer isolation traces

type scnIn struct {
	S     int    `json:"s"`
	Rules []rule `json:"rules"`
	Path  string `json:"path"` // "direct" | "plain"
	N     int    `json:"n"`
	Agg   bool   `json:"agg"`
	Dest  bool   `json:"dest"`
	Iobuf int    `json:"iobuf"`
	Pad   int    `json:"pad"`
	Chunk string `json:"chunk"` // plain: "line" | "split" | "multi"
}

type ev map[string]interface{}

// the driver's bookkeeping: which hand-off a token belongs to
type book struct {
	mu    sync.Mutex
	byTs  map[string]int
	byNum map[uint32]int
}

func (b *book) idOfLine(line []byte) int {
	f := bytes.Fields(line)
	if len(f) == 0 {
		return 0
	}
	b.mu.Lock()
	defer b.mu.Unlock()
	return b.byTs[string(f[len(f)-1])] // 0 when unknown
}

var wsRuns = []string{" ", " ", " ", "  ", "\t", " \t ", "\t\t", "   ", "\v", "\f", " \r "}
var valToks = []string{"1", "0", "42", "1e3", "0x1p-2", "+5", "-0", ".5", "5.", "-1.25e-7", "1E+2", "007", "3.0000000000000001",
	"12345678901234567890", "0X1P+3", "-.5e1", "1_0", "inf", "NaN", "1e", "0x", "1.5.5", "+Inf", "1e400", "4.9e-324"}

func spellTs(rng *rand.Rand, n uint32) string {
	s := strconv.FormatUint(uint64(n), 10)
	switch rng.Intn(8) {
	case 0:
		return "+" + s
	case 1:
		return s + ".0"
	case 2:
		return s + "."
	case 3:
		return "0" + s
	case 4:
		return s + "e0"
	case 5:
		return s + ".75"
	default:
		return s
	}
}

const nameAlpha = "ab.ab.ab.abcx-_0"

func drawName(rng *rand.Rand, pad int) string {
	n := 1 + rng.Intn(9)
	b := make([]byte, n)
	for i := range b {
		b[i] = nameAlpha[rng.Intn(len(nameAlpha))]
	}
	if pad > 0 {
		b = append(b, []byte("."+strings.Repeat("p", pad))...)
	}
	return string(b)
}

// endpoint is a loopback carbon endpoint that accepts at once but reads only when released.
type endpoint struct {
	ln      net.Listener
	release chan struct{}
	mu      sync.Mutex
	conns   []net.Conn // every accepted conn stays referenced
	lines   chan []byte
}

func newEndpoint(t testing.TB) *endpoint {
	lc := net.ListenConfig{Control: func(network, address string, c syscall.RawConn) error {
		return c.Control(func(fd uintptr) {
			syscall.SetsockoptInt(int(fd), syscall.SOL_SOCKET, syscall.SO_RCVBUF, 2048)
		})
	}}
	ln, err := lc.Listen(nil, "tcp", "127.0.0.1:0")
	if err != nil {
		t.Fatal(err)
	}
	e := &endpoint{ln: ln, release: make(chan struct{}), lines: make(chan []byte, 1<<20)}
	go func() {
		for {
			c, err := ln.Accept()
			if err != nil {
				return
			}
			e.mu.Lock()
			e.conns = append(e.conns, c)
			e.mu.Unlock()
			go func() {
				<-e.release
				sc := bufio.NewScanner(c)
				sc.Buffer(make([]byte, 1<<16), 1<<20)
				for sc.Scan() {
					e.lines <- append([]byte(nil), sc.Bytes()...)
				}
			}()
		}
	}()
	return e
}

func (e *endpoint) close() {
	e.ln.Close()
	e.mu.Lock()
	for _, c := range e.conns {
		c.Close()
	}
	e.mu.Unlock()
}

// scribbleReader feeds input.Plain.Handle.  bufio.Scanner hands Read the free part of its scan
// buffer; like the scanner itself does when it refills, the reader overwrites all of it.
type scribbleReader struct {
	chunks [][]byte
	before []func() // run right before chunk i is copied in (the previous Dispatch calls have returned)
	i      int
	atEOF  func()
	marks  []mark
	// what this reader has put into the scan buffer since the scanner last rewound it, and where the
	// last complete line of it lies; look is called with what the buffer shows there now
	resident       int
	lastOff, lastN int
	lastID         int
	look           func(id int, now []byte)
	rewound        func()
}

func (r *scribbleReader) Read(p []byte) (int, error) {
	if len(p) == 4096 && r.i > 0 {
		// the scanner has consumed everything and rewound: p is its whole buffer, which still holds
		// the previous chunks unless somebody wrote to it; from here on it is overwritten
		if r.lastID > 0 && r.look != nil && r.lastOff+r.lastN <= len(p) {
			r.look(r.lastID, p[r.lastOff:r.lastOff+r.lastN])
		}
		if r.rewound != nil {
			r.rewound()
		}
		r.resident = 0
	}
	r.lastID = 0
	for i := range p {
		p[i] = '#'
	}
	if r.i >= len(r.chunks) {
		if r.atEOF != nil {
			r.atEOF()
			r.atEOF = nil
		}
		return 0, io.EOF
	}
	if f := r.before[r.i]; f != nil {
		f()
	}
	c := r.chunks[r.i]
	if m := r.marks[r.i]; m.id > 0 {
		r.lastID, r.lastOff, r.lastN = m.id, r.resident+m.off, m.n
	}
	r.i++
	if len(c) > len(p) {
		panic("scribbleReader: chunk larger than the scanner's free buffer")
	}
	r.resident += len(c)
	return copy(p, c), nil
}

// mark: the last complete line that ends in a chunk (offset relative to the chunk start; a line that
// began in the previous chunk has a negative offset)
type mark struct{ id, off, n int }

var runSeq int
var aggInit sync.Once

// TestIso runs the isolation scenarios and records the trace.
func TestIso(t *testing.T) {
	hx.Out(t)
	lines, err := hx.ReadLines(os.Getenv("VERIF_RW_SCN"))
	if err != nil {
		t.Fatal(err)
	}
	log := hx.NewLog(os.Getenv("VERIF_RW_TRACE"))
	defer log.Close()
	info := hx.NewLog(os.Getenv("VERIF_RW_INFO"))
	defer info.Close()
	rng := rand.New(rand.NewSource(hx.Seed()*7919 + 17))
	for _, raw := range lines {
		var s scnIn
		if err := json.Unmarshal(raw, &s); err != nil {
			t.Fatal(err)
		}
		runScenario(t, s, rng, log, info)
	}
}

func runScenario(t *testing.T, s scnIn, rng *rand.Rand, log, info *hx.Log) {
	runSeq++
	tag := fmt.Sprintf("c04s%d_%d_%d", hx.Seed(), os.Getpid(), runSeq)
	log.Emit(ev{"ev": "scn", "s": s.S, "rules": s.Rules})
	bk := &book{byTs: map[string]int{}, byNum: map[uint32]int{}}
	tab := newTable(t)
	for _, r := range s.Rules {
		rw, text, err := r.build()
		if err != nil {
			t.Fatalf("scenario %d: rewriter %s: %v", s.S, text, err)
		}
		tab.AddRewriter(rw)
	}
	onDeliver := func(c string, buf []byte) int {
		id := bk.idOfLine(buf)
		log.Emit(ev{"ev": "deliver", "c": c, "id": id, "at": ints(buf)})
		return id
	}
	k1 := &capRoute{key: "k1", on: onDeliver}
	k2 := &capRoute{key: "k2", on: onDeliver}

	// aggregator with a clock and a tick we own; its output comes to us, not to the table
	var agg *aggregator.Aggregator
	aggOut := make(chan []byte)
	aggTick := make(chan time.Time)
	if s.Agg {
		aggInit.Do(aggregator.InitMetrics)
		m, err := matcher.New("", "", "", "", "(?s)^(.*)$", "")
		if err != nil {
			t.Fatal(err)
		}
		agg, err = aggregator.NewMocked("sum", m, "$1", false, 1, 10, false, aggOut, s.N+16,
			func() time.Time { return time.Unix(1000, 0) }, aggTick)
		if err != nil {
			t.Fatal(err)
		}
		tab.AddAggregator(agg)
	}

	// k1 | real sendAllMatch route with a real destination | k2   (table order)
	tab.AddRoute(k1)
	var ep *endpoint
	var rt route.Route
	if s.Dest {
		ep = newEndpoint(t)
		m, _ := matcher.New("", "", "", "", "", "")
		d, err := dest.New(tag, m, ep.ln.Addr().String(), "", false, false, 20*time.Millisecond, 500*time.Millisecond,
			100000, s.Iobuf, 10, 1000, 1000, time.Second, time.Millisecond, time.Millisecond)
		if err != nil {
			t.Fatal(err)
		}
		rt, err = route.NewSendAllMatch(tag, m, []*dest.Destination{d})
		if err != nil {
			t.Fatal(err)
		}
		deadline := time.Now().Add(60 * time.Second)
		for !rt.Snapshot().Dests[0].Online {
			if time.Now().After(deadline) {
				t.Fatalf("scenario %d: destination did not come online", s.S)
			}
			time.Sleep(2 * time.Millisecond)
		}
		tab.AddRoute(rt)
	}
	tab.AddRoute(k2)

	// the lines: layout and spellings drawn from the seed
	tsBase := uint32(100000 + rng.Intn(1000000))
	nextID := 0
	mkLine := func(pad int, safe bool) []byte {
		nextID++
		tsNum := tsBase + uint32(nextID)*3
		tsTok := spellTs(rng, tsNum)
		val := valToks[rng.Intn(len(valToks))]
		if rng.Intn(3) == 0 {
			val = strconv.FormatFloat(rng.NormFloat64()*1000, 'g', -1, 64)
		}
		if safe {
			val = "1"
		}
		lead, trail := "", ""
		if rng.Intn(4) == 0 {
			lead = wsRuns[rng.Intn(len(wsRuns))]
		}
		if rng.Intn(4) == 0 {
			trail = wsRuns[rng.Intn(len(wsRuns))]
		}
		line := lead + drawName(rng, pad) + wsRuns[rng.Intn(len(wsRuns))] + val + wsRuns[rng.Intn(len(wsRuns))] + tsTok + trail
		bk.mu.Lock()
		bk.byTs[tsTok] = nextID
		bk.byNum[tsNum] = nextID
		bk.mu.Unlock()
		return []byte(line)
	}
	pad := s.Pad
	if s.Agg && s.Dest {
		t.Fatalf("scenario %d: agg and dest are separate scenarios", s.S)
	}

	// --- the aggregator is parked inside a flush (blocked on its unread output channel), so that
	// everything dispatched from now on stays in its inbox until we read that output
	var aggSaw []ev
	recordAgg := func(b []byte) {
		f := bytes.Split(b, []byte(" "))
		id := 0
		name := b
		if len(f) >= 3 {
			name = bytes.Join(f[:len(f)-2], []byte(" "))
			if n, err := strconv.ParseUint(string(f[len(f)-1]), 10, 32); err == nil {
				bk.mu.Lock()
				id = bk.byNum[uint32(n)]
				bk.mu.Unlock()
			}
		}
		aggSaw = append(aggSaw, ev{"ev": "aggsaw", "id": id, "name": ints(name)})
	}
	far := time.Unix(1<<31, 0)
	direct := func(line []byte, cbuf []byte) {
		n := copy(cbuf, line)
		log.Emit(ev{"ev": "fill", "b": ints(cbuf[:n])})
		log.Emit(ev{"ev": "handoff", "id": nextID})
		tab.Dispatch(cbuf[:n])
		log.Emit(ev{"ev": "ret", "id": nextID, "b": ints(cbuf[:n])})
		for i := range cbuf {
			cbuf[i] = '#'
		}
		log.Emit(ev{"ev": "fill", "b": ints(cbuf[:n])})
	}
	cbuf := make([]byte, 4096)
	var aggIn0 int64
	if s.Agg {
		// primer: one ordinary line (hand-off 1); once the aggregator has taken it, a tick makes its
		// loop flush that bucket, and the flush blocks on aggOut, which nobody reads yet
		inCtr := stats.Counter("unit=Metric.direction=in.aggregator=" + agg.Key)
		aggIn0 = inCtr.Count()
		direct(mkLine(0, true), cbuf)
		deadline := time.Now().Add(60 * time.Second)
		for inCtr.Count() < aggIn0+1 {
			if time.Now().After(deadline) {
				t.Fatalf("scenario %d: aggregator did not take the primer", s.S)
			}
			time.Sleep(time.Millisecond)
		}
		aggTick <- far // received by the aggregator's loop: it is now inside Flush, blocked on aggOut
	}

	nlines := s.N
	switch s.Path {
	case "direct":
		for i := 0; i < nlines; i++ {
			direct(mkLine(pad, false), cbuf)
		}
	case "plain":
		// chunking of the stream: one line per Read, a line split over two Reads, two lines per Read
		var all [][]byte
		for i := 0; i < nlines; i++ {
			all = append(all, mkLine(pad, false))
		}
		first := nextID - nlines + 1
		r := &scribbleReader{}
		logLine := func(k int) func() {
			return func() {
				log.Emit(ev{"ev": "fill", "b": ints(all[k])})
				log.Emit(ev{"ev": "handoff", "id": first + k})
			}
		}
		for k := 0; k < nlines; {
			term := "\n"
			if rng.Intn(5) == 0 {
				term = "\r\n"
			}
			mode := s.Chunk
			if mode == "mix" {
				mode = []string{"line", "split", "multi"}[rng.Intn(3)]
			}
			switch {
			case mode == "multi" && k+1 < nlines:
				c := append(append(append([]byte(nil), all[k]...), []byte(term)...), append(append([]byte(nil), all[k+1]...), '\n')...)
				f1, f2 := logLine(k), logLine(k+1)
				r.chunks = append(r.chunks, c)
				r.before = append(r.before, func() { f1(); f2() })
				r.marks = append(r.marks, mark{first + k + 1, len(all[k]) + len(term), len(all[k+1])})
				k += 2
			case mode == "split" && len(all[k]) >= 2:
				cut := 1 + rng.Intn(len(all[k])-1)
				r.chunks = append(r.chunks, append([]byte(nil), all[k][:cut]...), append(append([]byte(nil), all[k][cut:]...), []byte(term)...))
				r.before = append(r.before, nil, logLine(k))
				r.marks = append(r.marks, mark{}, mark{first + k, -cut, len(all[k])})
				k++
			default:
				r.chunks = append(r.chunks, append(append([]byte(nil), all[k]...), []byte(term)...))
				r.before = append(r.before, logLine(k))
				r.marks = append(r.marks, mark{first + k, 0, len(all[k])})
				k++
			}
		}
		// the hand-off is logged before the bytes are in the buffer; what the model calls the
		// caller's buffer is the token the scanner will cut out of them.  bufio.Scanner appends to
		// its buffer until more than half of it is consumed, then rewinds: only then the earlier
		// tokens are overwritten (the reader scribbles over all of the free buffer it is given).
		r.rewound = func() { log.Emit(ev{"ev": "fill", "b": ints([]byte("####"))}) }
		// what the scanner's buffer shows of the last dispatched line when the scanner comes back
		// for more (before it is overwritten): the relay must not have written to it
		r.look = func(id int, now []byte) { log.Emit(ev{"ev": "ret", "id": id, "b": ints(now)}) }
		if err := input.NewPlain(tab).Handle(r); err != nil {
			t.Fatalf("scenario %d: Plain.Handle: %v", s.S, err)
		}
	}
	handed := nextID

	// --- late consumers
	if s.Agg {
		// every line the table accepted went to the aggregator before it went to k1
		k1.mu.Lock()
		want := len(k1.items)
		k1.mu.Unlock()
		got := 0
		missing := 0
		deadline := time.After(180 * time.Second)
	collect:
		for got < want {
			select {
			case b := <-aggOut:
				recordAgg(b)
				got++
			case aggTick <- far:
			case <-deadline:
				// delivery is not this property's business: record what came and go on
				missing = want - got
				break collect
			}
		}
		for _, e := range aggSaw {
			log.Emit(e)
		}
		info.Emit(ev{"s": s.S, "agg_out": got, "agg_missing": missing, "handed": handed})
	}
	if s.Dest {
		buffered := stats.Gauge("dest=" + rt.Snapshot().Dests[0].Key + ".unit=Metric.what=numBuffered").Value()
		close(ep.release)
		// sentinels: ordinary lines; once one of them has come out of the connection, everything
		// queued before it has too
		seen := 0
		deadline := time.Now().Add(120 * time.Second)
		sentinel := 0
		lastSent := time.Time{}
		for sentinel == 0 || seen < sentinel {
			if time.Now().After(deadline) {
				t.Fatalf("scenario %d: destination endpoint did not receive a sentinel", s.S)
			}
			if sentinel == 0 || time.Since(lastSent) > 2*time.Second {
				direct(mkLine(0, true), cbuf)
				sentinel = nextID
				lastSent = time.Now()
				rt.Flush()
			}
			select {
			case b := <-ep.lines:
				id := bk.idOfLine(b)
				log.Emit(ev{"ev": "deliver", "c": "dest", "id": id, "at": ints(b)})
				if id > seen {
					seen = id
				}
			case <-time.After(50 * time.Millisecond):
				rt.Flush()
			}
		}
		info.Emit(ev{"s": s.S, "dest_buffered_at_release": buffered, "handed": nextID})
	}
	// what the slices kept by the capture routes show now
	for _, k := range []*capRoute{k1, k2} {
		for _, it := range k.take() {
			log.Emit(ev{"ev": "end", "c": k.key, "id": it.id, "b": ints(it.buf)})
		}
	}
	if s.Dest {
		rt.Shutdown()
		ep.close()
	}
	if s.Agg {
		go func() { // drain whatever the shutdown flush still emits
			for range aggOut {
			}
		}()
		agg.Shutdown()
	}
	close(tab.In)
}
