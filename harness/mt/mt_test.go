// Package mt drives the real matcher, table, routes, destinations and
// aggregators for C03 (filters mean the documented conjunction on the metric
// name, at every use site, whatever the shortcuts) and C11 (aggregation
// output bypasses the pipeline; drop-raw is exact).  It only records what
// the real code did; verdicts come from TLC (MatcherGen expectations,
// MatcherTrace.tla, AggTableTrace.tla).
package mt

import (
	"encoding/json"
	"fmt"
	"os"
	"regexp"
	"strconv"
	"strings"
	"sync"
	"sync/atomic"
	"testing"
	"time"

	"verifharness/hx"

	"github.com/grafana/carbon-relay-ng/aggregator"
	dest "github.com/grafana/carbon-relay-ng/destination"
	"github.com/grafana/carbon-relay-ng/matcher"
	"github.com/grafana/carbon-relay-ng/rewriter"
	"github.com/grafana/carbon-relay-ng/route"
	"github.com/grafana/carbon-relay-ng/stats"
	"github.com/grafana/carbon-relay-ng/table"
	"github.com/grafana/carbon-relay-ng/util"
	"github.com/grafana/carbon-relay-ng/validate"
	m20 "github.com/metrics20/go-metrics20/carbon20"
)

// filter options as rendered by the specification (Matcher!RenderFilter)
type filt struct {
	Prefix    string `json:"prefix"`
	NotPrefix string `json:"notPrefix"`
	Sub       string `json:"sub"`
	NotSub    string `json:"notSub"`
	Regex     string `json:"regex"`
	NotRegex  string `json:"notRegex"`
}

func (f filt) matcher() (matcher.Matcher, error) {
	return matcher.New(f.Prefix, f.NotPrefix, f.Sub, f.NotSub, f.Regex, f.NotRegex)
}

func (f filt) key() string {
	b, _ := json.Marshal(f)
	return string(b)
}

func TestMain(m *testing.M) {
	aggregator.InitMetrics() // package-level counters the aggregator goroutines use
	os.Exit(m.Run())
}

func chars(s string) []string {
	out := make([]string, 0, len(s))
	for _, r := range s {
		out = append(out, string(r))
	}
	return out
}

func bits(n int, f func(i int) bool) string {
	b := make([]byte, n)
	for i := 0; i < n; i++ {
		if f(i) {
			b[i] = '1'
		} else {
			b[i] = '0'
		}
	}
	return string(b)
}

func mustEnv(t *testing.T, k string) string {
	v := os.Getenv(k)
	if v == "" {
		t.Fatalf("%s not set", k)
	}
	return v
}

// ---------------------------------------------------------------------------
// TestMatcher: every generated filter x every name on matcher.Matcher
// ---------------------------------------------------------------------------

type mcase struct {
	ID    int      `json:"id"`
	Names []string `json:"names"` // only in the header line
	F     filt     `json:"f"`
	Tmpl  *string  `json:"tmpl"` // aggregation cases only: the output template
}

func TestMatcher(t *testing.T) {
	hx.Out(t)
	lines, err := hx.ReadLines(mustEnv(t, "VERIF_MT_CASES"))
	if err != nil || len(lines) < 2 {
		t.Fatalf("cases: %v (%d lines)", err, len(lines))
	}
	out := hx.NewLog(mustEnv(t, "VERIF_MT_RESULTS"))
	defer out.Close()
	var hdr mcase
	if err := json.Unmarshal(lines[0], &hdr); err != nil || len(hdr.Names) == 0 {
		t.Fatalf("header: %v", err)
	}
	names := make([][]byte, len(hdr.Names))
	for i, n := range hdr.Names {
		names[i] = []byte(n)
	}
	n := len(names)
	for _, raw := range lines[1:] {
		var c mcase
		if err := json.Unmarshal(raw, &c); err != nil {
			t.Fatalf("case: %v", err)
		}
		m, err := c.F.matcher()
		if err != nil {
			out.Emit(map[string]interface{}{"id": c.ID, "err": err.Error()})
			continue
		}
		res := map[string]interface{}{"id": c.ID}
		res["match"] = bits(n, func(i int) bool { return m.Match(names[i]) })
		res["pre"] = bits(n, func(i int) bool { return m.PreMatch(names[i]) })
		if c.F.Regex != "" {
			tmpl := []byte("agg.out")
			expOK := true
			res["mrae"] = bits(n, func(i int) bool {
				s, ok := m.MatchRegexAndExpand(names[i], tmpl)
				if ok && s != "agg.out" {
					expOK = false
				}
				return ok
			})
			res["expand_ok"] = expOK
			// self-check of the SPECIFICATION: Go's regexp on the rendered pattern
			re := regexp.MustCompile(c.F.Regex)
			res["re2"] = bits(n, func(i int) bool { return re.Match(names[i]) })
			if c.Tmpl != nil {
				// self-check of the SPECIFICATION's submatch / template semantics (Matcher!OutKey): Go's regexp
				// alone (no code of the relay involved) on the rendered pattern and template
				keys := make([]string, n)
				for i := range names {
					if loc := re.FindSubmatchIndex(names[i]); loc != nil {
						keys[i] = string(re.Expand(nil, []byte(*c.Tmpl), names[i], loc))
					}
				}
				res["re2keys"] = keys
			}
		}
		if c.F.NotRegex != "" {
			re := regexp.MustCompile(c.F.NotRegex)
			res["nre2"] = bits(n, func(i int) bool { return re.Match(names[i]) })
		}
		out.Emit(res)
	}
}

// ---------------------------------------------------------------------------
// shared: real routes with real destinations observed through their counters
// ---------------------------------------------------------------------------

var uniq int64

func nextKey(p string) string {
	return fmt.Sprintf("%s%d_%d", p, os.Getpid(), atomic.AddInt64(&uniq, 1))
}

// nothing ever listens on a port < 1024 of the sandbox' loopback, so every line handed to the
// destination is counted as conn_down_no_spool: the counter is the observation point
const deadAddr = "127.0.0.1:1"

type obsDest struct {
	d *dest.Destination
	c interface{ Count() int64 }
}

func newDest(t *testing.T, routeKey string, m matcher.Matcher, idx int) obsDest {
	addr := deadAddr
	// distinct keys per destination of one route: key = routeName_addr, so vary the route name part
	rk := fmt.Sprintf("%s_d%d", routeKey, idx)
	d, err := dest.New(rk, m, addr, "", false, false, time.Second, time.Hour, 100, 4096, 10, 1000, 10, time.Second, time.Millisecond, time.Millisecond)
	if err != nil {
		t.Fatalf("destination.New: %v", err)
	}
	key := util.Key(rk, addr)
	c := stats.Counter("dest=" + key + ".unit=Metric.action=drop.reason=conn_down_no_spool")
	return obsDest{d, c}
}

// count after a Flush() round trip through the relay loop (barrier: the loop has finished the
// iteration in which it took the line from In)
func (o obsDest) count() int64 {
	o.d.Flush()
	return o.c.Count()
}

func allMatcher(t *testing.T) matcher.Matcher {
	m, err := matcher.New("", "", "", "", "", "")
	if err != nil {
		t.Fatal(err)
	}
	return m
}

// a filter that accepts every metric name the checks use, but not the "~" barrier lines
func allButBarrier(t *testing.T) matcher.Matcher {
	m, err := matcher.New("", "~", "", "", "", "")
	if err != nil {
		t.Fatal(err)
	}
	return m
}

func newTable(t *testing.T, strict bool) *table.Table {
	lvl := m20.NoneLegacy
	if strict {
		lvl = m20.StrictLegacy
	}
	cfg, err := table.NewTableConfig("", "1h", validate.LevelLegacy{Level: lvl}, validate.LevelM20{Level: m20.NoneM20}, false)
	if err != nil {
		t.Fatal(err)
	}
	return table.New(cfg)
}

// ---------------------------------------------------------------------------
// TestSites: the filter installed at each place a filter is used
// ---------------------------------------------------------------------------

type sitecase struct {
	Site string          `json:"site"`
	F    filt            `json:"f"`
	Ast  json.RawMessage `json:"ast"`
	Name string          `json:"name"`
	V    string          `json:"v"`
	T    string          `json:"t"`
}

type siteRig struct {
	tbl    *table.Table
	rk     string // key of the route under test
	dests  []obsDest
	agg    *aggregator.Aggregator
	tick   chan time.Time
	closer func()
}

var barrier = []byte("~barrier 0 0")

func buildSite(t *testing.T, site string, f filt) (*siteRig, error) {
	m, err := f.matcher()
	if err != nil {
		return nil, err
	}
	rig := &siteRig{tbl: newTable(t, false)}
	rk := nextKey("c03r")
	rig.rk = rk
	mkRoute := func(kind string, rm matcher.Matcher, dms ...matcher.Matcher) {
		ds := make([]*dest.Destination, 0, len(dms))
		for i, dm := range dms {
			od := newDest(t, rk, dm, i)
			rig.dests = append(rig.dests, od)
			ds = append(ds, od.d)
		}
		var r route.Route
		var err error
		if kind == "first" {
			r, err = route.NewSendFirstMatch(rk, rm, ds)
		} else if kind == "chash" {
			r, err = route.NewConsistentHashing(rk, rm, ds)
		} else {
			r, err = route.NewSendAllMatch(rk, rm, ds)
		}
		if err != nil {
			t.Fatalf("route: %v", err)
		}
		rig.tbl.AddRoute(r)
	}
	switch site {
	case "blacklist":
		mm := m
		rig.tbl.AddBlacklist(&mm)
		mkRoute("all", allMatcher(t), allMatcher(t))
	case "route", "aggroute":
		mkRoute("all", m, allMatcher(t))
	case "route_first":
		mkRoute("first", m, allMatcher(t))
	case "route_chash":
		mkRoute("chash", m, allMatcher(t))
	case "dest_all", "aggdest_all":
		mkRoute("all", allMatcher(t), m, allMatcher(t))
	case "dest_first", "aggdest_first":
		mkRoute("first", allMatcher(t), m, allMatcher(t))
	case "agg_keep", "agg_drop", "aggc_drop":
		if f.Regex == "" {
			return nil, fmt.Errorf("aggregation needs a regex")
		}
		rig.tick = make(chan time.Time)
		now := func() time.Time { return time.Unix(5, 0) }
		agg, err := aggregator.NewMocked("count", m, "zz.out", site == "aggc_drop", 1, 5, site != "agg_keep", rig.tbl.In, 0, now, rig.tick)
		if err != nil {
			return nil, err
		}
		rig.agg = agg
		rig.tbl.AddAggregator(agg)
		mkRoute("all", allButBarrier(t), allMatcher(t))
	default:
		t.Fatalf("unknown site %q", site)
	}
	rig.closer = func() {
		if rig.agg != nil {
			rig.agg.Shutdown()
		}
		rig.tbl.Shutdown()
		close(rig.tbl.In)
	}
	return rig, nil
}

func (rig *siteRig) counts() []int64 {
	out := make([]int64, len(rig.dests))
	for i, d := range rig.dests {
		out[i] = d.count()
	}
	return out
}

func delta(a, b []int64) []int64 {
	out := make([]int64, len(a))
	for i := range a {
		out[i] = b[i] - a[i]
	}
	return out
}

func TestSites(t *testing.T) {
	hx.Out(t)
	lines, err := hx.ReadLines(mustEnv(t, "VERIF_MT_SITES"))
	if err != nil {
		t.Fatal(err)
	}
	out := hx.NewLog(mustEnv(t, "VERIF_MT_SITETRACE"))
	defer out.Close()
	var rig *siteRig
	curKey := ""
	for _, raw := range lines {
		var c sitecase
		if err := json.Unmarshal(raw, &c); err != nil {
			t.Fatalf("site case: %v", err)
		}
		k := c.Site + "|" + c.F.key()
		if k != curKey {
			if rig != nil {
				rig.closer()
			}
			rig, err = buildSite(t, c.Site, c.F)
			if err != nil {
				t.Fatalf("site %s filter %s: %v", c.Site, c.F.key(), err)
			}
			curKey = k
		}
		line := []byte(c.Name + " " + c.V + " " + c.T)
		before := rig.counts()
		var obs []int64
		switch {
		case strings.HasPrefix(c.Site, "aggroute") || strings.HasPrefix(c.Site, "aggdest"):
			rig.tbl.DispatchAggregate(line)
			obs = delta(before, rig.counts())
		case rig.agg != nil:
			rig.tbl.Dispatch(line)
			rig.agg.Snapshot() // barrier: the aggregator has processed what it was handed
			mid := rig.counts()
			rig.tick <- time.Unix(100, 0)
			rig.agg.Snapshot()    // the flush is complete: all aggregate lines were handed to Table.In
			rig.tbl.In <- barrier // the table goroutine has finished routing the last aggregate line
			after := rig.counts()
			obs = []int64{mid[0] - before[0], after[0] - mid[0]}
		default:
			rig.tbl.Dispatch(line)
			obs = delta(before, rig.counts())
		}
		out.Emit(map[string]interface{}{"ev": "site", "site": c.Site, "f": c.Ast, "name": chars(c.Name),
			"v": c.V, "t": c.T, "obs": obs, "go": c.F})
	}
	if rig != nil {
		rig.closer()
	}
}

// ---------------------------------------------------------------------------
// TestUpdates: filters reconfigured at run time (what modRoute / modDest do:
// Table.UpdateRoute / Table.UpdateDestination), probed after every step
// ---------------------------------------------------------------------------

type ustep struct {
	Set []string        `json:"set"` // the options the update names
	Go  filt            `json:"go"`  // their new values as rendered by the specification ("" clears the option)
	Val json.RawMessage `json:"val"` // ... and as the specification reads them
}

type uhist struct {
	H     int             `json:"h"`
	Site  string          `json:"site"`
	F     filt            `json:"f"`
	Ast   json.RawMessage `json:"ast"`
	Steps []ustep         `json:"steps"`
	Names []string        `json:"names"`
}

func (f filt) option(name string) (string, bool) {
	switch name {
	case "prefix":
		return f.Prefix, true
	case "notPrefix":
		return f.NotPrefix, true
	case "sub":
		return f.Sub, true
	case "notSub":
		return f.NotSub, true
	case "regex":
		return f.Regex, true
	case "notRegex":
		return f.NotRegex, true
	}
	return "", false
}

func TestUpdates(t *testing.T) {
	hx.Out(t)
	lines, err := hx.ReadLines(mustEnv(t, "VERIF_MT_UPDHIST"))
	if err != nil {
		t.Fatal(err)
	}
	out := hx.NewLog(mustEnv(t, "VERIF_MT_UPDTRACE"))
	defer out.Close()
	for _, raw := range lines {
		var h uhist
		if err := json.Unmarshal(raw, &h); err != nil {
			t.Fatalf("update history: %v", err)
		}
		rig, err := buildSite(t, h.Site, h.F)
		if err != nil {
			t.Fatalf("update history %d: site %s filter %s: %v", h.H, h.Site, h.F.key(), err)
		}
		onDest := strings.HasPrefix(h.Site, "dest_")
		// the options the real code says the filter has (reported only; the specification keeps its own account)
		reported := func() matcher.Matcher {
			r := rig.tbl.GetRoute(rig.rk)
			if onDest {
				d, err := r.GetDestination(0)
				if err != nil {
					t.Fatalf("update history %d: %v", h.H, err)
				}
				return d.GetMatcher()
			}
			return r.Snapshot().Matcher
		}
		probe := func(step int) {
			names := make([][]string, 0, len(h.Names))
			obs := make([][]int64, 0, len(h.Names))
			for _, n := range h.Names {
				before := rig.counts()
				rig.tbl.Dispatch([]byte(n + " 1 1"))
				obs = append(obs, delta(before, rig.counts()))
				names = append(names, chars(n))
			}
			m := reported()
			rec := map[string]interface{}{"ev": "uprobe", "h": h.H, "step": step, "site": h.Site, "names": names, "obs": obs,
				"cfg": filt{m.Prefix, m.NotPrefix, m.Sub, m.NotSub, m.Regex, m.NotRegex}}
			if !onDest {
				// the same names once more as aggregation output (Table.DispatchAggregate: routes only): a route filter
				// decides on the name whichever way the line reaches the routes, and on the options it has NOW
				obsagg := make([][]int64, 0, len(h.Names))
				for _, n := range h.Names {
					before := rig.counts()
					rig.tbl.DispatchAggregate([]byte(n + " 1 1"))
					obsagg = append(obsagg, delta(before, rig.counts()))
				}
				rec["obsagg"] = obsagg
			}
			out.Emit(rec)
		}
		out.Emit(map[string]interface{}{"ev": "uhist", "h": h.H, "site": h.Site, "f": h.Ast, "go": h.F})
		probe(0)
		for i, st := range h.Steps {
			opts := map[string]string{}
			for _, o := range st.Set {
				v, ok := st.Go.option(o)
				if !ok {
					t.Fatalf("update history %d: unknown option %q", h.H, o)
				}
				opts[o] = v
			}
			if onDest {
				err = rig.tbl.UpdateDestination(rig.rk, 0, opts)
			} else {
				err = rig.tbl.UpdateRoute(rig.rk, opts)
			}
			if err != nil {
				t.Fatalf("update history %d step %d: update %v refused: %v", h.H, i+1, opts, err)
			}
			out.Emit(map[string]interface{}{"ev": "update", "h": h.H, "step": i + 1, "set": st.Set, "val": st.Val, "go": opts})
			probe(i + 1)
		}
		rig.closer()
	}
}

// ---------------------------------------------------------------------------
// TestCache: lookup / clock / clean-up histories on a caching aggregator
// ---------------------------------------------------------------------------

type cop struct {
	Op   string `json:"op"`
	T    int64  `json:"t"`
	Name string `json:"name"`
	Ts   uint32 `json:"ts"`
}

type chist struct {
	H    int             `json:"h"`
	F    filt            `json:"f"`
	Ast  json.RawMessage `json:"ast"`
	Wait uint            `json:"wait"`
	Tmpl string          `json:"tmpl"` // output template as rendered by the specification
	Tast json.RawMessage `json:"tast"` // ... and as the specification reads it
	Drop bool            `json:"drop"`
	Ops  []cop           `json:"ops"`
}

func parseAgg(line []byte) (name, val, ts string, ok bool) {
	f := strings.Split(string(line), " ")
	if len(f) != 3 {
		return string(line), "", "", false
	}
	return f[0], f[1], f[2], true
}

func TestCache(t *testing.T) {
	hx.Out(t)
	lines, err := hx.ReadLines(mustEnv(t, "VERIF_MT_CACHEHIST"))
	if err != nil {
		t.Fatal(err)
	}
	out := hx.NewLog(mustEnv(t, "VERIF_MT_CACHETRACE"))
	defer out.Close()
	for _, raw := range lines {
		var h chist
		if err := json.Unmarshal(raw, &h); err != nil {
			t.Fatalf("cache history: %v", err)
		}
		m, err := h.F.matcher()
		if err != nil {
			t.Fatalf("cache history %d: %v", h.H, err)
		}
		var clk int64
		now := func() time.Time { return time.Unix(atomic.LoadInt64(&clk), 0) }
		tick := make(chan time.Time)
		sink := make(chan []byte, 4096)
		agg, err := aggregator.NewMocked("count", m, h.Tmpl, true, 1, h.Wait, h.Drop, sink, 0, now, tick)
		if err != nil {
			t.Fatalf("aggregator: %v", err)
		}
		out.Emit(map[string]interface{}{"ev": "hist", "h": h.H, "f": h.Ast, "t": h.Tast, "drop": h.Drop, "wait": h.Wait,
			"go": h.F, "tmpl": h.Tmpl})
		for _, o := range h.Ops {
			switch o.Op {
			case "clock":
				atomic.StoreInt64(&clk, o.T)
				out.Emit(map[string]interface{}{"ev": "clock", "t": o.T})
			case "lookup":
				ts := strconv.FormatUint(uint64(o.Ts), 10)
				got := agg.AddMaybe([][]byte{[]byte(o.Name), []byte("1"), []byte(ts)}, 1, o.Ts)
				agg.Snapshot()
				out.Emit(map[string]interface{}{"ev": "lookup", "name": chars(o.Name), "ts": o.Ts, "got": got})
			case "tick":
				tick <- time.Unix(o.T, 0)
				agg.Snapshot()
				// every line the aggregator produced: output name, quantum, count ("name count quantum";
				// the name may be empty, the names used contain no blank)
				res := []map[string]interface{}{}
			drain:
				for {
					select {
					case l := <-sink:
						k, v, q, ok := parseAgg(l)
						fv, e1 := strconv.ParseFloat(v, 64)
						qi, e2 := strconv.ParseInt(q, 10, 64)
						if !ok || e1 != nil || e2 != nil || fv != float64(int64(fv)) {
							res = append(res, map[string]interface{}{"k": chars(string(l)), "q": -1, "c": -1})
						} else {
							res = append(res, map[string]interface{}{"k": chars(k), "q": qi, "c": int64(fv)})
						}
					default:
						break drain
					}
				}
				out.Emit(map[string]interface{}{"ev": "tick", "t": o.T, "out": res})
			}
		}
		agg.Shutdown()
	}
}

// ---------------------------------------------------------------------------
// TestAggTable (C11): real table + real aggregators + capture routes
// ---------------------------------------------------------------------------

type captureRoute struct {
	idx int
	m   matcher.Matcher
	mu  *sync.Mutex
	got *[]capLine
}

type capLine struct {
	R    int      `json:"r"`
	Name []string `json:"name"`
	Val  string   `json:"val"`
	Ts   string   `json:"ts"`
}

func (c *captureRoute) Dispatch(buf []byte) {
	if len(buf) > 0 && buf[0] == '~' {
		return // barrier line of the harness
	}
	n, v, ts, _ := parseAgg(buf)
	c.mu.Lock()
	*c.got = append(*c.got, capLine{c.idx, chars(n), v, ts})
	c.mu.Unlock()
}
func (c *captureRoute) Match(s []byte) bool { return c.m.Match(s) }
func (c *captureRoute) Snapshot() route.Snapshot {
	return route.Snapshot{Matcher: c.m, Type: "capture", Key: c.Key()}
}
func (c *captureRoute) Key() string     { return fmt.Sprintf("cap%d", c.idx) }
func (c *captureRoute) Flush() error    { return nil }
func (c *captureRoute) Shutdown() error { return nil }
func (c *captureRoute) GetDestination(int) (*dest.Destination, error) {
	return nil, fmt.Errorf("capture")
}
func (c *captureRoute) DelDestination(int) error                       { return fmt.Errorf("capture") }
func (c *captureRoute) UpdateDestination(int, map[string]string) error { return fmt.Errorf("capture") }
func (c *captureRoute) Update(map[string]string) error                 { return fmt.Errorf("capture") }

type aggCfg struct {
	F        filt   `json:"f"`
	Out      string `json:"out"`
	Drop     bool   `json:"drop"`
	Fun      string `json:"fun"`
	Interval uint   `json:"interval"`
	Wait     uint   `json:"wait"`
}

type tblCfg struct {
	ID     int    `json:"id"`
	Strict bool   `json:"strict"`
	Black  []filt `json:"black"`
	Rw     []struct {
		Old string `json:"old"`
		New string `json:"new"`
	} `json:"rw"`
	Aggs   []aggCfg `json:"aggs"`
	Routes []filt   `json:"routes"`
}

type aop struct {
	Op   string `json:"op"`
	Name string `json:"name"`
	Val  string `json:"val"`
	Ts   string `json:"ts"`
	Vi   int64  `json:"vi"`
	Ti   int64  `json:"ti"`
	T    int64  `json:"t"`
	I    int    `json:"i"`
}

type ahist struct {
	H   int             `json:"h"`
	Go  tblCfg          `json:"go"`
	Ast json.RawMessage `json:"ast"`
	Now int64           `json:"now"`
	Ops []aop           `json:"ops"`
}

func TestAggTable(t *testing.T) {
	hx.Out(t)
	lines, err := hx.ReadLines(mustEnv(t, "VERIF_MT_AGGHIST"))
	if err != nil {
		t.Fatal(err)
	}
	out := hx.NewLog(mustEnv(t, "VERIF_MT_AGGTRACE"))
	defer out.Close()
	prog := hx.NewLog(hx.Out(t) + "/mt_progress.ndjson")
	prog.Unbuffered = true
	defer prog.Close()
	hangs := 0
	for _, raw := range lines {
		var h ahist
		if err := json.Unmarshal(raw, &h); err != nil {
			t.Fatalf("agg history: %v", err)
		}
		prog.Emit(map[string]interface{}{"h": h.H, "cfg": h.Go.ID})
		if hangs >= 3 {
			break // every further history would cost another deadline; what was recorded is enough for a verdict
		}
		// a step that never completes (the table goroutine and an aggregator waiting for each other) is recorded
		// as a "hang" event and the history is abandoned; normal step latency is far below a millisecond
		var steps, abandoned int64
		emit := func(v map[string]interface{}) {
			if atomic.LoadInt64(&abandoned) == 0 {
				out.Emit(v)
			}
			atomic.AddInt64(&steps, 1)
		}
		done := make(chan struct{})
		go func() {
			defer close(done)
			tbl := newTable(t, h.Go.Strict)
			for _, b := range h.Go.Black {
				m, err := b.matcher()
				if err != nil {
					t.Fatal(err)
				}
				mm := m
				tbl.AddBlacklist(&mm)
			}
			for _, r := range h.Go.Rw {
				rw, err := rewriter.New(r.Old, r.New, "", -1)
				if err != nil {
					t.Fatal(err)
				}
				tbl.AddRewriter(rw)
			}
			clk := h.Now
			now := func() time.Time { return time.Unix(atomic.LoadInt64(&clk), 0) }
			var aggs []*aggregator.Aggregator
			var ticks []chan time.Time
			for i, a := range h.Go.Aggs {
				m, err := a.F.matcher()
				if err != nil {
					t.Fatal(err)
				}
				tk := make(chan time.Time)
				agg, err := aggregator.NewMocked(a.Fun, m, a.Out, (i+h.H)%2 == 0, a.Interval, a.Wait, a.Drop, tbl.In, 0, now, tk)
				if err != nil {
					t.Fatal(err)
				}
				tbl.AddAggregator(agg)
				aggs = append(aggs, agg)
				ticks = append(ticks, tk)
			}
			var mu sync.Mutex
			var got []capLine
			for i, r := range h.Go.Routes {
				m, err := r.matcher()
				if err != nil {
					t.Fatal(err)
				}
				tbl.AddRoute(&captureRoute{idx: i + 1, m: m, mu: &mu, got: &got})
			}
			drain := func() []capLine {
				mu.Lock()
				defer mu.Unlock()
				o := got
				got = nil
				if o == nil {
					o = []capLine{}
				}
				return o
			}
			settle := func() {
				for _, a := range aggs {
					a.Snapshot()
				}
			}
			emit(map[string]interface{}{"ev": "hist", "h": h.H, "cfg": h.Ast, "now": h.Now})
			for _, o := range h.Ops {
				switch o.Op {
				case "clock":
					atomic.StoreInt64(&clk, o.T)
					emit(map[string]interface{}{"ev": "clock", "t": o.T})
				case "dispatch":
					tbl.Dispatch([]byte(o.Name + " " + o.Val + " " + o.Ts))
					settle()
					emit(map[string]interface{}{"ev": "dispatch", "name": chars(o.Name), "val": o.Val, "ts": o.Ts,
						"vi": o.Vi, "ti": o.Ti, "out": drain()})
				case "tick":
					ticks[o.I-1] <- time.Unix(o.T, 0)
					settle()          // the flush has handed every aggregate line to Table.In
					tbl.In <- barrier // ... and the table goroutine is done with the last of them
					settle()
					emit(map[string]interface{}{"ev": "tick", "i": o.I, "t": o.T, "out": drain()})
				}
			}
			for _, a := range aggs {
				a.Shutdown()
			}
			tbl.In <- barrier
			close(tbl.In)
		}()
		last, lastChange := int64(-1), time.Now()
	wait:
		for {
			select {
			case <-done:
				break wait
			case <-time.After(200 * time.Millisecond):
				if n := atomic.LoadInt64(&steps); n != last {
					last, lastChange = n, time.Now()
				} else if time.Since(lastChange) > stepDeadline {
					atomic.StoreInt64(&abandoned, 1)
					out.Emit(map[string]interface{}{"ev": "hang", "h": h.H, "after_steps": last})
					hangs++
					break wait
				}
			}
		}
	}
}

// a step normally takes well under a millisecond
const stepDeadline = 120 * time.Second
