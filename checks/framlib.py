"""Shared by C12 and C13: model checking of Framing.tla (reader state machines vs the level-A
operators of FramingOps.tla over every segmentation) and its non-vacuity run."""
import json, os
from vlib.core import Machinery

LINE_MUTANTS = ["partial_at_refill", "split_on_cr", "drop_last", "dup", "claim_unlimited", "read_on_after_error", "drop_on_isprefix", "isprefix_ignored"]
FRAME_MUTANTS = ["lose_at_cut", "prefix_any", "hdr_eof_clean"]


def mc(ctx, readers, maxlen, maxlenf, caps=(0, 3), live=True, workers=4):
    """safety (LineOK / FrameOK / StopsAtError in every state) and termination (every connection is
    finished by its terminating condition) of the reader models, all readers x capacities x streams x
    segmentations x (line readers) positions of a read timeout"""
    if os.environ.get("VERIF_DEV_SKIP_MC"):        # development only (trying code mutants quickly)
        ctx.note("model checking skipped (VERIF_DEV_SKIP_MC)")
        return None
    return ctx.tlc("Framing", "Framing_live.cfg" if live else "Framing_mc.cfg", workers=workers, timeout=3000,
                   consts=dict(MaxLen=maxlen, MaxLenF=maxlenf, Readers=set(readers), Caps=set(caps), Mutants={""}))


def nonvacuity(ctx, readers, muts, maxlen=3, maxlenf=5):
    """every named deviation of the reader models must break the property somewhere (one TLC run: the
    deviation is chosen in the initial state, registers remember which ones were caught)"""
    if os.environ.get("VERIF_DEV_SKIP_MC"):
        return
    r = ctx.tlc("Framing", "Framing_nv.cfg", workers=1, timeout=1500, expect_ok=False, count=False, tag="nonvacuity",
                consts=dict(MaxLen=maxlen, MaxLenF=maxlenf, Readers=set(readers), Caps={0, 3}, Mutants=set(muts)))
    got = None
    for x in ctx.tlc_printed(r, "@@NV"):
        got = set(json.loads(x)["caught"])
    if got is None:
        raise Machinery("non-vacuity run gave no result; log %s\n%s" % (r["log"], r["text"][-1500:]))
    if got != set(muts):
        raise Machinery("deviation(s) %s of the reader models are not rejected by the invariants: vacuous model check"
                        % sorted(set(muts) - got))
    ctx.cov["spec_mutants_rejected"] = sorted(got)
