"""C18 — runtime table changes are atomic with respect to traffic."""
import copy, json, os, re, random
from concurrent.futures import ThreadPoolExecutor
from vlib.core import Machinery

LEVEL = "model_checking"

MEM_BASE = dict(InitN=3, InitCap=4, MaxOps=2, NDisp=1, NAdmin=2, Classes={1},
                OpKinds={"add", "delidx", "delkey"}, DeleteInPlace=False, UseMutex=True, TruncateTail=False,
                CoarseAdmin=False, FeKinds=set(), FeBl=0, FeRw=0, FeAgg=0, LoadTwice=False,
                UpdCow=False, LoadOutsideLock=set(), TrackLin=False)
# one ROUTE: the list = its destinations, modDest (updidx) is a copy-on-write operation under the route lock, the route's own
# filter (modRoute) is another part of the same configuration value (front-end list rw); two admins that overlap
MEM_ROUTE = dict(MEM_BASE, NAdmin=2, OpKinds={"add", "delidx", "updidx"}, FeKinds={"rw+"}, UpdCow=True, TrackLin=True)
# the whole table: routes (cell by cell) + front end (blacklist, rewriters, aggregators), one configuration value
FE_ALL = {"bl+", "bl-", "rw+", "rw-", "agg+", "agg-"}
MEM_WHOLE = dict(MEM_BASE, InitN=2, InitCap=2, NAdmin=1, OpKinds={"add", "delkey"}, FeKinds=FE_ALL, FeBl=1, FeRw=1, FeAgg=1)
MEM_INV = ["SnapshotImmutable", "Atomic", "NoSkipNoDup", "ViewOK", "ResultsOK", "TypeOK"]


def model_check(ctx):
    q = ctx.quick()
    if os.environ.get("VERIF_SKIP_MC"):      # only for trying changes of the Go code out (scratch worktree): the model is unaffected
        ctx.note("model checking skipped (VERIF_SKIP_MC)")
        return
    jobs = []        # (kwargs of ctx.tlc, check(result) or None); independent runs, 3 at a time with 2 TLC workers each

    def job(check=None, **kw):
        jobs.append((kw, check))

    def must_violate(inv, msg, pattern=None):
        def chk(r):
            if r["violated"] != inv or (pattern and not re.search(pattern, r["text"])):
                raise Machinery("%s (vacuity); log %s" % (msg, r["log"]))
        return chk

    grid = [dict(MEM_BASE),
            dict(MEM_BASE, Classes={1, 2}, NAdmin=1, OpKinds={"updidx", "updkey", "delidx", "add"}),
            dict(MEM_WHOLE, Classes=ctx.pick({1}, {1, 2}), NAdmin=ctx.pick(1, 2), TrackLin=ctx.pick(False, True)),
            dict(MEM_ROUTE)]
    if not q:
        grid += [dict(MEM_ROUTE, MaxOps=3, NDisp=0, InitN=2, InitCap=2),
                 dict(MEM_ROUTE, Classes={1, 2}, OpKinds={"delidx", "updidx", "updkey"}, FeKinds=set())]
        grid += [dict(MEM_WHOLE, MaxOps=3, InitN=1, InitCap=1),
                 dict(MEM_WHOLE, NDisp=2, FeKinds={"bl+", "rw+", "rw-", "agg+"}),
                 dict(MEM_BASE, InitCap=3),                              # full array: the next add reallocates
                 dict(MEM_BASE, NDisp=2),
                 dict(MEM_BASE, MaxOps=3, NAdmin=1),
                 dict(MEM_BASE, InitN=4, InitCap=4, NAdmin=1, MaxOps=3),
                 dict(MEM_BASE, InitN=2, InitCap=2, NDisp=2, MaxOps=2, Classes={1, 2},
                      OpKinds={"add", "delidx", "delkey", "updidx"})]
    grid.sort(key=lambda c: -(c["MaxOps"] * 10 + c["NAdmin"] + c["NDisp"] + len(c["Classes"])))      # the long ones first
    for c in grid:
        job(consts=c, invariants=MEM_INV + ["AdminLinearizable"], timeout=ctx.pick(900, 3000))
    # overlapping admin operations: modDest that Loads the configuration BEFORE it takes the route lock publishes a stale
    # configuration -- an overlapping delDest (or modRoute: the other part of the value) is reverted.  Needs the overlap:
    # with one admin (any sequential history) the deviation is invisible.
    lol = dict(MEM_ROUTE, LoadOutsideLock={"updidx"}, FeKinds=set(), OpKinds={"delidx", "updidx"})
    job(must_violate("AdminLinearizable", "LoadOutsideLock={updidx}: delDest overlapping modDest is not rejected as AdminLinearizable",
                     r'op \|-> "delidx"[\s\S]*op \|-> "updidx"|op \|-> "updidx"[\s\S]*op \|-> "delidx"'),
        consts=dict(lol), invariants=["AdminLinearizable"], expect_ok=False, count=False, tag="nv_lol_lin")
    job(must_violate("ViewOK", "LoadOutsideLock={updidx} does not violate ViewOK in the model"),
        consts=dict(lol), invariants=["ViewOK"], expect_ok=False, count=False, tag="nv_lol_view")
    job(must_violate("AdminLinearizable", "LoadOutsideLock={updidx}: modRoute overlapping modDest is not rejected as AdminLinearizable",
                     r'l \|-> "rw"'),
        consts=dict(lol, OpKinds={"updidx"}, FeKinds={"rw+"}), invariants=["AdminLinearizable"], expect_ok=False, count=False,
        tag="nv_lol_rt")
    job(consts=dict(lol, NAdmin=1, OpKinds={"add", "delidx", "updidx"}, FeKinds={"rw+"}), invariants=MEM_INV + ["AdminLinearizable"],
        count=False, tag="nv_lol_seq")
    # the same on the table: addRoute that Loads before it takes the table lock reverts an overlapping delAgg
    job(must_violate("AdminLinearizable", "LoadOutsideLock={add}: delAgg overlapping addRoute is not rejected as AdminLinearizable",
                     r'l \|-> "agg"'),
        consts=dict(MEM_WHOLE, NAdmin=2, NDisp=0, TrackLin=True, LoadOutsideLock={"add"}, OpKinds={"add"}, FeKinds={"agg-"}),
        invariants=["AdminLinearizable"], expect_ok=False, count=False, tag="nv_lol_table")
    # non-vacuity: the pinned delete (cells of the shared array shifted in place) and a missing mutex are rejected
    job(must_violate("Atomic", "DeleteInPlace=TRUE does not violate Atomic in the model"),
        consts=dict(MEM_BASE, DeleteInPlace=True), invariants=["Atomic"], expect_ok=False, count=False, tag="nv_atomic")
    if not q:
        job(must_violate("SnapshotImmutable", "DeleteInPlace=TRUE does not violate SnapshotImmutable in the model"),
            consts=dict(MEM_BASE, DeleteInPlace=True), invariants=["SnapshotImmutable"], expect_ok=False, count=False, tag="nv_snap")
    job(must_violate("ViewOK", "UseMutex=FALSE does not violate ViewOK in the model"),
        consts=dict(MEM_BASE, UseMutex=False), invariants=["ViewOK"], expect_ok=False, count=False, tag="nv_mutex")
    # the delete of the LAST entry as a plain truncation s[:n-1] (capacity not capped): the next add appends in place into a
    # cell that older, longer published slices still cover.  One delete + one add already breaks SnapshotImmutable; at the
    # granularity of the replay (CoarseAdmin: dispatcher steps only between complete operations) Atomic survives every
    # history of 2 operations and breaks with 3 (delete-last, delete-last, add) -- hence the 3-operation replay schedules.
    trunc = dict(MEM_BASE, TruncateTail=True, NAdmin=1, OpKinds={"add", "delidx"})
    job(must_violate("SnapshotImmutable", "TruncateTail=TRUE with 2 operations does not violate SnapshotImmutable in the model"),
        consts=dict(trunc), invariants=["SnapshotImmutable"], expect_ok=False, count=False, tag="nv_trunc_snap")
    job(consts=dict(trunc, CoarseAdmin=True), invariants=["Atomic", "NoSkipNoDup", "ViewOK"], count=False, tag="nv_trunc_2ops")
    job(must_violate("Atomic", "TruncateTail=TRUE: delete-last, delete-last, add under a held dispatcher is not rejected as Atomic "
                     "with the visit list <<1, 4, 3>>", r"dvis = <<<<1, 4, 3>>>>"),
        consts=dict(trunc, CoarseAdmin=True, MaxOps=3), invariants=["Atomic"], expect_ok=False, count=False, tag="nv_trunc_atomic")
    # Dispatch loads the configuration a second time for its route loop (front end of one version, routes of a later one):
    # ONE change in between cannot be told from "wholly before / wholly after"; TWO changes -- the front end first, then the
    # routes -- give an outcome that no version of the whole table has.  Hence the two-list replay schedules (kind fe).
    job(consts=dict(MEM_WHOLE, LoadTwice=True, MaxOps=1), invariants=["Atomic", "NoSkipNoDup"], count=False, tag="nv_twice_1op")
    pairs = [({"bl+"}, {"add"}), ({"rw+"}, {"add"}), ({"rw-"}, {"delkey"})]
    if not q:
        pairs += [({"agg+"}, {"add"}), ({"agg+"}, {"delkey"}), ({"bl+"}, {"delkey"})]
    for n, (fk, ok) in enumerate(pairs):
        job(must_violate("Atomic", "LoadTwice=TRUE with %s then routes %s does not violate Atomic in the model" % (fk, ok)),
            consts=dict(MEM_WHOLE, LoadTwice=True, FeKinds=fk, OpKinds=ok), invariants=["Atomic"], expect_ok=False, count=False,
            tag="nv_twice_%d" % n)
    ctx.specdir()
    with ThreadPoolExecutor(max_workers=3) as ex:
        futs = [ex.submit(ctx.tlc, "TableMem", "TableMem_mc.cfg", workers=2, **kw) for kw, _ in jobs]
        res = [f.result() for f in futs]
    for (kw, chk), r in zip(jobs, res):
        if chk:
            chk(r)
    ctx.cov["model_deviations_rejected"] = ["LoadTwice=TRUE -> Atomic with 2 changes (%s; not with 1 change)" %
                                            ", ".join("%s then routes %s" % (sorted(a)[0], sorted(b)[0]) for a, b in pairs),
                                            "DeleteInPlace=TRUE -> Atomic, SnapshotImmutable", "UseMutex=FALSE -> ViewOK",
                                            "LoadOutsideLock={updidx} -> AdminLinearizable, ViewOK with 2 overlapping admins "
                                            "(delDest || modDest, modRoute || modDest, table: delAgg || addRoute; not with 1 admin)",
                                            "TruncateTail=TRUE -> SnapshotImmutable (2 ops), Atomic (3 ops: delete-last, "
                                            "delete-last, add; not with 2 complete ops)"]


def gen_schedules(ctx, kind, tag, **kw):
    c = dict(InitN=3, MaxOps=2, NDisp=1, Classes={1}, AddFilters={0}, UpdFilters={1}, OpKinds={"add", "delidx"},
             StepWise=True, KeyMod=1000, DelTail=False,
             FeGate=False, RouteGates=True, FeKinds=set(), FeFilters=set(), FeBl=0, FeRw=0, FeAgg=0, FeWindow=False, Mixed=False,
             Overlap=False)
    c.update(kw)
    r = ctx.tlc("TableSched", "TableSched.cfg", consts=c, workers=1, timeout=1200, tag=tag)
    out = []
    for s in ctx.tlc_printed(r, "@@S"):
        out.append(dict(kind=kind, init=c["InitN"], steps=json.loads(s)))
        if kind in ("fe", "tovl"):
            # win: every operation of the schedule happens while the dispatcher is held at the front-end gate
            out[-1].update(febl=c["FeBl"], ferw=c["FeRw"], feagg=c["FeAgg"], rgate=c["RouteGates"], win=c["FeWindow"])
    if kind == "fe" and not out:
        raise Machinery("no whole-table schedules generated")
    if kind in ("ovl", "tovl") and not all(sum(1 for x in o["steps"] if x["ev"] in ("ov1", "ov2")) == 2 for o in out):
        raise Machinery("kind %s: a schedule without its overlapping pair" % kind)
    if kind in ("ovl", "tovl") and not out:
        raise Machinery("no schedules of overlapping admin operations generated (kind %s)" % kind)
    return out


def schedules(ctx):
    q = ctx.quick()
    G = []

    def gen(kind, **kw):
        G.append((kind, kw))

    # the WHOLE table: a dispatcher held in the front end (after the configuration load, inside the first aggregator) while a
    # front-end list AND the route list change, both orders; then released (blacklisted? consumed? name, routes visited)
    fe = dict(OpKinds={"add", "delkey"}, FeGate=True, FeKinds=FE_ALL, FeFilters={1}, FeBl=1, FeRw=1, FeAgg=1, InitN=2, Mixed=True)
    gen("fe", **dict(fe, Classes={1, 2}, FeWindow=True, RouteGates=False))
    # ... and held again at every route: two changes anywhere between the load and the last route
    gen("fe", **dict(fe, InitN=ctx.pick(1, 2)))
    if not q:
        gen("fe", **dict(fe, MaxOps=3, InitN=1, FeWindow=True, Mixed=False))
    # table level, capture routes as gates: every interleaving of one held dispatcher with 2 operations
    gen("route", OpKinds={"add", "delkey"}, AddFilters={0, 1}, Classes={1})
    gen("route", OpKinds={"delkey"}, NDisp=2, MaxOps=1, InitN=ctx.pick(2, 3))
    # inside a real sendAllMatch route (destinations), log-hook gate
    gen("dest", OpKinds={"add", "delidx"})
    gen("dest", OpKinds={"updidx", "delidx"}, Classes={1, 2}, UpdFilters={1}, MaxOps=ctx.pick(1, 2))
    # 3 operations around the end of the list: every interleaving of one held dispatcher with add / delete-LAST histories
    # (delete-last, delete-last, add while the dispatcher still holds the first, longest snapshot: see TableMem.TruncateTail)
    gen("route", OpKinds={"add", "delkey"}, MaxOps=3, DelTail=True)
    gen("dest", OpKinds={"add", "delidx"}, MaxOps=3, DelTail=True)
    # table level, real routes (one destination each), commands addRoute/delRoute/modRoute
    gen("rroute", OpKinds={"add", "delkey", "updkey"}, InitN=2, Classes={1, 2}, UpdFilters={1},
        AddFilters={0, 2}, MaxOps=ctx.pick(1, 2))
    gen("rroute", OpKinds={"delkey"}, InitN=3, MaxOps=ctx.pick(1, 2))
    # OVERLAPPING admin operations on one real route: a DelDestination parked inside Shutdown (route lock held, configuration
    # loaded) while a second operation -- delDest / modDest / add / modRoute, every index incl. beyond the end -- is started
    gen("ovl", OpKinds={"add", "delidx", "updidx", "rtupd"}, NDisp=0, Overlap=True, InitN=3, MaxOps=2)
    if not q:
        gen("ovl", OpKinds={"add", "delidx", "updidx", "rtupd"}, NDisp=0, Overlap=True, InitN=2, MaxOps=3)
        gen("ovl", OpKinds={"delidx", "updidx", "rtupd"}, NDisp=0, Overlap=True, InitN=4, MaxOps=2, UpdFilters={1, 2})
    # ... and on the TABLE: DelAggregator of the gate aggregator parked inside Aggregator.Shutdown (table lock held, configuration
    # loaded, not yet stored) while a second operation on any list (routes, blacklist, rewriters, aggregators) is started
    tov = dict(OpKinds={"add", "delkey"}, FeKinds=FE_ALL, FeFilters={1}, FeBl=1, FeRw=1, FeAgg=1, NDisp=0, Overlap=True, FeGate=True,
               RouteGates=False)
    gen("tovl", **dict(tov, InitN=2, MaxOps=2))
    if not q:
        gen("tovl", **dict(tov, InitN=1, MaxOps=3))
    # lists without a gate point inside their loop: whole dispatches between operations + white box
    gen("rw", OpKinds={"add", "delidx"}, StepWise=False, MaxOps=ctx.pick(2, 3))
    if not q:
        gen("route", OpKinds={"add", "delkey"}, MaxOps=3)
        gen("dest", OpKinds={"add", "delidx"}, NDisp=2, MaxOps=1)
        gen("dest", OpKinds={"delidx"}, InitN=4, MaxOps=2)
        gen("rroute", OpKinds={"add", "delkey"}, InitN=3, MaxOps=3, DelTail=True)
        gen("route", OpKinds={"add", "delkey"}, InitN=4, MaxOps=4, DelTail=True)
    # independent generator runs, one TLC worker each, 4 at a time
    ctx.specdir()
    with ThreadPoolExecutor(max_workers=4) as ex:
        futs = [ex.submit(gen_schedules, ctx, kind, "sched_%s_%d" % (kind, n), **kw) for n, (kind, kw) in enumerate(G)]
        res = [f.result() for f in futs]
    S = []
    for (kind, kw), r in zip(G, res):
        if kind == "rw":
            for k in ("rw", "bl", "agg"):
                S += [dict(x, kind=k) for x in copy.deepcopy(r)]
        else:
            S += r
    for i, s in enumerate(S):
        s["h"] = i
    return S


def split(events):
    blocks, curb = [], None
    for e in events:
        if e["ev"] == "hist":
            curb = [e]
            blocks.append(curb)
        elif e["ev"] in ("fin", "obs_mismatch", "note", "gatefail"):
            continue
        elif curb is not None:
            curb.append(e)
    return blocks


def validate(ctx, name, blocks, check_dead, on_bad, max_rounds=6, check_cells=True):
    """TLC judges every event; a history in which a clause failed is reported and removed, the rest re-validated."""
    blocks = list(blocks)
    nb = len(blocks)
    bad_n = 0
    for rnd in range(max_rounds):
        flat = [e for b in blocks for e in b]
        if not flat:
            break
        f = ctx.write_ndjson("%s_trace_%d.ndjson" % (name, rnd), flat)
        ok, matched, res = ctx.validate_traces("TableTrace", "TableTrace.cfg", f, len(flat), len(blocks),
                                               consts=dict(CheckDead=check_dead, CheckCells=check_cells), tag="%s_%d" % (name, rnd), timeout=3000,
                                               heap="12g")
        if ok:
            break
        if res["violated"] == "Clean":
            ls = re.findall(r"l\s*\|->\s*(\d+)|/\\ l = (\d+)", res["text"])
            bs = re.findall(r'bad\s*(?:\|->|=)\s*"(\w*)"', res["text"])
            if not ls or not bs:
                raise Machinery("cannot read the failing clause from TLC's output; log %s" % res["log"])
            lnum = int([x or y for x, y in ls][-1])
            idx = lnum - 2          # l points to the next event; 0-based index of the judged one
            clause = bs[-1]
        elif matched is not None and matched < len(flat):
            idx, clause = matched, "Unmatched"
        else:
            raise Machinery("trace validation %s gave no verdict; log %s" % (name, res["log"]))
        pos = 0
        for bi, b in enumerate(blocks):
            if idx < pos + len(b):
                on_bad(b, idx - pos, clause)
                bad_n += 1
                del blocks[bi]
                break
            pos += len(b)
        else:
            raise Machinery("failing event beyond the trace")
    else:
        if max_rounds > 1:
            ctx.note("more than %d failing histories in %s; stopped re-validating" % (max_rounds, name))
    return nb, bad_n


def last_op(block, i):
    for e in reversed(block[:i + 1]):
        if e["ev"] in ("opbegin", "acall"):
            return e
    return {}


def overlapped(block, i):
    """the operations judged together at the aview event i, with what they returned"""
    ops = {}
    for e in block[:i]:
        if e["ev"] in ("opdone", "aview"):
            ops = {}
        elif e["ev"] == "acall":
            ops[e["a"]] = dict(e)
        elif e["ev"] == "aret" and e["a"] in ops:
            ops[e["a"]].update(err=e["err"], errs=e.get("errs", ""))
    return [ops[a] for a in sorted(ops)]


def main_view_before(block, i):
    """for the report only: the destination list ([id, filter] pairs) as last shown before event i"""
    view, l = [], "main"
    for e in block[:i]:
        if e["ev"] == "opbegin":
            l = e.get("l", "main")
        elif e["ev"] == "aview":
            view = e["views"]["main"]
        elif e["ev"] == "opdone" and l == "main":
            view = e["view"]
    return view


def op_text(o, kind="ovl"):
    if kind == "tovl":
        return {"main": {"add": "addRoute #%(e)s", "delkey": "delRoute #%(k)s"},
                "bl": {"add": "addBlack #%(e)s (class %(f)s)", "delidx": "delBlack %(i)s"},
                "rw": {"add": "addRewriter #%(e)s", "delidx": "delRewriter %(i)s"},
                "agg": {"add": "addAgg #%(e)s (class %(f)s)", "delidx": "delAgg %(i)s"}}.get(o["l"], {}).get(o["op"], "%(l)s %(op)s") % o
    if o.get("l") == "rt":
        return "modRoute prefix=%s" % ("c%d." % o["f"] if o["f"] else "''")
    return {"add": "addDest #%(e)s", "delidx": "delDest %(i)s", "updidx": "modDest %(i)s prefix=c%(f)s."}.get(o["op"], "%(op)s") % o


def changed_snapshots(block, i):
    """for the report only (the verdict is TLC's): which earlier published slices read differently at event i"""
    first, out = {}, []
    for j, e in enumerate(block[:i + 1]):
        if e["ev"] != "opdone":
            continue
        for lst, reads in e.get("snaps", {}).items():
            for n, ids in enumerate(reads):
                if (lst, n) not in first:
                    first[(lst, n)] = (ids, j)
                elif j == i and ids != first[(lst, n)][0]:
                    out.append(dict(list=lst, snapshot=n, published=first[(lst, n)][0], now=ids))
    return out


def run_driver(ctx, test, name, scn, timeout):
    sf = ctx.write_ndjson(name + "_scn.ndjson", scn)
    tf = os.path.join(ctx.out, name + "_events.ndjson")
    env = dict(VERIF_TBL_SCN=sf, VERIF_TBL_TRACE=tf)
    if test == "TestReplay":
        env["GOMAXPROCS"] = "2"     # the replay is one forced schedule at a time: hand-overs between goroutines, no parallelism
    res = ctx.go_test("tbl", run="^%s$" % test, timeout=timeout, expect_ok=False, env=env)
    events = ctx.read_ndjson(tf) if os.path.exists(tf) else []
    if res["rc"] != 0:
        if "panic:" in res["text"] or "fatal error:" in res["text"]:
            prog = []
            try:
                prog = ctx.read_ndjson(tf + ".progress")
            except Exception:
                pass
            ctx.violation("table-panics test=%s" % test, "the table panicked during an admin history / dispatch",
                          dict(log=res["log"], last=prog[-3:], tail=res["text"][-2500:]))
        else:
            raise Machinery("driver tbl/%s failed (rc=%s); log %s\n%s" % (test, res["rc"], res["log"], res["text"][-2500:]))
    elif not events or events[-1].get("ev") != "fin":
        raise Machinery("driver tbl/%s did not finish its scenarios" % test)
    mm = [e for e in events if e["ev"] == "obs_mismatch"]
    if mm:
        raise Machinery("observation channels disagree (log hook vs destination counters): %s" % mm[:3])
    return events


def run(ctx):
    q = ctx.quick()
    model_check(ctx)

    # ---------------------------------------------------------- (a)+(b) replay of TLC schedules
    S = schedules(ctx)
    kinds = {}
    for s in S:
        kinds[s["kind"]] = kinds.get(s["kind"], 0) + 1
    ctx.log("schedules: %d %s" % (len(S), kinds))
    events = run_driver(ctx, "TestReplay", "replay", S, ctx.pick(900, 3000))
    blocks = split(events)
    if len(blocks) != len(S) and not ctx.violations:
        raise Machinery("replay: %d histories recorded for %d schedules" % (len(blocks), len(S)))

    # the front-end gate held: in a "win" schedule both operations were performed while the dispatch was in flight
    if len(blocks) == len(S):
        def in_flight_ops(b):
            st = next((i for i, e in enumerate(b) if e["ev"] == "start"), len(b))
            en = next((i for i, e in enumerate(b) if e["ev"] == "end"), len(b))
            return sum(1 for e in b[st:en] if e["ev"] == "opbegin")
        loose = [s["h"] for s, b in zip(S, blocks) if s.get("win") and in_flight_ops(b) != sum(1 for x in s["steps"] if x["ev"] == "op")]
        if loose:
            raise Machinery("kind fe: the dispatcher was not held at the front-end gate (aggregator mock clock) in %d histories, "
                            "e.g. h=%d: the gate point is gone from Table.Dispatch / aggregator.AddMaybe?" % (len(loose), loose[0]))

    def on_bad(b, i, clause):
        ev = b[i]
        kind = b[0].get("kind")
        op = last_op(b, i)
        if clause == "Atomic" and kind == "fe":
            st = max(j for j, e in enumerate(b[:i]) if e["ev"] == "start" and e["d"] == ev.get("d"))
            chg = [e for e in b[st:i] if e["ev"] == "opbegin"]
            sig = "atomic-whole-table kind=fe changes=%s" % "+".join("%s.%s" % (e["l"], e["op"]) for e in chg)
            what = ("dispatch %s (in flight while %s) ended as fate=%s rewriters=%s routes=%s: blacklist, rewriters, aggregators and "
                    "routes TOGETHER are not those of any one version of the table between its start and its end" %
                    (ev.get("d"), ", ".join("%s %s %s" % (e["l"], e["op"], {k: e.get(k) for k in "efik" if e.get(k)}) for e in chg),
                     ev.get("fate"), ev.get("rw") if ev.get("rwobs") else "unobserved", ev.get("vis")))
        elif clause == "Atomic":
            sig = "atomic kind=%s after=%s" % (kind, op.get("op"))
            what = ("dispatch %s was delivered to entries %s (rewriters %s): not the entry list of any table version "
                    "between its start and its end (last change: %s %s)" % (ev.get("d"), ev.get("vis"), ev.get("rw"),
                                                                           op.get("op"), {k: op.get(k) for k in "efik"}))
        elif clause == "SnapshotImmutable":
            ch = changed_snapshots(b, i)
            sig = "snapshot-mutated list=%s kind=%s op=%s" % (op.get("l"), kind, op.get("op"))
            what = ("%s on list %s overwrote cells of a slice that was published earlier in this history (a dispatcher that "
                    "loaded it then may still be iterating it): %s" %
                    (op.get("op"), op.get("l"), "; ".join("snapshot #%d of %s published as %s reads %s now" % (
                        c["snapshot"], c["list"], c["published"], c["now"]) for c in ch[:3]) or "no earlier reading?"))
        elif clause == "AdminLinearizable":
            ops = overlapped(b, i)
            prev = main_view_before(b, i)
            sig = "admin-overlap-not-linearizable kind=%s ops=%s" % (kind, "||".join("%s.%s" % (o["l"], o["op"]) for o in ops))
            what = ("%s: '%s' was in flight (inside Shutdown of the entry it deletes, %s lock %s) when '%s' was "
                    "issued; both returned (%s) and the %s now shows %s ([id, filter] pairs per list): not the result of "
                    "applying the two changes one after the other in either order -- a change was lost / applied to a stale "
                    "configuration" % ("table" if kind == "tovl" else "route with destinations %s" % prev,
                                       op_text(ops[0], kind) if ops else "?", "table" if kind == "tovl" else "route",
                                       "held" if ev.get("locked") else "NOT held", op_text(ops[1], kind) if len(ops) > 1 else "?",
                                       ", ".join("err=%s" % o.get("err") for o in ops), "table" if kind == "tovl" else "route",
                                       ev.get("views")))
        elif clause == "ViewOK":
            sig = "view list=%s kind=%s op=%s" % (op.get("l"), kind, op.get("op"))
            what = "after %s %s the table shows %s" % (op.get("op"), {k: op.get(k) for k in "efik"}, ev.get("view"))
        elif clause == "ResultOK":
            sig = "result list=%s kind=%s op=%s" % (op.get("l"), kind, op.get("op"))
            what = "%s %s returned err=%s (%s)" % (op.get("op"), {k: op.get(k) for k in "efik"}, ev.get("err"), ev.get("errs"))
        elif clause == "NoDeadSend":
            sig = "dispatch-blocks-on-shutdown-destination kind=%s after=%s" % (kind, op.get("op"))
            what = ("dispatch %s, holding the configuration from before the delete, sent into a destination whose relay "
                    "had been shut down by it (%d send(s)); nothing reads that channel: the dispatcher blocks for ever"
                    % (ev.get("d"), ev.get("dead", 0)))
        else:
            sig = "trace-unmatched ev=%s" % ev.get("ev")
            what = "event not accepted by TableTrace: %s" % json.dumps(ev)[:300]
        ctx.violation(sig, what, dict(history=b[:i + 1][-40:], clause=clause))
        ctx.sample(dict(failed=clause, kind=kind, event=ev))

    n1, bad1 = validate(ctx, "replay", blocks, False, on_bad)
    if any(v["sig"].startswith("snapshot-mutated") for v in ctx.violations):
        # what traffic sees of it: the histories judged again without the white-box clauses
        validate(ctx, "replayvis", blocks, False, on_bad, max_rounds=3, check_cells=False)
    # second pass: sends into shut-down destinations (separate clause, separate signature)
    withdead = [b for b in blocks if any(e["ev"] == "end" and e.get("dead", 0) > 0 for e in b)]
    ctx.cov["histories_with_send_to_shutdown_destination"] = len(withdead)
    if withdead:
        validate(ctx, "replaydead", withdead[:ctx.pick(40, 400)], True, on_bad, max_rounds=1)

    # ---------------------------------------------------------- (c) random admin histories under load
    rng = random.Random(ctx.seed)
    loads = []
    for i in range(ctx.pick(4, 24)):
        loads.append(dict(h=i, kind=("route" if i % 2 == 0 else "dest"), disp=rng.choice([2, 4, 6]),
                          perdisp=ctx.pick(150, 400), maxops=ctx.pick(120, 300), seed=rng.randrange(1 << 30)))
    lev = run_driver(ctx, "TestLoad", "load", loads, ctx.pick(900, 3000))
    lblocks = split(lev)
    n2, bad2 = validate(ctx, "load", lblocks, False, on_bad)

    # ---------------------------------------------------------- binding self-test
    if not ctx.violations:
        selftest(ctx, blocks)

    # ---------------------------------------------------------- evidence
    allb = blocks + lblocks
    ends = [e for b in allb for e in b if e["ev"] == "end"]
    ops = [e for b in allb for e in b if e["ev"] in ("opdone", "aview")]
    if not ends or not ops:
        raise Machinery("dead driver: no dispatches / operations recorded")
    # overlapping admin operations: every pair was really in flight together (the driver fails otherwise); how the second waited
    ovl = [e for b in blocks if b[0].get("kind") in ("ovl", "tovl") for e in b if e["ev"] == "aview"]
    n_ovl = sum(1 for s in S if s["kind"] in ("ovl", "tovl"))
    if len(ovl) != n_ovl and not ctx.violations:
        raise Machinery("kinds ovl, tovl: %d overlapped pairs recorded for %d schedules" % (len(ovl), n_ovl))
    for k in ("ovl", "tovl"):
        if not ctx.violations and not any(e.get("locked") and e.get("g2") == "lock"
                                          for b in blocks if b[0].get("kind") == k for e in b if e["ev"] == "aview"):
            raise Machinery("kind %s: in no history the second operation waited for the lock held by the first (vacuous gate)" % k)
    overl = 0
    for b in lblocks:
        open_d, cnt = set(), 0
        for e in b:
            if e["ev"] == "start":
                open_d.add(e["d"])
            elif e["ev"] == "end":
                open_d.discard(e["d"])
            elif e["ev"] == "opbegin" and open_d:
                cnt += 1
        overl += cnt
    if lblocks and overl == 0:
        raise Machinery("load histories: no operation overlapped a dispatch (vacuous)")
    distinct = set(json.dumps([s["kind"], s["steps"]], sort_keys=True) for s in S
                   if (any(x["ev"] == "op" for x in s["steps"]) and any(x["ev"] in ("start", "disp") for x in s["steps"]))
                   or any(x["ev"] == "ov1" for x in s["steps"]))
    cov = ctx.cov
    cov["evaluations"] = len(ends) + len(ops)
    cov["distinct_nontrivial"] = len(distinct)
    cov["schedules_by_kind"] = kinds
    cov["dispatches_judged"] = len(ends)
    cov["operations_judged"] = len(ops)
    cov["refused_operations"] = sum(1 for e in ops if e.get("err"))
    cov["overlapping_admin_pairs_judged"] = len(ovl)
    cov["overlapping_admin_pairs_second_waited_for_the_lock_held_by_first"] = sum(1 for e in ovl if e.get("locked") and e.get("g2") == "lock")
    cov["overlapping_admin_pairs_by_second_operation"] = ovl_cov(blocks)
    cov["load_ops_overlapping_a_dispatch"] = overl
    cov["whole_table_dispatches_with_two_lists_changed_in_flight"] = whole_table_cov(blocks)
    cov["rule"] = ("whole table (kind fe): every schedule (TLC) in which one dispatcher is held inside the front end of Dispatch -- "
                   "after the configuration load, in the first aggregator's AddMaybe (aggregator.NewMocked, mock clock as gate) -- "
                   "and then at every capture route, while 2 operations change a front-end list (blacklist / rewriter / drop-raw "
                   "aggregator add, delete) AND the route list (add, delete), both orders; fate, rewritten name and visited routes "
                   "judged TOGETHER against the versions of the whole table (TableOps.WholeAt); "
                   "replay: every interleaving (TLC, TableSched.tla) of <=2-3 admin operations with the entry-by-entry steps of "
                   "1-2 held dispatchers over 2-4 entries, per list kind (capture routes, real routes, destinations of a real "
                   "sendAllMatch route; rewriter/blacklist/aggregator lists with whole dispatches), plus every interleaving of 3 add / "
                   "delete-LAST operations with one held dispatcher (routes, destinations); white box after every operation on every "
                   "list: all slices published so far in the history re-read and compared cell by cell; "
                   "overlapping admin operations (kind ovl, TLC): every history of <=2-3 operations on one real route whose last two "
                   "OVERLAP -- a DelDestination of an existing destination parked inside Destination.Shutdown (relay held by the "
                   "destination hook; it holds the route lock and has loaded the configuration) while a second delDest / modDest / "
                   "addDest / modRoute (every index incl. the one that is valid before and beyond the end after the delete) is "
                   "started and comes to wait for the route lock; calls, returns and the resulting route snapshot judged by "
                   "TableOps.Linearizable (some order of the two, each refused exactly when that order says so); the same on the "
                   "TABLE (kind tovl): DelAggregator parked inside Aggregator.Shutdown (the aggregator's goroutine held in its mock "
                   "clock; table lock held, configuration loaded and not yet stored) while an add / delete on the routes, the "
                   "blacklist, the rewriters or the aggregators is started; "
                   "load: seeded random admin histories (commands and Go API, valid/unknown/out-of-range arguments) under 2-6 "
                   "free-running dispatchers; every end/opdone event judged by TableTrace.tla; distinct = distinct "
                   "(kind, schedule) containing both an operation and a dispatch, or an overlapping pair of operations")
    for s in S:
        if s["kind"] == "route" and len(cov["samples"]) < 1 and any(x["ev"] == "step" for x in s["steps"][:2]):
            ctx.sample(dict(kind=s["kind"], schedule=[(x["ev"], x["op"], x["d"], x["e"], x["k"]) for x in s["steps"]]))
    for b in blocks:
        if b[0]["kind"] == "dest" and len(cov["samples"]) < 3 and any(e["ev"] == "end" and len(e["vis"]) > 1 for e in b):
            ctx.sample(dict(kind="dest", events=[{k: v for k, v in e.items() if k in ("ev", "op", "i", "e", "d", "vis", "err", "view")}
                                                 for e in b][:14]))
            break
    for b in blocks:
        if b[0]["kind"] == "ovl":
            ctx.sample(dict(kind="ovl", events=[{k: v for k, v in e.items() if k in ("ev", "a", "l", "op", "i", "e", "f", "err", "views", "locked", "g2")}
                                                for e in b if e["ev"] in ("acall", "aret", "aview")]))
            break
    ctx.sample(dict(load_history_events=len(lblocks[0]) if lblocks else 0))
    ctx.assumptions += [
        "a dispatch that started after operation k returned and ended before operation m was called may have loaded any version k..m-1+1; "
        "filter changes are required to be atomic per entry (each entry accepts/refuses by a filter value it had during the dispatch), "
        "structural changes per list",
        "blacklist and rewriter loops have no point where a dispatcher can be held without a hook; the aggregator loop has one (the "
        "mock clock of an aggregator built with aggregator.NewMocked, called from AddMaybe in the Dispatch goroutine): the dispatcher "
        "is held at the FIRST aggregator, i.e. after the load, the blacklist and the rewriters and before the other aggregators and "
        "the routes.  Inside the blacklist / rewriter loops atomicity under a forced schedule is replaced by the white-box cell "
        "comparison (SnapshotImmutable) plus free-running load",
        "the fate of a metric (dropped by the blacklist / consumed by a drop-raw aggregator) is read off the table's own Tracef lines "
        "and cross-checked per history against the table's blacklist counter",
        "overlapping admin operations are forced by parking the first inside the Shutdown of the entry it deletes: on a route only "
        "DelDestination, on the table only DelAggregator wait for another goroutine between their Load and their Store while they "
        "hold the lock, so the FIRST operation of a pair is always one of these two; the second is any operation.  What the second "
        "does before it asks for the lock (a Load outside the lock) is thereby exposed for every operation; a first operation of "
        "another kind that drops the lock half-way is covered by the model only",
        "destinations point at a closed loopback port; a visit is observed at the Tracef call preceding `dest.In <- buf` (logrus hook "
        "installed by the driver, also the gate) and cross-checked against the destinations' conn_down_no_spool counters",
    ]
    cov["trusted_base"] = ["TLC", "harness/tbl driver (records only)", "aggregator.NewMocked's clock as the gate inside Dispatch; "
                           "the 'table dropped ...' Tracef lines of Table.Dispatch as observation of the fate", "table.VerifRawConfig / route.VerifRawDests accessors (the driver keeps every slice header it saw published and re-reads all of them after every operation)",
                           "the Tracef call in route.Dispatch as observation point inside real routes",
                           "destination.VerifSetHook: points relay.loop (gate: parks a destination's relay so that Shutdown waits) and "
                           "relay.shutdown (clean-up only); runtime.Stack goroutine states as evidence that the first operation is "
                           "inside Destination.Shutdown and the second waits for a mutex asked for by a route/table function"]


def ovl_cov(blocks):
    """kind ovl: overlapped pairs by (second operation, how it waited), measured on the recorded events"""
    out = {}
    for b in blocks:
        if b[0].get("kind") not in ("ovl", "tovl"):
            continue
        for i, e in enumerate(b):
            if e["ev"] == "aview":
                ops = overlapped(b, i)
                if len(ops) == 2:
                    k = "%s:%s.%s/%s" % (b[0]["kind"], ops[1]["l"], ops[1]["op"], e.get("g2"))
                    out[k] = out.get(k, 0) + 1
    return out


def whole_table_cov(blocks):
    """kind fe: dispatches that were in flight while a front-end list AND the routes changed (measured on the recorded events)"""
    n = 0
    for b in blocks:
        if b[0].get("kind") != "fe":
            continue
        open_d = {}
        for e in b:
            if e["ev"] == "start":
                open_d[e["d"]] = set()
            elif e["ev"] == "opbegin":
                for v in open_d.values():
                    v.add("main" if e["l"] == "main" else "fe")
            elif e["ev"] == "end":
                if len(open_d.pop(e["d"], ())) == 2:
                    n += 1
    return n


def selftest(ctx, blocks):
    """one corrupted observation must be rejected by TLC exactly there"""
    cand = [b for b in blocks if b[0]["kind"] == "route" and any(e["ev"] == "end" and len(e["vis"]) >= 2 for e in b)][:30]
    if not cand:
        raise Machinery("binding self-test: no suitable history")
    flat = copy.deepcopy([e for b in cand for e in b])
    idx = next(i for i, e in enumerate(flat) if e["ev"] == "end" and len(e["vis"]) >= 2)
    flat[idx]["vis"] = flat[idx]["vis"][:-2] + [flat[idx]["vis"][-1]] * 2          # skip one, deliver the next twice
    hit = []
    validate(ctx, "selftest1", split(flat), False, lambda b, i, c: hit.append((b[i], c)), max_rounds=1)
    if not hit or hit[0][1] != "Atomic" or hit[0][0]["vis"] != flat[idx]["vis"]:
        raise Machinery("binding self-test failed: a skip+duplicate in a recorded visit list was not rejected as Atomic (%s)" % hit[:1])
    # a cell of the OLDEST non-empty published slice reads differently after a much later operation
    flat = copy.deepcopy([e for b in cand for e in b])
    idx = max((i for i, e in enumerate(flat) if e["ev"] == "opdone"), key=lambda i: (len(flat[i]["snaps"]["main"]), -i))
    if len(flat[idx]["snaps"]["main"]) < 4 or not flat[idx]["snaps"]["main"][1]:
        raise Machinery("binding self-test: no history with >= 4 published slices of the main list")
    flat[idx]["snaps"]["main"][1][0] += 1
    hit = []
    validate(ctx, "selftest2", split(flat), False, lambda b, i, c: hit.append((b[i], c)), max_rounds=1)
    if not hit or hit[0][1] != "SnapshotImmutable" or hit[0][0] != flat[idx]:
        raise Machinery("binding self-test failed: a changed cell of an old published slice was not rejected as "
                        "SnapshotImmutable at that operation (%s)" % hit[:1])
    # whole table: the outcome of a Dispatch that loads the configuration twice (front end of the version it started with,
    # routes of the version current at its end), written into a recorded history in which that is not a version of the table
    fe = [b for b in blocks if b[0]["kind"] == "fe"]
    done = False
    for b in fe:
        ops = [e for e in b if e["ev"] == "opbegin"]
        st = next((i for i, e in enumerate(b) if e["ev"] == "start"), None)
        en = next((i for i, e in enumerate(b) if e["ev"] == "end"), None)
        if st is None or en is None or [e["l"] + e["op"] for e in b[st:en] if e["ev"] == "opbegin"] != ["bladd", "mainadd"]:
            continue
        if b[en]["fate"] != "routed" or ops[-2]["f"] != b[st]["c"]:
            continue
        flat = copy.deepcopy(b)
        flat[en]["vis"] = flat[en]["vis"] + [ops[-1]["e"]]        # ... and the route that only exists together with the blacklist entry
        hit = []
        validate(ctx, "selftest3", split(flat), False, lambda bb, i, c: hit.append((bb[i], c)), max_rounds=1)
        if not hit or hit[0][1] != "Atomic" or hit[0][0] != flat[en]:
            raise Machinery("binding self-test failed: blacklist of one table version + routes of another was not rejected as Atomic (%s)" % hit[:1])
        done = True
        break
    if not done:
        raise Machinery("binding self-test: no whole-table history (AddBlacklist, AddRoute under a held dispatcher)")
    # overlapping admin operations: the outcome of a modDest that publishes the configuration it loaded BEFORE an overlapping
    # delDest took effect (the deleted destination is listed again), written into a recorded pair
    done = False
    for b in blocks:
        if b[0]["kind"] != "ovl":
            continue
        av = next((i for i, e in enumerate(b) if e["ev"] == "aview"), None)
        if av is None:
            continue
        ops = overlapped(b, av)
        before = main_view_before(b, av)
        if len(ops) != 2 or ops[1]["op"] != "updidx" or ops[1]["l"] != "main" or ops[0]["err"] or ops[1]["err"] \
                or ops[1]["i"] >= len(before) - 1:
            continue
        flat = copy.deepcopy(b)
        stale = [list(x) for x in before]
        stale[ops[1]["i"]][1] = ops[1]["f"]
        flat[av]["views"]["main"] = stale
        hit = []
        validate(ctx, "selftest4", split(flat), False, lambda bb, i, c: hit.append((bb[i], c)), max_rounds=1)
        if not hit or hit[0][1] != "AdminLinearizable" or hit[0][0] != flat[av]:
            raise Machinery("binding self-test failed: a route that lists a deleted destination again after delDest || modDest was "
                            "not rejected as AdminLinearizable (%s)" % hit[:1])
        done = True
        break
    if not done:
        raise Machinery("binding self-test: no history with delDest || modDest (both accepted)")
    ctx.cov["binding_selftests"] = "passed"
