"""Shared by C08 and C09: TLC model checking of DiskQueue.tla, history generation
from the level-A contract, the Go driver on the real nsqd.DiskQueue, and trace
validation (level A decides; level B binds the exhaustive model to the code)."""
import json, os, random
from vlib.core import Machinery

UNIT = 8  # one model cell = 8 bytes (4-byte header + payload)


def mc_grid(ctx, grid, invariants=None):
    for consts in grid:
        c = dict(MaxCrashes=1, AllowReopen=True, AllowTick=True, PostPuts=1, Mutant="")
        c.update(consts)
        ctx.tlc("DiskQueue", "DiskQueue_mc.cfg", consts=c, timeout=3000, heap="24g")


def mc_two_crashes(ctx, grid):
    """second-generation crashes: the incarnation after the first crash is adopted as the new base
    (logical content = what the recovery delivers ++ later puts) and crashes again; plus the
    non-vacuity deviation that only shows with two crashes (strict metadata parser + a metadata
    temp file left by the first crash and overwritten in place)."""
    for consts in grid:
        c = dict(MaxCrashes=2, AllowReopen=False, AllowTick=True, PostPuts=1, Mutant="")
        c.update(consts)
        ctx.tlc("DiskQueue", "DiskQueue_mc.cfg", consts=c, timeout=3000, heap="24g")
    base = dict(MaxFile=3, SyncEvery=3, Sizes={1, 2}, MaxPuts=2, AllowReopen=False, AllowTick=True, PostPuts=1,
                Mutant="strict_meta_parse")
    r = ctx.tlc("DiskQueue", "DiskQueue_mc.cfg", consts=dict(base, MaxCrashes=2), expect_ok=False, count=False)
    if r["violated"] not in ("C08", "C08Run"):
        raise Machinery("deviation strict_meta_parse is not rejected with two crashes (vacuity); log %s" % r["log"])
    # ... and it needs the second crash: with a single crash the deviation is invisible
    r = ctx.tlc("DiskQueue", "DiskQueue_mc.cfg", consts=dict(base, MaxCrashes=1), expect_ok=False, count=False)
    if not r["ok"]:
        raise Machinery("deviation strict_meta_parse is rejected with a single crash already: the model of the "
                        "left-over temp file changed; log %s" % r["log"])


def mc_nonvacuity(ctx):
    """the contract invariants are not vacuous: named deviations violate them"""
    base = dict(MaxFile=3, SyncEvery=3, Sizes={1, 2}, MaxPuts=3, MaxCrashes=1, AllowReopen=False,
                AllowTick=True, PostPuts=1)
    for m in ("persist_next_read", "no_atomic_rename"):
        c = dict(base, Mutant=m)
        r = ctx.tlc("DiskQueue", "DiskQueue_mc.cfg", consts=c, expect_ok=False, count=False)
        if r["violated"] not in ("C08", "C08Run"):
            raise Machinery("deviation %s is not rejected by the model invariants (vacuity)" % m)


def gen_histories(ctx, maxops, sizes, only_full=True):
    r = ctx.tlc("QueueHistGen", "QueueHistGen.cfg", workers=1,
                consts=dict(MaxOps=maxops, SizeClasses=set(sizes)), count=True)
    hs = [json.loads(x) for x in ctx.tlc_printed(r, "@@H")]
    if only_full:
        hs = [h for h in hs if len(h) == maxops]
    return hs


def unit_history(k, ops, maxfile, syncevery, crash):
    return dict(h=k, maxbytes=maxfile * UNIT, syncevery=syncevery, crash=crash, unit=UNIT,
                ops=[dict(op=o["op"], len=(o["size"] * UNIT - 4 if o["op"] == "put" else 0)) for o in ops])


UNIT_SETTINGS = [(1, 1), (2, 3), (3, 2), (5, 7), (8, 10), (3, 1000), (1, 2), (5, 1)]


def random_history(rng, k, nops, crash, unit_scaled, pool=UNIT_SETTINGS):
    """long random histories; byte sizes straddling the segment limit"""
    if unit_scaled:
        # few distinct settings per run: the level-B trace check runs TLC once per setting
        maxfile, syncevery_u = rng.choice(pool)
        sizes = [1, 2, 3, 4, maxfile, maxfile + 1, 2 * maxfile + 1]
        maxbytes = maxfile * UNIT
        lens = [s * UNIT - 4 for s in sizes]
    else:
        maxbytes = rng.choice([1, 7, 16, 33, 64, 100, 1000])
        lens = [4, 5, 7, 12, 13, max(4, maxbytes - 4), max(4, maxbytes - 3), max(4, maxbytes + 1), 3 * maxbytes + 5]
        if not crash:
            lens += [0, 1, 3]   # identity of payloads shorter than 4 bytes is positional only (C09)
    syncevery = rng.choice([1, 2, 3, 7, 10, 1000])
    if unit_scaled:
        syncevery = syncevery_u
    ops, depth = [], 0
    pput = rng.choice([0.4, 0.55, 0.7])
    for _ in range(nops):
        x = rng.random()
        if x < 0.04:
            ops.append(dict(op="reopen", len=0))
        elif x < 0.04 + pput or depth == 0:
            ops.append(dict(op="put", len=rng.choice(lens)))
            depth += 1
        else:
            ops.append(dict(op="take", len=0))
            depth -= 1
    # level-B detail (decoded directory content at every hook) only for histories of moderate length
    lvlb = unit_scaled and len(ops) <= 300
    return dict(h=k, maxbytes=maxbytes, syncevery=syncevery, crash=crash, unit=(UNIT if lvlb else 0), nolevelb=not lvlb,
                ops=ops)


def run_driver(ctx, histories, name, levelb=True, timeout=3000, gen2_permille=0):
    hf = ctx.write_ndjson(name + "_hist.ndjson", histories)
    tf = os.path.join(ctx.out, name + "_trace.ndjson")
    res = ctx.go_test("dq", run="^TestDQ$", timeout=timeout, expect_ok=False,
                      env=dict(VERIF_DQ_HIST=hf, VERIF_DQ_TRACE=tf, VERIF_DQ_LEVELB="1" if levelb else "0",
                               VERIF_DQ_GEN2_PERMILLE=gen2_permille))
    crashed = None
    if res["rc"] != 0:
        # the real queue panicked (or the driver died): find what it was doing
        prog = []
        try:
            prog = ctx.read_ndjson("dq_progress.ndjson")
        except Exception:
            pass
        crashed = dict(log=res["log"], last=prog[-16:], tail=res["text"][-2500:])
        if "panic:" not in res["text"] and "fatal error:" not in res["text"]:
            raise Machinery("dq driver failed without a panic (rc=%s); log %s\n%s" % (res["rc"], res["log"], res["text"][-2000:]))
    events = []
    if os.path.exists(tf):
        with open(tf) as f:
            for line in f:
                try:
                    events.append(json.loads(line))
                except ValueError:      # torn last line of a driver that died
                    break
    return events, crashed


def level_a(events):
    """projection of the recorded events to the level-A alphabet"""
    out = []
    gen2 = False
    for e in events:
        ev = e["ev"]
        if ev == "hist":
            gen2 = False
            out.append(dict(ev="hist", h=e["h"]))
        elif ev == "gen2":
            # second generation on a crash snapshot of history h: ids are positions in L = X ++ new puts
            gen2 = True
            out.append(dict(ev="gen2", h=e["h"], g=e["g"], x=e["x"], xs=e["xs"], label=e["label"]))
        elif ev == "hook":
            lab = e["label"]
            if lab == "w_write":
                out.append(dict(ev="put", id=e["id"]))
            elif lab == "take":
                if gen2:
                    out.append(dict(ev="take2", id=e["id"], abs=e["abs"]))
                else:
                    out.append(dict(ev="take", id=e["id"]))
            elif lab == "m_rename":
                out.append(dict(ev="sync"))
        elif ev == "depth":
            out.append(dict(ev="depth", v=e["v"]))
        elif ev == "rec":
            if e.get("skipped"):
                continue
            out.append(dict(ev="rec", label=e["label"], D=e["D"], sentinel=e["sentinel"], hang=e["hang"],
                            extra=e["extra"], post=e.get("post", [1, 2, 3])))
            if gen2:
                out[-1]["Dabs"] = e["Dabs"]
        elif ev in ("hang", "puterr"):
            out.append(dict(ev="bad", what=ev, detail=e))
    return out


def split_histories(recs):
    blocks, cur = [], None
    for r in recs:
        if r["ev"] in ("hist", "gen2"):
            cur = [r]
            blocks.append(cur)
        elif cur is not None:
            cur.append(r)
    return blocks


def validate_level_a(ctx, events, strict08, strict09, on_reject, max_rounds=25):
    """TLC decides every event; a rejected history is reported through on_reject(history_block,
    index_in_block) and removed, and the rest is validated again."""
    recs = level_a(events)
    blocks = split_histories(recs)
    # second-generation blocks last: a rejected block only costs the re-validation of what follows it
    blocks = [b for b in blocks if b[0]["ev"] != "gen2"] + [b for b in blocks if b[0]["ev"] == "gen2"]
    ntraces = len(blocks)
    rejected = 0
    for rnd in range(max_rounds):
        flat = [r for b in blocks for r in b]
        if not flat:
            break
        f = ctx.write_ndjson("levelA_trace.ndjson", flat)
        ok, matched, res = ctx.validate_traces("QueueContractTrace", "QueueContractTrace.cfg", f, len(flat),
                                               len(blocks), consts=dict(Strict08=strict08, Strict09=strict09),
                                               tag="lvlA%d" % rnd, timeout=3000)
        if ok:
            break
        if matched is None:
            raise Machinery("level-A trace validation gave no verdict; log %s" % res["log"])
        # locate the offending history
        pos = 0
        for bi, b in enumerate(blocks):
            if matched < pos + len(b):
                on_reject(b, matched - pos)
                rejected += 1
                # every block starts with a reset event: the blocks before the offending one were
                # matched completely and need not be validated again
                ctx.cov["traces_validated_against_impl"] += bi
                ctx.cov["trace_events"] = ctx.cov.get("trace_events", 0) + pos
                del blocks[:bi + 1]
                break
            pos += len(b)
        else:
            raise Machinery("matched prefix beyond the trace")
    else:
        ctx.note("more than %d rejected histories; stopped re-validating" % max_rounds)
    return ntraces, rejected


# ------------------------------------------------------------------ level B
HOOKS_B = {"w_open", "w_write", "m_tmp_write", "m_rename", "take", "r_remove", "bad_rename"}


def level_b(events, hists):
    """projection to the alphabet of DiskQueueTrace.tla, positions in cells; only histories whose
    sizes are whole cells are eligible.  Returns (records, number of histories, sizes)."""
    out, sizes, nh = [], set(), 0
    keep = False
    prev_hist = False
    for e in events:
        ev = e["ev"]
        if ev == "gen2":        # second-generation runs are judged at level A only
            keep = False
            continue
        if ev == "hist":
            h = hists[e["h"]]
            keep = h.get("unit") == UNIT and all((o["len"] + 4) % UNIT == 0 for o in h["ops"] if o["op"] == "put") \
                and h["maxbytes"] % UNIT == 0
            if keep:
                nh += 1
                for o in h["ops"]:
                    if o["op"] == "put":
                        sizes.add((o["len"] + 4) // UNIT)
                out.append(dict(ev="hist", h=e["h"], maxfile=h["maxbytes"] // UNIT, syncevery=h["syncevery"]))
                prev_hist = True
            continue
        if not keep:
            continue
        if ev == "open":
            if not prev_hist:
                out.append(dict(ev="open"))
        elif ev == "closed":
            out.append(dict(ev="closed"))
        elif ev == "hook" and e["label"] in HOOKS_B:
            if "st" not in e:       # recorded without level-B detail
                return [], 0, set()
            st = e["st"]
            fs = e["fs"]
            def pos(m):     # m[5]: bytes behind the metadata text (stale tail), not scaled
                return [m[0], m[1], m[2] // UNIT, m[3], m[4] // UNIT, m[5]]
            f2 = dict(segs={k: [list(c) for c in v["cells"]] for k, v in fs["segs"].items()})
            if fs.get("meta"):
                f2["meta"] = pos(fs["meta"])
            if fs.get("tmp"):
                f2["tmp"] = pos(fs["tmp"])
            r = dict(ev=e["label"], st=[st[0], st[1], st[2] // UNIT, st[3], st[4] // UNIT, st[5], st[6] // UNIT, st[7]],
                     fs=f2)
            if "id" in e:
                r["id"] = e["id"]
            out.append(r)
        elif ev in ("hang", "puterr"):
            out.append(dict(ev="bad"))
        prev_hist = False
    return out, nh, sizes


def validate_level_b(ctx, events, hists):
    """Level-B conformance is about model fidelity, not about the property: a rejected trace is
    reported as model drift (NOTE), never as a violation."""
    recs, nh, sizes = level_b(events, hists)
    if not recs:
        return 0, 0, True
    # MaxFile / SyncEvery are constants of the model: one TLC run per setting
    groups = {}
    for b in split_histories(recs):
        groups.setdefault((b[0]["maxfile"], b[0]["syncevery"]), []).append(b)
    allok, nev = True, 0
    from concurrent.futures import ThreadPoolExecutor

    def one(gi, mf, se, blocks):
        flat = [r for b in blocks for r in b]
        f = ctx.write_ndjson("levelB_trace_%d.ndjson" % gi, flat)
        try:
            ok, matched, res = ctx.validate_traces("DiskQueueTrace", "DiskQueueTrace.cfg", f, len(flat), len(blocks),
                                                   consts=dict(TraceSizes=set(sizes), MaxFile=mf, SyncEvery=se),
                                                   tag="lvlB%d" % gi, timeout=3000, heap="8g", own_dir="specB%d" % gi)
        except Machinery as e:
            # a hook stream the level-B trace spec cannot even evaluate (an event of an unexpected shape, e.g. a hook
            # fired from another goroutine than the model's loop) is the strongest form of drift, not a verdict and not
            # a reason to lose the level-A verdicts of this run
            ok, matched, res = False, None, dict(violated="trace spec could not be evaluated: %s" % str(e)[:200])
        return gi, mf, se, flat, ok, matched, res

    items = sorted(groups.items())
    for gi in range(len(items)):
        ctx.specdir("specB%d" % gi)          # created sequentially (copytree is not thread-safe on one target)
    with ThreadPoolExecutor(max_workers=4) as pool:
        futs = [pool.submit(one, gi, mf, se, blocks) for gi, ((mf, se), blocks) in enumerate(items)]
        for fu in futs:
            gi, mf, se, flat, ok, matched, res = fu.result()
            nev += len(flat)
            if not ok:
                allok = False
                nxt = flat[matched] if matched is not None and matched < len(flat) else None
                ctx.note("model-drift DiskQueue.tla (MaxFile=%d SyncEvery=%d): hook trace matched only %s/%d events; "
                         "next event %s; invariant=%s" % (mf, se, matched, len(flat), json.dumps(nxt)[:400], res["violated"]))
                ctx.cov["drift"] = True
    return nh, nev, allok


def selftest_binding(ctx, events, hists):
    """Demonstrate that the trace specs are bound to the recorded data: one corrupted field in an
    otherwise accepted trace must make TLC reject it exactly there.  Failure = machinery error."""
    import copy
    recs = level_a(events)
    blocks = split_histories(recs)[:50]
    flat = copy.deepcopy([r for b in blocks for r in b])
    idx = next((i for i, r in enumerate(flat) if r["ev"] == "take"), None)
    if idx is not None:
        flat[idx]["id"] += 1
        f = ctx.write_ndjson("selftestA.ndjson", flat)
        ok, matched, _ = ctx.validate_traces("QueueContractTrace", "QueueContractTrace.cfg", f, len(flat), 0,
                                             consts=dict(Strict08=True, Strict09=True), tag="selfA")
        if ok or matched != idx:
            raise Machinery("binding self-test A failed: corrupted take id not rejected at line %d (matched %s)" % (idx, matched))
    idx = next((i for i, r in enumerate(flat) if r["ev"] == "rec" and len(r["D"]) >= 2), None)
    if idx is not None:
        flat = copy.deepcopy([r for b in blocks for r in b])
        flat[idx]["D"] = flat[idx]["D"][:-2] + flat[idx]["D"][-1:]     # a hole in the delivered run
        f = ctx.write_ndjson("selftestA2.ndjson", flat)
        ok, matched, _ = ctx.validate_traces("QueueContractTrace", "QueueContractTrace.cfg", f, len(flat), 0,
                                             consts=dict(Strict08=True, Strict09=True), tag="selfA2")
        if ok or matched != idx:
            raise Machinery("binding self-test A2 failed: hole in a recovered run not rejected (matched %s, want %d)" % (matched, idx))
    # second generation: a hole in what the recovery of a second-generation snapshot delivered
    b2 = next((b for b in split_histories(recs) if b[0]["ev"] == "gen2"
               and any(r["ev"] == "rec" and len(r["D"]) >= 2 for r in b)), None)
    if b2 is not None:
        flat = copy.deepcopy(b2)
        idx = next(i for i, r in enumerate(flat) if r["ev"] == "rec" and len(r["D"]) >= 2)
        flat[idx]["D"] = flat[idx]["D"][:-2] + flat[idx]["D"][-1:]
        f = ctx.write_ndjson("selftestA3.ndjson", flat)
        ok, matched, _ = ctx.validate_traces("QueueContractTrace", "QueueContractTrace.cfg", f, len(flat), 0,
                                             consts=dict(Strict08=True, Strict09=False), tag="selfA3")
        if ok or matched != idx:
            raise Machinery("binding self-test A3 failed: hole in a second-generation recovered run not rejected (matched %s, want %d)" % (matched, idx))
    recsb, nh, sizes = level_b(events, hists)
    bl = split_histories(recsb)
    if bl:
        mf, se = bl[0][0]["maxfile"], bl[0][0]["syncevery"]
        flat = copy.deepcopy([r for b in bl if (b[0]["maxfile"], b[0]["syncevery"]) == (mf, se) for r in b][:3000])
        idx = next((i for i, r in enumerate(flat) if r["ev"] == "m_tmp_write" and i > 5), None)
        if idx is not None:
            flat[idx]["fs"]["tmp"][4] += 1
            f = ctx.write_ndjson("selftestB.ndjson", flat)
            ok, matched, _ = ctx.validate_traces("DiskQueueTrace", "DiskQueueTrace.cfg", f, len(flat), 0,
                                                 consts=dict(TraceSizes=set(sizes), MaxFile=mf, SyncEvery=se), tag="selfB")
            if ok or matched != idx:
                raise Machinery("binding self-test B failed: corrupted persisted write position not rejected (matched %s, want %d)" % (matched, idx))
    ctx.cov["binding_selftests"] = "passed"
