"""XBAD -- the bad-metrics report and the table's accounting around it (extension check, not one of the listed
properties).

badmetrics/badMetrics.go (a timed map name -> last record fed through the buffered channel In by Add, read by
Get(expiry), cleaned by a maxAge/10 ticker, all inside one manage goroutine), its producer table.Dispatch (invalid lines
and out-of-order points -> table.bad.Add) and its readers Table.Bad().Get and the web endpoint
/badMetrics/{timespec}.json (ui/web; there is no admin-port command that reads it).

1. TLC model-checks spec/BadMetrics.tla (one process per goroutine: producers, readers, the three select branches of
   manage, the ticker, a logical clock; In with a small capacity) against level-B invariants P1..P6 and against the
   level-A operators of BadMetricsOps.tla (what may be claimed from the callers' side: every call bracketed by two clock
   readings, nothing else known); reachability witnesses for the boundary cases; liveness under fairness of the manager
   (every Add returns) and its failure without; named deviations must be rejected.
2. harness/bad runs the real code (direct instances and tables built through the configuration path, concurrent
   producers and readers, the web handler, a full In with the manager kept waiting) and records brackets and answers.
3. spec/BadMetricsTrace.tla (TLC) decides every Get with the same level-A operators -- interval reasoning only, the one
   time threshold is the cleaning deadline (maxAge + period + 20 s).  A rejected execution is reported, removed, the rest
   re-validated; binding self-tests: corrupted copies of accepted executions must be rejected at the corrupted line.
"""
import json, os, random, re, time
from concurrent.futures import ThreadPoolExecutor
from vlib.core import Machinery

LEVEL = "model_checking"

INF = 2000000000
BIG_US = 1000000000          # the "very long" expiry (1000 s; TLC integers are 32 bit)
SLACK_US = 20000000          # cleaning deadline: maxAge + period + 20 s (>= 1000 x the latency of a tick)

# ------------------------------------------------------------------ 1. model checking


def consts(**kw):
    c = dict(Names="={1, 2}", Producers={"p1"}, Readers={"r1"}, Cap=1, MaxAdds=2, MaxGets=2, Expiries="={1, 4}", MaxAge=1,
             Period=1, MaxTime=3, Timely=True, Witness=False, Mutant="")
    c.update(kw)
    return c


TWO = {"p1", "p2"}
A3 = dict(MaxAdds=3)
# deviation -> (constants, observable from the callers' side?)
DEVIATIONS = {
    "add_drops": (A3, True),                       # select { case b.In <- r: default: }
    "mix_text_reason": ({}, True),                 # fields of the map entry updated separately
    "first_writer_wins": (A3, True),
    "keep_newest_stamp": (dict(Producers=TWO, MaxGets=1, MaxTime=2, Expiries="={1, 2}"), False),   # LastSeen order instead of channel order
    "clean_first_seen": ({}, True),
    "clean_last_get_expiry": ({}, True),
    "clean_inclusive": ({}, True),                 # !After instead of Before
    "get_inclusive": ({}, True),                   # !Before instead of After
    "get_first_seen": (dict(Expiries="={1, 2}"), True),
    "get_cutoff_at_eval": ({}, False),             # cutoff computed by the manager, not by the caller
    "unsorted": ({}, True),
}
QUICK_DEVS = ["add_drops", "mix_text_reason", "clean_last_get_expiry", "clean_inclusive", "get_inclusive", "get_first_seen"]
WITNESSES = ["add_blocked", "overwrite", "stale_stamp_overwrites_newer", "consumed_when_already_old", "clean_boundary",
             "cleaned", "get_boundary", "levelA_must", "consumed_but_not_provably", "two_records"]


def temporal(r):
    what = r["violated"]
    if what in (None, "temporal"):
        m = re.search(r"Temporal property (\S+) was violated", r["text"])
        what = m.group(1) if m else what
    return what


def model_check(ctx):
    q = ctx.quick()
    if os.environ.get("VERIF_DEV_SKIP_MC"):
        ctx.note("model checking skipped (VERIF_DEV_SKIP_MC)")
        return
    ctx.specdir()
    big = []            # (tag, cfg, consts): must complete cleanly; together at most 4 workers
    if q:
        big.append(("mc_1p", "BadMetrics_mc.cfg", consts(Witness=True), 2))
        big.append(("mc_2p", "BadMetrics_mc.cfg", consts(Producers=TWO, MaxGets=1, MaxTime=2, Expiries="={1, 2}", Witness=True), 2))
    else:
        big.append(("mc_1p_3adds", "BadMetrics_mc.cfg", consts(MaxAdds=3, Witness=True), 2))
        big.append(("mc_2p_3adds", "BadMetrics_mc.cfg", consts(Names="={1}", Producers=TWO, MaxAdds=3, MaxGets=1, Expiries="={2}",
                                                              Timely=False, Witness=True), 2))
        big.append(("mc_2p_2names", "BadMetrics_mc.cfg", consts(Producers=TWO, MaxAdds=3, MaxGets=1, MaxTime=2, Expiries="={1, 2}", Witness=True), 2))
        big.append(("mc_2p_3adds_2gets", "BadMetrics_mc.cfg", consts(Producers=TWO, MaxAdds=3, MaxGets=2, MaxTime=2, Expiries="={1, 2}", Witness=True), 2))
        big.append(("mc_1p_3gets", "BadMetrics_mc.cfg", consts(MaxGets=3, Witness=True), 2))
        big.append(("mc_late_ticks", "BadMetrics_mc.cfg", consts(Timely=False, MaxTime=4, Expiries="={1, 4}", Witness=True), 2))
        big.append(("mc_age2_cap2", "BadMetrics_mc.cfg", consts(MaxAge=2, Cap=2, MaxAdds=3, MaxGets=1, MaxTime=4, Expiries="={2, 5}",
                                                               Witness=True), 2))
        big.append(("mc_2readers", "BadMetrics_mc.cfg", consts(Readers={"r1", "r2"}, MaxTime=2, Witness=True), 2))
        big.append(("live_3adds", "BadMetrics_live.cfg", consts(Names="={1}", Producers=TWO, MaxAdds=3, MaxGets=1, Expiries="={2}",
                                                               MaxTime=2, Timely=False), 2))
    small = [("live", "BadMetrics_live.cfg", consts(Names="={1}", Producers=TWO, MaxAdds=3, MaxGets=1, Expiries="={2}", MaxTime=1,
                                                    Timely=False), "ok")]
    small.append(("unfair", "BadMetrics_unfair.cfg", consts(Names="={1}", Producers=TWO, MaxAdds=3, MaxGets=1, Expiries="={2}",
                                                            MaxTime=1, Timely=False), "L1_AddReturns"))
    for dev in (QUICK_DEVS if q else sorted(DEVIATIONS)):
        over, observable = DEVIATIONS[dev]
        if observable:
            small.append(("devA_" + dev, "BadMetrics_a.cfg", consts(Mutant=dev, **over), "LevelA"))
        if not observable or not q:
            small.append(("devB_" + dev, "BadMetrics_mc.cfg", consts(Mutant=dev, **over), "any"))

    def run_big(job):
        tag, cfg, c, w = job
        return tag, ctx.tlc("BadMetrics", cfg, workers=w, timeout=ctx.pick(600, 3000), consts=c, tag=tag, expect_ok=False, heap="4g", count=False)

    def run_small(job):
        tag, cfg, c, want = job
        return tag, want, ctx.tlc("BadMetrics", cfg, workers=1, timeout=600, consts=c, tag=tag, expect_ok=False, count=False, heap="2g")
    with ThreadPoolExecutor(max_workers=2) as ex:
        rb = list(ex.map(run_big, big))
    wit = set()
    for tag, r in rb:
        if not r["ok"]:
            raise Machinery("TLC %s did not complete cleanly (violated=%s, rc=%s): the model does not satisfy its statements; log %s" % (
                tag, temporal(r), r["rc"], r["log"]))
        ctx.cov["states"] += r["distinct"]
        ctx.cov["transitions"] += r["generated"]
        ctx.cov["tlc_runs"].append(dict(module="BadMetrics", cfg=r["cfg"], distinct=r["distinct"], generated=r["generated"], wall_s=r["wall"],
                                        ok=True, violated=None))
        for w in WITNESSES:
            if re.search(r'@@W [^\n]*\\"%s\\"' % w, r["text"]):
                wit.add(w)
    missing = [w for w in WITNESSES if w not in wit]
    if missing:
        raise Machinery("model checking is vacuous: the situations %s are not reached in any configuration" % missing)
    ctx.cov["model_witnesses_reached"] = sorted(wit)
    with ThreadPoolExecutor(max_workers=4) as ex:
        rs = list(ex.map(run_small, small))
    rejected = {}
    for tag, want, r in rs:
        got = temporal(r)
        if want == "ok":
            if not r["ok"]:
                raise Machinery("TLC %s (liveness under fairness) failed: %s; log %s" % (tag, got, r["log"]))
            ctx.cov["states"] += r["distinct"]
            ctx.cov["transitions"] += r["generated"]
            ctx.cov["liveness_under_fairness"] = "L1_AddReturns L2_GetReturns L3_InDrains hold (%d states)" % r["distinct"]
            continue
        if r["ok"] or r["timeout"] or not got or (want not in ("any", got)):
            raise Machinery("%s is not rejected by TLC as required (wanted %s, got %s): vacuous model check; log %s" % (tag, want, got, r["log"]))
        if tag == "unfair":
            ctx.cov["liveness_without_fair_manager"] = "L1_AddReturns violated (a full In blocks Add for ever)"
        else:
            lvl, dev = tag.split("_", 1)
            rejected.setdefault(dev, {})["level A (callers' side)" if lvl == "devA" else "level B"] = got
    ctx.cov["spec_deviations_rejected"] = rejected


# ------------------------------------------------------------------ 2. scenarios
CLS = {1: "wrongfields", 2: "badval", 3: "badts", 4: "outoforder", 5: "illegalchar", 6: "emptynode", 7: "m20nomtype"}
REFS = [dict(cls=1, line="x"), dict(cls=2, line="a.b x 1"), dict(cls=3, line="a.b 1 x"), dict(cls=4, line=""),
        dict(cls=5, line="a$b 1 1"), dict(cls=6, line="a..b 1 1"), dict(cls=7, line="unit=B.a=b 1 1")]


class ExecGen:
    """builds one execution: the table of adds (k -> name, text, reason id) and the phases"""

    def __init__(self, rng, run, inst, xid, mode, maxage_us, web):
        self.rng, self.mode, self.maxage_us, self.web = rng, mode, maxage_us, web
        self.base = "xb%s.i%de%d" % (run, inst, xid)
        self.adds = []          # dicts name, text, rs
        self.phases = []
        self.seq = 0
        b = self.base
        if mode == "direct":
            self.names = [b + ".a", b + ".B", b + ".a.b", b + ".a-b", b, ""]
            self.multi = self.names
        else:
            self.valid = [b + ".a", b + ".B", b + ".a.b"]       # valid legacy keys: three reasons each
            self.ill, self.dd = b + ".il$x", b + "..dd"
            self.m20 = "unit=" + b.replace(".", "") + ".k=v"       # '=' before the first dot: metrics2.0, no mtype tag
            self.names = self.valid + [self.ill, self.dd, self.m20, ""]
        self.marker = b + ".zz"
        self.fill = b + ".fill"
        self.names = self.names + [self.marker]

    def new_add(self, name=None):
        rng = self.rng
        self.seq += 1
        i = self.seq
        if self.mode == "direct":
            name = rng.choice(self.names[:-1]) if name is None else name
            a = dict(name=name, text="%s text %d" % (self.base, i), rs=i, reason="why %s %d" % (self.base, i))
        else:
            if name is None:
                name = rng.choice(self.valid * 3 + [self.ill, self.dd, self.m20, "", ""])
            if name == "":
                text, cls = rng.choice(["%s.w%d" % (self.base, i), "%s.w 1 2 %d" % (self.base, i), "%s.w %d" % (self.base, i)]), 1
            elif name == self.ill:
                text, cls = "%s %d 100" % (name, i), 5
            elif name == self.dd:
                text, cls = "%s %d 100" % (name, i), 6
            elif name == self.m20:
                text, cls = "%s %d 100" % (name, i), 7
            else:
                cls = rng.choice([2, 3, 4]) if name != self.marker else 2
                dot = "." if rng.random() < 0.2 else ""        # a leading dot is dropped from the key, not from the text
                text = {2: "%s%s v%d 100" % (dot, name, i), 3: "%s%s %d ts%d" % (dot, name, i, i),
                        4: "%s%s %d.25 %d" % (dot, name, i, 1000 + i)}[cls]
            a = dict(name=name, text=text, rs=cls, reason="")
        self.adds.append(a)
        return dict(k=len(self.adds), name=a["name"], text=a["text"], reason=a["reason"], gap=rng.choice([0, 0, 0, 20, 100, 400, 1500]))

    def expiry(self):
        m = self.maxage_us
        return self.rng.choice([BIG_US, BIG_US, 0, -1000000, 200, 1000, 5000, 20000, 80000, m // 2, m, 2 * m])

    def getop(self, allow_web=True):
        via = "web" if (self.web and allow_web and self.rng.random() < 0.4) else "api"
        return dict(e=self.expiry(), via=via, gap=self.rng.choice([0, 0, 50, 300, 1000]))

    def par(self, nprod, nadds, nread, ngets):
        prods = [[self.new_add() for _ in range(self.rng.randint(1, nadds))] for _ in range(nprod)]
        readers = [[self.getop() for _ in range(self.rng.randint(1, ngets))] for _ in range(nread)]
        self.phases.append(dict(t="par", prods=prods, readers=readers))

    def barrier(self):
        self.phases.append(dict(t="marker", add=dict(self.new_add(self.marker), gap=0)))

    def gets(self, n):
        gs = [dict(e=BIG_US, via="api", gap=0)] + [self.getop() for _ in range(n)]
        self.rng.shuffle(gs)
        self.phases.append(dict(t="gets", gets=gs))

    def build(self, shape):
        rng = self.rng
        if self.mode == "table":
            # one valid point per valid key with a high timestamp (sequentially, first): every later point of the key with
            # a lower timestamp is out of order whatever the interleaving; plus valid traffic that must never be reported
            prime = [dict(k=0, name="", text="%s 1 2000000000" % n, reason="", gap=0) for n in self.valid]
            prime += [dict(k=0, name="", text="%s.ok %d %d" % (self.base, j, 100 + j), reason="", gap=0) for j in range(3)]
            self.phases.append(dict(t="par", prods=[prime], readers=[]))
        single = shape == "single"
        for rnd in range(rng.randint(2, 3)):
            if rnd and rng.random() < 0.8:
                self.phases.append(dict(t="sleep", us=rng.choice([3000, 12000, 30000, 60000, self.maxage_us // 3])))
            if shape == "storm" and rnd == 1:
                # many readers back to back (api and web) while producers overwrite: answers of concurrent Gets must not
                # disturb each other
                prods = [[dict(self.new_add(), gap=rng.choice([0, 0, 30])) for _ in range(rng.randint(6, 10))] for _ in range(3)]
                readers = [[dict(self.getop(), gap=0, e=rng.choice([BIG_US, BIG_US, self.maxage_us, 20000])) for _ in range(12)] for _ in range(4)]
                self.phases.append(dict(t="par", prods=prods, readers=readers))
            else:
                self.par(1 if single or (rnd and rng.random() < 0.25) else rng.randint(2, 4), rng.randint(3, 8), rng.randint(0, 2), 3)
            self.barrier()
            self.gets(rng.randint(2, 5))
        if shape == "full":
            late = [[dict(self.new_add(), gap=0) for _ in range(rng.randint(1, 2))] for _ in range(rng.randint(2, 4))]
            self.phases.append(dict(t="full", fillname=self.fill, late=late, wait_us=rng.choice([20000, 40000])))
            self.barrier()
            self.gets(2)
        self.phases.append(dict(t="drain"))


def build_scenarios(ctx, rng):
    run = "%x%x" % (os.getpid() & 0xffff, int(time.time()) & 0xfffff)
    q = ctx.quick()
    plan = [("direct", "200ms"), ("direct", "300ms"), ("direct", "450ms"), ("table", "300ms"), ("table", "250ms")]
    if not q:
        plan += [("direct", "150ms"), ("direct", "1s"), ("table", "400ms"), ("direct", "250ms"), ("table", "200ms")]
    nex = ctx.pick(8, 24)
    insts, gens = [], {}
    xid = 0
    web_done = False
    for i, (mode, maxage) in enumerate(plan):
        inst = i + 1
        us = int(float(maxage[:-2]) * 1000) if maxage.endswith("ms") else int(float(maxage[:-1]) * 1000000)
        web = mode == "table" and not web_done
        web_done = web_done or web
        execs = []
        for j in range(nex if us < 900000 else max(3, nex // 3)):
            xid += 1
            g = ExecGen(rng, run, inst, xid, mode, us, web)
            g.build("full" if j == 1 and inst in (2, 4) else ("storm" if j == 2 else ("single" if j % 3 == 0 else "multi")))
            gens[xid] = g
            execs.append(dict(id=xid, phases=g.phases))
        insts.append(dict(inst=inst, mode=mode, maxage=maxage, web=web, big_us=BIG_US, refs=REFS if mode == "table" else [], execs=execs))
    return insts, gens


# ------------------------------------------------------------------ 3. the real code's histories -> trace
def join(ctx, recs, insts, gens):
    """driver log -> one block of trace lines per execution: pure renaming (name -> rank in byte order, text -> add,
    reason string -> identity), ns -> us with outward rounding, Gets in the order of g1; records of the reserved fill name
    are projected out"""
    imode = {i["inst"]: i for i in insts}
    refs = {}
    blocks, cur, curh = [], None, None
    for r in recs:
        if r["ev"] == "ref":
            refs.setdefault(r["inst"], {})[r["reason"]] = r["cls"]
        elif r["ev"] == "hist":
            cur = []
            blocks.append((r, cur))
        elif r["ev"] == "done":
            break
        else:
            cur.append(r)
    out = []
    stats = dict(fill_records_projected=0, gets=0, web_gets=0, records=0, adds=0)
    for hd, evs in blocks:
        g = gens[hd["id"]]
        inst = imode[hd["inst"]]
        mode = inst["mode"]
        if mode == "table":
            rmap = refs.get(hd["inst"], {})
            if len(rmap) != len(REFS) or "" in rmap:
                raise Machinery("the validators did not give %d distinct reasons for the reference lines: %s" % (len(REFS), rmap))
        rank = {n: i + 1 for i, n in enumerate(sorted(set(g.names), key=lambda s: s.encode()))}
        n = len(g.adds)
        a0, a1 = [0] * n, [INF - 1] * n
        seenk = set()
        for e in evs:
            if e["ev"] == "add":
                k = e["k"] - 1
                a0[k], a1[k] = e["t0"] // 1000, -(-e["t1"] // 1000)
                seenk.add(k)
        end = [e for e in evs if e["ev"] == "end"]
        if not end:
            raise Machinery("execution %d has no end event" % hd["id"])
        if len(seenk) != n and end[0]["stuck"] == 0:
            raise Machinery("execution %d: %d of %d adds recorded" % (hd["id"], len(seenk), n))
        stats["adds"] += n
        if mode == "direct":
            rmap = {a["reason"]: a["rs"] for a in g.adds}
        text2k = {a["text"]: i + 1 for i, a in enumerate(g.adds)}
        if len(text2k) != n:
            raise Machinery("texts are not unique")
        h = dict(ev="hist", id=hd["id"], inst=hd["inst"], mode=mode, n=[rank[a["name"]] for a in g.adds], rs=[a["rs"] for a in g.adds],
                 a0=a0, a1=a1, maxage=g.maxage_us, period=g.maxage_us // 10, slack=SLACK_US)
        lines = []
        for e in evs:
            if e["ev"] == "get":
                res = []
                for x in e["res"]:
                    if x["m"] == g.fill:
                        stats["fill_records_projected"] += 1
                        continue
                    k = text2k.get(x["msg"], 0)
                    rs = rmap.get(x["err"], 0)
                    if x["s"] >= 0:
                        s0, s1 = x["s"] // 1000, -(-x["s"] // 1000)
                    elif x["s"] == -1 and k:
                        s0, s1 = a0[k - 1], a1[k - 1]
                    else:
                        s0, s1 = 0, 0
                    res.append([rank.get(x["m"], 0), k, rs, s0, s1])
                stats["gets"] += 1
                stats["web_gets"] += e["via"] == "web"
                stats["records"] += len(res)
                lines.append((-(-e["t1"] // 1000), dict(ev="get", g0=e["t0"] // 1000, g1=-(-e["t1"] // 1000), e=e["e"], via=e["via"],
                                                        why=e["why"], res=res)))
            elif e["ev"] == "held":
                lines.append((e["at"] // 1000, dict(ev="held", returned=e["returned"], len=e["len"], cap=e["cap"], late=e["late"])))
            elif e["ev"] == "weberr":
                lines.append((INF - 2, dict(ev="weberr", code=e["code"])))
            elif e["ev"] == "end":
                lines.append((INF, dict(ev="end", stuck=e["stuck"])))
        lines.sort(key=lambda p: p[0])
        out.append([h] + [l for _, l in lines])
    return out, stats


def validate(ctx, blocks, tag="tr", own_dir=None, diag=False):
    """returns (accepted blocks, [(block, idx)] rejected, TLC's decision counts)"""
    blocks = list(blocks)
    rej = []
    counts = {}
    for rnd in range(100):
        flat = [r for b in blocks for r in b]
        if not flat:
            break
        f = ctx.write_ndjson("xb_trace_%s.ndjson" % tag, flat)
        ok, matched, res = ctx.validate_traces("BadMetricsTrace", "BadMetricsTrace.cfg", f, len(flat), len(blocks), consts=dict(Diag=diag),
                                               tag="%s%d" % (tag, rnd), timeout=1800, own_dir=own_dir, heap="3g")
        if matched is None:
            raise Machinery("trace validation gave no verdict; log %s\n%s" % (res["log"], res["text"][-2000:]))
        for s in ctx.tlc_printed(res, "@@TRACE"):
            counts = json.loads(s)
        if ok:
            break
        if diag:
            raise Machinery("the diagnostic run did not accept the whole trace; log %s" % res["log"])
        if len(rej) >= 5:
            ctx.note("chunk %s: validation stopped after 5 rejected executions (%d executions not decided)" % (tag, len(blocks)))
            return [], rej, counts
        pos = 0
        for bi, b in enumerate(blocks):
            if matched < pos + len(b):
                rej.append((b, matched - pos))
                del blocks[bi]
                break
            pos += len(b)
        else:
            raise Machinery("matched prefix beyond the trace")
    else:
        raise Machinery("more than 100 rejected executions in one chunk")
    return blocks, rej, counts


def validate_all(ctx, blocks, chunks):
    parts = [p for p in (blocks[i::chunks] for i in range(chunks)) if p]
    with ThreadPoolExecutor(max_workers=len(parts)) as ex:
        res = list(ex.map(lambda ip: validate(ctx, ip[1], tag="tr%d_" % ip[0], own_dir="spec_tr%d" % ip[0]), enumerate(parts)))
    tot = {}
    for _, _, c in res:
        for k, v in c.items():
            if k != "matched":
                tot[k] = tot.get(k, 0) + v
    return [b for acc, _, _ in res for b in acc], [x for _, rj, _ in res for x in rj], tot


def diagnose(ctx, block, idx, n):
    """which clauses of BadMetricsOps fail at the rejected line (second TLC run, Diag = TRUE, on this execution only)"""
    f = ctx.write_ndjson("xb_diag_%d.ndjson" % n, block)
    ok, matched, res = ctx.validate_traces("BadMetricsTrace", "BadMetricsTrace.cfg", f, len(block), 0, consts=dict(Diag=True),
                                           tag="diag%d" % n, timeout=900, own_dir="spec_diag", heap="2g")
    failed = []
    for s in ctx.tlc_printed(res, "@@DIAG"):
        d = json.loads(s)
        if d["line"] == idx + 1:
            failed = sorted(d["failed"])
    return failed


def run(ctx):
    q = ctx.quick()
    rng = random.Random(ctx.seed)
    insts, gens = build_scenarios(ctx, rng)
    sf = ctx.write_ndjson("xb_scen.ndjson", insts)
    rf = os.path.join(ctx.out, "xb_result.ndjson")
    # the driver runs while TLC model-checks: nothing it records depends on how fast it is scheduled
    with ThreadPoolExecutor(max_workers=2) as ex:
        fm = ex.submit(model_check, ctx)
        fd = ex.submit(ctx.go_test, "bad", run="^TestBad$", timeout=ctx.pick(600, 2400), expect_ok=False,
                       env=dict(VERIF_XB_SCEN=sf, VERIF_XB_RESULT=rf))
        fm.result()
        res = fd.result()
    if res["rc"] != 0:
        if "panic:" in res["text"] or "fatal error:" in res["text"]:
            ctx.violation("badmetrics-panics", "the bad-metrics manager / table / web handler panicked", dict(tail=res["text"][-3000:]))
            ctx.sample(dict(panic=res["text"][-600:]))
            return
        raise Machinery("bad driver failed (rc=%s); log %s\n%s" % (res["rc"], res["log"], res["text"][-2000:]))
    recs = ctx.read_ndjson(rf)
    if not recs or recs[-1]["ev"] != "done":
        raise Machinery("driver result is incomplete")
    blocks, stats = join(ctx, recs, insts, gens)
    nexec = sum(len(i["execs"]) for i in insts)
    if len(blocks) != nexec:
        raise Machinery("driver recorded %d executions of %d" % (len(blocks), nexec))
    good, rej, counts = validate_all(ctx, blocks, ctx.pick(3, 4))
    nacc = len(good)
    for i, (b, idx) in enumerate(rej):
        h, r = b[0], b[idx]
        failed = diagnose(ctx, b, idx, i) if i < 6 else ["?"]
        if r["ev"] == "get":
            sig = "get-%s mode=%s via=%s" % ("+".join(failed) or "rejected", h["mode"], r["via"])
        elif r["ev"] == "held":
            sig = "add-returned-while-In-full mode=%s" % h["mode"]
        elif r["ev"] == "end":
            sig = "stuck mode=%s" % h["mode"]
        else:
            sig = "event-rejected ev=%s mode=%s" % (r["ev"], h["mode"])
        g = gens[h["id"]]
        ctx.violation(sig, "execution %d (%s, maxAge %d us): line %d %s is not allowed by BadMetricsOps (failed clauses: %s)" % (
            h["id"], h["mode"], h["maxage"], idx, json.dumps(r)[:600], failed),
            dict(hist=h, adds=g.adds, phases=g.phases, events=b[1:idx + 2], failed=failed))
    if ctx.violations:
        ctx.note("binding self-test skipped: violations are reported")
    else:
        selftest(ctx, good, gens)
    cov = ctx.cov
    cov["evaluations"] = sum(len(b) - 1 for b in blocks)
    cov["executions"] = len(blocks)
    cov["executions_accepted"] = nacc
    cov["driver"] = dict(stats, instances=len(insts), table_instances=sum(1 for i in insts if i["mode"] == "table"),
                         executions_with_full_In=sum(1 for b in blocks if any(r["ev"] == "held" for r in b)),
                         late_adds_blocked_while_full=sum(r["late"] for b in blocks for r in b if r["ev"] == "held"))
    cov["decisions_by_TLC"] = dict(must_be_returned=counts.get("must", 0), must_not_be_returned=counts.get("mustnot", 0),
                                   either=counts.get("either", 0), records_returned=counts.get("returned", 0))
    cov["distinct_nontrivial"] = len({(b[0]["mode"], r["via"], r["why"], r["e"], len(r["res"]) > 0) for b in blocks for r in b if r["ev"] == "get"})
    if not ctx.violations and (counts.get("must", 0) < 50 * len(blocks) // 10 or counts.get("mustnot", 0) < 100 or stats["web_gets"] < 5
                               or cov["driver"]["executions_with_full_In"] < 2):
        raise Machinery("vacuous run: %s %s" % (json.dumps(cov["decisions_by_TLC"]), json.dumps(cov["driver"])))
    cov["rule"] = ("evaluations = recorded Gets (and held / end events) of the real code decided by TLC (BadMetricsTrace = the level-A "
                   "operators of BadMetricsOps that TLC proved of BadMetrics.tla); decisions_by_TLC = per Get, the adds that MUST / MUST NOT be "
                   "in the answer / may or may not (interval reasoning over the clock readings before and after each call); "
                   "distinct_nontrivial = distinct (mode, reader api/web, phase, expiry, answer non-empty)")
    ex = next((b for b in good if b[0]["mode"] == "table"), good[0] if good else blocks[0])
    ctx.sample(dict(execution=ex[0]["id"], mode=ex[0]["mode"], maxage_us=ex[0]["maxage"], adds=[dict(k=i + 1, **a) for i, a in enumerate(gens[ex[0]["id"]].adds[:6])],
                    a0=ex[0]["a0"][:6], a1=ex[0]["a1"][:6], events=ex[1:5]))
    ctx.assumptions += [
        "time: every call is bracketed by two readings of Go's monotonic clock (before / after); TLC compares only such readings, "
        "strictly (equal = unordered), after rounding outwards to microseconds; a record MUST be in an answer only if it was certainly "
        "consumed (it, or a record added after its Add had returned, was returned by this Get or by a Get that ended before this one "
        "began), no other add of the name can have been consumed after it and before the answer, its bracket lies inside the window "
        "and less than maxAge before the end of the Get; it MUST NOT be there if its bracket lies outside the window, if a later add "
        "of the name was certainly consumed, or if an earlier Get showed it gone; everything else is allowed both ways",
        "the only time threshold: a record still returned more than maxAge + maxAge/10 + 20 s after it was seen (and known consumed) is "
        "'never cleaned' (the polls wait 30 s for a barrier record to appear, an Add to return, the map to become empty)",
        "the exact boundary cases (LastSeen equal to a cutoff) are decided in the model only: the real clock has nanosecond "
        "resolution and cannot be steered without changing badMetrics.go",
        "full In: the manage goroutine is kept waiting for its answer to be taken by a Get caller whose two steps (send on getReq, "
        "receive from getResp) the driver performs separately through the unexported channels (reflect + unsafe, no hook in /repo); In "
        "is then filled to cap(In) through Add; records of the reserved fill name are projected out of the answers",
        "web endpoint: LastSeen loses its monotonic reading in JSON; for those answers the add's bracket stands for LastSeen",
        "reasons in table mode are identified with the validators' own error strings for one reference line per class "
        "(m20.ValidatePacket / validate.Ordered called by the driver); which class a line belongs to is by construction of the line"]
    cov["trusted_base"] = ["TLC", "harness/bad driver (records only)", "renaming name -> byte-order rank, text -> add, reason -> identity and "
                           "ns -> us rounding in checks/xbad.py", "Go's monotonic clock"]


# ------------------------------------------------------------------ binding self-test
def selftest(ctx, good, gens, strict=True):
    """corrupted copies of accepted executions must be rejected by TLC exactly at the corrupted line"""
    jobs = []

    def copy(b):
        return [json.loads(json.dumps(r)) for r in b]

    def probe(name, finder):
        for b in good:
            r = finder(b)
            if r:
                jobs.append((name,) + r)
                return
    def f_pair(b):      # the reason of another rejection of the same name
        h = b[0]
        for i, r in enumerate(b):
            if r["ev"] == "get":
                for j, x in enumerate(r["res"]):
                    other = [h["rs"][c] for c in range(len(h["n"])) if h["n"][c] == x[0] and h["rs"][c] != x[2]]
                    if other:
                        b2 = copy(b)
                        b2[i]["res"][j][2] = other[0]
                        return b2, i
    def f_stamp(b):     # LastSeen of the previous rejection of the name instead of the last one
        h = b[0]
        for i, r in enumerate(b):
            if r["ev"] == "get" and r["via"] == "api":
                for j, x in enumerate(r["res"]):
                    prev = [c for c in range(len(h["n"])) if h["n"][c] == x[0] and h["a1"][c] < h["a0"][x[1] - 1]]
                    if prev:
                        b2 = copy(b)
                        b2[i]["res"][j][3] = h["a0"][prev[-1]]
                        b2[i]["res"][j][4] = h["a1"][prev[-1]]
                        return b2, i
    def f_sorted(b):
        for i, r in enumerate(b):
            if r["ev"] == "get" and len(r["res"]) >= 2:
                b2 = copy(b)
                b2[i]["res"][0], b2[i]["res"][1] = b2[i]["res"][1], b2[i]["res"][0]
                return b2, i
    def f_must(b):      # a record that must be there is dropped from the answer
        h = b[0]
        for i, r in enumerate(b):
            if r["ev"] == "get" and r["why"] == "gets" and r["e"] == BIG_US and r["res"]:
                mk = max(x[1] for x in r["res"])        # the latest add returned (the barrier's record, normally)
                for j, x in enumerate(r["res"]):
                    a = x[1] - 1
                    alone = all(c == a or h["n"][c] != x[0] or h["a1"][c] < h["a0"][a] or h["a0"][c] > r["g1"] for c in range(len(h["n"])))
                    if x[1] != mk and alone and h["a1"][a] < h["a0"][mk - 1] and r["g1"] - h["a0"][a] <= h["maxage"]:
                        b2 = copy(b)
                        del b2[i]["res"][j]
                        return b2, i
    def f_last(b):      # the previous rejection of the name is reported instead of the last one
        h = b[0]
        for i, r in enumerate(b):
            if r["ev"] == "get" and r["why"] == "gets":
                for j, x in enumerate(r["res"]):
                    prev = [c for c in range(len(h["n"])) if h["n"][c] == x[0] and h["a1"][c] < h["a0"][x[1] - 1]]
                    # (another record of the answer proves that the last one had been consumed)
                    if prev and any(h["a1"][x[1] - 1] < h["a0"][y[1] - 1] for y in r["res"]):
                        c = prev[-1]
                        b2 = copy(b)
                        b2[i]["res"][j] = [x[0], c + 1, h["rs"][c], h["a0"][c], h["a1"][c]]
                        return b2, i
    def f_window(b):    # an answer that contains a record older than the window
        for i, r in enumerate(b):
            if r["ev"] == "get" and r["res"] and r["e"] == BIG_US:
                b2 = copy(b)
                b2[i]["e"] = 1
                if all(x[4] <= r["g0"] - 1 for x in r["res"]):
                    return b2, i
    def f_known(b):     # a record nobody added (e.g. a valid line reported as bad)
        for i, r in enumerate(b):
            if r["ev"] == "get" and r["res"]:
                b2 = copy(b)
                b2[i]["res"][0][1] = 0
                return b2, i
    def f_held(b):
        for i, r in enumerate(b):
            if r["ev"] == "held":
                b2 = copy(b)
                b2[i]["returned"] = 1
                return b2, i
    def f_early(b):     # a record cleaned before maxAge has elapsed: the first empty drain answer moved back in time
        h = b[0]
        for i, r in enumerate(b):
            if r["ev"] == "get" and r["why"] == "drain" and not r["res"] and i > 1 and b[i - 1]["ev"] == "get" and b[i - 1]["res"]:
                x = b[i - 1]["res"][-1]
                g1 = b[i - 1]["g1"]
                if g1 - h["a0"][x[1] - 1] <= h["maxage"]:
                    b2 = copy(b)
                    b2[i]["g0"], b2[i]["g1"] = b[i - 1]["g0"], g1
                    return b2, i
    expect = dict(pair="pair", stamp="stamp", sorted="sorted", must="must", last="last", window="window", known="known",
                  held="add_returned_while_full", cleaned_early="must")
    for name, f in (("pair", f_pair), ("stamp", f_stamp), ("sorted", f_sorted), ("must", f_must), ("last", f_last), ("window", f_window),
                    ("known", f_known), ("held", f_held), ("cleaned_early", f_early)):
        probe(name, f)
    names = [j[0] for j in jobs]
    need = {"pair", "stamp", "sorted", "must", "last", "window", "known", "held"}
    if not need <= set(names) and strict:
        raise Machinery("binding self-test: the accepted executions do not offer every probe (%s)" % names)
    # one TLC run over all corrupted copies (Diag = TRUE: every line is evaluated and the failing clauses are printed): in
    # each copy the first line that fails must be the corrupted one, with the clause the corruption is about
    flat, where = [], []
    for name, b2, at in jobs:
        where.append((name, len(flat), len(b2), at))
        flat += b2
    f = ctx.write_ndjson("xb_selftest.ndjson", flat)
    ok, matched, res = ctx.validate_traces("BadMetricsTrace", "BadMetricsTrace.cfg", f, len(flat), 0, consts=dict(Diag=True), tag="selftest",
                                           timeout=900, own_dir="spec_self", heap="2g")
    if not ok:
        raise Machinery("binding self-test: the diagnostic run did not get through the corrupted copies; log %s" % res["log"])
    flagged = {}
    for x in ctx.tlc_printed(res, "@@DIAG"):
        d = json.loads(x)
        flagged.setdefault(d["line"], set()).update(d["failed"])
    bad = []
    for name, off, ln, at in where:
        first = min([l for l in flagged if off < l <= off + ln] or [0])
        if first != off + at + 1 or expect[name] not in flagged[first]:
            bad.append("%s (first failing line %s, expected %d: %s)" % (name, first - off - 1 if first else None, at, sorted(flagged.get(first, []))))
    if bad:
        raise Machinery("binding self-test: corrupted execution(s) accepted by BadMetricsTrace or rejected for another reason: %s" % bad)
    ctx.cov["binding_selftests"] = "rejected at the corrupted line by the expected clause: " + ", ".join(
        "%s (%s)" % (n, expect[n]) for n, _, _, _ in where)
