"""C10 machinery: TLC model checking of Aggregator.tla, behaviour generation (AggregatorGen.tla),
replay on the real aggregator (harness/agg), comparison of the recorded output with TLC's
expectation, and the trace-validation variant behind a real Table (AggregatorTrace.tla)."""
import collections, copy, json, os, random, re
from fractions import Fraction
from vlib.core import Machinery

BASE = 1500000000            # multiple of every interval used; keeps the code's uint `now - wait` from wrapping
EPS = Fraction(1, 10 ** 6)
FUNS = ["avg", "count", "delta", "derive", "last", "max", "min", "stdev", "sum", "percentiles"]
PCTS = ["p25", "p50", "p75", "p90", "p95", "p99"]

# Every concrete string (metric names, regex text, output format, expected output names) comes from TLC
# evaluating spec/AggregatorNames.tla (NmDriverTable, printed by the generator run as "@@F"): bucket keys
# of Aggregator.tla ARE the expanded output names (regex match + Go regexp.Expand template semantics).
ALL_FMTS = ["flat", "g1", "g12", "g0", "w0", "w0t", "dd", "mis"]     # rules of AggregatorNames.tla (NmRules)
GROUPLESS_EXPANDING = ["w0", "w0t", "dd", "mis"]                      # regex without groups, format needs expansion
LINE = re.compile(r"^(\S+) (-?\d+\.\d{6}) (\d+)$")

# MaxStep=1: larger clock steps reach no additional state, they only add transitions
MC_BASE = dict(Fmts={"g1"}, Names={"n1", "n3"}, Vals={1}, MaxStep=1, Window=0, MaxContrib=8, Mutant="")


# ------------------------------------------------------------------ model checking
def mc_grid(ctx):
    full12 = set(range(13))
    edge12 = {0, 4, 5, 9, 10, 12}      # start / end of every 5-bucket and one interior-free representative
    if ctx.quick():
        # measured: 173 k and 53 k distinct states
        return [dict(Intervals={5}, Waits={0, 1, 5}, MaxT=12, TsSet={0, 4, 5, 10}, MaxLag=12, MaxPoints=3, MaxTicks=2),
                dict(Intervals={1}, Waits={0, 1}, MaxT=4, TsSet=set(range(5)), MaxLag=4, MaxPoints=3, MaxTicks=2,
                     Fmts={"g1", "w0"})]
    # measured: 2.8 M, 3.0 M, 0.7 M, 0.9 M, 1.05 M distinct states
    return [dict(Intervals={5}, Waits={0, 1, 5}, MaxT=12, TsSet=full12, MaxLag=12, MaxPoints=3, MaxTicks=2),
            dict(Intervals={5}, Waits={0, 1, 5}, MaxT=12, TsSet=edge12, MaxLag=12, MaxPoints=4, MaxTicks=3),
            dict(Intervals={5}, Waits={1}, MaxT=12, TsSet={0, 4, 5, 10}, MaxLag=1, MaxPoints=5, MaxTicks=3),
            dict(Intervals={1}, Waits={0, 1, 5}, MaxT=7, TsSet=set(range(8)), MaxLag=7, MaxPoints=3, MaxTicks=3),
            dict(Intervals={1}, Waits={0, 1}, MaxT=4, TsSet=set(range(5)), MaxLag=4, MaxPoints=5, MaxTicks=3),
            dict(Intervals={1}, Waits={0, 1}, MaxT=4, TsSet=set(range(5)), MaxLag=4, MaxPoints=3, MaxTicks=2,
                 Fmts={"w0", "dd"}, Names={"n1", "n3", "nx"})]


def model_check(ctx):
    for g in mc_grid(ctx):
        c = dict(MC_BASE)
        c.update(g)
        ctx.tlc("Aggregator", "Aggregator_mc.cfg", consts=c, workers=4, timeout=7200, heap="12g")


MUTANTS = [  # deviation, the one property it is checked against (invariant or step property)
    ("ge_open", "NoDoubleEmit"), ("no_delete", "ClosedStaysClosed"), ("lt_cutoff", "ClosedStaysClosed"),
    ("no_sort", "AscendingWithinFlush"), ("wrong_quant", "ExactlyOnceContribution"),
    ("two_buckets", "ExactlyOnceContribution"),
    # a regex without capturing groups: the output format is taken as it is instead of being expanded
    ("no_group_template_verbatim", "ExactlyOnceContribution")]
MUTANT_CONSTS = {"no_group_template_verbatim": dict(Fmts={"w0", "dd"})}


def mc_nonvacuity(ctx):
    """named deviations of the model must be rejected, each by the property it is aimed at (checked
    alone, so that no other invariant can take the blame)"""
    from concurrent.futures import ThreadPoolExecutor

    def one(mw):
        m, want = mw
        c = dict(MC_BASE, Intervals={5}, Waits={0, 1}, MaxT=12, TsSet={0, 4, 5, 9, 10, 12}, MaxLag=12, MaxPoints=3,
                 MaxTicks=2, MaxStep=12, Mutant=m)
        c.update(MUTANT_CONSTS.get(m, {}))
        kw = dict(props=[want]) if want == "ExactlyOnceContribution" else dict(invariants=[want])
        r = ctx.tlc("Aggregator", "Aggregator_mc1.cfg", consts=c, workers=2, timeout=1200, expect_ok=False, count=False,
                    args=["-noGenerateSpecTE"], tag="dev_" + m, **kw)
        return m, want, r
    ctx.specdir()
    with ThreadPoolExecutor(max_workers=3) as ex:
        results = list(ex.map(one, MUTANTS))
    caught = {}
    for m, want, r in results:
        if r["violated"] != want:
            raise Machinery("deviation %s is not rejected by %s (TLC reported %s); log %s" % (m, want, r["violated"], r["log"]))
        caught[m] = want
    ctx.cov["model_deviations_rejected"] = caught


# ------------------------------------------------------------------ behaviour generation
def gen_profiles(ctx):
    allc = dict(Intervals={1, 5}, Waits={0, 1, 5}, Fmts=set(ALL_FMTS), Names={"n1", "n2", "n3", "nx"},
                MaxPoints=100000, MaxTicks=100000, MaxContrib=8, Mutant="")
    if ctx.quick():
        return [(dict(allc, MaxT=14, TsSet=set(range(15)), MaxLag=14, MaxStep=3, Window=2, Depth=16), 800),
                (dict(allc, MaxT=12, TsSet=set(range(13)), MaxLag=2, MaxStep=4, Window=0, Depth=12), 400)]
    return [(dict(allc, MaxT=40, TsSet=set(range(41)), MaxLag=40, MaxStep=3, Window=2, Depth=40), 4000),
            (dict(allc, MaxT=14, TsSet=set(range(15)), MaxLag=14, MaxStep=3, Window=2, Depth=16), 8000),
            (dict(allc, MaxT=12, TsSet=set(range(13)), MaxLag=2, MaxStep=4, Window=0, Depth=12), 4000),
            (dict(allc, Intervals={5}, Waits={5}, MaxT=30, TsSet=set(range(31)), MaxLag=3, MaxStep=5, Window=6,
                  Depth=30), 3000)]


def generate(ctx):
    """-> (behaviours, rule table): TLC -simulate of AggregatorGen.tla; the rule table (NmDriverTable of
    AggregatorNames.tla: per rule the regex text, the output format, the concrete metric names and the
    expanded output name of every name) is printed by the same runs"""
    behs, fmts = [], None
    for i, (c, n) in enumerate(gen_profiles(ctx)):
        r = ctx.tlc("AggregatorGen", "AggregatorGen.cfg", consts=c, workers=1, timeout=3000, heap="4g",
                    simulate="num=%d" % n, args=["-depth", str(c["Depth"] + 4), "-seed", str(ctx.seed * 1000 + i)],
                    tag="gen%d" % i, count=False)
        got = [json.loads(x) for x in ctx.tlc_printed(r, "@@B")]
        tab = [json.loads(x) for x in ctx.tlc_printed(r, "@@F")]
        if len(tab) != 1 or sorted(tab[0]) != sorted(ALL_FMTS) or (fmts is not None and tab[0] != fmts):
            raise Machinery("rule table not printed (or differs between runs); log %s" % r["log"])
        fmts = tab[0]
        if len(got) < n * 0.9:
            raise Machinery("behaviour generation produced %d of %d behaviours; log %s" % (len(got), n, r["log"]))
        for b in got:
            if len(b["steps"]) != c["Depth"]:
                raise Machinery("generated behaviour has %d steps, expected %d" % (len(b["steps"]), c["Depth"]))
        behs += got
        ctx.cov["transitions"] += sum(len(b["steps"]) for b in got)
    for k, b in enumerate(behs):
        b["b"] = k
    ctx.log("generated %d behaviours (%d steps)" % (len(behs), sum(len(b["steps"]) for b in behs)))
    per = collections.Counter(b["fmt"] for b in behs)
    if any(per[f] == 0 for f in ALL_FMTS):
        raise Machinery("vacuous generation: rules without a behaviour: %s" % [f for f in ALL_FMTS if not per[f]])
    ctx.cov["behaviours_per_rule"] = dict(per)
    ctx.cov["rules"] = {f: dict(regex=v["regex"], outfmt=v["outfmt"], groups=v["groups"], out=v["out"]) for f, v in fmts.items()}
    return behs, fmts


def concrete_steps(b, names):
    out = []
    for s in b["steps"]:
        if s["op"] == "adv":
            out.append(dict(op="adv", now=s["now"]))
        elif s["op"] == "proc":
            out.append(dict(op="proc", name=names[s["name"]], val=s["val"], ts=s["ts"]))
        else:
            out.append(dict(op="tick", t=s["t"]))
    return out


def make_runs(ctx, behs, fmts):
    """every behaviour is replayed on ten real aggregators (one per function); cache / dropRaw / the
    cheap matcher conditions vary with the indices.  What is handed to the driver carries no
    expectation.  -> (driver input records, {(b, fun): variant})"""
    recs, plan = [], {}
    for b in behs:
        f = fmts[b["fmt"]]
        vs = []
        for fi, fun in enumerate(FUNS):
            v = b["b"] + fi
            var = dict(fun=fun, prefix=("raw." if v % 3 == 1 else ""), sub=("." if v % 5 == 2 else ""),
                       cache=(v % 2 == 0), dropraw=((v // 2) % 2 == 0))
            vs.append(var)
            plan[(b["b"], fun)] = var
        recs.append(dict(b=b["b"], interval=b["interval"], wait=b["wait"], regex=f["regex"], outfmt=f["outfmt"],
                         base=BASE, steps=concrete_steps(b, f["names"]), variants=vs))
    return recs, plan


def iter_ndjson(path):
    with open(path) as f:
        for line in f:
            line = line.strip()
            if line:
                yield json.loads(line)


def run_replay(ctx, recs, name="replay"):
    """-> path of the driver's record file (one line per behaviour x function)"""
    rf = ctx.write_ndjson(name + "_runs.ndjson", recs)
    of = os.path.join(ctx.out, name + "_out.ndjson")
    res = ctx.go_test("agg", run="^TestReplay$", timeout=6000, expect_ok=False,
                      env=dict(VERIF_AGG_RUNS=rf, VERIF_AGG_OUT=of))
    if not os.path.exists(of) or os.path.getsize(of) == 0:
        raise Machinery("dead driver: no replay output; log %s\n%s" % (res["log"], res["text"][-2000:]))
    if res["rc"] != 0:
        prog = []
        try:
            prog = ctx.read_ndjson(of + ".progress")
        except Exception:
            pass
        last = prog[-1] if prog else None
        if "panic:" in res["text"] or "fatal error:" in res["text"] or "did not answer within" in res["text"]:
            ctx.violation("aggregator-panics-or-hangs", "the real aggregator panicked or hung while replaying behaviour %s" % json.dumps(last),
                          dict(last=last, tail=res["text"][-2500:]))
        else:
            raise Machinery("agg driver failed without a panic (rc=%s); log %s\n%s" % (res["rc"], res["log"], res["text"][-2000:]))
    return of


# ------------------------------------------------------------------ comparison (projection + TLC's expectation)
def frac(x):
    return Fraction(x[0], x[1]) if isinstance(x, list) else Fraction(x)


def value_ok(fun, sub, res, printed):
    p = Fraction(printed)
    if fun == "stdev":
        v = frac(res["var"])
        lo = max(p - EPS, Fraction(0))
        return lo * lo <= v <= (p + EPS) * (p + EPS)
    if fun == "derive":
        return any(abs(p - frac(c)) <= EPS for c in res["derive"])
    if fun == "percentiles":
        return abs(p - frac(res[sub])) <= EPS
    return abs(p - frac(res[fun])) <= EPS


def expected_lines(group, fun, base):
    """[(name, ts, sub, res)] that one bucket start must produce for function fun"""
    out = []
    for ln in group["lines"]:
        name = ln["key"]         # bucket keys of the specification are the expanded output names
        if fun == "percentiles":
            for p in PCTS:
                out.append((name + "." + p, base + group["q"], p, ln["res"]))
        elif fun == "derive":
            if ln["res"]["deriveok"]:
                out.append((name, base + group["q"], None, ln["res"]))
        else:
            out.append((name, base + group["q"], None, ln["res"]))
    return out


def compare_run(b, r, o):
    """mismatches [(sig, what, detail)] between TLC's expectation for behaviour b and the record o
    of run r; also returns counters"""
    mism, nlines, ntoo = [], 0, 0
    fun = r["fun"]
    steps = b["steps"]
    if o.get("bad"):
        return [("aggregator-panics-or-hangs", "run did not complete: %s" % o["bad"], None)], 0, 0
    if len(o["too"]) != len(steps) or len(o["lines"]) != len(steps):
        return [("driver-incomplete", "recorded %d of %d steps" % (len(o["too"]), len(steps)), None)], 0, 0
    for i, s in enumerate(steps):
        want_too = s.get("dTooOld", 0)
        ntoo += 1
        if o["too"][i] != want_too:
            cls = "counted" if o["too"][i] > want_too else "not-counted"
            mism.append(("too-old-delta " + cls, "step %d %s: TooOld moved by %d, specification says %d"
                         % (i, json.dumps({k: v for k, v in s.items() if k != "groups"}), o["too"][i], want_too), i))
        obs = o["lines"][i]
        if s["op"] != "tick":
            if obs:
                mism.append(("output-outside-tick", "step %d (%s) produced output %s" % (i, s["op"], obs[:3]), i))
            continue
        exp = [expected_lines(g, fun, BASE) for g in s["groups"]]
        exp = [e for e in exp if e]
        parsed = []
        bad = False
        for l in obs:
            m = LINE.match(l)
            if not m:
                mism.append(("line-format", "step %d: line %r is not '<name> <six-decimal value> <ts>'" % (i, l), i))
                bad = True
                break
            parsed.append((m.group(1), m.group(2), int(m.group(3))))
        if bad:
            continue
        oc = collections.Counter((p[0], p[2]) for p in parsed)
        ec = collections.Counter((e[0], e[1]) for g in exp for e in g)
        if oc != ec:
            extra = sorted((oc - ec).elements())
            missing = sorted((ec - oc).elements())
            cls = "duplicate" if any(c > 1 for c in oc.values()) else ("extra" if extra and not missing else
                                                                       "missing" if missing and not extra else "different")
            mism.append(("flush-set " + cls, "step %d tick t=%d: emitted <<name, bucket start>> differ from the specification: "
                         "unexpected %s, missing %s" % (i, s["t"], [(n, t - BASE) for n, t in extra][:6],
                                                        [(n, t - BASE) for n, t in missing][:6]), i))
            continue
        tss = [p[2] for p in parsed]
        if any(tss[k] > tss[k + 1] for k in range(len(tss) - 1)):
            mism.append(("flush-order", "step %d tick t=%d: bucket starts not ascending: %s" % (i, s["t"], [t - BASE for t in tss]), i))
            continue
        # same multiset and ascending => the groups are aligned; compare the values
        pos = 0
        for g in exp:
            chunk = parsed[pos:pos + len(g)]
            pos += len(g)
            byname = {p[0]: p for p in chunk}
            for (name, ts, sub, res) in g:
                nlines += 1
                p = byname[name]
                if not value_ok(fun, sub, res, p[1]):
                    want = res["var"] if fun == "stdev" else res["derive"] if fun == "derive" else res[sub] if sub else res[fun]
                    mism.append(("value " + fun, "step %d: %s at bucket %d printed %s, exact %s%s is %s" % (
                        i, name, ts - BASE, p[1], "variance" if fun == "stdev" else fun, "." + sub if sub else "",
                        json.dumps(want)), i))
    return mism, nlines, ntoo


def compare_replay(ctx, behs, plan, outs):
    st = dict(runs=0, lines=0, too_checks=0, behaviours=len(behs), nonempty_flushes=0, too_old_points=0,
              point_on_open_boundary=0, point_just_closed=0, bucket_on_cutoff=0, joins_of_overdue_bucket=0,
              silent_derive=0)
    distinct = set()
    byb = {b["b"]: b for b in behs}
    seen = set()
    nviol = 0
    for o in iter_ndjson(outs):
        b = byb[o["b"]]
        r = dict(plan[(o["b"], o["fun"])])
        seen.add((o["b"], o["fun"]))
        mism, nl, nt = compare_run(b, r, o)
        st["runs"] += 1
        st["lines"] += nl
        st["too_checks"] += nt
        for sig, what, at in mism:
            nviol += 1
            if sig == "driver-incomplete":
                raise Machinery("driver record incomplete for behaviour %d/%s: %s" % (o["b"], o["fun"], what))
            ctx.violation(sig, "%s [interval=%d wait=%d fmt=%s fun=%s cache=%s]" % (
                what, b["interval"], b["wait"], b["fmt"], r["fun"], r["cache"]),
                dict(behaviour=b, run=r, observed=o, step=at))
        for s in b["steps"]:
            if s["op"] == "tick" and s["groups"]:
                distinct.add((b["interval"], b["wait"], b["fmt"], o["fun"],
                              json.dumps([[g["q"], sorted((l["key"], l["n"], l["res"]["sum"]) for l in g["lines"])] for g in s["groups"]])))
    missing = set(plan) - seen
    if missing and not ctx.violations:
        raise Machinery("driver skipped %d runs" % len(missing))
    # boundary coverage of the generated behaviours (computed from the behaviours, statistics only)
    for b in behs:
        now, I, W = 0, b["interval"], b["wait"]
        openb = set()
        for s in b["steps"]:
            if s["op"] == "adv":
                now = s["now"]
            elif s["op"] == "proc" and s["key"]:
                qv = s["ts"] - s["ts"] % I
                st["too_old_points"] += s["dTooOld"]
                if qv == now - W + 1:
                    st["point_on_open_boundary"] += 1
                if qv == now - W:
                    st["point_just_closed"] += 1
                if s["dTooOld"] == 0:
                    if (qv, s["key"]) in openb and qv <= now - W:
                        st["joins_of_overdue_bucket"] += 1
                    openb.add((qv, s["key"]))
            elif s["op"] == "tick":
                if s["groups"]:
                    st["nonempty_flushes"] += 1
                for g in s["groups"]:
                    if g["q"] == s["t"] - W:
                        st["bucket_on_cutoff"] += 1
                    for l in g["lines"]:
                        openb.discard((g["q"], l["key"]))
                        if not l["res"]["deriveok"]:
                            st["silent_derive"] += 1
    st["distinct_flushes"] = len(distinct)
    for k in ("nonempty_flushes", "too_old_points", "point_on_open_boundary", "point_just_closed", "bucket_on_cutoff",
              "joins_of_overdue_bucket"):
        if st[k] == 0:
            raise Machinery("vacuous generation: %s = 0" % k)
    if st["lines"] == 0:
        raise Machinery("no output line was compared")
    ctx.log("replay: %s" % json.dumps(st))
    # samples
    for b in behs:
        t = [s for s in b["steps"] if s["op"] == "tick" and s["groups"]]
        if t:
            ctx.sample(dict(interval=b["interval"], wait=b["wait"], fmt=b["fmt"],
                            steps=[{k: v for k, v in s.items() if k != "groups"} for s in b["steps"]][:10],
                            first_flush=[[g["q"], [(l["key"], l["n"], l["res"]["avg"]) for l in g["lines"]]] for g in t[0]["groups"]]), limit=2)
            if len(ctx.cov["samples"]) >= 2:
                break
    return st


def selftest_replay(ctx, behs, plan, outs):
    """the comparison is bound to the recorded data: corrupting one recorded field of an accepted
    run must produce a mismatch"""
    byb = {b["b"]: b for b in behs}
    done = set()
    for o in iter_ndjson(outs):
        b = byb[o["b"]]
        r = plan[(o["b"], o["fun"])]
        if compare_run(b, r, o)[0]:
            continue
        idx = next((i for i, l in enumerate(o["lines"]) if l), None)
        if idx is None:
            continue
        kinds = []
        # 1 value off by 1e-5
        c = copy.deepcopy(o)
        m = LINE.match(c["lines"][idx][0])
        c["lines"][idx][0] = "%s %.6f %s" % (m.group(1), float(m.group(2)) + 0.00002, m.group(3))
        kinds.append(("value", c))
        # 2 a line lost
        c = copy.deepcopy(o)
        c["lines"][idx] = c["lines"][idx][1:]
        kinds.append(("lost", c))
        # 3 a line twice
        c = copy.deepcopy(o)
        c["lines"][idx] = c["lines"][idx] + c["lines"][idx][:1]
        kinds.append(("twice", c))
        # 4 bucket start shifted by one interval
        c = copy.deepcopy(o)
        c["lines"][idx][0] = "%s %s %d" % (m.group(1), m.group(2), int(m.group(3)) + b["interval"])
        kinds.append(("shift", c))
        # 5 too-old delta
        c = copy.deepcopy(o)
        c["too"][0] += 1
        kinds.append(("too", c))
        if len(o["lines"][idx]) > 1 and LINE.match(o["lines"][idx][-1]).group(3) != m.group(3):
            c = copy.deepcopy(o)
            c["lines"][idx] = list(reversed(c["lines"][idx]))
            kinds.append(("order", c))
        for k, c in kinds:
            if (k, r["fun"] == "stdev") in done:
                continue
            if not compare_run(b, r, c)[0]:
                raise Machinery("binding self-test failed: corruption '%s' of a recorded run was not noticed (b=%d fun=%s)" % (k, o["b"], o["fun"]))
            done.add((k, r["fun"] == "stdev"))
        if len(done) >= 12:
            break
    if len(done) < 10:
        raise Machinery("binding self-test could not be run (%s)" % sorted(done))
    ctx.cov["binding_selftests"] = "passed (%d corruptions noticed)" % len(done)


# ------------------------------------------------------------------ T variant
TFUNS = ["sum", "count", "last", "max", "min", "delta", "avg"]     # integer-exact in 32-bit TLC arithmetic


def trace_cfgs(ctx, n, fmts):
    rng = random.Random(ctx.seed * 31 + 5)
    cfgs = []
    for h in range(n):
        fm = rng.choice(ALL_FMTS)
        f = fmts[fm]
        cfgs.append(dict(h=h, fun=TFUNS[h % len(TFUNS)], fmt=fm, interval=rng.choice([1, 5]), wait=rng.choice([0, 1, 5]),
                         regex=f["regex"], outfmt=f["outfmt"], names={k: v for k, v in f["names"].items() if k != "nx"},
                         base=BASE, steps=rng.choice([16, 24, 36]), maxenq=14))
    return cfgs


def project_trace(events, cfgs):
    """driver events -> alphabet of AggregatorTrace.tla (out lines are parsed; nothing is judged: the
    series name of the line is passed on as the key and TLC compares it with the expanded output name
    of the pending bucket; a line that cannot be parsed is passed on as key "?" and TLC rejects it)"""
    out = []
    for e in events:
        ev = e["ev"]
        if ev == "hist":
            out.append(dict(ev="hist", h=e["h"], interval=e["interval"], wait=e["wait"], fmt=e["fmt"], fun=e["fun"]))
        elif ev == "out":
            m = LINE.match(e["line"])
            if m and int(m.group(3)) >= BASE and abs(Fraction(m.group(2))) < 2000:
                out.append(dict(ev="out", key=m.group(1), q=int(m.group(3)) - BASE,
                                micro=int(Fraction(m.group(2)) * 10 ** 6), line=e["line"]))
            else:
                out.append(dict(ev="out", key="?", q=-1, micro=0, line=e["line"]))
        elif ev in ("enq", "adv", "tick", "sync", "end"):
            out.append({k: v for k, v in e.items() if k in ("ev", "name", "val", "ts", "now", "t", "too")})
        elif ev == "stuck":
            out.append(dict(ev="stuck"))
    return out


def split_hist(recs):
    blocks = []
    for r in recs:
        if r["ev"] == "hist":
            blocks.append([r])
        elif blocks:
            blocks[-1].append(r)
    return blocks


def validate_blocks(ctx, blocks, tag, count=True):
    """-> (accepted, index of rejected block, index of rejected event in it)"""
    flat = [r for b in blocks for r in b]
    f = ctx.write_ndjson("aggtrace_%s.ndjson" % tag, flat)
    ok, matched, res = ctx.validate_traces("AggregatorTrace", "AggregatorTrace.cfg", f, len(flat), len(blocks) if count else 0,
                                           tag="aggT" + tag, timeout=3000, heap="6g")
    if ok:
        return True, None, None, res
    if matched is None:
        raise Machinery("trace validation gave no verdict; log %s" % res["log"])
    pos = 0
    for bi, b in enumerate(blocks):
        if matched < pos + len(b):
            return False, bi, matched - pos, res
        pos += len(b)
    raise Machinery("matched prefix beyond the trace")


def trace_variant(ctx, fmts):
    n = ctx.pick(200, 3000)
    cfgs = trace_cfgs(ctx, n, fmts)
    cf = ctx.write_ndjson("aggtrace_cfg.ndjson", cfgs)
    tf = os.path.join(ctx.out, "aggtrace_raw.ndjson")
    res = ctx.go_test("agg", run="^TestTrace$", timeout=3000, expect_ok=False,
                      env=dict(VERIF_AGG_TCFG=cf, VERIF_AGG_TRACE=tf))
    events = ctx.read_ndjson(tf) if os.path.exists(tf) else []
    if res["rc"] != 0:
        if "panic:" in res["text"] or "fatal error:" in res["text"] or any(e["ev"] == "stuck" for e in events):
            ctx.violation("aggregator-panics-or-hangs", "behind a Table: the aggregator panicked, or did not drain its inbox / "
                          "deliver its output within the deadline", dict(tail=res["text"][-2500:], last=events[-20:]))
        else:
            raise Machinery("agg trace driver failed (rc=%s); log %s\n%s" % (res["rc"], res["log"], res["text"][-2000:]))
    recs = project_trace(events, cfgs)
    blocks = [b for b in split_hist(recs) if b[-1]["ev"] == "end"]
    if len(blocks) < 0.9 * n and not ctx.violations:
        raise Machinery("dead driver: %d of %d traces complete" % (len(blocks), n))
    nev = sum(len(b) for b in blocks)
    nout = sum(1 for b in blocks for r in b if r["ev"] == "out")
    ntoo = sum(b[-1]["too"] for b in blocks)
    if nout == 0 or ntoo == 0:
        raise Machinery("vacuous traces: %d out events, %d too-old points" % (nout, ntoo))
    all_blocks = list(blocks)
    rejected = 0
    for rnd in range(12):
        ok, bi, idx, r = validate_blocks(ctx, blocks, str(rnd))
        if ok:
            break
        b = blocks[bi]
        ev = b[idx]
        kind = ev["ev"]
        if r["violated"]:
            sig, what = "trace-invariant " + str(r["violated"]), "invariant %s is false in a recorded execution" % r["violated"]
        elif kind == "out":
            sig = "trace-out"
            what = ("line %r delivered to the route is not what the specification allows at this point (wrong bucket set, "
                    "order, value, or emitted twice)" % ev.get("line"))
        elif kind in ("sync", "end"):
            sig = "trace-" + kind
            what = "at %s: TooOld delta %s / pending output differ from every behaviour of the specification" % (kind, ev.get("too"))
        else:
            sig, what = "trace-event " + kind, "event %s rejected" % json.dumps(ev)
        ctx.violation(sig, what + " [interval=%d wait=%d fmt=%s fun=%s]" % (b[0]["interval"], b[0]["wait"], b[0]["fmt"], b[0]["fun"]),
                      dict(trace=b[:idx + 1], rest=b[idx + 1:idx + 6]))
        rejected += 1
        del blocks[bi]
    else:
        ctx.note("more than 12 rejected traces; stopped re-validating")
    # binding self-test: corrupt one recorded field of an accepted trace
    if rejected == 0:
        sample = copy.deepcopy(all_blocks[:60])
        done = 0
        for kind in ("micro", "q", "too", "drop-out"):
            bl = copy.deepcopy(sample)
            flat = [r for b in bl for r in b]
            if kind in ("micro", "q", "drop-out"):
                idx = next((i for i, r in enumerate(flat) if r["ev"] == "out"), None)
                if idx is None:
                    continue
                if kind == "micro":
                    flat[idx]["micro"] += 3
                elif kind == "q":
                    flat[idx]["q"] += 5
            else:
                idx = next((i for i, r in enumerate(flat) if r["ev"] == "end"), None)
                # +1 can be explainable (a point still in the inbox may or may not have been processed as
                # too old when the trace ends); a count no behaviour can reach must be rejected
                flat[idx]["too"] += 1000
            if kind == "drop-out":
                del flat[idx]
                # the hole shows at the latest at the end event of that trace
                want = lambda m: m is not None and m >= idx and m <= next(i for i in range(idx, len(flat)) if flat[i]["ev"] == "end")
            else:
                want = lambda m: m == idx
            f = ctx.write_ndjson("aggtrace_self_%s.ndjson" % kind, flat)
            ok, matched, _ = ctx.validate_traces("AggregatorTrace", "AggregatorTrace.cfg", f, len(flat), 0, tag="aggTself" + kind)
            if ok or not want(matched):
                raise Machinery("binding self-test (trace, %s) failed: corruption at line %d not rejected there (matched %s)" % (kind, idx, matched))
            done += 1
        ctx.cov["binding_selftests_trace"] = "passed (%d)" % done
    st = dict(traces=len(all_blocks), events=nev, out_events=nout, too_old_points=ntoo, rejected=rejected)
    ctx.log("trace variant: %s" % json.dumps(st))
    return st
