"""C13 — pickle input is equivalent to the plain-text input for the same datapoints.

1. TLC model-checks the frame loop of Framing.tla (length -> prefix peek -> chunked payload ->
   dispatch) against Frames() for every 0/1 stream x every segmentation; deviations must violate.
2. TLC enumerates the item decision table of PickleItems.tla (every item class with its decision)
   and, by simulation, connections of <= 3 frames of <= 3 items incl. malformed frame kinds, each
   with the events (Dispatch / IncNumInvalid per item) and the end status it must produce.
3. tools/mkpickle.py turns every abstract connection into bytes (CPython pickle protocols 0-4 and a
   Python-2 dialect for protocols 0-2) and a segmentation class into cut offsets; the same datapoints
   are rendered as plain-text lines with the rendering rule TLC attached to each field.
4. harness/inputs TestPickle feeds the real input.NewPickle(capture).Handle through a chunking
   reader and the text through the real Plain.Handle and records both.
5. Verdict: recorded events / end status vs TLC's expectation; plain path vs pickle path.
"""
import importlib.util, json, os, random
from checks import framlib
from vlib.core import Machinery, VERIF

LEVEL = "model_checking"

_spec = importlib.util.spec_from_file_location("mkpickle", os.path.join(VERIF, "tools", "mkpickle.py"))
mk = importlib.util.module_from_spec(_spec)
_spec.loader.exec_module(mk)

SEGS = ["all", "one", "hdr", "payload", "between"]
VARIANTS = [(p, "py3") for p in range(5)] + [(p, "py2") for p in range(3)]


def gen(ctx, mode, num=0):
    consts = dict(Mode=mode, MaxFrames=3, MaxItems=3)
    if mode == "table":
        r = ctx.tlc("PickleGen", "PickleGen.cfg", workers=1, consts=consts, timeout=1500)
    else:
        r = ctx.tlc("PickleGen", "PickleGen.cfg", workers=1, consts=consts, timeout=6000, heap="6g",
                    simulate="num=%d" % num, args=["-depth", "14", "-seed", str(ctx.seed)])
    seen, out = set(), []
    for x in ctx.tlc_printed(r, "@@P"):
        if x not in seen:
            seen.add(x)
            out.append(json.loads(x))
    return out


def expected_events(case, srcs):
    """TLC's events, concretised: "D<hex line>" / "I"; plus the list of lines"""
    evs, lines, detail = [], [], []
    for e in case["expect"]["events"]:
        src = srcs[(e["f"], e["i"])]
        if e["act"] == "D":
            line = ("%s %s %s" % (src["name"], mk.render(e["val"], src["val"]), mk.render(e["ts"], src["ts"]))).encode()
            evs.append("D" + line.hex())
            lines.append(line)
        else:
            evs.append("I")
        detail.append((e, src))
    return evs, lines, detail


def f11_line(e, src):
    """what the known decoder defect F11 (BININT read as unsigned) makes of this item, or None"""
    def fix(v, tag):
        return v + 2 ** 32 if tag == "int" and -2 ** 31 <= v < 0 else v
    if e["act"] != "D":
        return None
    v, t = fix(src["val"], src["val_tag"]), fix(src["ts"], src["ts_tag"])
    if v == src["val"] and t == src["ts"]:
        return None
    return "D" + ("%s %s %s" % (src["name"], mk.render(e["val"], v), mk.render(e["ts"], t))).encode().hex()


def judge(ctx, meta, results, report=True):
    bad = 0
    for r in results:
        m = meta[r["id"]]
        case, frames = m["case"], m["case"]["frames"]
        exp, lines, detail = expected_events(case, m["srcs"])
        got = r["events"]
        where = "proto %d %s seg=%s" % (m["proto"], m["dialect"], m["seg"])
        probs = []
        if len(got) != len(exp):
            probs.append(("event-count", "connection produced %d events, expected %d" % (len(got), len(exp))))
        else:
            for k, (g, x) in enumerate(zip(got, exp)):
                if g == x:
                    continue
                e, src = detail[k]
                it = frames[e["f"] - 1]["items"][e["i"] - 1]
                cls = "outer=%s arity=%s name=%s pair=%s/%s ts=%s val=%s" % (it["outer"], it["arity"], it["name"], it["pair"],
                                                                             it["parity"], it["ts"], it["val"])
                if m["proto"] >= 1 and g == f11_line(e, src):
                    probs.append(("pickle-negative-int proto>=1", "negative int read as unsigned: expected %s got %s (%s)" % (
                        bytes.fromhex(x[1:]).decode(), bytes.fromhex(g[1:]).decode(), where)))
                elif x[0] == "D" and g == "I":
                    probs.append(("valid-item-counted-invalid " + cls, "expected Dispatch(%s), got IncNumInvalid (%s)" % (
                        bytes.fromhex(x[1:]).decode(), where)))
                elif x == "I":
                    probs.append(("invalid-item-dispatched " + cls, "expected IncNumInvalid, got %s (%s)" % (g[:120], where)))
                else:
                    probs.append(("dispatched-line-differs " + cls, "expected %s got %s (%s)" % (
                        bytes.fromhex(x[1:]).decode()[:100], bytes.fromhex(g[1:]).decode(errors="replace")[:100], where)))
        st = case["expect"]["status"]
        kinds = [f["kind"] for f in frames]
        if st == "end" and r["err"]:
            probs.append(("error-on-wellformed-connection", "Handle returned %r for well-formed frames (%s)" % (r["err"], where)))
        if st == "error" and not r["err"]:
            probs.append(("malformed-frame-without-error " + next(k for k in kinds if k != "ok"),
                          "Handle returned nil although frame kinds were %s (%s)" % (kinds, where)))
        # the plain path: the same datapoints as text must give exactly the dispatched lines
        if r["plain"] != [l.hex() for l in lines] or r["perr"]:
            probs.append(("plain-path-differs", "Plain.Handle dispatched %d lines for %d datapoints" % (len(r["plain"]), len(lines))))
        if r["unstable"]:
            probs.append(("buffer-changes-during-dispatch", "argument of Dispatch changed during the call"))
        bad += len(probs)
        if report:
            for sig, what in probs:
                ctx.violation(sig, what, dict(frames=frames, proto=m["proto"], dialect=m["dialect"], seg=m["seg"], cuts=m["cuts"][:40],
                                              stream=m["stream"][:600], expected=exp, got=got, err=r["err"],
                                              expected_status=st))
    return bad


def run(ctx):
    rng = random.Random(ctx.seed)
    # 1. the frame loop under every segmentation
    framlib.mc(ctx, ["frames"], 0, ctx.pick(9, 13), live=not ctx.quick(), workers=ctx.pick(4, 6))
    framlib.nonvacuity(ctx, ["frames"], framlib.FRAME_MUTANTS, maxlenf=6)
    # 2. abstract cases with expectations
    table = gen(ctx, "table")
    if len(table) != 467:
        raise Machinery("PickleGen table printed %d item classes" % len(table))
    conns = gen(ctx, "sim", ctx.pick(60, 1200))
    ctx.log("cases: %d item classes, %d connections" % (len(table), len(conns)))
    # 3. concretise
    jobs, meta = [], {}

    def add(case, proto, dialect, seg, longnames=False):
        cid = len(jobs)
        stream, spans, srcs = mk.connection(rng, case["frames"], proto, dialect, cid, longnames)
        if any(s["bytes_name"] for s in srcs.values()) and proto >= 3:
            return            # BINBYTES is unknown to the pinned decoder: dependency limit, not asserted
        cuts = mk.cuts_for(rng, seg, len(stream), spans) if stream else []
        _, lines, _ = expected_events(case, srcs)
        text = b"".join(l + b"\n" for l in lines)
        jobs.append(dict(id=cid, stream=stream.hex(), cuts=cuts, term="eof", text=text.hex()))
        meta[cid] = dict(case=case, proto=proto, dialect=dialect, seg=seg, srcs=srcs, cuts=cuts, stream=stream.hex())

    for i, c in enumerate(table):
        for j, (p, d) in enumerate(VARIANTS):
            add(c, p, d, "all" if (i + j) % 2 else "one")
            if not ctx.quick():
                add(c, p, d, SEGS[(i + j) % 3 + 2])
    for i, c in enumerate(conns):
        for rep in range(ctx.pick(1, 2)):
            p, d = VARIANTS[(i + rep * 3 + ctx.seed) % len(VARIANTS)]
            add(c, p, d, SEGS[(i // 8 + rep) % 5], longnames=(i % 9 == 0))
    cf = ctx.write_ndjson("c13_cases.ndjson", jobs)
    rf = os.path.join(ctx.out, "c13_result.ndjson")
    # 4. the real code
    res = ctx.go_test("inputs", run="^TestPickle$", timeout=ctx.pick(900, 3000), expect_ok=False,
                      env=dict(VERIF_C13_CASES=cf, VERIF_C13_RESULT=rf))
    recs = ctx.read_ndjson(rf) if os.path.exists(rf) else []
    if res["rc"] != 0:
        if "panic:" in res["text"] or "fatal error:" in res["text"]:
            pf = os.path.join(ctx.out, "pickle_progress.ndjson")
            last = ctx.read_ndjson(pf)[-1:] if os.path.exists(pf) else []
            lid = last[0]["id"] if last else None
            ctx.violation("pickle-handler-panics", "Pickle.Handle panicked", dict(case=meta.get(lid, {}).get("case"), tail=res["text"][-2000:]))
        else:
            raise Machinery("inputs driver failed (rc=%s); log %s\n%s" % (res["rc"], res["log"], res["text"][-2000:]))
    results = [r for r in recs if r["ev"] == "res"]
    if res["rc"] == 0 and (len(results) != len(jobs) or recs[-1]["ev"] != "end"):
        raise Machinery("driver produced %d results for %d cases" % (len(results), len(jobs)))
    # 5. verdict
    judge(ctx, meta, results)
    # binding self-test: a corrupted record must be flagged
    probe = next((r for r in results if len(r["events"]) >= 2 and any(e != "I" for e in r["events"]) and
                  judge(ctx, meta, [r], report=False) == 0), None)
    if probe is None:
        raise Machinery("no connection with two or more events")
    for mut in ("drop", "swapI", "alter"):
        p2 = json.loads(json.dumps(probe))
        k = next(i for i, e in enumerate(p2["events"]) if e != "I")
        if mut == "drop":
            del p2["events"][k]
        elif mut == "swapI":
            p2["events"][k] = "I"
        else:
            p2["events"][k] = p2["events"][k][:-2] + ("30" if p2["events"][k][-2:] != "30" else "31")
        if judge(ctx, meta, [p2], report=False) == 0:
            raise Machinery("binding self-test failed: corrupted record (%s) accepted" % mut)
    ctx.cov["binding_selftests"] = "passed"

    cov = ctx.cov
    nontriv, nd, ni = set(), 0, 0
    for r in results:
        m = meta[r["id"]]
        nd += sum(1 for e in r["events"] if e != "I")
        ni += sum(1 for e in r["events"] if e == "I")
        if any(e != "I" for e in r["events"]):
            nontriv.add((json.dumps(m["case"]["frames"], sort_keys=True), m["proto"], m["dialect"], m["seg"]))
    if nd == 0 or ni == 0:
        raise Machinery("vacuous: %d dispatches, %d invalid counts" % (nd, ni))
    cov["evaluations"] = len(results)
    cov["dispatch_events"] = nd
    cov["invalid_events"] = ni
    cov["distinct_nontrivial"] = len(nontriv)
    cov["rule"] = ("evaluations = pickle connections run through the real Pickle.Handle (and their text rendering through the real "
                   "Plain.Handle); cases = all 467 item classes of PickleItems.tla x 8 encoder variants (CPython protocols 0-4; "
                   "Python-2 dialect protocols 0-2) + TLC-simulated connections of <= 3 frames x <= 3 items incl. 7 malformed frame "
                   "kinds, each under one of 5 segmentation classes (all-at-once, one-byte, cut in the length prefix, cut in the "
                   "payload, cut between frames); distinct_nontrivial = distinct (abstract connection, protocol, dialect, "
                   "segmentation class) with at least one dispatched datapoint")
    ex = next(r for r in results if len(r["events"]) >= 2 and any(e != "I" for e in r["events"]))
    m = meta[ex["id"]]
    ctx.sample(dict(proto=m["proto"], dialect=m["dialect"], seg=m["seg"], stream=m["stream"][:300],
                    events=[(bytes.fromhex(e[1:]).decode(errors="replace")[:80] if e != "I" else "IncNumInvalid") for e in ex["events"]],
                    err=ex["err"]))
    ctx.assumptions += [
        "scalar values, names and fragment sizes are chosen by the concretisation (tools/mkpickle.py); floats are finite; names are ASCII "
        "without whitespace; the text rendering uses CPython's %f / %.0f / str() according to the rule TLC attached to the field",
        "Python-3 `bytes` names in protocol >= 3 (BINBYTES) are not driven: the pinned decoder does not know the opcode",
        "a complete frame whose pickle stops early ends the connection; whether Handle reports an error for it is left open "
        "(the handler deliberately returns nil on io.ErrUnexpectedEOF)",
        "the connection ends with EOF delivered alone (as net.Conn does), not together with the last bytes"]
    cov["trusted_base"] = ["TLC", "CPython pickle (encoder and self-check of the Python-2 assembler)", "tools/mkpickle.py",
                           "harness/inputs driver (records only)", "og-rek decoder (pinned dependency of /repo)"]
