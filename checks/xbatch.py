"""XBATCH -- the three batching routes and their common front end (extension check, not one of the listed properties).

route/kafkamdm.go (KafkaMdm), route/pubsub.go (PubSub), route/cloudwatch.go (CloudWatch), route/dispatch.go
(dispatchBlocking / dispatchNonBlocking into the bounded channel buf, numDropBuffFull, numBuffered).

1. TLC model-checks spec/BatchRoute.tla (dispatcher + run loop at statement grain + Shutdown + an endpoint with a bounded
   fault budget; Kind = kafka | pubsub | cloudwatch; Protocol = pinned: the code as it is) against the level-A operators
   of BatchRouteOps.tla and against invariants on the model's own state, safety and liveness (weak fairness of the loop,
   of the dispatcher's channel operation and of Shutdown; finitely many faults).  Where the code as it is breaks a
   statement the configuration names the clause (Tolerated) and a separate run shows that TLC rejects the pinned model
   without the tolerance and accepts the repaired protocol; named deviations must be rejected (non-vacuity).
2. Scenarios: environment histories of finished behaviours of the same model (TLC simulation) + seeded families
   (threshold hit exactly / by one more / never, bursts larger than bufSize with the endpoint holding a send back,
   endpoint failures, Shutdown with items still queued, unparsable lines in between).
3. harness/batch runs the REAL routes against local fakes, offline (sarama.MockBroker behind a recording proxy; an
   in-process gRPC Publisher via PUBSUB_EMULATOR_HOST; an https endpoint for monitoring.<region>.amazonaws.com via
   HTTPS_PROXY + SSL_CERT_FILE) and records events.  No hook, no change of the routes.
4. spec/BatchRouteTrace.tla (TLC) replays every event into the same level-A operators and names the clauses an
   execution breaks.  Corrupted copies of accepted executions must be rejected with the matching clause.
"""
import copy, json, os, random, re
from concurrent.futures import ThreadPoolExecutor
from vlib.core import Machinery

LEVEL = "model_checking"

KINDS = ("kafka", "pubsub", "cloudwatch")
# what the code as it is (Protocol = "pinned") is known to break, per kind (see the module docstring of
# spec/BatchRoute.tla); "fm1": cloudwatch with flushMaxSize = 1
TOL = {"kafka": set(), "pubsub": {"AllTransmitted"}, "cloudwatch": {"OutCounted", "SpuriousError"},
       "fm1": {"OutCounted", "SpuriousError", "NoSkip", "AllTransmitted", "NothingLeftBehind"}}

BASE = dict(Kind="kafka", BufSize=2, FlushMax=2, MaxItems=4, Sizes={1}, MaxBad=1, MaxFaults=1, Blocking=False, TimerOn=True,
            AllowShutdown=True, Protocol="pinned", Mutant="", Tolerated=set())


def kconsts(kind, **kw):
    c = dict(BASE, Kind=kind)
    if kind == "pubsub":
        c.update(Sizes={1, 2}, FlushMax=3)
    c.update({k: v for k, v in kw.items() if v is not None})
    if "Tolerated" not in kw and c["Protocol"] == "pinned":
        c["Tolerated"] = TOL["fm1"] if kind == "cloudwatch" and c["FlushMax"] == 1 else TOL[kind]
    return c


# ------------------------------------------------------------------ 1. model checking
def mc_jobs(ctx):
    q = ctx.quick()
    ok, bad = [], []
    if q:
        ok += [kconsts("kafka", MaxFaults=2), kconsts("pubsub", MaxItems=3), kconsts("cloudwatch"),
               kconsts("kafka", Blocking=True, TimerOn=False, live="LoopExits Unparks"),
               kconsts("cloudwatch", Blocking=True, FlushMax=1),
               kconsts("pubsub", Protocol="repaired", cfg="BatchRoute_mcstrong.cfg", Blocking=True, MaxItems=3)]
    else:
        for kind in KINDS:
            for blocking in (False, True):
                ok.append(kconsts(kind, Blocking=blocking, MaxFaults=2 if kind == "kafka" else 1))
                if kind != "pubsub":
                    ok.append(kconsts(kind, Blocking=blocking, BufSize=1, FlushMax=3, MaxItems=5, MaxFaults=2))
                else:       # (two sizes: the liveness graph of 5 items is ~10x; 5 items safety only)
                    ok.append(kconsts(kind, Blocking=blocking, BufSize=1, FlushMax=4, MaxItems=4, MaxFaults=2))
                    ok.append(kconsts(kind, Blocking=blocking, BufSize=1, FlushMax=4, MaxItems=5, MaxFaults=1, live=""))
                ok.append(kconsts(kind, Blocking=blocking, BufSize=3, FlushMax=1 if kind != "pubsub" else 2, MaxItems=4, MaxBad=2))
                # no timer (flushMaxWait longer than the execution): threshold and final flush only
                ok.append(kconsts(kind, TimerOn=False, Blocking=blocking, MaxItems=5, live="LoopExits Unparks"))
                # the repaired protocol satisfies every statement, also "Shutdown returns only after the loop has"
                ok.append(kconsts(kind, Protocol="repaired", cfg="BatchRoute_mcstrong.cfg", Blocking=blocking, MaxItems=5 if kind != "pubsub" else 4, MaxFaults=2))
            ok.append(kconsts(kind, Protocol="repaired", cfg="BatchRoute_mcstrong.cfg", FlushMax=1 if kind != "pubsub" else 2))
        ok.append(kconsts("cloudwatch", FlushMax=1))
        ok.append(kconsts("pubsub", AllowShutdown=False, Tolerated=set()))       # without Shutdown pubsub breaks nothing
    # -- the code as it is, without tolerance: TLC must name the clause (level-A operators only)
    A = "BatchRoute_mcA.cfg"
    bad += [("pinned/pubsub", kconsts("pubsub", Tolerated=set(), cfg=A), {"ExitAllTransmitted"}),
            ("pinned/cloudwatch", kconsts("cloudwatch", Tolerated=set(), cfg=A), {"ExitOutCounted", "ExitSpuriousError"}),
            ("pinned/cloudwatch/flushMaxSize=1", kconsts("cloudwatch", FlushMax=1, Tolerated=set(), cfg=A), {"NoSkip", "ExitAllTransmitted", "ExitNothingLeftBehind"}),
            ("pinned/kafka/shutdown-does-not-wait", kconsts("kafka", cfg="BatchRoute_mcstrong.cfg"), {"ShutdownWaitsForLoop"})]
    if not q:
        bad += [("pinned/pubsub/shutdown-does-not-wait", kconsts("pubsub", cfg="BatchRoute_mcstrong.cfg"), {"ShutdownWaitsForLoop"}),
                ("pinned/cloudwatch/shutdown-does-not-wait", kconsts("cloudwatch", cfg="BatchRoute_mcstrong.cfg"), {"ShutdownWaitsForLoop"})]
    # -- named deviations, judged by the level-A operators alone (what the trace validation uses) ...
    K = kconsts("kafka", MaxFaults=2, cfg=A, live="")
    P = kconsts("pubsub", Protocol="repaired", cfg=A, live="")
    C = kconsts("cloudwatch", Protocol="repaired", cfg=A, live="")
    devs = [("flush_drops_trigger", P, {"NoSkip", "ExitNothingLeftBehind", "ExitAllTransmitted"}),
            ("no_reset", K, {"NoResend", "BatchBound"}),
            ("retry_tail_only", K, {"RetrySame"}),
            ("no_final_flush", K, {"ExitNothingLeftBehind"}),
            ("drop_uncounted", K, {"ExitNothingLeftBehind", "NoSkip"}),
            ("threshold_off_by_one", K, {"BatchBound"}),
            ("give_up", K, {"RetrySame", "ExitNothingLeftBehind", "NoSkip"}),
            ("drop_when_not_full", K, {"DropOnlyWhenFull"})]
    if not q:
        devs += [("no_drain", K, {"ExitNothingLeftBehind", "ExitGaugeZero"}), ("bad_item_appended", K, {"UnknownItem"}),
                 ("no_reset", C, {"NoResend", "BatchBound"}), ("no_reset", P, {"NoResend", "BatchBound"}),
                 ("no_final_flush", P, {"ExitNothingLeftBehind", "ExitAllTransmitted"}),
                 ("no_final_flush", C, {"ExitNothingLeftBehind", "ExitAllTransmitted"}),
                 ("threshold_off_by_one", C, {"BatchBound"}), ("threshold_off_by_one", P, {"BatchBound"}),
                 ("no_drain", P, {"ExitNothingLeftBehind", "ExitAllTransmitted", "ExitParseCounted", "ExitGaugeZero"}),
                 ("bad_item_appended", P, {"UnknownItem"}),
                 # no timer: the threshold alone must cut the batches
                 ("threshold_off_by_one", dict(K, TimerOn=False, live=""), {"BatchBound", "ThresholdExact"})]
    # ... and by the invariants on the model's own state
    devs += [("nb_no_default", dict(K, cfg="BatchRoute_mc.cfg"), {"NonBlockingNeverBlocks"})]
    if not q:
        devs += [("threshold_off_by_one", dict(K, cfg="BatchRoute_mc.cfg"), {"PendingBelowThreshold", "BatchBound"}),
                 ("give_up", dict(K, cfg="BatchRoute_mc.cfg"), {"NeverAbandoned", "RetrySame"})]
    # ... and two that only the liveness properties see
    L = kconsts("kafka", MaxItems=3, BufSize=1, Blocking=True, cfg="BatchRoute_live.cfg", live="")
    devs += [("no_timer_flush", L, {"TimerFlushes"})]
    if not q:
        devs += [("no_retry", L, {"LoopExits", "TimerFlushes", "Unparks"})]
    for name, c, want in devs:
        how = {"BatchRoute_mc.cfg": "/model-invariants", "BatchRoute_live.cfg": "/liveness"}.get(c["cfg"], "" if c["TimerOn"] else "/no-timer")
        bad.append(("dev/" + name + "/" + c["Kind"] + how, dict(c, Mutant=name), want))
    return ok, bad


def mc_one(ctx, consts, expect_ok, tag):
    c = {k: v for k, v in consts.items() if v is not None}
    cfg = c.pop("cfg", "BatchRoute_mc.cfg")
    live = c.pop("live", "LoopExits Unparks TimerFlushes")
    extra = ("PROPERTIES %s\n" % live) if live else ""
    return ctx.tlc("BatchRoute", cfg, consts=c, workers=1, timeout=ctx.pick(900, 3000), expect_ok=expect_ok, count=expect_ok,
                   extra_cfg=extra, tag=tag, heap="3g")


def model_check(ctx, pool):
    ok, bad = mc_jobs(ctx)
    if os.environ.get("VERIF_XB_DEV") == "nomc":        # development only (honoured on a scratch copy of the repository)
        return []
    futs = [(pool.submit(mc_one, ctx, c, True, "mcok%d" % i), None, None) for i, c in enumerate(ok)]
    futs += [(pool.submit(mc_one, ctx, c, False, "mcbad%d" % i), name, want) for i, (name, c, want) in enumerate(bad)]
    return futs


def clause_of(res):
    """the invariant TLC reports, refined to the level-A clause when it is LevelA (the last state's o.viol)"""
    v = res["violated"]
    if v == "LevelA":
        m = re.findall(r'viol \|-> \{<<"(\w+)", 0>>', res["text"])
        return m[-1] if m else v
    if v in (None, "temporal"):
        m = re.search(r"Temporal propert(?:y|ies) (.+?) (?:was|were) violated", res["text"])
        if m:
            return m.group(1).split()[0].strip(",")
    return v


def model_check_join(ctx, futs):
    rejected, pinned = {}, {}
    for f, name, want in futs:
        r = f.result()
        if name is None:
            continue
        got = clause_of(r)
        if r["ok"] or r["timeout"] or got is None or got not in want:
            raise Machinery("%s of BatchRoute.tla is not rejected as expected (violated=%s, wanted one of %s); log %s"
                            % (name, got, sorted(want), r["log"]))
        (rejected if name.startswith("dev/") else pinned)[name.split("/", 1)[1]] = got
    if futs:
        ctx.cov["spec_deviations_rejected"] = rejected
        ctx.cov["code_as_it_is_rejected_without_tolerance"] = pinned


# ------------------------------------------------------------------ 2. scenarios
def pubsub_dims(rng):
    fmt = rng.choice(["plain", "plain", "pickle"])
    return dict(format=fmt, codec=rng.choice(["none", "none", "gzip"]))


def sz_of(rng, kind):
    return rng.randint(48, 96) if kind == "pubsub" else 0


def bad_of(rng, sc, p):
    if sc["kind"] == "pubsub" and sc["format"] != "pickle":
        return 0            # the plain format forwards every line as it is
    return rng.randint(1, 4) if rng.random() < p else 0


def d_steps(rng, sc, n, pbad=0.0):
    return [dict(op="d", sz=sz_of(rng, sc["kind"]), bad=bad_of(rng, sc, pbad)) for _ in range(n)]


def new_scen(rng, kind, family, blocking=None, timer=True):
    sc = dict(kind=kind, family=family, origin="seeded", blocking=rng.random() < 0.5 if blocking is None else blocking,
              bufsize=rng.choice([1, 2, 3, 8]), timer=timer, format="", codec="", steps=[], faults=[], shutdown="plain")
    if kind == "pubsub":
        sc.update(pubsub_dims(rng))
        sc["fmax"] = rng.randint(150, 420)
    elif kind == "cloudwatch":
        sc["fmax"] = rng.choice([2, 2, 3, 5])
    else:
        sc["fmax"] = rng.choice([1, 2, 3, 5])
    sc["fmw_ms"] = rng.choice([5, 10, 20]) if timer else 3600000
    return sc


def per_batch(sc):
    """about how many items make a batch"""
    return sc["fmax"] if sc["kind"] != "pubsub" else max(1, sc["fmax"] // 72)


def family(rng, kind, fam):
    if fam in ("exact", "onemore"):
        # no timer: only the threshold cuts; nothing is dropped (blocking, or a buffer that takes everything)
        sc = new_scen(rng, kind, fam, timer=False)
        m = rng.randint(1, 3)
        n = m * per_batch(sc) + (1 if fam == "onemore" else 0) if kind != "pubsub" else rng.randint(3, 11)
        if not sc["blocking"]:
            sc["bufsize"] = n + 2
        if kind == "pubsub":
            sc["format"] = "plain"
        sc["steps"] = d_steps(rng, sc, n, 0.1) + [dict(op="i")]
        if kind == "pubsub":
            # the byte threshold is met exactly by the m-th item (it must go into the next batch) / missed by one
            # byte (it still fits)
            m = rng.randint(2, min(n, 4))
            sc["fmax"] = sum(st["sz"] for st in sc["steps"][:m]) + (1 if fam == "onemore" else 0)
        if rng.random() < 0.5:
            sc["steps"] += d_steps(rng, sc, rng.randint(1, per_batch(sc) + 1)) + [dict(op="i")]
    elif fam == "never":
        # fewer items than a batch: the timer (or, without one, the final flush) sends them
        sc = new_scen(rng, kind, fam, timer=rng.random() < 0.7)
        if kind != "pubsub":
            sc["fmax"] = rng.choice([3, 5, 8])
        n = rng.randint(1, max(1, per_batch(sc) - 1))
        sc["steps"] = d_steps(rng, sc, n, 0.15) + [dict(op="q" if sc["timer"] else "i")]
        if sc["timer"] and rng.random() < 0.5:
            sc["steps"] += d_steps(rng, sc, 1) + [dict(op="y", n=rng.randint(1, 30))] + d_steps(rng, sc, 1)
    elif fam == "burst":
        # the endpoint holds the first send back while more than bufSize items arrive
        sc = new_scen(rng, kind, fam, timer=rng.random() < 0.5)
        sc["bufsize"] = rng.choice([1, 2, 3])
        n = per_batch(sc) + sc["bufsize"] + rng.randint(2, 8)
        sc["steps"] = d_steps(rng, sc, rng.randint(0, 2)) + [dict(op="hold")] + d_steps(rng, sc, n, 0.1) + [dict(op="release")]
        sc["steps"] += [dict(op="q" if sc["timer"] else "i")] + d_steps(rng, sc, rng.randint(0, 3))
    elif fam == "faults":
        sc = new_scen(rng, kind, fam, timer=True)
        n = 3 * per_batch(sc) + rng.randint(0, 3)
        sc["steps"] = []
        for st in d_steps(rng, sc, n, 0.1):
            sc["steps"].append(st)
            if rng.random() < 0.15:
                sc["steps"].append(dict(op="q"))
        pat = rng.choice(["transient", "repeated", "mixed"])
        if pat == "transient":
            sc["faults"] = ["ok"] * rng.randint(0, 2) + ["fail"]
        elif pat == "repeated":
            sc["faults"] = ["ok"] * rng.randint(0, 1) + ["fail"] * rng.randint(2, 3)
        else:
            sc["faults"] = [rng.choice(["ok", "fail"]) for _ in range(5)]
            while sc["faults"].count("fail") > 3:
                sc["faults"][sc["faults"].index("fail")] = "ok"
    elif fam == "sdqueued":
        # Shutdown while the endpoint holds a send back: a batch in flight, items pending and queued.  Without timer the
        # numbers are exact: the threshold is reached, then the buffer filled (a blocking caller must not park: the
        # driver would let the endpoint go on)
        sc = new_scen(rng, kind, fam, timer=rng.random() < 0.5)
        sc["bufsize"] = rng.choice([2, 3, 8])
        if kind == "pubsub":
            sc["format"] = "plain"
        pre = d_steps(rng, sc, rng.randint(0, 3))
        room = sc["bufsize"] - (rng.randint(0, 1) if sc["blocking"] else -rng.randint(0, 3))
        if kind == "pubsub":
            pend, burst, left = 0, [], None
            for st in pre:
                pend = st["sz"] if pend + st["sz"] >= sc["fmax"] else pend + st["sz"]
            while left is None or left > 0:
                st = d_steps(rng, sc, 1)[0]
                burst.append(st)
                if left is None:
                    if pend + st["sz"] >= sc["fmax"]:
                        left = room         # (the item that triggers the flush stays in the loop's hand)
                    pend += st["sz"]
                else:
                    left -= 1
        else:
            burst = d_steps(rng, sc, sc["fmax"] - len(pre) % sc["fmax"] + room, 0.0)
        sc["steps"] = pre + [dict(op="hold")] + burst
        sc["shutdown"] = "held"
        if rng.random() < 0.3:
            sc["faults"] = ["fail"]
    else:       # mixed
        sc = new_scen(rng, kind, fam, timer=rng.random() < 0.7)
        for _ in range(rng.randint(4, 30)):
            x = rng.random()
            if x < 0.8:
                sc["steps"] += d_steps(rng, sc, 1, 0.2)
            elif x < 0.88:
                sc["steps"].append(dict(op="y", n=rng.randint(1, 25)))
            elif x < 0.95:
                sc["steps"].append(dict(op="q" if sc["timer"] else "i"))
            else:
                sc["steps"] += [dict(op="hold")] + d_steps(rng, sc, rng.randint(1, 6)) + [dict(op="release")]
        sc["faults"] = [rng.choice(["ok", "ok", "fail"]) for _ in range(3)]
        sc["shutdown"] = rng.choice(["plain", "plain", "held"])
    return sc


FAMILIES = ["exact", "onemore", "never", "burst", "faults", "sdqueued", "mixed"]


def gen_model_scenarios(ctx, pool, per):
    """environment histories of finished behaviours of BatchRoute.tla (TLC simulation)"""
    rng = random.Random(ctx.seed * 7919 + 5)
    combos = [(kind, blocking, timer) for kind in KINDS for blocking in (False, True) for timer in (True, False)]
    rng.shuffle(combos)
    if ctx.quick():
        combos = combos[:6]

    def sim(ci, kind, blocking, timer):
        c = kconsts(kind, Blocking=blocking, TimerOn=timer, BufSize=rng.choice([1, 2]), MaxItems=6, MaxFaults=2,
                    FlushMax=rng.choice([2, 3]) if kind != "pubsub" else rng.choice([3, 4]))
        for k in ("Mutant", "Tolerated"):
            c.pop(k)
        r = ctx.tlc("BatchRoute", "BatchRoute_gen.cfg", consts=c, workers=1, timeout=600, simulate="num=%d" % (per * 4),
                    args=["-depth", "90", "-seed", str(ctx.seed * 100 + ci)], count=False, tag="gen%d" % ci, heap="2g")
        return c, r
    futs = [pool.submit(sim, ci, *cb) for ci, cb in enumerate(combos)]
    out, seen = [], set()
    for f in futs:
        c, r = f.result()
        got = 0
        for s in ctx.tlc_printed(r, "@@S"):
            if (c["Kind"], c["Blocking"], s) in seen:
                continue
            seen.add((c["Kind"], c["Blocking"], s))
            h = json.loads(s)["hist"]
            if sum(1 for e in h if e["op"] == "d") < 2:
                continue
            kind = c["Kind"]
            sc = dict(kind=kind, family="model", origin="tlc", blocking=c["Blocking"], bufsize=c["BufSize"], timer=c["TimerOn"],
                      fmw_ms=rng.choice([5, 10]) if c["TimerOn"] else 3600000, format="", codec="", steps=[], faults=[], shutdown="plain")
            unit = 50       # pubsub: one size unit of the model = 50 bytes (the threshold scales with it)
            sc["fmax"] = c["FlushMax"] * unit if kind == "pubsub" else c["FlushMax"]
            anybad = any(e["op"] == "d" and e["bad"] for e in h)
            if kind == "pubsub":
                sc.update(format="pickle" if anybad else rng.choice(["plain", "pickle"]), codec=rng.choice(["none", "gzip"]))
            for e in h:
                if e["op"] == "d":
                    sc["steps"].append(dict(op="d", sz=e["sz"] * unit if kind == "pubsub" else 0, bad=rng.randint(1, 4) if e["bad"] else 0))
                elif e["op"] == "t" and sc["steps"] and sc["steps"][-1]["op"] == "d":
                    sc["steps"].append(dict(op="q"))
                elif e["op"] == "f":
                    sc["faults"].append(e["st"])
                elif e["op"] == "sd":
                    break
            while sc["faults"] and sc["faults"][-1] == "ok":
                sc["faults"].pop()
            if not c["TimerOn"]:
                sc["steps"].append(dict(op="i"))
            out.append(sc)
            got += 1
            if got >= per:
                break
    if len(out) < 3:
        raise Machinery("TLC simulation produced only %d scenarios" % len(out))
    return out


# ------------------------------------------------------------------ 3./4. the real routes, TLC decides
def run_driver(ctx, scens):
    for k, s in enumerate(scens):
        s["k"] = k
        if s["kind"] == "pubsub" and s["format"] != "pickle" and any(st.get("bad") for st in s["steps"]):
            raise Machinery("scenario %d: the plain format has no unparsable lines" % k)
    sf = ctx.write_ndjson("xb_scen.ndjson", scens)
    tf = os.path.join(ctx.out, "xb_trace.ndjson")
    res = ctx.go_test("batch", run="^TestBatch$", timeout=ctx.pick(600, 2400), expect_ok=False,
                      env=dict(VERIF_XB_SCEN=sf, VERIF_XB_TRACE=tf, VERIF_XB_PAR=ctx.pick(4, 4)))
    if res["rc"] != 0:
        if "panic: test timed out" in res["text"]:
            raise Machinery("batch driver timed out; log %s\n%s" % (res["log"], res["text"][-1500:]))
        if "panic:" in res["text"] or "fatal error:" in res["text"]:
            prog = []
            try:
                prog = ctx.read_ndjson("batch_progress.ndjson")
            except Exception:
                pass
            return None, dict(log=res["log"], last=prog[-8:], tail=res["text"][-2500:])
        raise Machinery("batch driver failed (rc=%s); log %s\n%s" % (res["rc"], res["log"], res["text"][-2000:]))
    events = ctx.read_ndjson(tf)
    if not events or events[-1]["ev"] != "done":
        raise Machinery("driver result is incomplete")
    bad = [e for e in events if e["ev"] == "harness"]
    if bad:
        raise Machinery("batch driver / fakes could not do their part (%d times), first: %s; log %s" % (len(bad), bad[0].get("what"), res["log"]))
    return events[:-1], None


def split(events):
    blocks = []
    for e in events:
        if e["ev"] == "scen":
            blocks.append([e])
        else:
            blocks[-1].append(e)
    return blocks


def tlc_judge(ctx, blocks, tag, count=True):
    """one TLC run of the trace spec over the given executions -> {k: verdict}"""
    flat = [e for b in blocks for e in b] + [dict(ev="done")]
    f = ctx.write_ndjson("xb_trace_%s.ndjson" % tag, flat)
    ok, matched, res = ctx.validate_traces("BatchRouteTrace", "BatchRouteTrace.cfg", f, len(flat), len(blocks) if count else 0,
                                           tag=tag, timeout=1800, own_dir="spec_" + tag, heap="4g")
    if not ok:
        nxt = flat[matched] if matched is not None and matched < len(flat) else None
        raise Machinery("trace validation did not consume the trace (matched %s of %d, violated=%s, next %s); log %s"
                        % (matched, len(flat), res["violated"], json.dumps(nxt)[:300], res["log"]))
    verdicts = {}
    for s in ctx.tlc_printed(res, "@@V"):
        v = json.loads(s)
        verdicts[v["k"]] = v
    if len(verdicts) != len(blocks):
        raise Machinery("trace validation judged %d of %d executions; log %s" % (len(verdicts), len(blocks), res["log"]))
    return verdicts, flat


WHAT = {
    "UnknownItem": "a batch carried an item that was never dispatched, or an unparsable one",
    "EmptyBatch": "the endpoint received an empty batch",
    "BatchShape": "a batch is not a run of consecutive accepted items in hand-over order",
    "NoSkip": "an accepted parsable item was skipped: the next batch starts behind it",
    "NoResend": "items of a batch that was done with were sent again",
    "RetrySame": "after a failed send the next send was not the same batch",
    "BatchBound": "a batch exceeds the configured threshold",
    "ThresholdExact": "without timer: a batch was cut although the threshold was not reached, or a full batch stayed pending",
    "DropsCounted": "dropped items and the queue_full counter disagree, or a counted drop was sent",
    "DropOnlyWhenFull": "Dispatch dropped an item although fewer than bufSize accepted items were still unsent",
    "BlockingNeverDrops": "a blocking route dropped an item",
    "NonBlockingNeverBlocks": "Dispatch of a non-blocking route did not return within the bound",
    "TimerFlush": "accepted items were neither acknowledged nor given up although the timer runs and the endpoint answers",
    "LoopStuck": "the run loop did not come back to its select / did not free a slot although the endpoint answers",
    "LoopExits": "the run loop had not returned 30 s after Shutdown",
    "ShutdownReturns": "Shutdown had not returned after 20 s",
    "NothingLeftBehind": "after Shutdown and the exit of the run loop accepted items were neither sent nor covered by a counted failure",
    "AllTransmitted": "after Shutdown and the exit of the run loop accepted items had reached no endpoint (given up on the client side, or discarded)",
    "ErrsCounted": "numErrFlush disagrees with the failures the endpoint answered",
    "SpuriousError": "numErrFlush counts a failure although every accepted item reached the endpoint",
    "OutCounted": "numOut differs from the number of items acknowledged",
    "ParseCounted": "the parse error counter differs from the number of accepted unparsable items",
    "GaugeZero": "numBuffered is not back to zero",
}


def sig_of(clause, sc):
    return "%s kind=%s%s" % (clause, sc["kind"], " flushMaxSize=1" if sc["kind"] == "cloudwatch" and sc["fmax"] == 1 else "")


def judge(ctx, events, scens, pool):
    blocks = split(events)
    if len(blocks) != len(scens):
        raise Machinery("driver recorded %d of %d scenarios" % (len(blocks), len(scens)))
    nchunk = ctx.pick(2, 4)
    chunks = [blocks[i::nchunk] for i in range(nchunk)]
    futs = [pool.submit(tlc_judge, ctx, c, "judge%d" % i) for i, c in enumerate(chunks) if c]
    verdicts = {}
    for f in futs:
        v, _ = f.result()
        verdicts.update(v)
    nviol = 0
    for b in blocks:
        k = b[0]["k"]
        v, sc = verdicts[k], scens[k]
        first = {}
        for clause, where in sorted(v["viol"], key=lambda x: x[1]):
            first.setdefault(clause, where)
        for clause, where in first.items():
            if clause == "Harness":
                raise Machinery("the driver broke its own protocol in scenario %d (%s)" % (k, json.dumps(sc)[:300]))
            nviol += 1
            ctx.violation(sig_of(clause, sc), "%s: %s [scenario %d: %s, family %s, %s, bufSize %d, threshold %d, %s]" % (
                sc["kind"], WHAT.get(clause, clause), k, sc["origin"], sc["family"], "blocking" if sc["blocking"] else "non-blocking",
                sc["bufsize"], sc["fmax"], "timer %d ms" % sc["fmw_ms"] if sc["timer"] else "no timer"),
                dict(scenario=sc, verdict=v, events=b[:400]))
    return verdicts, nviol


# ------------------------------------------------------------------ binding self-test
def selftest_binding(ctx, events, verdicts):
    """corrupt recorded fields of executions that TLC accepted: TLC must name the matching clause (one run for all)"""
    blocks = [b for b in split(events) if not verdicts[b[0]["k"]]["viol"]]
    cases = []

    def pick(fn):
        for b in blocks:
            r = fn(b)
            if r is not None:
                return r
        return None

    def pieces(b):
        return [i for i, e in enumerate(b) if e["ev"] == "piece"]

    def lose_item(b):          # an item vanishes from the batches
        for i in pieces(b):
            if len(b[i]["ids"]) >= 2:
                nb = copy.deepcopy(b)
                gone = nb[i]["ids"].pop(0)
                for e in nb:
                    if e["ev"] == "piece":
                        e["ids"] = [x for x in e["ids"] if x != gone]
                return [e for e in nb if e["ev"] != "piece" or e["ids"]]
        return None
    cases.append(({"NoSkip", "NothingLeftBehind", "AllTransmitted"}, pick(lose_item)))

    def resend(b):             # an acknowledged batch arrives a second time
        for i in pieces(b):
            if b[i]["st"] == "ok" and not any(e["ev"] == "piece" and e["a"] == b[i]["a"] for j, e in enumerate(b) if j != i):
                nb = copy.deepcopy(b)
                nb.insert(i + 1, dict(b[i], a=b[i]["a"] + 100000))
                return nb
        return None
    cases.append(({"NoResend"}, pick(resend)))

    def swap(b):               # two items change places inside a batch
        for i in pieces(b):
            if len(b[i]["ids"]) >= 2:
                nb = copy.deepcopy(b)
                nb[i]["ids"][0], nb[i]["ids"][1] = nb[i]["ids"][1], nb[i]["ids"][0]
                return nb
        return None
    cases.append(({"BatchShape"}, pick(swap)))

    def retry_shrinks(b):      # kafka: the repetition of a failed attempt carries one item less
        if b[0]["kind"] != "kafka":
            return None
        by = {}
        for i in pieces(b):
            by.setdefault(b[i]["a"], []).append(i)
        tags = sorted(by)
        for t, t2 in zip(tags, tags[1:]):
            if any(b[i]["st"] != "ok" for i in by[t]) and sum(len(b[i]["ids"]) for i in by[t2]) >= 2:
                nb = copy.deepcopy(b)
                j = by[t2][0]
                nb[j]["ids"] = nb[j]["ids"][1:]
                return [e for e in nb if e["ev"] != "piece" or e["ids"]]
        return None
    cases.append(({"RetrySame"}, pick(retry_shrinks)))

    def undrop(b):             # a drop that the counter did not see
        for i, e in enumerate(b):
            if e["ev"] == "ret" and e["st"] == "drop":
                nb = copy.deepcopy(b)
                nb[i]["st"] = "acc"
                return nb
        return None
    cases.append(({"DropsCounted", "NothingLeftBehind", "NoSkip"}, pick(undrop)))

    def early_drop(b):         # a drop before the buffer can have been full
        if b[0]["blocking"]:
            return None
        for i, e in enumerate(b):
            if e["ev"] == "ret" and e["st"] == "acc" and e["id"] <= b[0]["bufsize"] and not any(x["ev"] == "piece" for x in b[:i]):
                nb = copy.deepcopy(b)
                nb[i]["st"] = "drop"
                return nb
        return None
    cases.append(({"DropOnlyWhenFull"}, pick(early_drop)))

    def fat_batch(b):          # count kinds: two batches arrive as one
        if b[0]["kind"] == "pubsub":
            return None
        ps = pieces(b)
        alone = lambda i: not any(e["ev"] == "piece" and e["a"] == b[i]["a"] for k2, e in enumerate(b) if k2 != i)
        for i, j in zip(ps, ps[1:]):
            if b[i]["st"] == "ok" and b[j]["st"] == "ok" and len(b[i]["ids"]) == b[0]["fmax"] and alone(i) and alone(j):
                nb = copy.deepcopy(b)
                return nb[:i] + nb[i + 1:j] + [dict(nb[i], a=nb[j]["a"]), nb[j]] + nb[j + 1:]
        return None
    cases.append(({"BatchBound"}, pick(fat_batch)))

    def field(name, delta, want, cond=lambda b, e: True):
        def fn(b):
            for i, e in enumerate(b):
                if e["ev"] == "final" and cond(b, e):
                    nb = copy.deepcopy(b)
                    nb[i][name] += delta
                    return nb
            return None
        cases.append((want, pick(fn)))
    field("nout", 1, {"OutCounted"})
    field("drops", 1, {"DropsCounted", "BlockingNeverDrops"})
    field("errs", 1, {"ErrsCounted", "SpuriousError"})
    field("gauge", 1, {"GaugeZero"})
    field("nparse", 1, {"ParseCounted"}, lambda b, e: e["nparse"] >= 0)

    def noexit(b):
        for i, e in enumerate(b):
            if e["ev"] == "exit":
                nb = copy.deepcopy(b)
                nb[i]["ok"] = False
                return nb
        return None
    cases.append(({"LoopExits"}, pick(noexit)))

    def unsettled(b):          # the wait for the timer flush fails
        for i, e in enumerate(b):
            if e["ev"] == "settle":
                nb = copy.deepcopy(b)
                nb[i]["ok"] = False
                return nb
        return None
    cases.append(({"TimerFlush"}, pick(unsettled)))

    missing = [sorted(w)[0] for w, b in cases if b is None]
    cases = [(w, b) for w, b in cases if b is not None]
    if len(cases) < 8:
        raise Machinery("binding self-test: too few corruptible executions (%d; none for %s)" % (len(cases), missing))
    bl = []
    for i, (w, b) in enumerate(cases):
        b[0] = dict(b[0], k=i)
        bl.append(b)
    verdicts, _ = tlc_judge(ctx, bl, "selftest", count=False)
    names = []
    for i, (want, b) in enumerate(cases):
        got = {x[0] for x in verdicts[i]["viol"]}
        if not (got & want):
            raise Machinery("binding self-test failed: corruption for %s was judged %s" % (sorted(want), sorted(got)))
        names.append(sorted(got & want)[0])
    ctx.cov["binding_selftests"] = "rejected as required: " + ", ".join(names) + ("; no execution to corrupt for: " + ", ".join(missing) if missing else "")


# ------------------------------------------------------------------ run
def run(ctx):
    q = ctx.quick()
    rng = random.Random(ctx.seed)
    ctx.specdir()
    with ThreadPoolExecutor(max_workers=4) as pool, ThreadPoolExecutor(max_workers=2) as jpool:
        scens = gen_model_scenarios(ctx, pool, ctx.pick(4, 40))
        nmodel = len(scens)
        mc = model_check(ctx, pool)
        per = ctx.pick(2, 14)
        for kind in KINDS:
            for fam in FAMILIES:
                for _ in range(per):
                    scens.append(family(rng, kind, fam))
        # the first-item loss of cloudwatch with flushMaxSize = 1 (code as it is), once
        sc = family(rng, "cloudwatch", "exact")
        sc["fmax"] = 1
        scens.append(sc)
        ctx.log("scenarios: %d from TLC simulation + %d seeded (%d families x 3 kinds)" % (nmodel, len(scens) - nmodel, len(FAMILIES)))
        events, crashed = run_driver(ctx, scens)
        if crashed:
            model_check_join(ctx, mc)
            ctx.violation("route-panics", "a route panicked while running a scenario", crashed)
            ctx.sample(dict(panic=crashed["tail"][-300:]))
            return
        verdicts, nviol = judge(ctx, events, scens, jpool)
        model_check_join(ctx, mc)

        blocks = split(events)
        evs = [e for b in blocks for e in b]
        cnt = lambda p: sum(1 for e in evs if p(e))
        st = dict(dispatches=cnt(lambda e: e["ev"] == "disp"), unparsable=cnt(lambda e: e["ev"] == "disp" and e["bad"]),
                  drops=cnt(lambda e: e["ev"] == "ret" and e["st"] == "drop"),
                  requests=cnt(lambda e: e["ev"] == "piece"), failed_requests=cnt(lambda e: e["ev"] == "piece" and e["st"] != "ok"),
                  callers_parked_on_full_buffer=cnt(lambda e: e["ev"] == "parked"),
                  shutdowns=cnt(lambda e: e["ev"] == "sdcall"), shutdowns_with_a_send_held_back=cnt(lambda e: e["ev"] == "sdcall" and e["held"]),
                  shutdowns_with_items_queued=cnt(lambda e: e["ev"] == "sdcall" and e["queued"] > 0),
                  shutdown_returned_before_everything_was_done=sum(1 for v in verdicts.values() if v["sdret_before_done"]),
                  settles=cnt(lambda e: e["ev"] == "settle"), idles=cnt(lambda e: e["ev"] == "idle"), stalls=cnt(lambda e: e["ev"] == "stall"))
        multi = retried = 0
        for b in blocks:
            if b[0]["kind"] != "kafka":
                continue
            by = {}
            for e in b:
                if e["ev"] == "piece":
                    by.setdefault(e["a"], []).append(e)
            multi += sum(1 for v in by.values() if len(v) > 1)
            retried += sum(1 for v in by.values() if any(e["st"] != "ok" for e in v))
        st["kafka_attempts_in_several_requests"] = multi
        st["kafka_attempts_failed_and_repeated"] = retried
        ctx.cov["events"] = st
        per_kind = {k: dict(executions=0, accepted=0, acked=0, given_up=0, unsent=0) for k in KINDS}
        for b in blocks:
            v, pk = verdicts[b[0]["k"]], per_kind[b[0]["kind"]]
            pk["executions"] += 1
            for a, c in (("accepted", "accepted"), ("acked", "acked"), ("given_up", "failed"), ("unsent", "unsent")):
                pk[a] += v[c]
        ctx.cov["per_kind"] = per_kind
        if nviol == 0 or all(re.match(r"(AllTransmitted kind=pubsub|(OutCounted|SpuriousError) kind=cloudwatch|\w+ kind=cloudwatch flushMaxSize=1)", v["sig"])
                             for v in ctx.violations):
            # (a route that breaks more than that may never get there; then the violations are the result)
            need = dict(drops=5, failed_requests=5, callers_parked_on_full_buffer=1, shutdowns_with_a_send_held_back=2,
                        shutdowns_with_items_queued=3, unparsable=5, kafka_attempts_in_several_requests=1,
                        kafka_attempts_failed_and_repeated=2, settles=5, idles=5)
            dead = {k: st[k] for k, n in need.items() if st[k] < n}
            if dead or st["shutdowns"] != len(blocks):
                raise Machinery("dead driver: %s of %s" % (json.dumps(dead), json.dumps(st)))
            selftest_binding(ctx, events, verdicts)

    cov = ctx.cov
    cov["evaluations"] = len(scens)
    cov["events_judged"] = len(evs)
    distinct = set()
    for b, sc in zip(blocks, scens):
        if any(e["ev"] == "piece" for e in b):
            distinct.add(json.dumps([sc[x] for x in ("kind", "blocking", "bufsize", "fmax", "timer", "format", "steps", "faults", "shutdown")]))
    cov["distinct_nontrivial"] = len(distinct)
    cov["rule"] = ("scenarios = environment histories of finished behaviours of BatchRoute.tla (TLC simulation: 3 kinds x blocking x "
                   "timer, buffer 1-2, threshold 2-4 units, <= 6 items, <= 2 failures) + seeded families per kind (threshold hit exactly / "
                   "by one more without timer, fewer items than a batch, bursts larger than bufSize while the endpoint holds a send back, "
                   "transient / repeated endpoint failures, Shutdown while a send is held back with items pending and queued, mixed; "
                   "unparsable lines in between; pubsub plain / pickle, none / gzip; sizes from VERIF_SEED); every execution runs the real "
                   "route against its local fake and is replayed event by event by TLC (BatchRouteTrace.tla); evaluations = executions; "
                   "distinct = distinct (configuration, steps, fault script) in whose execution the endpoint received at least one request")
    ex = next((s for s in scens if s["origin"] == "tlc" and s["faults"]), scens[0])
    ctx.sample({k: ex[k] for k in ("origin", "kind", "blocking", "bufsize", "fmax", "timer", "format", "steps", "faults", "shutdown")})
    ex = next((s for s in scens if s["family"] == "sdqueued" and s["kind"] == "kafka"), scens[-1])
    ctx.sample({k: ex[k] for k in ("origin", "family", "kind", "blocking", "bufsize", "fmax", "timer", "steps", "faults", "shutdown")})
    b = next((b for b in blocks if b[0]["kind"] == "kafka" and any(e["ev"] == "piece" and e["st"] != "ok" for e in b)), blocks[0])
    ctx.sample(dict(execution=b[0], events=b[1:40]))
    ctx.assumptions += [
        "one dispatcher goroutine per route (hand-over order = call order, a counter delta belongs to one call); no Dispatch call is "
        "in progress or begins once Shutdown has been called (a send on the closed channel would panic)",
        "a failure is an answer the client library does not retry by itself (kafka: ErrMessageSizeTooLarge on the partition; pubsub: "
        "InvalidArgument; cloudwatch: 400 InvalidParameterValue); the libraries' own retries are not exercised",
        "kafka: sarama cuts one SendMessages call into several ProduceRequests; requests that arrive while numOut + numErrFlush has the "
        "same value belong to the same call (the route updates one of the two between any two calls)",
        "liveness is observed with deadlines: settle / idle / a blocked Dispatch 30 s, non-blocking Dispatch 5 s, Shutdown 20 s, "
        "exit of the run loop 30 s after Shutdown (normal: milliseconds; a failed kafka attempt costs the route's 100 ms sleep)",
        "'the run loop is parked in its select', 'has returned', 'the caller is parked on the full buffer' and 'Shutdown waits' are read "
        "from the goroutine dump (runtime.Stack); the last two only steer the endpoint",
        "pubsub pickle: the bytes an item adds to the pending batch are measured with destination.Pickle on the dispatched line",
    ]
    cov["trusted_base"] = ["TLC", "harness/batch driver and fakes (record only): Kafka wire decoding (request header, ProduceRequest v0 "
                           "message sets, ProduceResponse v0) in the proxy, msgp / pickle / gzip / AWS query decoding by the vendored libraries",
                           "sarama.MockBroker, grpc, net/http (the fakes' transport)", "go-metrics counters read by name"]
