"""C14 — nothing received from the network or the admin port can crash the relay.

TLC enumerates abstract histories over the admin/TOML command space and the malformed-stream classes
(spec/AdminOps.tla, AdminGen.tla), including the URL-shape classes of the grafanaNet address, the top-level
configuration the table is built from as main() does (bad_metrics_max_age classes), rewriters / aggregations whose result is a degenerate metric name
(empty, white space, dots, very long) behind connected plain / pickle=true / grafanaNet routes together with
traffic those rules match; the Go driver (harness/adm) renders each history to concrete command
text / TOML / bytes (seeded random inside each class), applies it to a real table with started routes in
child processes and records what happened; TLC validates the recorded trace against the reference
machine (spec/AdminTrace.tla): a `crash` event is not in the range of any action, the real table must
have the shape the machine computes, and tables that cannot work (~SafeTable) are pointed out.
Level `exploration`: classes are enumerated, bytes inside a class are sampled.
"""
import copy, json, os, random
from vlib.core import Machinery

LEVEL = "exploration"

DEVIATIONS = ["zero_interval", "no_regex", "zero_flush", "zero_reconn", "zero_iobuf", "zero_syncperiod",
              "zero_concurrency", "neg_bufsize", "ch_empty", "gnet_addr", "tiny_maxage"]
# part of every run (the rest rotates with the seed in the quick tier)
ALWAYS = ["ch_empty", "gnet_addr", "tiny_maxage"]


def model_check(ctx):
    q = ctx.quick()
    ctx.tlc("Admin", "Admin_mc.cfg", workers=6, timeout=1500,
            consts=dict(MaxCmds=ctx.pick(2, 3), MaxRoutes=2, MaxAggs=1, Deviation="none"))
    rot = [d for d in DEVIATIONS if d not in ALWAYS]
    devs = DEVIATIONS if not q else [rot[(ctx.seed + i * 3) % len(rot)] for i in range(2)] + ALWAYS
    for d in dict.fromkeys(devs):
        r = ctx.tlc("Admin", "Admin_mc.cfg", workers=4, timeout=900, expect_ok=False, count=False,
                    consts=dict(MaxCmds=3, MaxRoutes=2, MaxAggs=1, Deviation=d))
        if r["violated"] != "Safe":
            raise Machinery("deviation %s does not violate SafeTable in the model (vacuity); log %s" % (d, r["log"]))
    ctx.cov["model_deviations_rejected"] = list(dict.fromkeys(devs))


def gen(ctx, maxcmds, maxitems, setup, cmdmode, simulate=None, depth=None, itemmode="all"):
    consts = dict(MaxCmds=maxcmds, MaxItems=maxitems, SetupMode=setup, CmdMode=cmdmode, ItemMode=itemmode)
    if simulate:
        r = ctx.tlc("AdminGen", "AdminGen.cfg", workers=1, consts=consts, timeout=900,
                    simulate="num=%d" % simulate, args=["-depth", str(depth), "-seed", str(ctx.seed)])
    else:
        r = ctx.tlc("AdminGen", "AdminGen.cfg", workers=1, consts=consts, timeout=1800)
    hs = [json.loads(x) for x in ctx.tlc_printed(r, "@@H")]
    if not hs:
        raise Machinery("generator produced no histories (%s); log %s" % (consts, r["log"]))
    return hs


def hkey(h):
    return json.dumps([h["cmds"], h["items"]], sort_keys=True)


DEGENERATE = ("zero", "wrap", "neg", "missing", "empty", "emptyexp", "spacename", "dotsname", "longname",
              "withquery", "withfragment", "pctencoded", "trailingslash", "notaurl", "pathnotmetrics", "tiny")
NAMECLASSES = ("emptyexp", "spacename", "dotsname", "longname")


def sinkkind(c):
    """kind of the route the degenerate names are sent to"""
    return "gnet" if c["op"] == "addGnet" else ("pickle" if c.get("pk") else "plain")


def stratum(h):
    """sampling stratum of a history: the last command's (op, via, opt, degenerate value) or the item classes"""
    if h["items"] and not h["cmds"]:
        return ("items",) + tuple((i["proto"], i["cls"]) for i in h["items"])
    if h["items"]:
        return ("items", h["items"][-1]["proto"], h["items"][-1]["cls"])
    c = h["cmds"][-1]
    if c["op"] == "config":      # every class of the top-level configuration
        return (c["op"], c["via"], c["opt"], c["val"], 0)
    return (c["op"], c["via"], c["opt"], c["val"] if c["val"] in DEGENERATE else "*", c["n"] if c["op"] in ("modDest", "delDest") else 0)


def build_cases(ctx):
    rng = random.Random(ctx.seed)
    q = ctx.quick()
    cases, seen = [], set()

    def add(hs, kind, per_stratum=None, limit=None, keep=lambda h: False, stratum=stratum):
        """all histories with keep(h); of the rest at most per_stratum per stratum (seeded choice), at most limit"""
        rest = [h for h in hs if not keep(h)]
        rng.shuffle(rest)
        if per_stratum is not None:
            cnt, sel = {}, []
            for h in rest:
                k = stratum(h)
                if cnt.get(k, 0) < per_stratum:
                    cnt[k] = cnt.get(k, 0) + 1
                    sel.append(h)
            rest = sel
        if limit is not None:
            rest = rest[:limit]
        n = 0
        for h in [h for h in hs if keep(h)] + rest:
            k = hkey(h)
            if k in seen:
                continue
            seen.add(k)
            cases.append(dict(cmds=h["cmds"], items=h["items"], kind=kind, u=bool(h.get("u"))))
            n += 1
        ctx.log("histories %-12s %6d generated, %6d used" % (kind, len(hs), n))
        return n

    mix = {}
    singles = gen(ctx, 1, 0, "empty", "all")
    ctx.cov["command_space"] = len(singles)
    # quick: every unworkable command, and one member of every (op, via, parameter, degenerate class) stratum
    mix["single_command"] = add(singles, "single", 1 if q else None, keep=lambda h: h.get("u"))
    # a typical table-building command, then every modify / delete / view command (exhaustive); the ones that
    # address the route just built are always part of the quick tier
    mods = gen(ctx, 1, 0, "typical", "mods")
    if not q:   # thorough: exhaustive behind the routes as the driver renders them, sampled behind the all-pickle routes
        mix["pickle_route_then_modify"] = add([h for h in mods if h["cmds"][0].get("pk")], "modspk", 2)
        mods = [h for h in mods if not h["cmds"][0].get("pk")]
    mix["typical_then_modify"] = add(mods, "mods", 1 if q else None, ctx.pick(150, None),
                                     keep=lambda h: h["cmds"][0]["op"] in ("addRoute", "addAgg") and h["cmds"][1]["val"] == "typical"
                                     and h["cmds"][1]["n"] == 0 and h["cmds"][1]["key"] in ("k1", "-")
                                     and not h["cmds"][0].get("pk"))
    if q:   # random typical prefixes, every command after each (simulation prints all successors of the walk)
        pairs = gen(ctx, 1, 0, "typical", "all", simulate=4, depth=2)
        pairs = [h for h in pairs if h["cmds"][-1]["opt"] == "none"]
    else:
        pairs = gen(ctx, 1, 0, "typical", "all")
    mix["typical_then_command"] = add(pairs, "pair", 1 if q else 12, ctx.pick(150, 5000))
    # a consistentHashing route shrunk to one destination, then every delete (incl. the one that would empty it)
    mix["hashing_route_shrunk_then_delete"] = add(gen(ctx, 1, 0, "chdel", "api"), "chdel")
    # the table built from a top-level configuration (every bad_metrics_max_age class) the way main() builds it,
    # then a typical table-building command and traffic
    mix["config_then_typical"] = add(gen(ctx, 1, 0, "config", "typical"), "cfgthen", 2 if q else None,
                                     stratum=lambda h: h["cmds"][0]["val"])
    items1 = gen(ctx, 0, 1, "typical", "none")
    if not q:
        mix["pickle_route_then_item"] = add([h for h in items1 if h["cmds"][0].get("pk")], "item1pk", 2)
        items1 = [h for h in items1 if not h["cmds"][0].get("pk")]
    mix["typical_then_item"] = add(items1, "item1", 2 if q else None)
    if not q:
        items2 = gen(ctx, 0, 2, "empty", "none")
        mix["two_items"] = add(items2, "item2", None, 1000)
    # a route whose destinations are connected (plain, pickle=true, grafanaNet), then a rewriter / aggregation that
    # turns the names it matches into degenerate names (empty, white space, dots, very long), then traffic it matches.
    # quick: every empty-expansion rule behind every pickle=true route, and one member of every
    # (rule, via, name class, kind of route) stratum
    names = gen(ctx, 1, 1, "routed", "names", itemmode="rule")
    mix["route_then_degenerate_name_rule"] = add(
        names, "names", 1 if q else None,
        keep=lambda h: q and h["cmds"][0].get("pk") and h["cmds"][1]["val"] == "emptyexp" and h["items"][0]["proto"] == "plain",
        stratum=lambda h: (h["cmds"][1]["op"], h["cmds"][1]["via"], h["cmds"][1]["val"], sinkkind(h["cmds"][0])))
    sims = ((4, 3, 30, 150),) if q else ((2, 1, 300, 500), (3, 2, 400, 600), (4, 3, 500, 800))
    for (mc, mi, num, lim) in sims:
        sim = gen(ctx, mc, mi, "empty", "all", simulate=num, depth=mc + mi + 1)
        mix["random_%dc%di" % (mc, mi)] = add(sim, "sim%d%d" % (mc, mi), None, lim)
    ctx.cov["history_mix"] = mix
    # the degenerate-name histories wait for aggregation flushes: spread them over the child processes
    slow = [c for c in cases if c["kind"] == "names"]
    rest = [c for c in cases if c["kind"] != "names"]
    if slow and rest:
        step = max(1, len(rest) // len(slow))
        out = []
        for i, c in enumerate(rest):
            out.append(c)
            if i % step == step - 1 and slow:
                out.append(slow.pop())
        cases = out + slow
    return cases


MODS = ("modDest", "modRoute", "delRoute", "delDest", "delAgg", "delBlack", "delRewriter", "view")


def project(e):
    """event -> alphabet of AdminTrace.tla"""
    ev = e["ev"]
    if ev == "hist":
        return dict(ev="hist", h=e["h"])
    if ev == "apply":
        return dict(ev="apply", h=e["h"], cmd=e["cmd"], res=e["res"], routes=e["routes"], na=e["na"], nb=e["nb"], nw=e["nw"])
    if ev == "traffic":
        return dict(ev="traffic", h=e["h"], item=e["item"])
    if ev in ("pump", "rulepump", "done", "hang", "crash"):
        return dict(ev=ev, h=e["h"])
    return None


def validate(ctx, recs, tag, crashmode=False):
    f = ctx.write_ndjson("adm_trace_%s.ndjson" % tag, recs)
    nh = sum(1 for r in recs if r["ev"] == "hist")
    ok, matched, res = ctx.validate_traces("AdminTrace", "AdminTrace.cfg", f, len(recs), nh,
                                           consts=dict(CrashMode=crashmode), tag="adm_" + tag, timeout=3000, heap="12g")
    if matched is None:
        raise Machinery("trace validation gave no verdict; log %s\n%s" % (res["log"], res["text"][-2000:]))
    unsafe = [json.loads(x) for x in ctx.tlc_printed(res, "@@UNSAFE")]
    crashes = [json.loads(x) for x in ctx.tlc_printed(res, "@@CRASH")]
    return ok, matched, unsafe, crashes, res


def describe(c):
    s = "%s/%s" % (c["op"], c["via"])
    if c["op"] in ("addRoute",):
        s += "/%s/n=%d%s%s" % (c["rtype"], c["n"], "/spool" if c["flag"] else "", "/pickle" if c.get("pk") else "")
    if c["op"] in ("modDest", "delDest", "delAgg", "delBlack", "delRewriter"):
        s += "/idx=%d" % c["n"]
    return s + ":%s=%s" % (c["opt"], c["val"])


def run(ctx):
    q = ctx.quick()
    model_check(ctx)
    cases = build_cases(ctx)
    cf = ctx.write_ndjson("adm_cases.ndjson", [dict(cmds=c["cmds"], items=c["items"]) for c in cases])
    tf = os.path.join(ctx.out, "adm_events.ndjson")
    res = ctx.go_test("adm", run="^TestAdm$", timeout=ctx.pick(1500, 5400), expect_ok=False,
                      env=dict(VERIF_ADM_CASES=cf, VERIF_ADM_TRACE=tf, VERIF_ADM_WORKERS=ctx.pick(6, 6),
                               VERIF_ADM_BATCH=40, VERIF_ADM_MINIMISE=ctx.pick(5, 10)))
    if res["rc"] != 0 or not os.path.exists(tf):
        raise Machinery("adm parent driver failed (rc=%s); log %s\n%s" % (res["rc"], res["log"], res["text"][-2500:]))
    events = ctx.read_ndjson(tf)
    summary = [e for e in events if e["ev"] == "summary"]
    if not summary or summary[-1]["cases"] != len(cases):
        raise Machinery("adm driver did not run all cases: %s" % summary)
    summary = summary[-1]
    ctx.log("driver: %s" % summary)

    # per-history bookkeeping
    by_h = {}
    for e in events:
        if "h" in e:
            by_h.setdefault(e["h"], []).append(e)
    timeouts = [h for h, evs in by_h.items() if any(e["ev"] == "timeout" for e in evs)]
    if len(timeouts) > max(3, len(cases) // 100):
        raise Machinery("%d child processes ran into the parent deadline (overloaded machine?)" % len(timeouts))
    for h in timeouts:
        ctx.note("history %d: child killed by the parent deadline; dropped" % h)
    hangs = [h for h, evs in by_h.items() if any(e["ev"] == "hang" for e in evs)]
    recs = []
    for h in sorted(by_h):
        if h in timeouts:
            continue
        for e in by_h[h]:
            p = project(e)
            if p:
                recs.append(p)

    # coverage sanity: the driver must really have applied commands to started routes
    applies = [e for e in events if e["ev"] == "apply"]
    acc = [e for e in applies if e["res"] == "acc"]
    pumps = [e for e in events if e["ev"] == "pump"]
    online = [e for e in pumps if e.get("online")]
    ops_acc = sorted({e["cmd"]["op"] for e in acc})
    protos = sorted({e["item"]["proto"] for e in events if e["ev"] == "traffic"})
    crashes_ev = [e for e in events if e["ev"] == "crash"]
    if not crashes_ev:
        if len(acc) < len(applies) // 10 or len(online) < len(pumps) * 9 // 10:
            raise Machinery("vacuous run: %d/%d commands accepted, %d/%d histories with all sink destinations online"
                            % (len(acc), len(applies), len(online), len(pumps)))
        need = {"addBlack", "addRewriter", "addAgg", "addRoute", "addGnet", "modDest", "modRoute", "delRoute", "delDest", "delAgg",
                "config"}
        if not need.issubset(ops_acc):
            raise Machinery("commands never accepted: %s" % (need - set(ops_acc)))
        if set(protos) != {"plain", "pickle", "udp", "amqp"}:
            raise Machinery("input protocols not all driven: %s" % protos)

    # the degenerate names must really have flowed: some history sent an empty-name line (a rule of class emptyexp
    # matched the traffic) to a connected pickle=true destination, which counted it (bad_pickle)
    rps = [e for e in events if e["ev"] == "rulepump"]
    emptied = [e for e in rps if e["pk"] and e["online"] and e["bad_pickle"] > 0 and any(r["val"] == "emptyexp" for r in e["rules"])]
    aggd = [e for e in rps if e["agg_out"] > 0]
    pkbytes = [e for e in rps if e["pk"] and e["online"] and e["sink_bytes"] > 0]
    unreached = [e["h"] for e in rps if not e["reached"]]
    ctx.cov["degenerate_name_histories"] = dict(
        rule_traffic_pumped=len(rps), empty_name_to_connected_pickle_dest=len(emptied), aggregation_flushed=len(aggd),
        sink_of_pickle_route_received_bytes=len(pkbytes),
        aggregation_not_flushed_within_deadline=len(unreached),
        by_class={k: sum(1 for e in rps if any(r["val"] == k for r in e["rules"])) for k in NAMECLASSES})
    if not crashes_ev:
        if not emptied:
            raise Machinery("vacuous run: no history sent an empty-name line to a connected pickle=true destination "
                            "(%d histories pumped rule-matching traffic)" % len(rps))
        if not aggd:
            raise Machinery("vacuous run: no degenerate-name aggregation was flushed into the table")
        if not pkbytes:
            raise Machinery("vacuous run: no sink of a route with pickle=true destinations received anything during the rule traffic")
        if len(unreached) > max(2, len(rps) // 5):
            raise Machinery("%d of %d histories: the degenerate-name aggregation did not flush the rule-matching traffic "
                            "within the deadline (overloaded machine?): %s" % (len(unreached), len(rps), unreached[:10]))
    for h in unreached[:5]:
        ctx.note("history %d: the degenerate-name aggregation flushed nothing within the deadline (traffic blocked by an "
                 "earlier command of the history?) %s" % (
            h, [describe(c) for c in cases[h]["cmds"]]))

    # TLC decides
    ok, matched, unsafe, _, tres = validate(ctx, recs, "strict")
    unsafe_by_h = {}
    for u in unsafe:
        unsafe_by_h.setdefault(u["h"], set()).update(u["why"])
    if not ok:
        bad = recs[matched] if matched < len(recs) else None
        if bad is None or bad["ev"] != "crash":
            raise Machinery("the real table does not have the shape the reference machine computes (model drift or a "
                            "rejected command that changed the table): line %s %s; log %s"
                            % (matched, json.dumps(bad)[:600], tres["log"]))
        # enumerate every crash with the table it happened in (the crash event is made a no-op action that prints)
        ok2, matched2, unsafe2, crashes, tres2 = validate(ctx, recs, "crashmode", crashmode=True)
        if not ok2:
            raise Machinery("trace not accepted even with crash events skipped: line %s %s; log %s"
                            % (matched2, json.dumps(recs[matched2])[:600] if matched2 < len(recs) else None, tres2["log"]))
        for u in unsafe2:
            unsafe_by_h.setdefault(u["h"], set()).update(u["why"])
        crash_detail = {e["h"]: e for e in crashes_ev}
        for c in crashes:
            h = c["h"]
            d = crash_detail.get(h, {})
            why = sorted(set(c["why"]) | unsafe_by_h.get(h, set()))
            where = (d.get("frames") or ["?"])[0]
            pan = (d.get("panic") or "exit rc=%s" % d.get("rc")).replace("panic: ", "").replace("runtime error: ", "")
            case = cases[h]
            steps = case["cmds"]
            if d.get("min") is not None:
                mins = [steps[i] for i in d["min"] if i < len(steps)]
                its = [case["items"][i - len(steps)] for i in d["min"] if i >= len(steps)]
            else:
                mins, its = steps, case["items"]
            cls = "; ".join(describe(c2) for c2 in mins) + ("".join(" +%s/%s" % (i["proto"], i["cls"]) for i in its))
            if why:
                sig = "accepted-then-crash %s :: %s @ %s" % (",".join(why), pan, where)
                what = "parameters that cannot work were accepted (%s) and the relay process died later: %s in %s" % (
                    ", ".join(why), d.get("panic"), where)
            else:
                st = d.get("step", -1)
                if d.get("min") is not None:
                    at = cls
                elif d.get("what") == "cmd" and 0 <= st < len(steps):
                    at = describe(steps[st])
                elif d.get("what") == "item" and 0 <= st - len(steps) < len(case["items"]):
                    at = "%(proto)s/%(cls)s" % case["items"][st - len(steps)]
                else:
                    at = "%s after [%s]" % (d.get("what"), cls)
                sig = "crash %s :: %s @ %s" % (at, pan, where)
                what = "the relay process died (%s in %s) during step %s of history [%s]" % (d.get("panic"), where, d.get("what"), cls)
            ctx.violation(sig, what, dict(history=case, minimal_steps=d.get("min"), minimal_text=d.get("min_text"),
                                          panic=d.get("panic"), frames=d.get("frames"), rc=d.get("rc"),
                                          step=d.get("step"), during=d.get("what"), unsafe=why, stderr=d.get("stderr")))
            ctx.sample(dict(crash=sig, concrete=d.get("min_text")))
    survived = {h: sorted(w) for h, w in unsafe_by_h.items() if h not in {e["h"] for e in crashes_ev}}
    if survived:
        ex = sorted(survived.items())[:5]
        ctx.note("%d histories: a parameter class the specification lists as unworkable was accepted and survived the traffic "
                 "(allowed by C14: handled safely), e.g. %s" % (len(survived), ex))
    for h in hangs[:5]:
        last = [e for e in by_h[h] if e["ev"] == "hang"][-1]
        ctx.note("history %d: step %s (%s) did not return within the deadline (not a crash; C14 is silent) %s" % (
            h, last.get("step"), last.get("what"), [describe(c) for c in cases[h]["cmds"]]))
    ctx.cov["hangs"] = len(hangs)

    # binding self-test: a corrupted recorded field / an injected crash event must be rejected exactly there
    if not ctx.violations:
        selftest(ctx, recs, full=not q)

    cov = ctx.cov
    nontriv = set()
    for h, evs in by_h.items():
        if any(e["ev"] == "apply" and e["res"] == "acc" for e in evs) or any(e["ev"] == "traffic" for e in evs):
            nontriv.add(hkey(cases[h]))
    cov["evaluations"] = len(cases)
    cov["distinct_nontrivial"] = len(nontriv)
    cov["commands_applied"] = len(applies)
    cov["commands_accepted"] = len(acc)
    cov["commands_rejected"] = len(applies) - len(acc)
    cov["stream_items"] = sum(1 for e in events if e["ev"] == "traffic")
    cov["child_processes"] = summary["children"]
    cov["crashes"] = summary["crashes"]
    cov["unworkable_accepted_survived"] = len(survived)
    cov["rule"] = ("abstract histories enumerated by TLC from AdminOps.tla: every single command of the command space "
                   "(%d commands: op x via{cmd,toml,api} x one degenerate parameter x value class {missing, empty, zero, one, "
                   "typical, huge, wrap, neg, nonnum, badregex, emptyexp, spacename, dotsname, longname}; the grafanaNet address also by URL shape "
                   "{withquery, withfragment, pctencoded, trailingslash, notaurl, pathnotmetrics}; the top-level configuration "
                   "(TOML -> cfg.Config -> TableConfig() -> table.New -> cfg.InitTable, as main() does, and the table's background "
                   "goroutine answering a request) with bad_metrics_max_age in {typical, zero, tiny (<10ns), neg, nonnum}, alone and "
                   "followed by a typical table-building command), a typical table-building command followed by every command, "
                   "typical tables followed by every malformed-stream class (plain, pickle, UDP, AMQP), a connected route (plain / "
                   "pickle=true destinations, grafanaNet) followed by every rewriter / aggregation whose result is a degenerate "
                   "metric name (empty expansion, white space, dots only, very long) and by traffic that rule matches (the driver "
                   "waits until the destinations counted it), and TLC -simulate walks "
                   "of up to 4 commands + 3 stream items (sampled per tier, see history_mix); each history is rendered to "
                   "concrete text/TOML/bytes with seeded random content inside the class and applied to a real table whose "
                   "destinations dial loopback listeners, followed by metric traffic, in a child process. Non-trivial = distinct "
                   "abstract histories in which at least one command was accepted or a stream item went through an input handler."
                   % cov.get("command_space", 0))
    cov["explanation"] = ("exploration, not proof: the specification enumerates command / parameter / stream CLASSES; inside a "
                          "class the bytes are seeded random (VERIF_SEED), so crash-freedom is established for the sampled "
                          "members of each class only")
    if not cov["samples"]:
        for e in acc:
            if e["cmd"]["opt"] != "none" and len(cov["samples"]) < 2:
                ctx.sample(dict(accepted=describe(e["cmd"]), table_after=dict(routes=e["routes"], aggs=e["na"])))
        for e in applies:
            if e["res"] == "rej" and e["cmd"]["val"] in ("zero", "wrap") and len(cov["samples"]) < 3:
                ctx.sample(dict(rejected=describe(e["cmd"]), error=e.get("err")))
                break
        for e in events:
            if e["ev"] == "traffic" and e["item"]["proto"] == "pickle" and len(cov["samples"]) < 4:
                ctx.sample(dict(stream=e["item"], handler_returned=e["ret"], process="alive"))
                break
    ctx.assumptions += [
        "kafkaMdm, pubsub and cloudWatch routes are outside the command space (their constructors need a network and "
        "call log.Fatal on failure)",
        "input handlers are driven directly (Handler.Handle on a chunked reader, one call per UDP packet, a mock AMQP "
        "delivery channel), not through sockets; the admin commands go through imperatives.Apply / cfg.InitTable / the "
        "Table API, not through the telnet and HTTP front ends (net/http recovers handler panics, telnet does not)",
        "API-level deletes use indexes >= 0 only (a negative index panics inside the HTTP handler goroutine, where "
        "net/http recovers it)",
        "resource exhaustion by huge-but-valid sizes (connbuf/iobuf/bufSize of many GB) is not a modelled class",
        "a step that does not return within the deadline is recorded as `hang`, not as a crash",
        "of the top-level configuration only bad_metrics_max_age is a modelled parameter (the settings around it are typical); "
        "the table is built the way main() builds it (TOML -> cfg.Config -> TableConfig() -> table.New -> cfg.InitTable), main() "
        "itself (flags, logging, pid file, listeners) is not run; workable max ages below 1ms (a cleaning ticker of a few ns "
        "that keeps a core busy) are not sampled",
    ]
    cov["trusted_base"] = ["TLC", "harness/adm driver: concretisation of classes (by construction), child-process exit "
                           "status / stderr parsing; it records only", "Go runtime's panic report on stderr"]


def selftest(ctx, recs, full):
    base = []
    nh = 0
    for r in recs:                      # a prefix of whole histories keeps it cheap
        if r["ev"] == "hist":
            nh += 1
            if nh > 400:
                break
        base.append(r)
    idx = next((i for i, r in enumerate(base) if r["ev"] == "apply" and r["res"] == "acc" and r["cmd"]["op"] == "addRoute"), None)
    if idx is None:
        raise Machinery("self-test: no accepted addRoute in the first histories")
    tests = []
    a = copy.deepcopy(base)
    a[idx]["routes"][-1][2] += 1          # one destination more than the machine computes
    tests.append(("shape", a, idx))
    if full:
        b = copy.deepcopy(base)
        b[idx]["res"] = "rej"              # "rejected" but the table changed
        tests.append(("rejected-changed", b, idx))
    c = copy.deepcopy(base)
    j = next(i for i in range(idx, len(c)) if c[i]["ev"] == "done")
    c[j] = dict(ev="crash", h=c[j]["h"])   # the forbidden outcome
    tests.append(("crash", c, j))
    for name, t, at in tests:
        ok, matched, _, _, res = validate(ctx, t, "self_" + name)
        if ok or matched != at:
            raise Machinery("binding self-test %s failed: corrupted line %d not rejected there (accepted=%s matched=%s); log %s"
                            % (name, at, ok, matched, res["log"]))
    ctx.cov["binding_selftests"] = [t[0] for t in tests]
