"""C01 — every accepted metric reaches exactly the matching routes and destinations."""
import json, os, random
from checks import displib
from checks.displib import consts
from vlib.core import Machinery

LEVEL = "model_checking"


def run(ctx):
    q = ctx.quick()
    # 1. TLC: the step-by-step Dispatch loop of Table.tla agrees with the declarative statement
    #    (DispatchOps!Expect) on every table the admin actions can build within the bounds
    if q:
        grid = [consts(names=2, black=1, rw=1, agg=1, routes=1, dests=1, kinds={"capture", "first"}),
                consts(names=2, routes=2, dests=1, kinds={"capture", "all", "first"}),
                consts(names=2, routes=1, dests=2, kinds={"all", "first", "hash"})]
    else:
        grid = [consts(names=2, black=1, rw=1, agg=1, routes=1, dests=2),
                consts(names=2, routes=2, dests=2),
                consts(names=2, black=1, rw=2, agg=2, routes=1, dests=0, kinds={"capture"}),
                consts(names=3, routes=1, dests=2, kinds={"all", "first"}),
                consts(names=3, black=1, rw=1, agg=0, routes=1, dests=1, kinds={"capture", "first"}),
                consts(names=2, routes=3, dests=1, kinds={"capture", "first"})]
    skip_mc = os.environ.get("VERIF_DEV_SKIP_MC") == "1"      # development aid for trying code mutants out quickly
    if not skip_mc:
        displib.mc_grid(ctx, grid, workers=ctx.pick(4, 6))
    alld = sorted(displib.DEVS)
    devs = [alld[(ctx.seed + k * 5) % len(alld)] for k in range(3)]       # three per quick run, rotated by the seed
    if not q:
        devs = sorted(displib.DEVS)
    if not skip_mc:
        displib.mc_nonvacuity(ctx, devs)

    # 2. TLC generates tables (simulation of the admin actions) with the expectation per name
    rng = random.Random(ctx.seed)
    tabs = []
    if q:
        tabs += displib.gen_tables(ctx, 120, 3, dict(black=1, rw=2, agg=2, routes=4, dests=3), [3, 6, 9, 12], ctx.seed, "genA")
    else:
        tabs += displib.gen_tables(ctx, 1000, 4, dict(black=1, rw=2, agg=1, routes=4, dests=3), [3, 6, 9, 12, 15], ctx.seed, "genA")
        tabs += displib.gen_tables(ctx, 600, 4, dict(black=2, rw=2, agg=2, routes=4, dests=3), [5, 10, 14], 1000 + ctx.seed, "genB")
        tabs += displib.gen_tables(ctx, 400, 3, dict(black=0, rw=1, agg=0, routes=4, dests=3), [2, 4, 7, 10], 2000 + ctx.seed, "genC")
    cases = []
    for i, tb in enumerate(tabs):
        cases.append(dict(id=i, names=tb["names"], t=tb["t"], exp=tb["exp"], lvl="", lvm="",
                          lines=displib.c01_lines(rng, tb["names"])))
    ctx.log("cases: %d tables, %d lines" % (len(cases), sum(len(c["lines"]) for c in cases)))

    # 3. the real table
    events, crashed = displib.run_driver(ctx, cases, "c01", timeout=ctx.pick(900, 3000))
    if crashed:
        ctx.violation("dispatch-panics", "Table.Dispatch panicked or hung on a generated table", crashed)
        ctx.sample(dict(panic=crashed["tail"][-300:]))

    # 4. TLC decides every Dispatch event against the declarative statement
    byid = {c["id"]: c for c in cases}

    def on_reject(block, idx):
        ev = block[idx]
        case = byid[ev["id"]]
        sig, what = displib.describe_c01(case, ev)
        ctx.violation("c01 " + sig, what, dict(table=case["t"], how=[e for e in events if e["ev"] == "tbl" and e["id"] == ev["id"]][0]["how"],
                                               line=case["lines"][ev["li"]], observed=ev, expected=case["exp"][ev["nm"]]))

    nacc, nrej = displib.validate(ctx, events, "c01", on_reject)
    if not ctx.violations:
        displib.selftest_binding(ctx, events, "c01")

    # coverage
    fates, nontriv = {}, set()
    nd = 0
    for e in events:
        if e["ev"] != "d":
            continue
        nd += 1
        case = byid[e["id"]]
        ln = case["lines"][e["li"]]
        ex = case["exp"][ln["nm"]][ln["v"]]
        fates[ex["fate"]] = fates.get(ex["fate"], 0) + 1
        if ex["fate"] == "routed" and len(case["t"]["routes"]) >= 2:
            nontriv.add((json.dumps(case["t"], sort_keys=True), ln["nm"]))
    if nd == 0 and not crashed:
        raise Machinery("dead driver: no dispatch events")
    for f in ("routed", "unroutable", "blacklisted", "consumed", "invalid"):
        if not crashed and not ctx.violations and fates.get(f, 0) == 0:
            raise Machinery("vacuous coverage: no generated line with fate %s" % f)
    kinds = {}
    for c in cases:
        for r in c["t"]["routes"]:
            kinds[r["kind"]] = kinds.get(r["kind"], 0) + 1
    cov = ctx.cov
    cov["evaluations"] = nd
    cov["dispatches_accepted_by_tlc"] = nacc
    cov["distinct_nontrivial"] = len(nontriv)
    cov["tables"] = len(cases)
    cov["fates"] = fates
    cov["route_kinds"] = kinds
    cov["rule"] = ("tables = TLC simulation (seeded) of the admin actions of Table.tla over %d names (<= 2 blacklist entries, <= 2 "
                   "rewriters, <= 2 aggregations with/without drop-raw, <= 4 routes of kinds capture/sendAllMatch/sendFirstMatch/"
                   "consistentHashing, <= 3 destinations, every filter an arbitrary accept-set realised by seeded choice among "
                   "equivalent prefix/notPrefix/sub/notSub/regex/notRegex options); every name dispatched once valid and once "
                   "invalid into the real table; each Dispatch decided by DispatchTrace.tla; distinct non-trivial = distinct "
                   "(table, name) whose expected fate is 'routed' in a table with >= 2 routes" % ctx.pick(3, 4))
    for c in cases:
        if len(c["t"]["routes"]) >= 2 and len(cov["samples"]) < 2:
            n = c["names"][0]
            ctx.sample(dict(table=c["t"], name=n, expected_by_tlc=c["exp"][n]["ok"]))
    ctx.assumptions += ["destinations point at refusing loopback ports with spooling off: a hand-over is observed as the destination's "
                        "conn_down_no_spool counter after a Flush() round trip through its relay loop",
                        "filters are exact-name accept-sets over names '<n>.<letters>' (filter syntax itself is C03); the value and "
                        "timestamp tokens cannot influence any filter",
                        "no table change while a dispatch is in flight (C18), order validation off (C19)",
                        "which member of a consistent-hashing route gets the line is C15; here: exactly one"]
    cov["trusted_base"] = ["TLC", "harness/disp driver (builds and records only)",
                           "by-construction mapping accept-set -> matcher options in the driver"]
