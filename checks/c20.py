"""C20 — configuration means what the documentation says, in both syntaxes.

spec/Config.tla is the documented option -> field table with defaults (per entry kind, per
syntax) and the documented meaning of configuration-file interpolation.  TLC enumerates
option subsets (all singletons, all pairs, seeded random larger subsets) and token texts,
and prints every case with the entry / text it must produce.  Each case is rendered as a TOML
section, as an init command inside the configuration file, and as an admin command, loaded by
the real code (readConfigFile -> toml.Decode -> cfg.InitTable; imperatives.Apply) on a real
table, and every field of the resulting entry is read back and compared with TLC's record."""
import json, random
from checks import conflib as L
from vlib.core import Machinery

LEVEL = "other"


def run(ctx):
    q = ctx.quick()
    rng = random.Random(ctx.seed)
    env = L.Env(ctx)
    try:
        _run(ctx, q, rng, env)
    finally:
        env.cleanup()


def _run(ctx, q, rng, env):
    # 0. the table's own sanity invariants are not vacuous
    L.nonvacuity(ctx, ["swap_buf"] if q else L.DEVIATIONS_CASES)

    # 1. TLC enumerates the cases with the expected entries
    cases = []
    if q:
        # all singletons of every kind / route type; all pairs for one representative shape per kind
        cases += L.gen_cases(ctx, L.base_consts(MaxDests=2, MaxOpts=1, DeepKinds={"route", "gnet", "rewriter"},
                                                DeepTypes={"sendAllMatch"}, DeepDests=2, DeepOpts=2))
        # larger subsets: only kinds with >= 7 options, so that every behaviour gets deep
        cases += L.gen_cases(ctx, L.base_consts(Kinds={"route", "gnet", "agg"}, MaxDests=3, NVals=2, MaxOpts=99),
                             simulate="num=4", depth=9)
    else:
        cases += L.gen_cases(ctx, L.base_consts(MaxDests=3, MaxOpts=2, NVals=1), timeout=3000)
        cases += L.gen_cases(ctx, L.base_consts(Kinds={"gnet", "agg"}, MaxOpts=2, NVals=2), timeout=3000)
        cases += L.gen_cases(ctx, L.base_consts(Kinds={"route", "gnet", "agg"}, MaxDests=3, NVals=2, MaxOpts=99),
                             simulate="num=8", depth=14, timeout=3000)
    ngen = len(cases)
    cases = L.dedup(cases)
    ctx.log("cases: %d generated, %d distinct" % (ngen, len(cases)))
    sizes = {}
    for c in cases:
        sizes[len(c["opts"])] = sizes.get(len(c["opts"]), 0) + 1
    ctx.log("cases by number of options set: %s" % sorted(sizes.items()))
    ctx.cov["cases_by_number_of_options"] = {str(k): v for k, v in sorted(sizes.items())}
    if max(sizes) < 5:
        raise Machinery("vacuous generation: no case with 5 or more options (sizes %s)" % sizes)
    if not cases:
        raise Machinery("no cases generated")

    # 2. TLC enumerates texts with the expected interpolation
    if q:
        texts = L.gen_texts(ctx, ["$", "{", "}", "HOST", "GRAFANA_NET_ADDR", "1", "x", "."], 4)
        texts += L.gen_texts(ctx, ["$", "{", "}", "HOST", "GRAFANA_NET_ADDR", "GRAFANA_NET_API_KEY", "GRAFANA_NET_USER_ID",
                                   "1", "x", "HOSTNAME", ".", ")", " "], 12, simulate="num=100", depth=13)
    else:
        texts = L.gen_texts(ctx, ["$", "{", "}", "HOST", "GRAFANA_NET_USER_ID", "1", "x", ".", ")"], 5, timeout=3000)
        texts += L.gen_texts(ctx, ["$", "{", "}", "HOST", "GRAFANA_NET_ADDR", "GRAFANA_NET_API_KEY", "GRAFANA_NET_USER_ID",
                                   "1", "x", "HOSTNAME", ".", ")", " ", "-", "/", "^", "("], 16,
                             simulate="num=200", depth=17, timeout=3000)
    seen, tl = set(), []
    for t in texts:
        k = json.dumps(t["text"])
        if k not in seen:
            seen.add(k)
            tl.append(t)
    texts = tl
    ctx.log("texts: %d distinct with a '$'" % len(texts))

    # 3. render
    items, loads = [], []          # stage-1 inputs, stage-2 inputs
    for i, c in enumerate(cases):
        c["id"] = i
        key = "k%d" % i
        c["key"] = key
        crng = random.Random(ctx.seed * 1000003 + i)
        forms = sorted(c["forms"])
        c["texts"] = {}
        for form in forms:
            if form == "toml":
                c["texts"][form] = L.render_toml(c, env, key + "t", crng)
            elif form == "init":
                c["texts"][form] = L.render_init(c, env, key + "i", crng)
            else:
                c["texts"][form] = L.render_cmd(c, env, key + "c", crng)
    nid = 0
    idmap = {}
    for c in cases:
        for form in ("toml", "init"):
            if form in c["texts"]:
                items.append(dict(id=nid, text=c["texts"][form]))
                idmap[nid] = ("case", c["id"], form)
                nid += 1
    hdr_id = nid
    items.append(dict(id=nid, text=env.header()))
    nid += 1
    for j, t in enumerate(texts):
        t["raw"] = "".join(t["text"])
        items.append(dict(id=nid, text=t["raw"]))
        idmap[nid] = ("text", j, None)
        nid += 1

    # 4. stage 1: the real readConfigFile
    expanded = L.run_expand(ctx, items, "all")

    # 4a. interpolation verdicts: TLC's pieces, concretised, against what readConfigFile returned
    nbad_text = 0
    for nid_, (what, j, _) in idmap.items():
        if what != "text":
            continue
        t = texts[j]
        want = L.expand_expected(t["expect"], env)
        got = expanded[nid_]
        if got != want:
            nbad_text += 1
            cls = classify_text(t["text"])
            ctx.violation("interpolation:" + cls,
                          "configuration text %r is read as %r, the documentation says %r" % (t["raw"], got, want),
                          dict(tokens=t["text"], got=got, want=want))
    ctx.log("interpolation: %d texts, %d differ" % (len(texts), nbad_text))

    # 5. stage 2: load every form of every case
    for c in cases:
        for form, text in c["texts"].items():
            suffix = {"toml": "t", "init": "i", "cmd": "c"}[form]
            loads.append(dict(id=c["id"], kind=c["kind"], form=form, key=c["key"] + suffix,
                              text=text if form == "cmd" else None))
    # attach expanded texts
    exp_by = {(cid, form): expanded[nid_] for nid_, (what, cid, form) in idmap.items() if what == "case"}
    for l in loads:
        if l["form"] != "cmd":
            l["text"] = exp_by[(l["id"], l["form"])]
    res = L.run_loader(ctx, env, loads, expanded[hdr_id])
    crash = [v for k_, v in res.items() if k_[0] == "crash"]
    if crash:
        cr = crash[0]
        last = cr.get("last") or {}
        cc = cases[last["id"]] if "id" in last and last["id"] < len(cases) else None
        ctx.violation("crash:%s" % (cc["kind"] if cc else "?"),
                      "the relay code panicked while loading a documented configuration entry",
                      dict(case=strip(cc) if cc else None, form=last.get("form"), tail=cr["tail"]))
        ctx.sample(dict(panic=cr["tail"][-300:]))
        return

    # 6. verdicts: TLC's expected record decides, field by field, per form; forms must agree
    nload = nfield = 0
    distinct = set()
    for c in cases:
        got = {}
        for form in sorted(c["texts"]):
            suffix = {"toml": "t", "init": "i", "cmd": "c"}[form]
            rec = res.get((c["id"], form))
            if rec is None:
                raise Machinery("no record for case %d form %s" % (c["id"], form))
            nload += 1
            exp = L.expected(c, form, env, c["key"] + suffix)
            optnames = "+".join(sorted(set(o["name"] for o in c["opts"]))) or "none"
            if not rec["ok"]:
                ctx.violation("rejected:%s:%s:%s" % (c["kind"], form, optnames),
                              "a documented %s entry is rejected in its %s form: %s" % (c["kind"], form, rec["err"]),
                              dict(case=strip(c), form=form, text=c["texts"][form], err=rec["err"]))
                continue
            if form != "cmd":
                if rec["instance"] != env.host or rec["spool_dir"] != env.spool:
                    ctx.violation("header:%s" % form, "instance / spool_dir of the configuration file are read as %r / %r" % (
                        rec["instance"], rec["spool_dir"]), dict(text=c["texts"][form]))
            bad = L.compare(exp, rec["entry"])
            nfield += len(exp)
            got[form] = rec["entry"]
            for f, want, g in bad:
                ctx.violation("field:%s:%s:%s" % (c["kind"], form, strip_dest(f)),
                              "%s entry, %s form, options {%s}: field %s is %r, documented %r" % (
                                  c["kind"], form, optnames, f, g, want),
                              dict(case=strip(c), form=form, text=c["texts"][form], field=f, got=g, want=want))
        # the syntaxes agree with each other wherever the documentation gives them the same meaning
        if "toml" in got:
            for other in ("init", "cmd"):
                if other not in got:
                    continue
                d = c["initdiff"] if other == "init" else c["cmddiff"]
                skip = set(d) if isinstance(d, dict) else set()
                for f in got["toml"]:
                    if f in skip or f in ("key",) or f.endswith(".route"):
                        continue
                    if got["toml"][f] != got[other].get(f, "<absent>"):
                        ctx.violation("disagree:%s:%s:%s" % (c["kind"], other, strip_dest(f)),
                                      "TOML section and %s form of the same %s entry differ in field %s: %r vs %r" % (
                                          other, c["kind"], f, got["toml"][f], got[other].get(f)),
                                      dict(case=strip(c), toml=c["texts"]["toml"], other=c["texts"][other]))
        if c["opts"]:
            distinct.add(json.dumps([c["kind"], c["v1"], c["nd"], sorted((o["scope"], o["name"], o["text"]) for o in c["opts"])]))

    # 7. the binding is live: a corrupted read-back record must be flagged by the comparison
    selftest(ctx, cases, res, env)

    cov = ctx.cov
    cov["evaluations"] = nload + len(texts)
    cov["fields_compared"] = nfield
    cov["distinct_nontrivial"] = len(distinct) + len(texts)
    cov["cases"] = len(cases)
    cov["texts"] = len(texts)
    cov["rule"] = ("a case = entry kind x variant x set of options with values pairwise distinct over (option, scope) and "
                   "different from every default; all singletons and pairs enumerated by TLC, larger subsets by "
                   "TLC -simulate; every case loaded as TOML section, init command (both through readConfigFile) and "
                   "admin command; distinct_nontrivial = distinct cases with >= 1 option set + distinct token texts "
                   "containing '$' (ambiguous nestings excluded)")
    cov["explanation"] = ("decision-table driven differential check: Config.tla has no behaviour space, TLC evaluates the "
                          "documented option->field table and the interpolation function on an enumerated argument space "
                          "and the real loaders are compared with that, field by field; hence level 'other'")
    big = max(cases, key=lambda c: len(c["opts"]))
    ctx.sample(dict(kind=big["kind"], type=big["v1"], cmd=big["texts"].get("cmd", big["texts"]["toml"])[:400]))
    ctx.sample(dict(kind=cases[0]["kind"], toml=cases[0]["texts"]["toml"][-200:]))
    if texts:
        t = texts[len(texts) // 2]
        ctx.sample(dict(text=t["raw"], expect=L.expand_expected(t["expect"], env)))
    ctx.assumptions += ["destinations point at 127.0.0.x:1 (nothing listens): the entry is read back, not exercised",
                        "values avoid spaces, quotes and the tokens of the command scanner; explicit empty strings are not generated",
                        "sub and substr are never given together (the documentation does not say which wins)"]
    cov["trusted_base"] = ["TLC", "checks/conflib.py rendering of a case as TOML / command text (syntax from the docs)",
                           "harness/conf driver and overlay test (record only)", "destination.VerifFields accessor"]


def strip(c):
    return dict(kind=c["kind"], v1=c["v1"], v2=c["v2"], v3=c["v3"], nd=c["nd"], opts=c["opts"], params=c["params"])


def strip_dest(f):
    # d2.flush_us -> d*.flush_us : the signature names the field, not the destination index
    if len(f) > 3 and f[0] == "d" and f[1].isdigit() and f[2] == ".":
        return "d*." + f[3:]
    return f


def classify_text(toks):
    s = "".join(toks)
    for i, t in enumerate(toks):
        if t == "$" and i + 1 < len(toks) and toks[i + 1] == "{":
            rest = toks[i + 2:]
            if "}" in rest:
                name = "".join(rest[:rest.index("}")])
                if name not in ("HOST", "GRAFANA_NET_ADDR", "GRAFANA_NET_API_KEY", "GRAFANA_NET_USER_ID"):
                    return "unknown-braced" if name else "empty-braces"
            else:
                return "unclosed-brace"
    return "other"


def selftest(ctx, cases, res, env):
    for c in cases:
        if c["kind"] != "route" or "cmd" not in c["texts"]:
            continue
        rec = res.get((c["id"], "cmd"))
        if not rec or not rec["ok"]:
            continue
        exp = L.expected(c, "cmd", env, c["key"] + "c")
        if L.compare(exp, rec["entry"]):
            continue
        e = dict(rec["entry"])
        e["d1.connbuf"], e["d1.spoolbuf"] = e["d1.spoolbuf"], e["d1.connbuf"]
        bad = [f for f, _, _ in L.compare(exp, e)]
        e2 = dict(rec["entry"])
        e2["d1.pickle"] = 1 if e2["d1.pickle"] is False else 0
        bad2 = [f for f, _, _ in L.compare(exp, e2)]
        if sorted(bad) != ["d1.connbuf", "d1.spoolbuf"] or bad2 != ["d1.pickle"]:
            raise Machinery("binding self-test: a corrupted read-back record is not flagged (%s, %s)" % (bad, bad2))
        ctx.log("binding self-test: corrupted records are flagged")
        return
    ctx.note("binding self-test skipped: no clean carbon route case")
