"""C20 — configuration means what the documentation says, in both syntaxes.

spec/Config.tla is the documented option -> field table with defaults (per entry kind, per
syntax), the documented meaning of a configuration with SEVERAL entries of one kind (each entry
means what it means on its own, in the order written) and the documented meaning of
configuration-file interpolation.  TLC enumerates
  * single entries: option subsets (all singletons, all pairs, seeded random larger subsets),
  * lists of 2-3 entries of one section kind ([[route]] sections of possibly different route types
    incl. grafanaNet, [[aggregation]], [[rewriter]], blacklist lines): every (option, position)
    pair "an earlier entry sets the option to a non-default value, a later entry of the same or
    another type leaves it out", and seeded random lists,
  * token texts,
and prints every case with the entries / text it must produce.  Each list is rendered as ONE TOML
document with several sections, as ONE configuration file with several init commands, and as a
sequence of admin commands, loaded by the real code (readConfigFile -> toml.Decode ->
cfg.InitTable; imperatives.Apply) on a real table, and every field of every resulting entry is read
back and compared with TLC's record; the three syntaxes must agree.

Value class "explicit zero" (Config.tla section 2a): every numeric option of every entry kind (the ten
destination options, the eight grafanaNet ones incl. errBackoffFactor, aggregation interval / wait,
rewriter max) is also written as 0 -- alone, in pairs with every other option and inside larger random
subsets and lists.  TLC's expectation is the entry with that field = 0 or "refused with an error"
(flush, reconn, iobuf, spoolsyncperiod of a spooling destination, concurrency, orgId, interval), never
the default; the driver records acceptance / refusal as an outcome and the syntaxes must agree on it."""
import json, random
from checks import conflib as L
from vlib.core import Machinery

LEVEL = "other"


def run(ctx):
    q = ctx.quick()
    rng = random.Random(ctx.seed)
    env = L.Env(ctx)
    try:
        _run(ctx, q, rng, env)
    finally:
        env.cleanup()


def generation_jobs(ctx, q):
    """[(name, consts, function)]: the TLC runs that enumerate cases, lists and texts"""
    B = L.base_consts
    bools = set(L.BOOL_NAMES)
    toks = ["$", "{", "}", "HOST", "GRAFANA_NET_ADDR", "GRAFANA_NET_API_KEY", "GRAFANA_NET_USER_ID", "1", "x", "HOSTNAME",
            ".", ")", " "]
    jobs = []

    def cases(name, consts, **kw):
        jobs.append((name, consts, lambda: L.gen_cases(ctx, consts, **kw)))

    def lists(name, consts, **kw):
        jobs.append((name, consts, lambda: L.gen_lists(ctx, consts, **kw)))

    def texts(name, alphabet, maxlen, **kw):
        jobs.append((name, dict(Mode="expand", Alphabet=sorted(alphabet), MaxLen=maxlen),
                     lambda: L.gen_texts(ctx, alphabet, maxlen, **kw)))
    if q:
        # all singletons of every kind / route type; all pairs for one representative shape per kind
        # (explicit zeros included: every numeric option = 0 alone and paired with every other option)
        cases("cases:pairs", B(MaxDests=2, MaxOpts=1, DeepKinds={"route", "gnet", "rewriter"},
                               DeepTypes={"sendAllMatch"}, DeepDests=2, DeepOpts=2, Zeros="all"))
        # larger subsets: only kinds with >= 7 options, so that every behaviour gets deep
        # (zeros only where an entry results, so that the other fields of the entry are compared too)
        cases("cases:random", B(Kinds={"route", "gnet", "agg"}, MaxDests=3, NVals=2, MaxOpts=99, Zeros="ok"),
              simulate="num=4", depth=9)
        # every (option, position) pair: set early, left out later.  Booleans at every pair of positions of
        # lists of 2 and 3 (any representative type in the remaining position), the others in lists of two
        lists("lists:leak", B(Mode="leak", Kinds={"route", "gnet", "agg", "rewriter"}, RouteTypes={"sendAllMatch"},
                              MaxDests=1, MaxList=3, FullNames=bools))
        # seeded random lists of 1..3 entries, every kind, about 6 options per entry (1-3 destinations)
        lists("lists:random", B(Mode="rlists", MaxDests=3, NVals=2, MaxList=3, RandK=6, RandOpts=6, RandN=10, Zeros="ok"))
        texts("texts:all", ["$", "{", "}", "HOST", "GRAFANA_NET_ADDR", "1", "x", "."], 4)
        texts("texts:random", toks, 12, simulate="num=100", depth=13)
    else:
        cases("cases:pairs", B(MaxDests=3, MaxOpts=2, NVals=1, Zeros="all"), timeout=3000)
        cases("cases:pairs2", B(Kinds={"gnet", "agg"}, MaxOpts=2, NVals=2, Zeros="all"), timeout=3000)
        cases("cases:random", B(Kinds={"route", "gnet", "agg"}, MaxDests=3, NVals=2, MaxOpts=99, Zeros="ok"),
              simulate="num=8", depth=14, timeout=3000)
        cases("cases:randomz", B(Kinds={"route", "gnet", "agg"}, MaxDests=2, NVals=2, MaxOpts=99, Zeros="all"),
              simulate="num=4", depth=6, timeout=3000)
        # every option at every pair of positions for the booleans and one option of every other type; the rest in
        # lists of two; setter, omitter and third entry of every representative type
        lists("lists:leak", B(Mode="leak", Kinds={"route", "gnet", "agg", "rewriter"},
                              RouteTypes={"sendAllMatch", "consistentHashing"}, MaxDests=2, MaxList=3,
                              FullNames=bools | {"prefix", "substr", "flush", "concurrency", "errBackoffFactor", "not"}),
              timeout=3000)
        lists("lists:random", B(Mode="rlists", MaxDests=3, NVals=2, MaxList=3, RandK=12, RandOpts=6, RandN=60, Zeros="ok"),
              timeout=3000)
        lists("lists:random2", B(Mode="rlists", Kinds={"route", "gnet"}, MaxDests=2, NVals=2, MaxList=3, RandK=12,
                                 RandOpts=3, RandN=80, Zeros="all"), timeout=3000)
        texts("texts:all", ["$", "{", "}", "HOST", "GRAFANA_NET_USER_ID", "1", "x", ".", ")"], 5, timeout=3000)
        texts("texts:random", toks + ["-", "/", "^", "("], 16, simulate="num=200", depth=17, timeout=3000)
    return jobs


def _run(ctx, q, rng, env):
    # 0. the table's own sanity invariants are not vacuous
    L.nonvacuity(ctx, ["swap_buf", "double_blank_ends_toml_dest"] if q else L.DEVIATIONS_CASES + ["double_blank_ends_toml_dest"])

    # 1. TLC enumerates single entries and lists of entries with the expected entries, and texts with
    #    the expected interpolation (independent runs, side by side)
    jobs = generation_jobs(ctx, q)
    done = L.parallel(ctx, [(name, fn) for name, _, fn in jobs], par=5)
    lists, texts = [], []
    nsingle = 0
    for name, consts, _ in jobs:
        r, out = done[name]
        L.account(ctx, r, consts)
        ctx.log("%s: %d generated" % (name, len(out)))
        if not out:
            raise Machinery("TLC run %s generated nothing; log %s" % (name, r["log"]))
        if name.startswith("cases:"):
            lists += [L.wrap(c) for c in out]
            nsingle += len(out)
        elif name.startswith("lists:"):
            for l in out:
                l["origin"] = name[6:]
            lists += out
        else:
            texts += out
    ngen = len(lists)
    lists = L.dedup(lists)
    multi = [l for l in lists if len(l["entries"]) > 1]
    ctx.log("cases: %d generated, %d distinct (%d with several entries)" % (ngen, len(lists), len(multi)))
    sizes, shapes = {}, {}
    for l in lists:
        for c in l["entries"]:
            sizes[len(c["opts"])] = sizes.get(len(c["opts"]), 0) + 1
        k = "%s x%d" % (l["section"], len(l["entries"]))
        shapes[k] = shapes.get(k, 0) + 1
    ctx.log("entries by number of options set: %s" % sorted(sizes.items()))
    ctx.log("lists by section kind and length: %s" % sorted(shapes.items()))
    ctx.cov["cases_by_number_of_options"] = {str(k): v for k, v in sorted(sizes.items())}
    ctx.cov["lists_by_section_and_length"] = dict(sorted(shapes.items()))
    if max(sizes) < 5:
        raise Machinery("vacuous generation: no entry with 5 or more options (sizes %s)" % sizes)
    check_leak_coverage(ctx, multi)
    check_zero_coverage(ctx, lists)

    seen, tl = set(), []
    for t in texts:
        k = json.dumps(t["text"])
        if k not in seen:
            seen.add(k)
            tl.append(t)
    texts = tl
    ctx.log("texts: %d distinct with a '$'" % len(texts))

    # 3. render: every list as one TOML document, one file of init commands, one command sequence
    items = []          # stage-1 inputs
    for i, l in enumerate(lists):
        l["id"] = i
        key = "k%d" % i
        l["key"] = key
        crng = random.Random(ctx.seed * 1000003 + i)
        l["texts"] = {}
        for form in sorted(l["forms"]):
            if form == "toml":
                l["texts"][form] = L.render_toml(l, env, key + "t", crng)
            elif form == "init":
                l["texts"][form] = L.render_init(l, env, key + "i", crng)
            else:
                l["texts"][form] = L.render_cmds(l, env, key + "c", crng)
    nid = 0
    idmap = {}
    for l in lists:
        for form in ("toml", "init"):
            if form in l["texts"]:
                items.append(dict(id=nid, text=l["texts"][form]))
                idmap[nid] = ("case", l["id"], form)
                nid += 1
    hdr_id = nid
    items.append(dict(id=nid, text=env.header()))
    nid += 1
    for j, t in enumerate(texts):
        t["raw"] = "".join(t["text"])
        items.append(dict(id=nid, text=t["raw"]))
        idmap[nid] = ("text", j, None)
        nid += 1

    # 4. stage 1: the real readConfigFile
    expanded = L.run_expand(ctx, items, "all")

    # 4a. interpolation verdicts: TLC's pieces, concretised, against what readConfigFile returned
    nbad_text = 0
    for nid_, (what, j, _) in idmap.items():
        if what != "text":
            continue
        t = texts[j]
        want = L.expand_expected(t["expect"], env)
        got = expanded[nid_]
        if got != want:
            nbad_text += 1
            cls = classify_text(t["text"])
            ctx.violation("interpolation:" + cls,
                          "configuration text %r is read as %r, the documentation says %r" % (t["raw"], got, want),
                          dict(tokens=t["text"], got=got, want=want))
    ctx.log("interpolation: %d texts, %d differ" % (len(texts), nbad_text))

    # 5. stage 2: load every form of every list
    exp_by = {(cid, form): expanded[nid_] for nid_, (what, cid, form) in idmap.items() if what == "case"}
    loads = []
    for l in lists:
        gnet = any(c["kind"] == "gnet" for c in l["entries"])
        for form, text in l["texts"].items():
            ld = dict(id=l["id"], kind="gnet" if gnet else l["section"], form=form)
            if form == "cmd":
                ld["cmds"] = text
            else:
                ld["text"] = exp_by[(l["id"], form)]
            loads.append(ld)
    res = L.run_loader(ctx, env, loads, expanded[hdr_id])
    crash = [v for k_, v in res.items() if k_[0] == "crash"]
    if crash:
        cr = crash[0]
        last = cr.get("last") or {}
        ll = lists[last["id"]] if "id" in last and last["id"] < len(lists) else None
        ctx.violation("crash:%s" % (ll["section"] if ll else "?"),
                      "the relay code panicked while loading a documented configuration",
                      dict(case=strip(ll) if ll else None, form=last.get("form"), tail=cr["tail"]))
        ctx.sample(dict(panic=cr["tail"][-300:]))
        return

    # 6. verdicts: TLC's expected records decide, entry by entry, field by field, per form; forms must agree
    st = dict(nload=0, nfield=0, nentry=0)
    distinct = set()
    for l in lists:
        judge(ctx, l, res, env, st)
        if any(c["opts"] for c in l["entries"]):
            distinct.add(json.dumps([L.entry_sig(c) for c in l["entries"]]))

    # 7. the binding is live: a corrupted read-back record must be flagged by the comparison
    selftest(ctx, lists, res, env)
    selftest_lists(ctx, lists, res, env)
    selftest_zero(ctx, lists, res, env)

    cov = ctx.cov
    cov["evaluations"] = st["nload"] + len(texts)
    cov["fields_compared"] = st["nfield"]
    cov["entries_compared"] = st["nentry"]
    cov["distinct_nontrivial"] = len(distinct) + len(texts)
    cov["cases"] = len(lists)
    cov["cases_with_several_entries"] = len(multi)
    cov["texts"] = len(texts)
    cov["toml_destination_string_layouts"] = dict(sorted(L.LAYOUT_USED.items()))      # sections with destination options, per layout
    if not ctx.violations and any(L.LAYOUT_USED.get(k, 0) < 5 for k in L.DEST_LAYOUTS):
        raise Machinery("too few [[route]] sections with destination options per layout: %s" % L.LAYOUT_USED)
    cov["rule"] = ("a case = a list of 1..3 entries of one section kind; an entry = entry kind x variant x set of options with "
                   "values pairwise distinct over (option, scope, position) and different from every default.  Single "
                   "entries: all singletons and pairs enumerated by TLC, larger subsets seeded random.  Lists: every "
                   "(option, position pair) 'set to a non-default value by an earlier entry, left out by a later entry of the "
                   "same or another type' (booleans incl. the grafanaNet options looked up in the TOML metadata: every pair "
                   "of positions in lists of 2 and 3), and seeded random lists (TLC Randomization, -seed).  Every case is "
                   "loaded as one TOML document, one file of init commands (both through readConfigFile) and one sequence "
                   "of admin commands; distinct_nontrivial = distinct cases with >= 1 option set + distinct token texts "
                   "containing '$' (ambiguous nestings excluded).  Value class 'explicit zero': every numeric option of "
                   "every entry kind (10 destination options, 8 grafanaNet options, aggregation interval / wait, rewriter "
                   "max) = 0 as a singleton, paired with every other option of its entry (TLC enumeration) and inside "
                   "seeded random larger subsets and lists; expected: field = 0, or the configuration refused (error "
                   "recorded by the driver) -- never the default; the three forms must agree on acceptance")
    cov["explanation"] = ("decision-table driven differential check: Config.tla has no behaviour space, TLC evaluates the "
                          "documented option->field table (per entry, and per list of entries) and the interpolation function "
                          "on an enumerated argument space and the real loaders are compared with that, field by field; hence "
                          "level 'other'")
    big = max(lists, key=lambda l: max(len(c["opts"]) for c in l["entries"]))
    ctx.sample(dict(section=big["section"], cmd=big["texts"].get("cmd", [big["texts"]["toml"]])[0][:400]))
    if multi:
        m = max(multi, key=lambda l: (len(l["forms"]), sum(len(c["opts"]) for c in l["entries"])))
        ctx.sample(dict(section=m["section"], entries=len(m["entries"]), toml=m["texts"]["toml"][-700:]))
    ctx.sample(dict(section=lists[0]["section"], toml=lists[0]["texts"]["toml"][-200:]))
    if texts:
        t = texts[len(texts) // 2]
        ctx.sample(dict(text=t["raw"], expect=L.expand_expected(t["expect"], env)))
    ctx.assumptions += ["destinations point at 127.0.0.x:1 (nothing listens): the entry is read back, not exercised",
                        "values avoid spaces, quotes and the tokens of the command scanner; explicit empty strings are not generated",
                        "which options refuse an explicit 0 and which accept it is taken from the constructors (destination.New, "
                        "route.NewGrafanaNet, aggregator.New, rewriter.New, errOrgId0) as they are; for a refused configuration "
                        "only the refusal (an error from InitTable / Apply) is asserted, not the error text and not what the "
                        "entries before the refused one left in the table; negative numbers are not generated",
                        "sub and substr are never given together (the documentation does not say which wins)",
                        "one file holds several entries of ONE section kind (mixtures of [[route]], [[aggregation]], "
                        "[[rewriter]] and blacklist in one file are not generated); TOML keys are spelled as documented"]
    cov["trusted_base"] = ["TLC", "checks/conflib.py rendering of a case as TOML / command text (syntax from the docs)",
                           "harness/conf driver and overlay test (record only)", "destination.VerifFields accessor"]


def check_leak_coverage(ctx, multi):
    """the generation is not vacuous: for each grafanaNet boolean (the options cfg.InitRoutes looks up in the TOML
    metadata) every pair of positions i < j of lists of 2 and 3 occurs with 'entry i sets it to the non-default value,
    grafanaNet entry j leaves it out'"""
    want = {(o, n, i, j) for o in ("sslverify", "spool", "blocking") for n in (2, 3)
            for i in range(n) for j in range(i + 1, n)}
    have = set()
    for l in multi:
        es = l["entries"]
        for i, a in enumerate(es):
            for o in a["opts"]:
                if a["kind"] != "gnet" or o["scope"] != "r" or o["text"] != ("false" if o["name"] == "sslverify" else "true"):
                    continue
                for j in range(i + 1, len(es)):
                    if es[j]["kind"] == "gnet" and not any(x["name"] == o["name"] for x in es[j]["opts"]):
                        have.add((o["name"], len(es), i, j))
    missing = want - have
    if missing:
        raise Machinery("vacuous generation: (option, list length, positions) not generated: %s" % sorted(missing)[:6])
    ctx.cov["leak_pairs_gnet_booleans"] = len(want)


def check_zero_coverage(ctx, lists):
    """the generation is not vacuous: every numeric option of every entry kind is written as an explicit 0 -- alone
    (singleton) and inside a larger option set -- in a case that has all three forms; both verdict classes occur"""
    want = {("route", n) for n in L.DEST_INTS} | {("gnet", n) for n in L.GNET_NUMS}
    alone, among = set(), set()
    nz = nrej = 0
    params = set()
    for l in lists:
        full = set(l["forms"]) >= {"toml", "init", "cmd"}
        nrej += 1 if l["reject"] else 0
        for c in l["entries"]:
            nz += 1 if c["zero"] else 0
            if c["kind"] in ("agg", "rewriter") and c["zero"] and full:
                params.update((c["kind"], f) for f in c["zero"])
            for o in c["opts"]:
                if o["ty"] in ("int", "float") and o["text"] in ("0", "0.0") and full:
                    (alone if len(c["opts"]) == 1 and len(l["entries"]) == 1 else among).add((c["kind"], o["name"]))
    miss = sorted((want - alone) | (want - among) | ({("agg", "interval"), ("agg", "wait"), ("rewriter", "max")} - params))
    if miss:
        raise Machinery("vacuous generation: explicit zero not generated (alone and among other options) for %s" % miss[:8])
    if not nrej:
        raise Machinery("vacuous generation: no case that must be refused")
    ctx.cov["zero_options_alone_and_among"] = len(want) + 3
    ctx.cov["entries_with_explicit_zero"] = nz
    ctx.cov["cases_expected_refused"] = nrej
    ctx.log("explicit zero: %d entries with a numeric option / parameter = 0, %d cases that must be refused" % (nz, nrej))


def zero_names(entries, only=None):
    """the fields written as an explicit 0 (of the entries `only`, default all), destination index dropped"""
    return "+".join(sorted({strip_dest(f) for k, c in enumerate(entries) if only is None or k in only
                            for f in c.get("zero", [])})) or "none"


def judge(ctx, l, res, env, st, report=None):
    """compare what the real code built from list `l` with TLC's records.  `report` (a list) collects the
    violations instead of reporting them (self-test)."""
    def viol(sig, what, detail):
        if report is not None:
            report.append(sig)
        else:
            ctx.violation(sig, what, detail)
    n = len(l["entries"])
    sfx = ":multi" if n > 1 else ""       # the entry is not the only one of its file / command sequence
    got = {}
    accepted = {}
    kinds = "+".join(c["kind"] for c in l["entries"])
    optnames = " | ".join("+".join(sorted(set(o["name"] for o in c["opts"]))) or "none" for c in l["entries"])
    for form in sorted(l["texts"]):
        suffix = {"toml": "t", "init": "i", "cmd": "c"}[form]
        rec = res.get((l["id"], form))
        if rec is None:
            raise Machinery("no record for case %d form %s" % (l["id"], form))
        st["nload"] += 1
        accepted[form] = rec["ok"]
        if form in l["reject"]:
            # TLC: (an entry of) this configuration must be refused with an error.  What a refused file / sequence
            # leaves behind is not documented: nothing else is compared
            st["nreject"] = st.get("nreject", 0) + 1
            who = [k for k, c in enumerate(l["entries"]) if form in c["reject"]]
            rk = "+".join(sorted({l["entries"][k]["kind"] for k in who}))
            if rec["ok"]:
                shown = {}
                if len(rec["entries"]) == n:
                    shown = {f: rec["entries"][k].get(f, "<absent>") for k in who for f in l["entries"][k]["zero"]}
                viol("zero-accepted:%s:%s:%s%s" % (rk, form, zero_names(l["entries"], who), sfx),
                     "%s configuration (%d entr%s), %s form: an option written as an explicit 0 that must be refused with an "
                     "error (it is never the default) was accepted; the entry shows %s" % (
                         l["section"], n, "y" if n == 1 else "ies", form, shown),
                     dict(case=strip(l), form=form, text=l["texts"][form], got=shown))
            elif not rec.get("rejected") or rec.get("stage") != "load":
                raise Machinery("case %d form %s: error before the loader ran (rendering?): %s\n%s" % (
                    l["id"], form, rec["err"], l["texts"][form]))
            continue
        if not rec["ok"]:
            viol("rejected:%s:%s:%s" % (kinds, form, optnames),
                 "a documented %s configuration (%d entr%s) is rejected in its %s form: %s" % (
                     l["section"], n, "y" if n == 1 else "ies", form, rec["err"]),
                 dict(case=strip(l), form=form, text=l["texts"][form], err=rec["err"]))
            continue
        if form != "cmd":
            if rec["instance"] != env.host or rec["spool_dir"] != env.spool:
                viol("header:%s" % form, "instance / spool_dir of the configuration file are read as %r / %r" % (
                    rec["instance"], rec["spool_dir"]), dict(text=l["texts"][form]))
        # what the whole file / sequence added to the table
        bad_added = L.compare(l["added"], rec["added"])
        st["nfield"] += len(l["added"])
        for f, want, g in bad_added:
            viol("field:%s:%s:%s%s" % (kinds, form, f, sfx),
                 "%s configuration with %d entr%s, %s form: %s is %r, documented %r" % (
                     l["section"], n, "y" if n == 1 else "ies", form, f, g, want),
                 dict(case=strip(l), form=form, text=l["texts"][form], field=f, got=g, want=want))
        if len(rec["entries"]) != n:
            continue                      # (reported above) the entries cannot be paired
        got[form] = rec["entries"]
        for i, c in enumerate(l["entries"]):
            exp = L.expected(c, form, env, L.entry_key(l["key"] + suffix, i))
            bad = L.compare(exp, rec["entries"][i])
            st["nfield"] += len(exp)
            st["nentry"] += 1
            st["nzero"] = st.get("nzero", 0) + len(c["zero"])
            for f, want, g in bad:
                where = "" if n == 1 else "entry %d of %d (%s), " % (i + 1, n, optnames)
                zero = f in c["zero"]     # the option of this field is written as an explicit 0
                viol("%s:%s:%s:%s%s" % ("zero" if zero else "field", c["kind"], form, strip_dest(f), sfx),
                     "%s entry, %s%s form, options {%s}: field %s is %r, documented %r%s" % (
                         c["kind"], where, form, "+".join(sorted(set(o["name"] for o in c["opts"]))) or "none", f, g, want,
                         " (written as an explicit 0: applied or refused, never the default)" if zero else ""),
                     dict(case=strip(l), entry=i + 1, form=form, text=l["texts"][form], field=f, got=g, want=want))
    # the syntaxes agree on whether the configuration is accepted ...
    if "toml" in accepted:
        for other in ("init", "cmd"):
            if other in accepted and accepted[other] != accepted["toml"]:
                who = [k for k, c in enumerate(l["entries"]) if c["reject"]] or None
                rk = "+".join(sorted({l["entries"][k]["kind"] for k in who})) if who else kinds
                viol("accept-disagree:%s:%s:%s%s" % (rk, other, zero_names(l["entries"], who) if who else optnames, sfx),
                     "the TOML form of a %s configuration is %s, its %s form is %s" % (
                         l["section"], "accepted" if accepted["toml"] else "refused", other,
                         "accepted" if accepted[other] else "refused"),
                     dict(case=strip(l), toml=l["texts"]["toml"], other=l["texts"][other],
                          err=res[(l["id"], "toml" if accepted[other] else other)]["err"]))
    # ... and with each other wherever the documentation gives them the same meaning
    if "toml" in got:
        for other in ("init", "cmd"):
            if other not in got:
                continue
            for i, c in enumerate(l["entries"]):
                d = c["initdiff"] if other == "init" else c["cmddiff"]
                skip = set(d) if isinstance(d, dict) else set()
                gt, go = got["toml"][i], got[other][i]
                for f in gt:
                    if f in skip or f in ("key",) or f.endswith(".route"):
                        continue
                    if gt[f] != go.get(f, "<absent>"):
                        viol("%s:%s:%s:%s%s" % ("zero-disagree" if f in c["zero"] else "disagree", c["kind"], other,
                                                strip_dest(f), sfx),
                             "TOML section and %s form of the same %s entry%s differ in field %s: %r vs %r" % (
                                 other, c["kind"], "" if n == 1 else " (entry %d of %d)" % (i + 1, n), f, gt[f], go.get(f)),
                             dict(case=strip(l), entry=i + 1, toml=l["texts"]["toml"], other=l["texts"][other]))


def strip(l):
    return dict(section=l["section"], origin=l.get("origin", "single"),
                reject=sorted(l["reject"]),
                entries=[dict(kind=c["kind"], v1=c["v1"], v2=c["v2"], v3=c["v3"], nd=c["nd"], opts=c["opts"],
                              params=c["params"], zero=c["zero"]) for c in l["entries"]])


def strip_dest(f):
    # d2.flush_us -> d*.flush_us : the signature names the field, not the destination index
    if len(f) > 3 and f[0] == "d" and f[1].isdigit() and f[2] == ".":
        return "d*." + f[3:]
    return f


def classify_text(toks):
    for i, t in enumerate(toks):
        if t == "$" and i + 1 < len(toks) and toks[i + 1] == "{":
            rest = toks[i + 2:]
            if "}" in rest:
                name = "".join(rest[:rest.index("}")])
                if name not in ("HOST", "GRAFANA_NET_ADDR", "GRAFANA_NET_API_KEY", "GRAFANA_NET_USER_ID"):
                    return "unknown-braced" if name else "empty-braces"
            else:
                return "unclosed-brace"
    return "other"


def clean(ctx, l, res, env):
    rep = []
    judge(ctx, l, res, env, dict(nload=0, nfield=0, nentry=0), report=rep)
    return not rep


def selftest(ctx, lists, res, env):
    for l in lists:
        if len(l["entries"]) != 1 or l["entries"][0]["kind"] != "route" or "cmd" not in l["texts"]:
            continue
        rec = res.get((l["id"], "cmd"))
        if not rec or not rec["ok"] or len(rec["entries"]) != 1 or not clean(ctx, l, res, env):
            continue
        c = l["entries"][0]
        exp = L.expected(c, "cmd", env, L.entry_key(l["key"] + "c", 0))
        e = dict(rec["entries"][0])
        e["d1.connbuf"], e["d1.spoolbuf"] = e["d1.spoolbuf"], e["d1.connbuf"]
        bad = [f for f, _, _ in L.compare(exp, e)]
        e2 = dict(rec["entries"][0])
        e2["d1.pickle"] = 1 if e2["d1.pickle"] is False else 0
        bad2 = [f for f, _, _ in L.compare(exp, e2)]
        if sorted(bad) != ["d1.connbuf", "d1.spoolbuf"] or bad2 != ["d1.pickle"]:
            raise Machinery("binding self-test: a corrupted read-back record is not flagged (%s, %s)" % (bad, bad2))
        ctx.log("binding self-test: corrupted records are flagged")
        return
    ctx.note("binding self-test skipped: no clean carbon route case")


def selftest_lists(ctx, lists, res, env):
    """a read-back record in which a later grafanaNet entry shows the value an earlier entry set (and the later one
    left out) must be flagged, with the field named; so must two entries in exchanged order"""
    for l in lists:
        es = l["entries"]
        if len(es) < 2 or "toml" not in l["texts"] or not clean(ctx, l, res, env):
            continue
        pair = None
        for i, a in enumerate(es):
            for o in a["opts"]:
                if a["kind"] == "gnet" and o["name"] in ("sslverify", "spool", "blocking"):
                    for j in range(i + 1, len(es)):
                        if es[j]["kind"] == "gnet" and not any(x["name"] == o["name"] for x in es[j]["opts"]):
                            pair = (i, j, o["name"])
        if not pair:
            continue
        i, j, name = pair
        rec = res[(l["id"], "toml")]
        if rec["entries"][i][name] == rec["entries"][j][name]:
            continue                  # the explicit value is the default
        fake = json.loads(json.dumps(rec))
        fake["entries"][j][name] = rec["entries"][i][name]
        rep = []
        judge(ctx, l, {**{(l["id"], f): res[(l["id"], f)] for f in l["texts"]}, (l["id"], "toml"): fake}, env,
              dict(nload=0, nfield=0, nentry=0), report=rep)
        if "field:gnet:toml:%s:multi" % name not in rep:
            raise Machinery("binding self-test (lists): a leaked %s in entry %d is not flagged (%s)" % (name, j + 1, rep))
        fake = json.loads(json.dumps(rec))
        fake["entries"][i], fake["entries"][j] = fake["entries"][j], fake["entries"][i]
        rep = []
        judge(ctx, l, {**{(l["id"], f): res[(l["id"], f)] for f in l["texts"]}, (l["id"], "toml"): fake}, env,
              dict(nload=0, nfield=0, nentry=0), report=rep)
        if not any(s.startswith("field:gnet:toml:key") for s in rep):
            raise Machinery("binding self-test (lists): entries in exchanged order are not flagged (%s)" % rep)
        ctx.log("binding self-test (lists): a leaked option and exchanged entries are flagged")
        return
    if ctx.violations or ctx.known_hits:
        ctx.note("binding self-test (lists) skipped: no clean list with a grafanaNet boolean set early and left out later")
        return
    raise Machinery("binding self-test (lists): no clean list with a grafanaNet boolean set early and left out later")



def selftest_zero(ctx, lists, res, env):
    """the zero verdicts are live: a read-back record that shows the default where an explicit 0 was written, and an
    'accepted' record where TLC says 'refused', must both be flagged"""
    defaults = {"connbuf": 30000, "spoolbuf": 10000, "spoolsyncevery": 10000, "spoolsleep_us": 500, "unspoolsleep_us": 10,
                "spoolmaxbytesperfile": 209715200}
    done = set()
    for l in lists:
        if len(l["entries"]) != 1 or l["entries"][0]["kind"] != "route" or "cmd" not in l["texts"]:
            continue
        c = l["entries"][0]
        ids = {f: res[(l["id"], f)] for f in l["texts"]}
        if "field" not in done and not l["reject"] and c["zero"] and clean(ctx, l, res, env):
            f = sorted(c["zero"])[0]
            if f.split(".", 1)[-1] not in defaults:
                continue
            fake = json.loads(json.dumps(ids["cmd"]))
            fake["entries"][0][f] = defaults[f.split(".", 1)[-1]]
            rep = []
            judge(ctx, l, {**{(l["id"], k): v for k, v in ids.items()}, (l["id"], "cmd"): fake}, env,
                  dict(nload=0, nfield=0, nentry=0), report=rep)
            if "zero:route:cmd:%s" % strip_dest(f) not in rep:
                raise Machinery("binding self-test (zero): a default in place of an explicit 0 (%s) is not flagged (%s)" % (f, rep))
            done.add("field")
        if "accept" not in done and l["reject"] and all(not v["ok"] for v in ids.values()):
            fake = json.loads(json.dumps(ids["toml"]))
            fake.update(ok=True, err="", rejected=False)
            rep = []
            judge(ctx, l, {**{(l["id"], k): v for k, v in ids.items()}, (l["id"], "toml"): fake}, env,
                  dict(nload=0, nfield=0, nentry=0), report=rep)
            if not any(x.startswith("zero-accepted:route:toml:") for x in rep) or \
                    not any(x.startswith("accept-disagree:route:") for x in rep):
                raise Machinery("binding self-test (zero): an accepted configuration that must be refused is not flagged (%s)" % rep)
            done.add("accept")
        if len(done) == 2:
            ctx.log("binding self-test (zero): a default in place of an explicit 0 and a wrongly accepted entry are flagged")
            return
    if ctx.violations or ctx.known_hits:
        ctx.note("binding self-test (zero) incomplete (%s): no clean carbon route case" % sorted(done))
        return
    raise Machinery("binding self-test (zero): no suitable clean case (%s)" % sorted(done))
