"""C07 — with spooling on, an endpoint outage loses nothing that is not counted."""
import json
from checks import destlib
from vlib.core import Machinery

LEVEL = "model_checking"

SAFETY_MUTANTS = ["RedoSkipDrain", "DropSafeOld", "KsCapRotate", "NoIngest", "DeadDropNoCount", "LoseReadAhead", "SpoolDropNoCount", "DropNoCount"]


def run(ctx):
    q = ctx.quick()
    # 1. model: all interleavings of sender, relay, connector, connection writer, EOF watcher, keepSafe
    #    rotation, redo collector, spool writer, SlowChan and endpoint
    base = destlib.mc_consts(N=3, Q=2, IOB=2, KB=2, RT=2, SB=1, MaxConn=2, MaxChanges=1, Spool=True,
                             InitModes={"healthy"}, Modes={"absent", "healthy"})
    if q:
        destlib.mc(ctx, "Destination_c07.cfg", dict(base, Q=1, IOB=1, KB=1, RT=1))
    else:
        destlib.mc(ctx, "Destination_c07.cfg", base)
        destlib.mc(ctx, "Destination_c07.cfg", dict(base, Q=1, IOB=1, KB=1, RT=1, MaxChanges=2, Modes={"absent", "healthy", "closing"}))
        destlib.mc(ctx, "Destination_c07.cfg", dict(base, N=4, Q=1, IOB=1, KB=1, RT=1, InitModes={"absent", "healthy"}), timeout=5000)
        destlib.mc(ctx, "Destination_c07live.cfg", dict(base, N=2, Q=1, IOB=1, KB=1, RT=1), timeout=5000)
    # the model of the code before the F10 repair loses a line (the TLC counterexample that was replayed
    # on the real code), and every named deviation violates Conservation: non-vacuity
    tiny = dict(base, Q=1, IOB=1, KB=1, RT=1)
    r = destlib.mc(ctx, "Destination_c07.cfg", dict(tiny, FixRedoWaits=False), expect={"Conservation", "QuiescentBound"}, count=False)
    # (DeadDropNoCount: a send that finds In full on a connection that died after the loop-top aliveness check returns
    # without counting -- the interleaving the dead-send scenarios below force on the real code)
    for m in (SAFETY_MUTANTS[:5] if q else SAFETY_MUTANTS):
        destlib.mc(ctx, "Destination_c07.cfg", dict(tiny, Mutant=m), expect={"Conservation", "QuiescentBound", "Conservation_steady"}, count=False)

    # the spool is the disk queue: a backlog that spans several spool files is read back by a reader that is files behind
    # the writer.  The queue model (DiskQueue.tla, exhaustive in C08/C09) keeps every record of a file whose records end exactly
    # at the size limit; a reader that leaves such a file early when it is behind the writer loses the record the writer still
    # put into it -- rejected by the model, and the spoolroll scenarios below put the real queue into that position under a
    # real destination.
    r = ctx.tlc("DiskQueue", "DiskQueue_mc.cfg", consts=dict(MaxFile=2, SyncEvery=2, Sizes={1, 2}, MaxPuts=4, MaxCrashes=0, AllowReopen=False,
                                                              AllowTick=True, PostPuts=1, Mutant="reader_roll_ge_behind"),
                expect_ok=False, count=False, tag="nv_reader_roll")
    if r["violated"] not in ("C09Fifo", "C09Depth", "C09DepthRest", "NoSkip"):
        raise Machinery("deviation reader_roll_ge_behind is not rejected by the queue model (violated=%s): vacuity" % r["violated"])
    if not q:
        ctx.tlc("DiskQueue", "DiskQueue_mc.cfg", consts=dict(MaxFile=2, SyncEvery=2, Sizes={1, 2}, MaxPuts=5, MaxCrashes=0, AllowReopen=False,
                                                              AllowTick=True, PostPuts=1, Mutant=""), timeout=3000)

    # 2. real destinations with spool=true against endpoint incarnations on one port
    scns = destlib.c07_scenarios(ctx)
    ctx.log("C07 scenarios: %d" % len(scns))
    events, crashed = destlib.run_driver(ctx, "TestC07", "VERIF_C07_SCN", scns, "c07", timeout=ctx.pick(900, 3600),
                                         extra_env=dict(VERIF_C07_KEEPSAFE_MS=destlib.KEEPSAFE_MS, VERIF_C07_PAR=ctx.pick(5, 6)))
    byid = {s["id"]: s for s in scns}
    if crashed:
        ctx.violation("relay-panics", "the relay panicked during an endpoint outage schedule", crashed)
        ctx.sample(dict(panic=crashed["tail"][-300:]))
        return
    touts = [e for e in events if e["ev"] == "timeout"]
    if touts:
        raise Machinery("C07 driver could not complete its schedule: %s" % json.dumps(touts[:3]))
    finals = {e["scn"]: e for e in events if e["ev"] == "final"}
    if len(finals) != len(scns):
        raise Machinery("dead driver: %d final records for %d scenarios" % (len(finals), len(scns)))

    # the keepSafe scenario is inside the guarantee ("at least the last keep period") only if the redo collection
    # happened within one keep period of the first line written to that connection; on a machine too slow for that
    # the scenario is not judged (assumption A1 broken by the harness, not by the relay)
    for sid, f in finals.items():
        if byid[sid]["name"].startswith("keepsafe-") and f.get("redo_span_ms", 0) > destlib.KEEPSAFE_MS:
            ctx.note("scenario " + byid[sid]["name"] + " not judged: redo collection came %d ms after the first write (keep period %d ms)"
                     % (f["redo_span_ms"], destlib.KEEPSAFE_MS))
            for e in events:
                if e.get("scn") == sid and e["ev"] == "final":
                    e["skip_loss"] = True

    dsgates = {e["scn"]: e for e in events if e["ev"] == "dsgate"}

    # 3. TLC decides: LossBound, drain, intactness
    def on_reject(rec, src, block):
        s = byid.get(src.get("scn"), {})
        fin = finals.get(src.get("scn"), {})
        if rec["ev"] == "loss":
            lost = fin.get("missing_n", 0) - rec["slow_conn"] - rec["slow_spool"]
            f10 = fin.get("f10win", [])
            gate = [e for e in events if e["ev"] == "gate" and e["scn"] == src.get("scn")]
            if fin.get("conn_replaced", 0) > 0:
                # the hook trace shows a live connection being replaced by a second one (two connectors raced:
                # assumption A2 of Destination.tla broken); the replaced connection is never collected
                sig = "conn-replaced-while-alive"
            elif gate and gate[0]["order"] == "getall-first":
                sig = "gated-redo-race"          # the forced schedule of TLC's counterexample (F10)
            elif f10 and lost <= len(f10):
                sig = "redo-race-window"         # same race hit without the gate
            else:
                sig = "uncounted-loss schedule=" + s.get("name", "?").split("-")[0]
            dsg = dsgates.get(src.get("scn"))
            extra = ""
            if dsg:
                extra = ("; gated schedule: line %s came from %s and met a connection that had died after the loop-top check with In full (%d/%d)"
                         % (dsg.get("line", "?").split(" ")[0], dsg["src"], dsg.get("in_len", -1), dsg.get("in_cap", -1)))
            ctx.violation(sig, "%d of %d handed lines never received but slow_conn+slow_spool=%d (first missing ids %s; lines in a "
                          "writer's hand when GetAll ran: %s%s)" % (fin.get("missing_n"), fin.get("handed"), rec["slow_conn"] + rec["slow_spool"],
                                                                  fin.get("missing_first"), f10[:3], extra),
                          dict(scenario=s, final=fin, dsgate=dsg))
        elif rec["ev"] == "drain":
            ctx.violation("backlog-not-drained", "endpoint stayed up but the spool did not drain: depth=%s buffered=%s" % (rec["depth"], rec["buffered"]),
                          dict(scenario=s, final=fin))
        elif rec["ev"] == "intact":
            ctx.violation("line-not-intact", "%d malformed lines at the endpoint" % rec["malformed"], dict(scenario=s, final=fin))
        elif rec["ev"] == "recv":
            ctx.violation("foreign-line", "endpoint received an id that was never handed", dict(scenario=s, event=rec))
        else:
            ctx.violation("trace-event " + rec["ev"], "event rejected: %s" % json.dumps(rec)[:300], dict(scenario=s))

    ntr, nrej = destlib.validate(ctx, events, on_reject, tagp="07")

    gates = [e for e in events if e["ev"] == "gate"]
    if not gates:
        raise Machinery("the gated F10 schedule did not run")
    ctx.cov["f10_gate_order"] = gates[0]["order"]
    if gates[0]["order"] == "timeout":
        raise Machinery("the gated F10 schedule did not reach the redo collector")
    # the dead-send gate must have gone through its phases in every dead-send scenario (a gate that does not fire is a
    # fault of the machinery, never a verdict)
    dss = [s for s in scns if s["name"].startswith("deadsend-")]
    bad = [dict(scenario=s["name"], gate=dsgates.get(s["id"])) for s in dss if dsgates.get(s["id"], {}).get("outcome") != "fired"]
    if bad and not ctx.violations:
        raise Machinery("dead-send gate did not fire: %s" % json.dumps(bad[:3]))
    ctx.cov["dead_send_gates_fired"] = len(dss) - len(bad)

    # the spoolroll scenarios must really have rolled spool files while the reader was behind
    rolls = [s for s in scns if s["name"].startswith("spoolroll-")]
    weak = [dict(scenario=s["name"], maxfile=finals[s["id"]].get("spool_maxfile"), together=finals[s["id"]].get("spool_maxfiles"))
            for s in rolls if finals[s["id"]].get("spool_maxfile", -1) < 3 or finals[s["id"]].get("spool_maxfiles", 0) < 2]
    if weak and not ctx.violations:
        raise Machinery("spool files did not roll with the reader behind: %s" % json.dumps(weak[:3]))
    ctx.cov["spool_file_rolls"] = [dict(scenario=s["name"], highest_file=finals[s["id"]].get("spool_maxfile"),
                                        files_together=finals[s["id"]].get("spool_maxfiles")) for s in rolls]

    # 4. binding self-tests
    def m1(recs):
        for i, r in enumerate(recs):
            if r["ev"] == "recv" and r["ranges"] and r["ranges"][0][1] - r["ranges"][0][0] >= 3:
                scn_final = None
                # remove one received id from every incarnation of this scenario and zero the counters
                j = i
                while j >= 0 and recs[j]["ev"] != "scn":
                    j -= 1
                k = j + 1
                victim = r["ranges"][0][0] + 1
                while k < len(recs) and recs[k]["ev"] != "scn":
                    if recs[k]["ev"] == "recv":
                        nr = []
                        for a, b in recs[k]["ranges"]:
                            if a <= victim <= b:
                                if a <= victim - 1:
                                    nr.append([a, victim - 1])
                                if victim + 1 <= b:
                                    nr.append([victim + 1, b])
                            else:
                                nr.append([a, b])
                        recs[k]["ranges"] = nr
                    if recs[k]["ev"] == "loss":
                        recs[k]["slow_conn"] = 0
                        recs[k]["slow_spool"] = 0
                        return k
                    k += 1
    def m2(recs):
        for i, r in enumerate(recs):
            if r["ev"] == "drain":
                r["depth"] = 1
                return i
    if nrej == 0:
        a = destlib.selftest(ctx, events, m1, "loss", "07a")
        b = destlib.selftest(ctx, events, m2, "drain", "07b")
        if not (a and b):
            raise Machinery("binding self-test found nothing to corrupt")
        ctx.cov["binding_selftests"] = "passed"

    cov = ctx.cov
    fl = list(finals.values())
    cov["evaluations"] = sum(f["handed"] for f in fl)
    redo = [f for f in fl if f["hooks"].get("spool.bulk", 0) > 0]
    unsp = [f for f in fl if f["hooks"].get("relay.unspool", 0) > 0]
    tight = [f for f in fl if f["missing_n"] == f["slow_conn"] + f["slow_spool"]]
    cov["distinct_nontrivial"] = len([f for f in fl if f["hooks"].get("relay.unspool", 0) > 0 and f["incarnations"] >= 1])
    cov["scenarios_with_redo"] = len(redo)
    cov["scenarios_with_unspool"] = len(unsp)
    cov["scenarios_bound_tight"] = len(tight)
    cov["lines_replayed_via_redo"] = sum(f["hooks"].get("spool.bulk", 0) for f in fl)
    cov["lines_unspooled"] = sum(f["hooks"].get("relay.unspool", 0) for f in fl)
    cov["duplicates"] = sum(f["dups"] for f in fl)
    cov["counted_drops"] = sum(f["slow_conn"] + f["slow_spool"] for f in fl)
    cov["unspool_while_slow_flag"] = sum(f["slow_unspool"] for f in fl)
    if cov["unspool_while_slow_flag"]:
        ctx.note("model-drift Destination.tla: %d unspool steps were taken while a slow flag was set (mechanism 'unspool only when "
                 "not slow'; not part of the C07 statement: the drops are counted)" % cov["unspool_while_slow_flag"])
        cov["drift"] = True
    cov["conn_replaced_while_alive"] = sum(f.get("conn_replaced", 0) for f in fl)
    if (not redo or not unsp) and not ctx.violations:
        raise Machinery("vacuous run: no scenario exercised redo (%d) / unspooling (%d)" % (len(redo), len(unsp)))
    cov["rule"] = ("scenarios = endpoint up/down schedules on one port (before first connect, single, repeated, during unspooling, "
                   "connections cut, traffic only while down, gated F10 schedule, gated dead-send schedules (connection dies between the relay's "
                   "aliveness check and the hand-over, In full; connbuf 0/1/2 x line from dest.In / from the spool), seeded random) with traffic before/during/after each "
                   "transition; evaluations = lines handed; every scenario's received id ranges and final counters decided by "
                   "DestinationTrace.tla (LossBound, drain, intact); distinct_nontrivial = scenarios in which lines went through the spool")
    f0 = fl[0]
    ctx.sample(dict(scenario=byid[f0["scn"]]["name"], steps=byid[f0["scn"]]["steps"],
                    final={k: f0[k] for k in ("handed", "distinct", "dups", "missing_n", "slow_conn", "slow_spool", "depth", "incarnations")}))
    g = finals[gates[0]["scn"]]
    ctx.sample(dict(f10_gate=gates[0], final={k: g[k] for k in ("handed", "distinct", "missing_n", "slow_conn", "slow_spool", "f10win")}))
    ctx.assumptions += ["keepSafe period shortened to 4 s (VerifSetKeepSafe); the endpoint reads continuously, so a line unread "
                        "for longer than the keep period does not occur (assumption A1 of Destination.tla)",
                        "'endpoint stays up' is observed until the spool is empty and every line has arrived or is counted; given up only after 60 s / 30 s without any progress (lines received, spool depth)",
                        "outages are listener+connection closes on loopback (RST/EOF); silent network partitions are not produced"]
    cov["trusted_base"] = ["TLC", "harness/dest driver (records only)", "kernel loopback TCP"]
