"""Shared by C06 and C07: TLC model checking of Destination.tla, scenario generation for the Go driver
(harness/dest), projection of the recorded events to the level-A alphabet and trace validation
against DestinationTrace.tla (TLC decides; the driver only records)."""
import copy, json, os, random
from vlib.core import Machinery

ALL_MODES = {"absent", "blackhole", "slow", "healthy", "closing", "paused"}
KEEPSAFE_MS = 4000


def mc_consts(**kw):
    c = dict(N=3, Q=1, IOB=1, KB=1, RT=1, SB=1, MaxConn=2, MaxChanges=1, Spool=True,
             InitModes={"healthy"}, Modes={"absent", "healthy"}, FixRedoWaits=True, AddrUpd=False, Mutant="")
    c.update(kw)
    return c


def mc(ctx, cfg, consts, timeout=3000, expect=None, workers=6, count=True, heap="12g"):
    """expect=None: must pass; expect=<set of names>: must be violated by one of them"""
    # development aid (trials of code changes on the Go side only): honoured only when VERIF_REPO points to a scratch
    # tree -- a run on /repo writes the real evidence and always includes the model-checking stage
    if os.environ.get("VERIF_DEST_SKIP_MC") == "1" and os.path.realpath(os.environ.get("VERIF_REPO", "/repo")) != os.path.realpath("/repo"):
        ctx.note("model checking skipped (VERIF_DEST_SKIP_MC=1, scratch tree)")
        return dict(violated=None, ok=True)
    r = ctx.tlc("Destination", cfg, consts=consts, timeout=timeout, workers=workers, heap=heap,
                expect_ok=(expect is None), count=count)
    if r["violated"] is None and ("Temporal property" in r["text"] or "Temporal properties" in r["text"]) and "violated" in r["text"]:
        r["violated"] = "temporal"
    if expect is not None:
        if r["violated"] is None or (expect and r["violated"] not in expect):
            raise Machinery("deviation %s of Destination.tla is not rejected as expected (%s; got %s): vacuity; log %s"
                            % (consts.get("Mutant") or ("FixRedoWaits=%s" % consts.get("FixRedoWaits")), sorted(expect),
                               r["violated"], r["log"]))
    return r


# ----------------------------------------------------------------------------- projection to level A
def project(events):
    """recorded driver events -> alphabet of DestinationTrace.tla.  Returns (records, origin) where
    origin[i] = (scenario id, source event) of record i."""
    recs, origin = [], []

    def add(r, e):
        recs.append(r)
        origin.append((e.get("scn"), e))

    for e in events:
        k = e["ev"]
        if k == "scn":
            add(dict(ev="scn", scn=e["scn"]), e)
        elif k in ("up", "down", "cut"):
            add(dict(ev=k, inc=e["inc"]), e)
        elif k in ("info", "gate", "dsgate", "stall", "replay", "ugate", "addrupd"):
            add(dict(ev="info"), e)
        elif k == "lat":
            add(dict(ev="lat", max_us=min(e["max_us"], 2_000_000_000), over_bound=e["over_bound"], stuck=e["stuck"], calls=e["calls"]), e)
        elif k == "phase":
            add(dict(ev="phase", steady=e["steady"], handed=e["handed"], received=e["received"],
                     slow_conn=e["slow_conn"], down=e["down"]), e)
        elif k == "recv":
            add(dict(ev="recv", inc=e["inc"], ranges=e["ranges"]), e)
        elif k == "final":
            # `handed` must precede the recv events of the scenario: insert it before them
            i = len(recs)
            while i > 0 and recs[i - 1]["ev"] == "recv" and origin[i - 1][0] == e["scn"]:
                i -= 1
            recs.insert(i, dict(ev="handed", n=e["handed"]))
            origin.insert(i, (e["scn"], e))
            if e.get("skip_loss"):
                add(dict(ev="info"), e)
            else:
                add(dict(ev="loss", slow_conn=e["slow_conn"], slow_spool=e["slow_spool"]), e)
            add(dict(ev="drain", drained=e["drained"], depth=e["depth"], buffered=e["buffered"]), e)
            add(dict(ev="intact", malformed=e["malformed"]), e)
        elif k == "timeout":
            pass
    return recs, origin


def split_scn(recs, origin):
    blocks, cur = [], None
    for r, o in zip(recs, origin):
        if r["ev"] == "scn":
            cur = ([], [])
            blocks.append(cur)
        if cur is not None:
            cur[0].append(r)
            cur[1].append(o)
    return blocks


def validate(ctx, events, on_reject, tagp="A", max_rounds=12):
    recs, origin = project(events)
    blocks = split_scn(recs, origin)
    n = len(blocks)
    rejected = 0
    for rnd in range(max_rounds):
        flat = [r for b in blocks for r in b[0]]
        if not flat:
            break
        f = ctx.write_ndjson("lvlA_%s_trace.ndjson" % tagp, flat)
        ok, matched, res = ctx.validate_traces("DestinationTrace", "DestinationTrace.cfg", f, len(flat), len(blocks),
                                               tag="lvl%s%d" % (tagp, rnd), timeout=1800)
        if ok:
            break
        if matched is None:
            raise Machinery("level-A trace validation gave no verdict; log %s" % res["log"])
        pos = 0
        for bi, b in enumerate(blocks):
            if matched < pos + len(b[0]):
                on_reject(b[0][matched - pos], b[1][matched - pos][1], b)
                rejected += 1
                del blocks[bi]
                break
            pos += len(b[0])
        else:
            raise Machinery("matched prefix beyond the trace")
    else:
        ctx.note("more than %d rejected scenarios; stopped re-validating" % max_rounds)
    return n, rejected


def selftest(ctx, events, mutate, expect_ev, tag):
    """binding self-test: one corrupted recorded field must make TLC reject exactly that event"""
    recs, origin = project(copy.deepcopy(events))
    idx = mutate(recs)
    if idx is None:
        return False
    f = ctx.write_ndjson("self_%s.ndjson" % tag, recs)
    ok, matched, _ = ctx.validate_traces("DestinationTrace", "DestinationTrace.cfg", f, len(recs), 0, tag="self" + tag)
    if ok or matched != idx or recs[idx]["ev"] != expect_ev:
        raise Machinery("binding self-test %s failed: corrupted %s event at %s not rejected there (matched %s)"
                        % (tag, expect_ev, idx, matched))
    return True


def run_driver(ctx, test, env_name, scns, trace_name, timeout, extra_env=None):
    sf = os.path.join(ctx.out, trace_name + "_scn.json")
    with open(sf, "w") as f:
        json.dump(scns, f)
    env = {env_name: sf}
    env.update(extra_env or {})
    res = ctx.go_test("dest", run="^%s$" % test, timeout=timeout, expect_ok=False, env=env)
    tf = os.path.join(ctx.out, trace_name + "_trace.ndjson")
    events = ctx.read_ndjson(tf) if os.path.exists(tf) else []
    crashed = None
    if res["rc"] != 0:
        prog = []
        try:
            prog = ctx.read_ndjson(trace_name + "_progress.ndjson")
        except Exception:
            pass
        crashed = dict(log=res["log"], last=prog[-12:], tail=res["text"][-3000:])
        if "panic:" not in res["text"] and "fatal error:" not in res["text"]:
            raise Machinery("dest driver failed without a panic (rc=%s); log %s\n%s" % (res["rc"], res["log"], res["text"][-2000:]))
    return events, crashed


# ----------------------------------------------------------------------------- C06 scenarios
def c06_scenarios(ctx):
    rng = random.Random(ctx.seed * 7919 + 6)
    q = ctx.quick()
    scns = []
    # (connbuf, iobuf, flush_ms): small and production-like
    sizes = [(10, 512, 5), (1000, 65536, 20)] if q else [(1, 1, 1), (10, 512, 5), (300, 4096, 50), (30000, 2_000_000, 1000)]
    lines = 20000 if q else 120000
    sid = 0
    for kind in ("refuse", "blackhole", "slow", "healthy", "closing", "synhole"):
        for (cb, iob, fl) in sizes:
            if kind == "synhole" and (cb, iob, fl) != sizes[0]:
                continue
            sid += 1
            n = lines
            ll = rng.choice([40, 90])
            if kind == "blackhole":
                ll = 200            # fills the kernel buffers sooner
                n = lines * 2
            if kind == "healthy" and iob <= 8:
                n = lines // 4      # one syscall per byte
            scns.append(dict(id=sid, kind=kind, route=rng.choice(["all", "first"]) if kind != "healthy" else "all",
                             connbuf=cb, iobuf=iob, flush_ms=fl, lines=n, linelen=ll,
                             rcvbuf=rng.choice([2048, 8192]), close_after=rng.choice([1000, 20000, 200000]), switches=[]))
    # stall-resume: accepts, reads normally, stops reading for many flush periods (connection stays open; conn.In, io
    # buffer and kernel buffers fill, the writer is blocked), then resumes and reads to the end.  Never closes.
    for (cb, iob, fl) in sizes:
        if iob <= 8:
            continue        # one syscall per byte: filling the socket buffers takes minutes
        sid += 1
        # the relay's socket send buffer autotunes up to tcp_wmem[2] (4 MB) while the endpoint reads: the lines handed
        # during the stall must exceed that plus io buffer plus conn.In (1000-byte lines; 3/4 of `lines` is the budget for filling and pausing)
        ll = 1000
        scns.append(dict(id=sid, kind="stall", route="all", connbuf=cb, iobuf=iob, flush_ms=fl,
                         lines=2 * (7_000_000 // ll + iob // ll + cb + 2100), linelen=ll,
                         rcvbuf=rng.choice([2048, 8192]), close_after=0, stall_ms=max(400, 12 * fl), switches=[]))
        # ... and the same with a close instead of the resume: the endpoint closes while the writer sits in a blocked write
        # (latency bound only: what was queued for the closed connection is legitimately gone)
        sid += 1
        scns.append(dict(scns[-1], id=sid, kind="stallclose", stall_ms=max(200, 6 * fl)))
        # ... and with a half-close: the endpoint sends FIN while the writer sits in the blocked write, keeps the socket
        # open and still does not read while traffic goes on (latency bound only)
        sid += 1
        scns.append(dict(scns[-1], id=sid, kind="stallfin", stall_ms=max(200, 6 * fl)))
    # one bad endpoint must not affect the others of the same route
    for (cb, iob, fl) in sizes[:2]:
        sid += 1
        scns.append(dict(id=sid, kind="mixed", route="all", connbuf=cb, iobuf=iob, flush_ms=fl, lines=lines, linelen=60,
                         rcvbuf=4096, close_after=0, switches=[]))
    # address update at run time (Route.UpdateDestination addr=...) away from an endpoint whose connection writer is blocked
    # (black hole from the start / reads first, then stops) to a healthy endpoint: Dispatch stays within the bound before and
    # after, and the lines handed after the update are received by the new endpoint or counted.  `bg`: traffic goes on
    # while the update is in progress (latency bound only).  addrok: the previous endpoint is healthy (control).
    addr = [("addrbh", False), ("addrstall", False), ("addrbh", True)] if q else \
           [("addrbh", False), ("addrstall", False), ("addrbh", True), ("addrstall", True), ("addrok", False), ("addrbh", False)]
    rnga = random.Random(ctx.seed * 7919 + 66)      # own stream: the scenarios generated below stay what they were
    for j, (kind, bg) in enumerate(addr):
        cb, iob, fl = sizes[j % len(sizes)]
        if iob <= 8:
            cb, iob, fl = sizes[1]
        sid += 1
        ll = 1000
        post = 2000
        scns.append(dict(id=sid, kind=kind, bg=bg, route=rnga.choice(["all", "first", "chash"]), connbuf=cb, iobuf=iob, flush_ms=fl,
                         lines=2 * (7_000_000 // ll + iob // ll + cb + 2100) + 2 * post, linelen=ll, post=post,
                         rcvbuf=rnga.choice([2048, 8192]), close_after=0, stall_ms=max(400, 12 * fl), switches=[]))
    if not q:
        # behaviour switches mid-stream (latency bound only; no steady phase)
        modes = ["healthy", "blackhole", "slow", "closeconns", "down", "up"]
        for i in range(8):
            sid += 1
            n = lines
            pts = sorted(rng.sample(range(100, n - 100), 6))
            sw = [dict(at=p, mode=rng.choice(modes)) for p in pts]
            cb, iob, fl = rng.choice(sizes)
            scns.append(dict(id=sid, kind="switch", route="all", connbuf=cb, iobuf=iob, flush_ms=fl, lines=n, linelen=60,
                             rcvbuf=4096, close_after=0, switches=sw))
    return scns


def c06_spool_scenarios(ctx, first_id):
    """spooling enabled: outage (backlog in the disk spool), then the endpoint comes back and misbehaves while the spool
    is being replayed.  Latency bound only (with spooling on, the accounting is C07's subject)."""
    rng = random.Random(ctx.seed * 7919 + 606)
    q = ctx.quick()
    scns = []
    sid = first_id - 1
    # (connbuf, iobuf, flush_ms, reconn_ms)
    sizes = [(10, 512, 5, 10), (1000, 65536, 20, 10)] if q else [(1, 64, 1, 10), (10, 512, 5, 10), (300, 4096, 50, 50), (1000, 65536, 20, 10),
                                                                  (5000, 1_000_000, 100, 20)]
    ll = 1000
    for kind in ("spoolbh", "spoolstall", "spoolclose"):
        for (cb, iob, fl, rc) in sizes:
            sid += 1
            # the backlog must exceed conn.In + io buffer + what the kernel takes for an endpoint that never reads
            # (socket buffers of a fresh loopback connection; SPOOL_KERNEL_BYTES is a generous allowance, the driver
            # reports `saturated` and the check refuses to conclude anything from a replay that did not saturate)
            backlog = cb + (iob + SPOOL_KERNEL_BYTES) // ll + rng.choice([300, 500, 800])
            cycles, burst, post = 3, rng.choice([10, 20, 40]), 400
            scns.append(dict(id=sid, kind=kind, route="all", connbuf=cb, iobuf=iob, flush_ms=fl, reconn_ms=rc, linelen=ll,
                             rcvbuf=rng.choice([2048, 8192]), close_after=0, switches=[],
                             backlog=backlog, cycles=cycles, burst=burst, post=post,
                             lines=backlog + 600 * burst + post + 10))
    # deterministic variant: the connection writer is held (hook gate at hd.recv) while the spool is replayed
    for (cb, iob, fl, rc) in ([(2, 4096, 50, 20), (1, 512, 5, 10)] if q else [(2, 4096, 50, 20), (1, 512, 5, 10), (0, 512, 5, 10), (7, 65536, 20, 50)]):
        sid += 1
        backlog = 40 + 3 * cb
        scns.append(dict(id=sid, kind="spoolgate", route="all", connbuf=cb, iobuf=iob, flush_ms=fl, reconn_ms=rc, linelen=60,
                         rcvbuf=4096, close_after=0, switches=[], backlog=backlog, cycles=5, burst=20, post=50,
                         lines=backlog + 100 + 50 + 10))
    return scns


SPOOL_KERNEL_BYTES = 4_500_000


# ----------------------------------------------------------------------------- C07 scenarios
def c07_scenarios(ctx):
    rng = random.Random(ctx.seed * 104729 + 7)
    q = ctx.quick()
    L = 600 if q else 4000      # lines per traffic phase
    base = dict(connbuf=30000, iobuf=65536, flush_ms=10, spoolbuf=10000, burst=5, pause_us=200, unspool_us=1)

    def S(n):
        return "send %d" % n

    named = [
        ("before-first-connect", [S(L), "upnw", S(L), "up", S(L)]),
        ("single-outage", ["up", S(L), "bg %d" % (3 * L), "waithanded %d" % (L // 2), "down", "waithanded %d" % L, "up",
                           "join", S(L // 2)]),
        ("repeated-outages", ["up", "bg %d" % (4 * L)] + ["waithanded %d" % (L // 2), "down", "waithanded %d" % (L // 2), "up"] * 3
         + ["join", S(L // 4)]),
        ("outage-during-unspooling", ["up", S(L // 2), "down", S(L), "backlog %d" % (L // 2), "upnw", "unspooling", "downnw",
                                      S(L // 2), "sleep 120", "up", S(L // 4)]),
        ("cut-connections", ["up", "bg %d" % (3 * L), "waithanded %d" % (L // 2), "closeconns", "waithanded %d" % (L // 2),
                             "closeconns", "join"]),
        # small conn.In: unspooling plus live traffic overflow it; the drops must be counted (slow_conn) and gate the unspooling
        ("unspool-into-small-connbuf", ["up", S(L // 2), "down", S(L), "up", S(L), "settle", S(L // 2)]),
        ("traffic-only-while-down", ["up", "down", S(L), "up", "settle", "down", S(L), "up"]),
        ("f10-gated-redo-race", ["up", S(200), "settle", "f10", S(100), "up", S(100)]),
        # lines written before a keepSafe rotation (old generation) and after it (recent generation), none read by the
        # endpoint, then the connection is reset: all must come back through redo (keep period = KEEPSAFE_MS)
        ("keepsafe-old-generation", ["mode blackhole", "up", "connage %d" % (KEEPSAFE_MS - 600), S(150),
                                     "connage %d" % (KEEPSAFE_MS + 500), S(50), "down", "mode healthy", "up", S(20)]),
    ]
    scns = []
    for i, (name, steps) in enumerate(named):
        s = dict(base, id=i + 1, name=name, steps=steps)
        if name == "f10-gated-redo-race":
            s["connbuf"] = 1000
        if name == "unspool-into-small-connbuf":
            s["connbuf"] = 20
            s["pause_us"] = 0
        if name == "outage-during-unspooling":
            s["unspool_us"] = 500
        scns.append(s)
    # dead-send (hook-gated, see dsGate in the driver): the connection dies after the relay's aliveness check at the
    # top of an iteration but before that iteration hands its line over, and conn.In cannot take the line (writer
    # held with a line in its hand, In full / unbuffered).  The line comes from dest.In or from the spool.
    for src in ("in", "unspool"):
        for cb in (0, 1, 2):
            # nothing is delivered before the gate: a line that is delivered and later also dropped-and-counted as a redo
            # duplicate would loosen the bound by one and could hide the one line the gate is about
            if src == "in":
                steps = ["up", "dsarm in", "dshold 50", S(cb + 1), "dswait", S(5), "up", S(5)]
            else:
                steps = ["up", "down", S(cb + (40 if cb == 0 else 8)), "backlog %d" % (cb + 3),
                         "dsarm unspool", "up", "dswait", S(5), "up", S(5)]
            s = dict(base, id=len(scns) + 1, name="deadsend-%s-cb%d" % (src, cb), steps=steps, connbuf=cb, unspool_us=200)
            scns.append(s)
    # spool files that roll during the outage (the default file size limit of the other scenarios, 4 MiB, is never reached):
    # the limit is k records of a three-digit-id line plus `align` bytes; with align = 0 every file filled with such lines ends
    # exactly at the limit (the writer then puts one more record into it), with +-1 / +7 it is straddled.  The backlog spans
    # many files, so the reader is files behind the writer when the endpoint comes back; small sync intervals included.
    for k, align, se in ((4, 0, 10000), (1, 0, 1), (7, 0, 3), (4, 1, 10000), (3, -1, 2), (5, 7, 10000)):
        n1 = 99                 # ids 1..99 delivered before the outage (shorter lines; redone lines of this kind only blur the first file)
        nsp = 500 if q else 880  # ids 100.. spooled during the outage: all of one length
        steps = ["up", S(n1), "settle", "down", S(nsp), "backlog %d" % (nsp // 2), "up", "settle", S(50),
                 "down", S(250), "backlog 100", "up", S(50)]
        s = dict(base, id=len(scns) + 1, name="spoolroll-k%d-a%d-s%d" % (k, align, se), steps=steps, spool_recs=k, spool_align=align,
                 spool_syncevery=se, spoolbuf=rng.choice([0, 10, 10000]), unspool_us=rng.choice([1, 50]))
        scns.append(s)
    # high volume inside one keep period: 260 000 lines are written to a connection whose io buffer holds them all (no
    # periodic flush), so none has reached the endpoint when it goes away: every one of them is in flight, keepSafe is
    # the only place that still has them, and all must come back through redo ("at least the last keep period" has no
    # bound on the number of lines)
    s = dict(base, id=len(scns) + 1, name="keepsafe-high-volume", iobuf=64_000_000, flush_ms=3_600_000, pause_us=0, burst=0,
             spoolbuf=10000, steps=["up", S(260000), "down", "up", S(20)])
    scns.append(s)
    # seeded random schedules; small buffers included
    nrand = 3 if q else 24
    for j in range(nrand):
        steps = []
        up = rng.random() < 0.7
        steps.append("up" if up else S(rng.randint(1, L)))
        steps.append("bg %d" % (rng.randint(2, 5) * L))
        for _ in range(rng.randint(2, 6)):
            steps.append("waithanded %d" % rng.randint(1, L))
            r = rng.random()
            if up:
                if r < 0.25:
                    steps.append("closeconns")
                else:
                    steps.append(rng.choice(["down", "downnw"]))
                    up = False
            else:
                steps.append(rng.choice(["up", "upnw"]))
                up = True
            if rng.random() < 0.3:
                steps.append("sleep %d" % rng.randint(1, 150))
        steps.append("join")
        s = dict(base, id=len(scns) + 1, name="random-%d" % j, steps=steps)
        s["connbuf"] = rng.choice([100, 1000, 30000])
        s["iobuf"] = rng.choice([256, 4096, 2_000_000])
        s["flush_ms"] = rng.choice([2, 10, 100])
        s["spoolbuf"] = rng.choice([100, 10000])
        s["unspool_us"] = rng.choice([1, 1, 50])
        scns.append(s)
    for s in scns:
        tot = 0
        for st in s["steps"]:
            p = st.split()
            if p[0] in ("send", "bg", "dshold"):
                tot += int(p[1])
        s["nmax"] = tot + 10
    return scns
