"""C09 — the disk spool queue is an exact persistent FIFO across clean restarts."""
import re, json, random
from checks import dqlib
from vlib.core import Machinery

LEVEL = "model_checking"


def conc_close(ctx):
    import os
    tf = os.path.join(ctx.out, "c09_conc_trace.ndjson")
    nh = ctx.pick(10, 80)
    res = ctx.go_test("dq", run="^TestDQConcurrent$", timeout=ctx.pick(900, 3000), expect_ok=False,
                      env=dict(VERIF_DQC_TRACE=tf, VERIF_DQC_HISTORIES=nh))
    events = ctx.read_ndjson(tf) if os.path.exists(tf) else []
    if res["rc"] != 0:
        if panic_in_repo(res["text"]):
            ctx.violation("queue-panics conc-close", "the queue panicked while being closed under an attached consumer", dict(tail=res["text"][-2000:]))
            return
        raise Machinery("dq concurrent driver failed (rc=%s); log %s\n%s" % (res["rc"], res["log"], res["text"][-2000:]))
    if not events or events[-1]["ev"] != "end":
        raise Machinery("dq concurrent driver result is incomplete")
    events = events[:-1]
    hmeta = {e["h"]: e for e in events if e["ev"] == "hist"}
    cyc = [e for e in events if e["ev"] == "cycle"]

    def on_reject(block, idx):
        ev = block[idx]
        hm = hmeta.get(block[0]["h"], {})
        about = "queue closed and reopened %s times under an attached consumer (maxBytesPerFile=%s syncEvery=%s, %s messages)" % (
            hm.get("cycles"), hm.get("maxbytes"), hm.get("syncevery"), hm.get("total"))
        ntk = sum(1 for r in block[:idx] if r["ev"] == "take")
        if ev["ev"] == "take":
            sig = "fifo-take conc-close"
            what = "%s: delivery #%d is message %s (0 = not the expected bytes), expected message %d: lost or delivered again across close/reopen" % (
                about, ntk + 1, ev.get("id"), ntk + 1)
        elif ev["ev"] == "depth":
            nput = sum(1 for r in block[:idx] if r["ev"] == "put")
            sig = "depth-at-rest conc-close"
            what = "%s: Depth() after a reopen = %s, but %d messages were accepted by Put and %d received by the consumer" % (about, ev.get("v"), nput, ntk)
        elif ev["ev"] == "bad":
            sig, what = "queue-hangs-or-errors conc-close", "%s: %s" % (about, json.dumps(ev.get("detail")))
        else:
            sig, what = "contract-event conc-close " + ev["ev"], "%s: event %s rejected" % (about, json.dumps(ev))
        ctx.violation(sig, what, dict(history=hm, prefix=block[max(0, idx - 12):idx + 1]))

    ntr, nrej = dqlib.validate_level_a(ctx, [e for e in events if e["ev"] != "cycle"], False, True, on_reject, max_rounds=6)
    inflight = [c for c in cyc if c["producer_in_flight"]]
    busy = [c for c in cyc if c["takes"] >= 50]
    if (len(busy) < nh or not inflight) and not ctx.violations:
        raise Machinery("conc-close: too few cycles closed under a busy consumer (%d) / with a producer in flight (%d)" % (len(busy), len(inflight)))
    ctx.cov["close_under_attached_consumer"] = dict(histories=nh, cycles=len(cyc), cycles_with_50_or_more_deliveries=len(busy),
                                                    cycles_closed_with_producer_in_flight=len(inflight),
                                                    messages=sum(c["puts"] for c in cyc), rejected=nrej)


def panic_in_repo(text):
    """a Go panic / fatal error whose panicking goroutine is inside the repository's code (a panic raised by the
    harness itself is a fault of the machinery, never a verdict)"""
    m = re.search(r"(?:^|\n)(?:panic:|fatal error:)", text)
    if not m:
        return False
    rest = text[m.start():]
    g = re.search(r"\ngoroutine \d+ \[running\]:\n(.*?)(?:\n\n|$)", rest, re.S)
    frames = [l for l in (g.group(1) if g else rest).splitlines() if l and not l.startswith("\t")]
    frames = [f for f in frames if not f.startswith(("panic(", "runtime.", "testing.", "sync.", "internal/"))]
    return bool(frames) and "github.com/grafana/carbon-relay-ng/" in frames[0]


def run(ctx):
    q = ctx.quick()
    import os
    if os.environ.get("VERIF_C09_ONLY") == "conc":      # development aid: only the attached-consumer family
        conc_close(ctx)
        return
    # 1. exhaustive: no crash, reopen between any two operations, sizes from 1 cell to > segment
    if q:
        grid = [dict(MaxFile=3, SyncEvery=2, Sizes={1, 2, 4}, MaxPuts=4, MaxCrashes=0),
                dict(MaxFile=1, SyncEvery=7, Sizes={1, 3}, MaxPuts=4, MaxCrashes=0)]
    else:
        grid = [dict(MaxFile=mf, SyncEvery=se, Sizes={1, 2, 4}, MaxPuts=5, MaxCrashes=0)
                for mf in (1, 3, 6) for se in (1, 2, 7)]
    dqlib.mc_grid(ctx, grid)

    # a Close() that persists the metadata before the loop has stopped (takes and puts in between are then not covered)
    # is rejected: the reopened queue hands out again what the consumer already has / forgets what Put accepted
    r = ctx.tlc("DiskQueue", "DiskQueue_mc.cfg", consts=dict(MaxFile=3, SyncEvery=2, Sizes={1, 2}, MaxPuts=3, MaxCrashes=0, AllowReopen=True,
                                                              AllowTick=True, PostPuts=1, Mutant="close_sync_before_exit"),
                expect_ok=False, count=False, tag="nv_close_sync")
    if r["violated"] not in ("C09Fifo", "C09Depth", "C09DepthRest", "GenIdle"):
        raise Machinery("deviation close_sync_before_exit is not rejected by the queue model (violated=%s): vacuity" % r["violated"])
    r = ctx.tlc("DiskQueue", "DiskQueue_mc.cfg", consts=dict(MaxFile=2, SyncEvery=2, Sizes={1, 2}, MaxPuts=4, MaxCrashes=0, AllowReopen=False,
                                                              AllowTick=True, PostPuts=1, Mutant="reader_roll_ge_behind"),
                expect_ok=False, count=False, tag="nv_reader_roll")
    if r["violated"] not in ("C09Fifo", "C09Depth", "C09DepthRest", "NoSkip"):
        raise Machinery("deviation reader_roll_ge_behind is not rejected by the queue model (violated=%s): vacuity" % r["violated"])

    # 2. histories
    rng = random.Random(ctx.seed)
    pool = rng.sample(dqlib.UNIT_SETTINGS, 3)
    hists = []
    ops_all = dqlib.gen_histories(ctx, ctx.pick(5, 6), [1, 2, 4], only_full=True)
    settings = [(3, 2), (1, 7), (2, 1)] if q else [(3, 2), (1, 7), (2, 1), (6, 3), (1, 1), (4, 1000)]
    for si, (mf, se) in enumerate(settings):
        for i, ops in enumerate(ops_all):
            if (i + si + ctx.seed) % 6 == 0:
                hists.append(dqlib.unit_history(len(hists), ops, mf, se, False))
    nshort = len(hists)
    for i in range(ctx.pick(30, 200)):
        hists.append(dqlib.random_history(rng, len(hists), rng.choice([100, 200] if q else [500, 1500]), False,
                                          unit_scaled=(i % 2 == 0), pool=pool))
    ctx.log("histories: %d exhaustive-short + %d random" % (nshort, len(hists) - nshort))

    # 3. the real queue
    events, crashed = dqlib.run_driver(ctx, hists, "c09", levelb=True, timeout=ctx.pick(1500, 6000))
    if crashed:
        ctx.violation("queue-panics", "the queue panicked while running a clean history", crashed)
        ctx.sample(dict(panic=crashed["tail"][-300:]))
        return
    ntake = sum(1 for e in events if e["ev"] == "hook" and e["label"] == "take")
    nput = sum(1 for e in events if e["ev"] == "hook" and e["label"] == "w_write")
    if ntake == 0 or nput == 0:
        raise Machinery("dead driver: no put/take hook events")

    # 4. level A decides
    def on_reject(block, idx):
        ev = block[idx]
        h = block[0]["h"]
        kind = ev["ev"]
        if kind == "take":
            sig, what = "fifo-take", "take delivered message id %s (0 = not the expected bytes) out of FIFO order" % ev.get("id")
        elif kind == "depth":
            sig, what = "depth-at-rest", "Depth() at rest = %s differs from enqueued - delivered" % ev.get("v")
        elif kind == "bad":
            sig, what = "queue-hangs-or-errors", "operation hung or returned an error: %s" % json.dumps(ev.get("detail"))
        else:
            sig, what = "contract-event " + kind, "event %s rejected" % json.dumps(ev)
        ctx.violation(sig, what, dict(history=hists[h], prefix=block[:idx + 1][-30:]))

    ntr, nrej = dqlib.validate_level_a(ctx, events, False, True, on_reject)

    # 4b. close and reopen under an attached consumer (and, every other cycle, a producer in flight): what the spool does
    conc_close(ctx)

    # 5. level B binds DiskQueue.tla to the code
    nh, nev, okb = dqlib.validate_level_b(ctx, events, hists)

    dqlib.selftest_binding(ctx, events, hists)

    cov = ctx.cov
    cov["evaluations"] = nput + ntake
    distinct = set()
    for h in hists:
        distinct.add(json.dumps([h["maxbytes"], h["syncevery"], h["ops"]]))
    cov["distinct_nontrivial"] = len(distinct)
    cov["levelB_histories"] = nh
    cov["levelB_events"] = nev
    cov["levelB_accepted"] = okb
    cov["rule"] = ("histories = TLC-enumerated put/take/reopen sequences of the contract (length %d, 3 size classes incl. one "
                   "larger than the segment) x settings %s + seeded random histories of 100-2000 ops with byte sizes "
                   "0..3x segment, maxBytesPerFile from 1, syncEvery from 1; every take/depth event decided by "
                   "QueueContractTrace.tla; distinct = distinct (setting, op list)" % (ctx.pick(5, 6), settings))
    h0 = hists[nshort] if len(hists) > nshort else hists[0]
    ctx.sample(dict(maxbytes=h0["maxbytes"], syncevery=h0["syncevery"], first_ops=h0["ops"][:12]))
    ctx.sample(dict(maxbytes=hists[0]["maxbytes"], syncevery=hists[0]["syncevery"], ops=hists[0]["ops"]))
    ctx.assumptions += ["one blocking client call at a time; sync ticker disabled (1h) so syncs are the counted ones",
                        "'at rest' = Depth() polled until it shows the expected value or 5 s pass"]
    cov["trusted_base"] = ["TLC", "harness/dq driver (records only)"]
