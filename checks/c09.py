"""C09 — the disk spool queue is an exact persistent FIFO across clean restarts."""
import json, random
from checks import dqlib
from vlib.core import Machinery

LEVEL = "model_checking"


def run(ctx):
    q = ctx.quick()
    # 1. exhaustive: no crash, reopen between any two operations, sizes from 1 cell to > segment
    if q:
        grid = [dict(MaxFile=3, SyncEvery=2, Sizes={1, 2, 4}, MaxPuts=4, MaxCrashes=0),
                dict(MaxFile=1, SyncEvery=7, Sizes={1, 3}, MaxPuts=4, MaxCrashes=0)]
    else:
        grid = [dict(MaxFile=mf, SyncEvery=se, Sizes={1, 2, 4}, MaxPuts=5, MaxCrashes=0)
                for mf in (1, 3, 6) for se in (1, 2, 7)]
    dqlib.mc_grid(ctx, grid)

    # 2. histories
    rng = random.Random(ctx.seed)
    pool = rng.sample(dqlib.UNIT_SETTINGS, 3)
    hists = []
    ops_all = dqlib.gen_histories(ctx, ctx.pick(5, 6), [1, 2, 4], only_full=True)
    settings = [(3, 2), (1, 7), (2, 1)] if q else [(3, 2), (1, 7), (2, 1), (6, 3), (1, 1), (4, 1000)]
    for si, (mf, se) in enumerate(settings):
        for i, ops in enumerate(ops_all):
            if (i + si + ctx.seed) % 6 == 0:
                hists.append(dqlib.unit_history(len(hists), ops, mf, se, False))
    nshort = len(hists)
    for i in range(ctx.pick(30, 200)):
        hists.append(dqlib.random_history(rng, len(hists), rng.choice([100, 200] if q else [500, 1500]), False,
                                          unit_scaled=(i % 2 == 0), pool=pool))
    ctx.log("histories: %d exhaustive-short + %d random" % (nshort, len(hists) - nshort))

    # 3. the real queue
    events, crashed = dqlib.run_driver(ctx, hists, "c09", levelb=True, timeout=ctx.pick(1500, 6000))
    if crashed:
        ctx.violation("queue-panics", "the queue panicked while running a clean history", crashed)
        ctx.sample(dict(panic=crashed["tail"][-300:]))
        return
    ntake = sum(1 for e in events if e["ev"] == "hook" and e["label"] == "take")
    nput = sum(1 for e in events if e["ev"] == "hook" and e["label"] == "w_write")
    if ntake == 0 or nput == 0:
        raise Machinery("dead driver: no put/take hook events")

    # 4. level A decides
    def on_reject(block, idx):
        ev = block[idx]
        h = block[0]["h"]
        kind = ev["ev"]
        if kind == "take":
            sig, what = "fifo-take", "take delivered message id %s (0 = not the expected bytes) out of FIFO order" % ev.get("id")
        elif kind == "depth":
            sig, what = "depth-at-rest", "Depth() at rest = %s differs from enqueued - delivered" % ev.get("v")
        elif kind == "bad":
            sig, what = "queue-hangs-or-errors", "operation hung or returned an error: %s" % json.dumps(ev.get("detail"))
        else:
            sig, what = "contract-event " + kind, "event %s rejected" % json.dumps(ev)
        ctx.violation(sig, what, dict(history=hists[h], prefix=block[:idx + 1][-30:]))

    ntr, nrej = dqlib.validate_level_a(ctx, events, False, True, on_reject)

    # 5. level B binds DiskQueue.tla to the code
    nh, nev, okb = dqlib.validate_level_b(ctx, events, hists)

    dqlib.selftest_binding(ctx, events, hists)

    cov = ctx.cov
    cov["evaluations"] = nput + ntake
    distinct = set()
    for h in hists:
        distinct.add(json.dumps([h["maxbytes"], h["syncevery"], h["ops"]]))
    cov["distinct_nontrivial"] = len(distinct)
    cov["levelB_histories"] = nh
    cov["levelB_events"] = nev
    cov["levelB_accepted"] = okb
    cov["rule"] = ("histories = TLC-enumerated put/take/reopen sequences of the contract (length %d, 3 size classes incl. one "
                   "larger than the segment) x settings %s + seeded random histories of 100-2000 ops with byte sizes "
                   "0..3x segment, maxBytesPerFile from 1, syncEvery from 1; every take/depth event decided by "
                   "QueueContractTrace.tla; distinct = distinct (setting, op list)" % (ctx.pick(5, 6), settings))
    h0 = hists[nshort] if len(hists) > nshort else hists[0]
    ctx.sample(dict(maxbytes=h0["maxbytes"], syncevery=h0["syncevery"], first_ops=h0["ops"][:12]))
    ctx.sample(dict(maxbytes=hists[0]["maxbytes"], syncevery=hists[0]["syncevery"], ops=hists[0]["ops"]))
    ctx.assumptions += ["one blocking client call at a time; sync ticker disabled (1h) so syncs are the counted ones",
                        "'at rest' = Depth() polled until it shows the expected value or 5 s pass"]
    cov["trusted_base"] = ["TLC", "harness/dq driver (records only)"]
