"""C15 — consistent hashing agrees with Carbon and moves only the keys it must.

1. TLC model-checks spec/HashRing.tla: every assignment of ring positions (collisions, ties, wrap),
   every listing order, every add/remove/update-address history of a small node universe; named
   deviations (bisect-right, sort by position only, stale ring, stale ring after an address update on
   the same host, no wrap, modulo hashing) must violate.
2. harness/ring drives real route.ConsistentHashing routes (100 replicas, no spool): destinations on
   refusing addresses (a line is observed through the destination's drop counters after a Flush()
   barrier) and on loopback listeners owned by the driver (a line is observed at the listener the
   destination is configured for; sentinel barrier per connection).  Membership changes: Add,
   DelDestination, and UpdateDestination(addr=...) to another instance on the same host, to another
   host, to another port of the same (host, instance), and to an address that refuses (not taken over
   by Destination.updateConn).  After every change the ring (hook VerifRing) and the destination list
   are recorded, then every key is dispatched.
3. Ring positions of every destination and of every key are computed independently by
   tools/carbon_ring.py (MD5 cannot be modelled) and enter spec/HashRingTrace.tla as data; TLC
   decides every ring, every lookup and every movement with HashRingOps.tla.
"""
import copy, json, os, random, sys, threading
from vlib.core import Machinery, VERIF

sys.path.insert(0, os.path.join(VERIF, "tools"))
import carbon_ring  # noqa: E402

LEVEL = "model_checking"
INVS = ["TypeOK", "AgreesWithCarbon", "OrderIndependent", "ExactlyOne", "AddMovesOnlyToNew",
        "RemoveMovesOnlyOwned", "UpdateMovesOnlyBetween", "MovesB"]
STALE = {"AgreesWithCarbon", "ExactlyOne", "MovesB"}


# ------------------------------------------------------------------ model checking
def model_check(ctx):
    # WithUpd = histories with address updates next to add/remove (a much larger space): quick checks the
    # add/remove space of n3/P3 as before and the update space for fewer positions; thorough all with updates
    if ctx.quick():
        grid = [dict(Shape="n3", R=2, P=3, WithUpd=False), dict(Shape="n3", R=2, P=2, WithUpd=True),
                dict(Shape="n2", R=3, P=4, WithUpd=True)]
    else:
        grid = [dict(Shape="n3", R=2, P=4), dict(Shape="n2", R=3, P=5), dict(Shape="n4", R=2, P=3),
                dict(Shape="n4i", R=2, P=3), dict(Shape="n3", R=3, P=3)]
        grid = [dict(c, WithUpd=True) for c in grid]
    for c in grid:
        ctx.tlc("HashRing", "HashRing_mc.cfg", consts=dict(c, Dev="none"), workers=6, timeout=3000)
    # non-vacuity: each deviation is rejected by the invariant it is about
    expect = dict(bisect_right={"AgreesWithCarbon"}, sort_pos_only={"AgreesWithCarbon", "OrderIndependent"},
                  stale_ring=STALE, stale_ring_on_same_host=STALE, no_wrap={"AgreesWithCarbon"},
                  mod_n={"AddMovesOnlyToNew", "RemoveMovesOnlyOwned", "UpdateMovesOnlyBetween", "AgreesWithCarbon", "MovesB"})
    caught = {}
    if ctx.quick():
        expect = {k: expect[k] for k in ("bisect_right", "sort_pos_only", "stale_ring_on_same_host")}
    for dev, invs in expect.items():
        upd = dev == "stale_ring_on_same_host" or not ctx.quick()
        r = ctx.tlc("HashRing", "HashRing_mc.cfg", consts=dict(Shape="n3", R=2, P=3, WithUpd=upd, Dev=dev), workers=4,
                    expect_ok=False, count=False, timeout=1200)
        if r["violated"] not in invs:
            raise Machinery("deviation %s is not rejected by the model invariants (violated=%s; vacuity); log %s" % (
                dev, r["violated"], r["log"]))
        caught[dev] = r["violated"]
    # the movement invariants on their own (mod_n also breaks agreement with Carbon)
    cfg = "SPECIFICATION Spec\nINVARIANTS AddMovesOnlyToNew RemoveMovesOnlyOwned UpdateMovesOnlyBetween\nCHECK_DEADLOCK FALSE\n"
    with open(os.path.join(ctx.specdir(), "HashRing_moves.cfg"), "w") as f:
        f.write(cfg)
    r = ctx.tlc("HashRing", "HashRing_moves.cfg", consts=dict(Shape="n3", R=2, P=3, WithUpd=not ctx.quick(), Dev="mod_n"), workers=4,
                expect_ok=False, count=False, timeout=1200)
    if r["violated"] not in ("AddMovesOnlyToNew", "RemoveMovesOnlyOwned", "UpdateMovesOnlyBetween"):
        raise Machinery("modulo hashing does not violate the minimal-movement invariants (vacuity); log %s" % r["log"])
    caught["mod_n(moves)"] = r["violated"]
    # ... and the one about address updates alone: with modulo hashing over the sorted member set an update
    # moves a key between two uninvolved nodes only when 4 of 5 nodes are members ([1,2,3,5] -> [2,3,4,5])
    with open(os.path.join(ctx.specdir(), "HashRing_updmoves.cfg"), "w") as f:
        f.write("SPECIFICATION Spec\nINVARIANTS UpdateMovesOnlyBetween\nCHECK_DEADLOCK FALSE\n")
    r = ctx.tlc("HashRing", "HashRing_updmoves.cfg", consts=dict(Shape="n5", R=1, P=2, WithUpd=True, Dev="mod_n"), workers=4,
                expect_ok=False, count=False, timeout=1200)
    if r["violated"] != "UpdateMovesOnlyBetween":
        raise Machinery("modulo hashing does not violate UpdateMovesOnlyBetween (vacuity); log %s" % r["log"])
    caught["mod_n(update moves)"] = r["violated"]
    ctx.cov["deviations_rejected"] = caught


# ------------------------------------------------------------------ scenarios
_pos2name = {}


def names_by_position():
    """a name for (almost) every 16-bit position, to aim keys at chosen positions"""
    if not _pos2name:
        i = 0
        while len(_pos2name) < 65000 and i < 900000:
            n = "c15.aim.%d" % i
            _pos2name.setdefault(carbon_ring.compute_ring_position(n), n)
            i += 1
    return _pos2name


def addr_of(host, port, inst):
    if port is None:
        return host
    h = "[%s]" % host if ":" in host else host         # an IPv6 server is written in brackets (carbon: parseDestination)
    return "%s:%d" % (h, port) if inst is None else "%s:%d:%s" % (h, port, inst)


V6 = ("::1", "::ffff:127.0.0.2", "::ffff:127.0.0.11")      # loopback and IPv4-mapped loopback: dials are refused at once


LOOP = ("127.0.0.1", "127.0.0.11", "127.0.0.2", "127.1.2.3", "127.0.0.12")
INSTS = ["a", "b", "c", "aa", "ab", "b1", "1", "2", "10", "z", "A"]


def mknode(nodes, host, inst, port, listen):
    nd = dict(id=len(nodes) + 1, host=host, inst=inst, port=port, listen=listen,
              addr=addr_of(host, port, inst) if not listen else "",
              show=addr_of(host, port, inst) if not listen else "%s:<L%d>%s" % (host, listen, ":" + inst if inst else ""),
              pos=carbon_ring.node_positions(host, inst))
    nodes.append(nd)
    return nd


def gen_universe(rng, engineered):
    """destinations with distinct (host, instance): bare hosts, host:port, host:port:instance;
    several instances on one host; hosts that are prefixes of each other.  Nodes with listen = 0
    refuse connections (loopback ports < 10, or no port at all => dial error); nodes with
    listen = g > 0 are served by a loopback listener of the driver (its own port; a second port
    for port-only updates), among them 2-3 that mostly share the host of another node: the
    addresses destinations are updated to."""
    n = rng.randint(2, 9)
    hosts = ["127.0.0.1", "127.0.0.11", "127.0.0.2", "127.1.2.3", "carbon", "carbon-a", "carbon-a1", "10.0.0.1",
             "graphite.example.com", "127.0.0.12"]
    rng.shuffle(hosts)
    hosts = hosts[:rng.randint(1, min(4, n))]
    if rng.random() < 0.3:
        # IPv6 servers: carbon's (server, instance) pair has the address without brackets and port
        hosts[rng.randrange(len(hosts)):] = rng.sample(V6, rng.randint(1, 2))
    if not any(h in LOOP for h in hosts):
        hosts[rng.randrange(len(hosts))] = rng.choice(LOOP)
    nodes, seen = [], set()
    groups = 0
    tries = 0
    while len(nodes) < n and tries < 1000:
        tries += 1
        host = rng.choice(hosts)
        numeric = host[0].isdigit() and host.startswith("127.")
        form = rng.choice(["bare", "port", "inst", "inst"]) if numeric else "bare"
        if host in V6:
            form = rng.choice(["port", "inst", "inst"])
        port = None if form == "bare" else rng.choice([1, 2, 3, 7, 9])
        inst = None
        if form == "inst":
            inst = rng.choice(INSTS)
            if engineered and nodes and rng.random() < 0.7:
                # aim an instance name at a collision with a replica of an earlier node
                target = set(rng.choice(nodes)["pos"])
                for j in range(200):
                    cand = "%s%d" % (inst, j)
                    if (host, cand) not in seen and target & set(carbon_ring.node_positions(host, cand)):
                        inst = cand
                        break
        if (host, inst) in seen:
            continue
        seen.add((host, inst))
        listen = 0
        if host in LOOP and form != "bare" and rng.random() < 0.3:
            groups += 1
            listen = groups
        mknode(nodes, host, inst, port, listen)
    if len(nodes) < 2:
        return gen_universe(rng, engineered)
    for t in range(rng.randint(2, 3)):
        same = [nd["host"] for nd in nodes if nd["host"] in LOOP]
        if t == 1:
            # one target on another host than the first
            host = rng.choice([h for h in LOOP if h != nodes[-1]["host"]])
        else:
            host = rng.choice(same) if same and (t == 0 or rng.random() < 0.6) else rng.choice(LOOP)
        free = [i for i in INSTS + [None] if (host, i) not in seen]
        inst = rng.choice(free)
        seen.add((host, inst))
        groups += 1
        mknode(nodes, host, inst, None, groups)
    return nodes


def gen_keys(rng, nodes, nkeys, tag):
    p2n = names_by_position()
    words = ["servers", "web", "db", "cpu", "load", "mem", "free", "collectd", "stats", "count", "eu-west", "p99"]
    keys = []
    allpos = sorted(set(p for nd in nodes for p in nd["pos"]))
    byp = {}
    for nd in nodes:
        for p in nd["pos"]:
            byp.setdefault(p, set()).add(nd["id"])
    coll = [p for p, s in byp.items() if len(s) > 1]
    aimed = []
    # positions shared by replicas of different nodes, the positions just before/after, entry
    # positions themselves (bisect-left vs right), both ends of the ring (wrap-around)
    for p in coll:
        aimed += [p, p - 1, p + 1]
        i = allpos.index(p)
        if i > 0:
            aimed.append(allpos[i - 1] + 1)
    aimed += [0, 1, 65535, 65534, allpos[0], allpos[0] - 1, allpos[-1], allpos[-1] + 1]
    aimed += rng.sample(allpos, min(len(allpos), max(8, nkeys // 10)))
    for p in aimed:
        if 0 <= p <= 65535 and p in p2n and len(keys) < nkeys // 2:
            keys.append(p2n[p])
    keys = list(dict.fromkeys(keys))
    i = 0
    while len(keys) < nkeys:
        i += 1
        style = rng.random()
        if style < 0.15:
            k = "%s.%d;dc=%s;host=h%d" % (rng.choice(words), i, rng.choice(words), rng.randint(1, 99))
        else:
            k = "%s.%s.%s%d.%s" % (tag, rng.choice(words), rng.choice(words), i, rng.choice(words))
        keys.append(k)
    rng.shuffle(keys)
    return keys


UPD_CLASSES = ("same-host-other-instance", "other-host", "port-only", "refused")
PROBE = "same-hostport-other-instance"


def upd_candidates(nodes, cur):
    """(slot, node, alt, class) for every address update possible now"""
    byid = {nd["id"]: nd for nd in nodes}
    members = set(m["node"] for m in cur)
    out = []
    for slot, m in enumerate(cur):
        old = byid[m["node"]]
        for nd in nodes:
            if nd["id"] == old["id"]:
                if nd["listen"]:
                    out.append((slot, nd["id"], 1 - m["alt"], "port-only"))
            elif nd["id"] not in members:
                if not nd["listen"]:
                    out.append((slot, nd["id"], 0, "refused"))
                else:
                    out.append((slot, nd["id"], 0, "same-host-other-instance" if nd["host"] == old["host"] else "other-host"))
    return out


def mkhist(ctx, hists, nodes, members, ops, keys, tag="", probe=""):
    h = len(hists)
    hists.append(dict(h=h, route="c15_%d_%d_%d%s" % (ctx.seed, os.getpid() % 100000, h, tag),
                      nodes=[dict(id=nd["id"], addr=nd["addr"], host=nd["host"], inst=nd["inst"] or "", listen=nd["listen"])
                             for nd in nodes],
                      init=members, ops=ops, keys=keys, _nodes=nodes, _probe=probe))
    return hists[-1]


def gen_histories(ctx, rng, nsets, orders, nkeys, nops, engineered_share=0.5, hists=None):
    hists = [] if hists is None else hists
    for s in range(nsets):
        nodes = gen_universe(rng, engineered=(rng.random() < engineered_share))
        keys = gen_keys(rng, nodes, nkeys, "c15.s%d" % s)
        ids = [nd["id"] for nd in nodes]
        m0 = rng.sample(ids, rng.randint(1, len(ids)))
        # make an update to another instance on the same host possible right away: a member x and a
        # listening non-member t on the same host
        pairs = [(x, t) for x in nodes for t in nodes if t["listen"] and x["id"] != t["id"] and x["host"] == t["host"]]
        if pairs:
            x, t = rng.choice(pairs)
            m0 = [i for i in m0 if i != t["id"]]
            if x["id"] not in m0:
                m0.append(x["id"])
        for o in range(orders):
            members = list(m0)
            rng.shuffle(members)
            cur = [dict(node=i, alt=0) for i in members]
            ops = []
            removed = []
            for step in range(nops):
                non = [i for i in ids if i not in [m["node"] for m in cur]]
                cands = upd_candidates(nodes, cur)
                # the first change of the listing orders 0, 1, 2 of a node set: an update to another
                # instance on the same host, to another host, to another port (when there is one)
                first = [c for c in cands if c[3] == UPD_CLASSES[o % 3]]
                if step == 0 and first:
                    cands = first
                elif rng.random() >= 0.3:
                    cands = []
                if cands:
                    cls = rng.choice(sorted(set(c[3] for c in cands), key=UPD_CLASSES.index))
                    slot, nid, alt, cls = rng.choice([c for c in cands if c[3] == cls])
                    ops.append(dict(op="upd", node=nid, slot=slot, alt=alt, cls=cls))
                    if cls != "refused":
                        cur[slot] = dict(node=nid, alt=alt)
                # prefer re-adding a removed destination now and then
                elif non and (len(cur) < 2 or rng.random() < 0.55):
                    nid = rng.choice([i for i in non if i in removed] or non) if rng.random() < 0.5 else rng.choice(non)
                    ops.append(dict(op="add", node=nid, slot=0, alt=0))
                    cur.append(dict(node=nid, alt=0))
                elif len(cur) >= 2:
                    sl = rng.randrange(len(cur))
                    ops.append(dict(op="del", node=0, slot=sl, alt=0))
                    removed.append(cur.pop(sl)["node"])
            mkhist(ctx, hists, nodes, members, ops, keys)
    return hists


def gen_probes(ctx, rng, hists, n, nkeys):
    """the address of a destination is changed to the same host:port with another instance (the
    carbon-cache behind the port was re-configured): two nodes share one listener"""
    forms = [("a", "c"), (None, "b"), ("b", None), ("1", "10")]
    rng.shuffle(forms)
    for k in range(n):
        i0, i1 = forms[k % len(forms)]
        host = rng.choice(LOOP)
        nodes = []
        mknode(nodes, host, i0, None, 1)
        mknode(nodes, host, rng.choice(["x", "y"]), 2, 0)
        mknode(nodes, host, i1, None, 1)
        mknode(nodes, rng.choice(["carbon", "127.1.1.1"]), None, None, 0)
        keys = gen_keys(rng, nodes, nkeys, "c15.p%d" % k)
        init = [1, 2, 4] if k % 2 else [2, 1]
        ops = [dict(op="upd", node=3, slot=init.index(1), alt=0, cls=PROBE),
               dict(op="upd", node=1, slot=init.index(1), alt=0, cls=PROBE)]
        mkhist(ctx, hists, nodes, init, ops, keys, tag="_probe", probe=PROBE)
    return hists


def codes(s):
    return [ord(c) for c in (s or "")]


def hist_event(h):
    return dict(ev="hist", h=h["h"],
                nodes=[dict(host=codes(nd["host"]), inst=codes(nd["inst"]), pos=sorted(nd["pos"])) for nd in h["_nodes"]],
                kpos=[carbon_ring.compute_ring_position(k) for k in h["keys"]])


# ------------------------------------------------------------------ driver + trace
def run_driver(ctx, hists, name, timeout):
    hf = ctx.write_ndjson(name + "_hist.ndjson", [{k: v for k, v in h.items() if not k.startswith("_")} for h in hists])
    tf = os.path.join(ctx.out, name + "_trace.ndjson")
    res = ctx.go_test("ring", run="^TestRing$", timeout=timeout, expect_ok=False,
                      env=dict(VERIF_RING_HIST=hf, VERIF_RING_TRACE=tf))
    events = ctx.read_ndjson(tf) if os.path.exists(tf) else []
    died = None
    if res["rc"] != 0:
        prog = []
        try:
            prog = ctx.read_ndjson("ring_progress.ndjson")
        except Exception:
            pass
        died = dict(log=res["log"], last=prog[-3:], tail=res["text"][-2500:],
                    stuck=("VERIF-STUCK" in res["text"]), panic=("panic:" in res["text"] or "fatal error:" in res["text"]))
        if not died["stuck"] and not died["panic"]:
            raise Machinery("ring driver failed without a panic (rc=%s); log %s\n%s" % (res["rc"], res["log"], res["text"][-2000:]))
    return events, died


def blocks_of(hists, events):
    """per history: the hist line (positions from carbon_ring.py) followed by what the route did"""
    per = {}
    for e in events:
        if "h" in e:
            per.setdefault(e["h"], []).append(e)
    blocks = []
    for h in hists:
        evs = per.get(h["h"], [])
        if not evs:
            continue
        b = [hist_event(h)]
        listening = {nd["id"]: nd["listen"] for nd in h["_nodes"]}
        upds = [o for o in h["ops"] if o["op"] == "upd"]
        nu = 0
        for e in evs:
            ev = e["ev"]
            if ev == "init":
                b.append(dict(ev="init", members=e["members"]))
            elif ev == "add":
                b.append(dict(ev="add", node=e["node"]))
            elif ev == "del":
                b.append(dict(ev="del", slot=e["slot"]))
            elif ev == "upd":
                o = upds[nu]
                nu += 1
                if o["node"] != e["node"] or o["slot"] != e["slot"]:
                    raise Machinery("driver and scenario disagree on update %d of history %d" % (nu, h["h"]))
                info = dict(cls=o["cls"], addr=e.get("addr", ""), was=e.get("from", ""), now=e.get("now", ""),
                            adopted=bool(e.get("adopted")))
                if e.get("err"):
                    b.append(dict(ev="unexpected", what="UpdateDestination failed", detail=json.dumps(e)[:300]))
                elif listening[e["node"]]:
                    # the address accepts connections: the slot now is this node
                    b.append(dict(ev="upd", slot=e["slot"], node=e["node"], info=info))
                else:
                    # the address refuses: Destination.updateConn does not take it over
                    b.append(dict(ev="updno", slot=e["slot"], info=info))
            elif ev == "ring":
                b.append(dict(ev="ring", ndest=e["ndest"], dl=e["dl"], ring=e["ring"]))
            elif ev == "disp":
                if e.get("missed") or e.get("ambiguous") or e.get("flusherrs"):
                    raise Machinery("history %d: the observation of a dispatch batch is void (sentinel not received from "
                                    "destinations %s, ambiguous listener=%s, flush errors=%s)" % (
                                        h["h"], e.get("missed"), e.get("ambiguous"), e.get("flusherrs")))
                if e.get("extra"):
                    raise Machinery("history %d: a listener received %d lines that are no key of the history" % (h["h"], e["extra"]))
                b.append(dict(ev="disp", got=e["got"], nonline=e.get("nonline", 0)))
            elif ev == "end":
                pass
            else:
                b.append(dict(ev="unexpected", what=ev, detail=json.dumps(e)[:300]))
        blocks.append(b)
    return blocks


def tlc_trace(ctx, flat, tag, slot):
    """one TLC run over a trace file in its own scratch copy of spec/ (so that several can run in parallel)"""
    d = ctx.specdir("spec_tr%d" % slot)
    with open(os.path.join(d, "trace.ndjson"), "w") as f:
        for r in flat:
            f.write(json.dumps(r, separators=(",", ":")) + "\n")
    res = ctx.tlc("HashRingTrace", "HashRingTrace.cfg", workers=1, timeout=3000, expect_ok=False, count=False,
                  tag=tag, cwd=d, heap="6g")
    matched = None
    for s in ctx.tlc_printed(res, "@@TRACE"):
        try:
            matched = json.loads(s)["matched"]
        except Exception:
            pass
    if res["timeout"]:
        raise Machinery("trace validation timed out; log %s" % res["log"])
    if matched is None:
        raise Machinery("trace validation gave no verdict; log %s\n%s" % (res["log"], res["text"][-2500:]))
    bad = []
    for s in ctx.tlc_printed(res, "@@BAD"):
        try:
            bad.append(json.loads(s))
        except Exception:
            pass
    ok = res["ok"] and matched == len(flat)
    return ok, matched, bad, res


def validate(ctx, blocks, on_reject, par=1, tagp="tr", max_rounds=12):
    """TLC decides every line; a rejected history is reported and removed, the rest validated again.
    Returns (histories accepted, lines accepted)."""
    groups = [[] for _ in range(par)]
    for i, b in enumerate(blocks):
        groups[i % par].append(b)
    acc = [0, 0]
    errs = []

    def work(gi):
        try:
            bl = list(groups[gi])
            for rnd in range(max_rounds):
                flat = [r for b in bl for r in b]
                if not flat:
                    return
                ok, matched, bad, res = tlc_trace(ctx, flat, "%s%d_%d" % (tagp, gi, rnd), gi)
                if ok:
                    acc[0] += len(bl)
                    acc[1] += len(flat)
                    return
                pos = 0
                for bi, b in enumerate(bl):
                    if matched < pos + len(b):
                        on_reject(b, matched - pos, [x for x in bad if x.get("line") == matched + 1], res)
                        del bl[bi]
                        break
                    pos += len(b)
                else:
                    raise Machinery("matched prefix beyond the trace; log %s" % res["log"])
            ctx.note("more than %d rejected histories in one group; stopped re-validating" % max_rounds)
        except Exception as e:   # noqa
            errs.append(e)

    ths = [threading.Thread(target=work, args=(gi,)) for gi in range(par)]
    for t in ths:
        t.start()
    for t in ths:
        t.join()
    if errs:
        raise errs[0]
    return acc[0], acc[1]


def selftest_binding(ctx, blocks):
    """one corrupted field in an accepted trace must be rejected exactly there"""
    all_blocks = blocks
    # a history that starts with at least two destinations
    blocks = [x for x in blocks if len(x) > 3 and x[1]["ev"] == "init" and len(x[1]["members"]) >= 2][:1] or blocks
    b = copy.deepcopy(blocks[0])
    idx = next(i for i, r in enumerate(b) if r["ev"] == "disp")
    nd = max(r["ndest"] for r in b[:idx] if r["ev"] == "ring")
    if nd < 2:
        raise Machinery("binding self-test: no history starts with two destinations")
    if nd >= 2:
        g = b[idx]["got"][3]
        g[0][0] = (g[0][0] + 1) % nd
        ok, matched, bad, _ = tlc_trace(ctx, b, "selfA", 90)
        if ok or matched != idx or not bad or bad[0].get("key") != 4:
            raise Machinery("binding self-test A failed: wrong destination for key 4 not rejected at line %d (matched %s, %s)" % (idx, matched, bad))
    b = copy.deepcopy(blocks[0])
    idx = next(i for i, r in enumerate(b) if r["ev"] == "ring")
    rg = b[idx]["ring"]
    j = next(j for j in range(len(rg) - 1) if rg[j][0] != rg[j + 1][0])
    rg[j], rg[j + 1] = rg[j + 1], rg[j]
    ok, matched, bad, _ = tlc_trace(ctx, b, "selfB", 91)
    if ok or matched != idx:
        raise Machinery("binding self-test B failed: unsorted ring not rejected at line %d (matched %s)" % (idx, matched))
    b = copy.deepcopy(blocks[0])
    hist = b[0]
    # a key that sits exactly on a ring position whose next entry belongs to another destination:
    # moving the key one position up must change the verdict of the first dispatch
    ring = next(r for r in b if r["ev"] == "ring")["ring"]

    def first_at(p):
        return next((e for e in ring if e[0] >= p), ring[0])
    rpos = set(e[0] for e in ring)
    cands = [i for i, p in enumerate(hist["kpos"]) if p in rpos and p < 65535 and first_at(p)[2] != first_at(p + 1)[2]]
    didx = next(i for i, r in enumerate(b) if r["ev"] == "disp")
    if cands:
        b[0]["kpos"][cands[0]] += 1
        ok, matched, bad, _ = tlc_trace(ctx, b, "selfC", 92)
        if ok or matched != didx:
            raise Machinery("binding self-test C failed: a key position shifted past a ring entry was not rejected at line %d (matched %s)" % (didx, matched))
    else:
        ctx.note("binding self-test C skipped: no key sits on a ring position with a different successor")
    # D: after an address update to another instance on the same host the ring of before the update
    # (what a route that does not re-derive its ring would dispatch with) must be rejected there
    for blk in all_blocks:
        u = next((i for i, r in enumerate(blk) if r["ev"] == "upd" and r["info"]["cls"] == UPD_CLASSES[0]), None)
        if u is None or blk[u + 1]["ev"] != "ring":
            continue
        b = copy.deepcopy(blk)
        before = [r for r in b[:u] if r["ev"] == "ring"][-1]
        b[u + 1]["ring"] = before["ring"]
        ok, matched, bad, _ = tlc_trace(ctx, b, "selfD", 93)
        if ok or matched != u + 1:
            raise Machinery("binding self-test D failed: the stale ring after an address update was not rejected at line %d (matched %s)" % (u + 1, matched))
        break
    else:
        raise Machinery("binding self-test D: no accepted history with an address update to another instance on the same host")
    ctx.cov["binding_selftests"] = "passed"


# ------------------------------------------------------------------ main
def run(ctx):
    carbon_ring.selftest()
    model_check(ctx)

    rng = random.Random(ctx.seed * 7919 + 15)
    q = ctx.quick()
    # quick: 6 node sets x 3 listing orders x (1 + 4 changes) x 400 keys, 1 history with 5000 keys,
    # 2 probe histories (address update to the same host:port with another instance)
    hists = gen_histories(ctx, rng, ctx.pick(6, 30), 3, ctx.pick(400, 1000), ctx.pick(4, 6))
    nsmall = len(hists)
    gen_histories(ctx, rng, ctx.pick(1, 2), 1, ctx.pick(5000, 50000), ctx.pick(2, 3), engineered_share=1.0, hists=hists)
    for b in hists[nsmall:]:
        b["route"] += "_big"
    gen_probes(ctx, rng, hists, ctx.pick(2, 4), 200)
    for h in hists:
        if len(set(h["keys"])) != len(h["keys"]):
            raise Machinery("history %d: duplicate key names (lines at a listener are attributed by name)" % h["h"])
    planned = {}
    for h in hists:
        for o in h["ops"]:
            if o["op"] == "upd":
                planned[o["cls"]] = planned.get(o["cls"], 0) + 1
    ctx.log("histories: %d (%d key lookups planned; address updates %s)" % (
        len(hists), sum(len(h["keys"]) * (1 + len(h["ops"])) for h in hists), planned))
    if planned.get(UPD_CLASSES[0], 0) < 3 or planned.get("other-host", 0) < 1 or planned.get("port-only", 0) < 1:
        raise Machinery("vacuous scenario set: address updates planned %s" % planned)

    events, died = run_driver(ctx, hists, "c15", timeout=ctx.pick(900, 3000))
    if died:
        sig = "dispatch-hangs" if died["stuck"] else "route-panics"
        ctx.violation(sig, "the consistent-hashing route %s during an add/remove/dispatch history" % (
            "stopped making progress (a line was sent to a destination that is no longer running?)" if died["stuck"] else "panicked"),
            died)
    blocks = blocks_of(hists, events)
    if not blocks or not any(r["ev"] == "disp" for b in blocks for r in b):
        raise Machinery("dead driver: no dispatch recorded")

    rejected = set()

    def on_reject(block, idx, bad, res):
        ev = block[idx]
        h = block[0]["h"]
        hh = hists[h]
        rejected.add(h)
        info = dict(history={k: v for k, v in hh.items() if k not in ("keys", "_nodes")}, line=idx, tlc=bad[:1], tlc_log=res["log"])
        info["history"]["nodes"] = [nd["show"] for nd in hh["_nodes"]]
        change = next((r for r in reversed(block[:idx]) if r["ev"] in ("init", "add", "del", "upd", "updno")), dict(ev="?"))
        if ev["ev"] == "ring":
            d = bad[0] if bad else {}
            if change["ev"] in ("upd", "updno"):
                u = change["info"]
                info["update"] = u
                call = "UpdateDestination(%d, addr=%s) on a destination at %s" % (change["slot"], u["addr"], u["was"])
                if d.get("dl") != d.get("dests"):
                    ctx.violation("update-not-adopted " + u["cls"], "after %s, an address that accepts connections, the "
                                  "destinations of the route are the nodes %s, configured are %s: the destination reports %s" % (
                                      call, d.get("dl"), d.get("dests"), u["now"] or "?"), info)
                else:
                    ctx.violation("ring-not-carbon after-update " + u["cls"], "after %s the route dispatches with a ring "
                                  "(%d entries) that is not Carbon's ring for its destination list %s (the ring was not re-derived "
                                  "from the (host, instance) pairs now configured?)" % (call, len(ev["ring"]), ev["dl"]), info)
            else:
                ctx.violation("ring-not-carbon", "the ring of the route (%d entries, %d destinations) is not Carbon's ring "
                              "(sorted by position, server, instance; 100 replicas per destination) for its destination list %s"
                              % (len(ev["ring"]), ev["ndest"], ev["dl"]), info)
        elif ev["ev"] == "disp":
            d = bad[0] if bad else {}
            k = d.get("key", 0)
            name = hh["keys"][k - 1] if k else "?"
            info["key"] = name
            got = d.get("got")
            sfx = " after-update " + change["info"]["cls"] if change["ev"] in ("upd", "updno") else ""
            if got is not None and not (len(got) == 1 and got[0][1] == 1 and 0 <= got[0][0] < len(d["dests"])):
                ctx.violation("not-exactly-one" + sfx, "line for %r was accounted by %s (slot, count; slot < 0: a listener no "
                              "destination is configured for) instead of exactly one destination" % (name, got), info)
            elif got is not None and d.get("want") is not None and d["dests"][got[0][0]] != d["want"]:
                ctx.violation("lookup-differs-from-carbon" + sfx, "key %r (position %s) went to node %s, Carbon sends it to node %s" % (
                    name, d.get("kpos"), d["dests"][got[0][0]], d["want"]), info)
            else:
                ctx.violation("moved-without-need" + sfx, "key %r changed owner although the last membership change %s did not require it" % (
                    name, d.get("last")), info)
        else:
            ctx.violation("unexpected-event " + ev["ev"], "event %s rejected" % json.dumps(ev)[:300], info)

    probes = [b for b in blocks if hists[b[0]["h"]]["_probe"]]
    blocks = [b for b in blocks if not hists[b[0]["h"]]["_probe"]]
    nh, nl = validate(ctx, blocks, on_reject, par=ctx.pick(2, 4))
    # the probe histories on their own (small traces; a known finding costs a round each)
    ph, pl = validate(ctx, probes, on_reject, par=1, tagp="pr")
    ctx.cov["traces_validated_against_impl"] += nh + ph
    ctx.cov["trace_events"] = nl + pl
    if not died and not ctx.violations:
        selftest_binding(ctx, [b for b in blocks if b[0]["h"] not in rejected])
    blocks = [b for b in blocks + probes if b[0]["h"] not in rejected]

    # ------------------------------------------------------------ evidence
    cov = ctx.cov
    nlook, sets, exact, coll_sets = 0, set(), 0, 0
    upd_done, online_batches, via_listener = {}, 0, 0
    for b in blocks:
        kp = b[0]["kpos"]
        ent = None
        for i, r in enumerate(b):
            if r["ev"] in ("upd", "updno") and any(x["ev"] == "disp" for x in b[i:]):
                upd_done[r["info"]["cls"]] = upd_done.get(r["info"]["cls"], 0) + 1
            if r["ev"] == "ring":
                ent = r
            elif r["ev"] == "disp" and ent is not None:
                online_batches += 1 if r["nonline"] else 0
                nlook += len(kp)
                members = tuple(sorted(ent["dl"]))
                key = (b[0]["h"] // 3 if b[0]["h"] < len(hists) else b[0]["h"], members)
                if key not in sets:
                    sets.add(key)
                    rp = {}
                    for e in ent["ring"]:
                        rp.setdefault(e[0], set()).add(e[2])
                    if any(len(s) > 1 for s in rp.values()):
                        coll_sets += 1
                    exact += sum(1 for p in kp if p in rp)
    cov["evaluations"] = nlook
    cov["distinct_nontrivial"] = len(sets)
    cov["member_sets_with_cross_node_collisions"] = coll_sets
    cov["keys_exactly_on_a_ring_position"] = exact
    cov["address_updates_validated"] = upd_done
    cov["dispatch_batches_with_connected_destinations"] = online_batches
    if upd_done.get(UPD_CLASSES[0], 0) < 3 and not ctx.violations:
        raise Machinery("vacuous: only %s address updates to another instance on the same host were validated" % upd_done)
    cov["rule"] = ("evaluations = key lookups of real ConsistentHashing routes decided by HashRingTrace.tla (each: exactly one "
                   "destination accounted for the line, it is Carbon's owner, and it moved only as the last add / remove / "
                   "address update requires); address_updates_validated = UpdateDestination(addr=) calls by class, each followed "
                   "by a ring read-back (= Carbon's ring of the (host, instance) pairs now configured) and a dispatch of every key; "
                   "distinct_nontrivial = distinct (node universe, member set) pairs with >= 2 destinations' worth of ring "
                   "whose ring was verified to be Carbon's ring; listing orders: 3 per member set")
    h0 = hists[0]
    ctx.sample(dict(destinations=[nd["show"] for nd in h0["_nodes"]], init=h0["init"], ops=h0["ops"], keys=h0["keys"][:4]))
    b0 = blocks[0]
    r0 = next(r for r in b0 if r["ev"] == "ring")
    ctx.sample(dict(ring_head=r0["ring"][:5], ndest=r0["ndest"], kpos_head=b0[0]["kpos"][:5],
                    got_head=next(r for r in b0 if r["ev"] == "disp")["got"][:5]))
    ctx.assumptions += [
        "MD5 and Python's repr of the (server, instance) tuple are not modelled: positions come from tools/carbon_ring.py "
        "(transcription of carbon 0.9.x/1.0 ConsistentHashRing, checked against the constants pinned in route/consistent_hashing_test.go)",
        "newer carbon versions bump a colliding replica position by one; the property statement and this check use the classic ring",
        "destinations have distinct (host, instance) pairs; ASCII host and instance names",
        "the destination that received a line is observed through its conn_down_no_spool / slow_conn counters after a Flush() "
        "barrier while it has no connection, and at the loopback listener of the driver whose address it reports otherwise "
        "(lines attributed by name; one sentinel line per connection as barrier); a void observation makes the run exit 2",
        "an address update is adopted by Destination.updateConn only after a successful dial: an update to a refusing address "
        "is expected to leave the member set unchanged (event updno)"]
    cov["trusted_base"] = ["TLC", "tools/carbon_ring.py (MD5 positions only)", "harness/ring driver (records only)",
                           "hook route.(*ConsistentHashing).VerifRing", "loopback TCP between the route and the driver's listeners"]
