"""C12 — input framing is independent of how the network chops the stream.

1. TLC model-checks the reader state machines of Framing.tla (bufio.Scanner loop of input/plain.go,
   ReadLine loop of input/amqp.go) against Lines/Acceptable of FramingOps.tla for every stream of
   <= MaxLen symbols x every segmentation x terminating condition; named deviations must violate.
2. TLC emits every stream (FramingGen) and seeded random longer streams (FramingSim) with the set
   of acceptable dispatch lists (position ranges).
3. The Go driver (harness/inputs, TestLines) concretises nothing itself: this module maps symbols
   to bytes, the driver feeds them to the real Plain.Handle through a chunking reader (every cut
   set / every cut position / one-byte reads; EOF alone, data+EOF, data+timeout, timeout alone), to
   the real Listener over loopback TCP (one write per segment) and UDP (one datagram per stream)
   and to the real AMQP consume loop, and records what a capture dispatcher saw.
4. Verdict: recorded dispatch list (bytes) must be one of TLC's acceptable lists, concretised by
   construction (range -> concatenation of the fragments of those positions).
5. Continuation after a read error: a timeout does not end the byte stream (input.TimeoutConn arms a
   fresh deadline per Read), so for the timeout conditions TLC appends a tail to every stream (Conts
   of FramingOps: the rest of the straddling line + further lines) which the chunking reader serves
   to reads issued AFTER the error (on the real TCP listener: the client sends it 1.5 read-timeout
   periods after the stream unless the server has ended the connection).  Acceptable (AcceptableAt):
   the handler stopped at the error -- nothing of the tail, the straddling line at most once as the
   open partial fragment -- or it dispatched the lines of the whole stream; never the straddling
   line in two fragments (ReadOn: the lists of the model's deviation "read_on_after_error").
6. The 4 KiB boundary of the AMQP input (bufio.Reader(4096).ReadLine): FramingOps states the limit for a
   reader of capacity cap -- a line whose content (terminator not counted) is <= cap is dispatched whole
   and exactly once; right after a line that filled the buffer exactly the reader may dispatch one empty
   line (its bare terminator); beyond cap nothing is claimed -- Framing.tla checks the ReadLine model
   against it (deviation "drop_on_isprefix": a line for which the buffer filled is skipped), and
   FramingCapGen emits streams at the limit of a small capacity with AcceptableC.  This module scales a
   line of j symbols to 4096 - cap + j bytes (lines of 4094 / 4095 / 4096 bytes x LF / CRLF / none / a
   dangling CR x first / middle / last line of the body, valid distinct metrics) for the real consume loop.
"""
import hashlib, json, os, random, re
from checks import framlib
from vlib.core import Machinery

LEVEL = "model_checking"

PAL = bytes(b for b in range(256) if b not in (10, 13))
PAL_TEXT = b"abcdefghijklmnopqrstuvwxyz0123456789._- =;"
STREAM_LIMIT = 65536     # bufio.Scanner: line incl. terminator (DESIGN §9: 65 535 + LF is processed whole)
AMQP_LIMIT = 4096        # bufio.NewReaderSize(4096).ReadLine: line content (terminator not counted) <= 4096
UDP_MAX = 65507          # largest IPv4 UDP payload


def enc(b):
    if len(b) <= 256:
        return b.hex()
    return "#%d:%s" % (len(b), hashlib.sha1(b).hexdigest())


def key(s):
    return "".join(dict(x="x", y="y", CR="r", LF="n")[c] for c in s)


# ------------------------------------------------------------------ cases from TLC
def gen_cases(ctx, genmax):
    r = ctx.tlc("FramingGen", "FramingGen.cfg", workers=1, consts=dict(GenMax=genmax), timeout=3000)
    cs = [json.loads(x) for x in ctx.tlc_printed(r, "@@L")]
    want = sum(4 ** k for k in range(genmax + 1))
    if len(cs) != want:
        raise Machinery("FramingGen printed %d cases, expected %d" % (len(cs), want))
    return cs


def sim_cases(ctx, num, smin, smax):
    r = ctx.tlc("FramingSim", "FramingSim.cfg", workers=1, consts=dict(SimMin=smin, SimMax=smax), timeout=3000,
                simulate="num=%d" % num, args=["-depth", str(smax + 2), "-seed", str(ctx.seed)], heap="4g")
    seen, cs = set(), []
    for x in ctx.tlc_printed(r, "@@L"):
        c = json.loads(x)
        k = key(c["s"])
        if k not in seen:
            seen.add(k)
            cs.append(c)
    if len(cs) < num:
        raise Machinery("FramingSim produced only %d streams" % len(cs))
    return cs


def cap_cases(ctx, gencap, exhcap, genmax):
    """streams at the limit of a bounded reader, with AcceptableC (FramingCapGen)"""
    r = ctx.tlc("FramingCapGen", "FramingCapGen.cfg", workers=1, consts=dict(GenCap=gencap, ExhCap=exhcap, GenMax=genmax), timeout=1500)
    cs = [json.loads(x) for x in ctx.tlc_printed(r, "@@B")]
    if len(cs) < 100 or any(c["need"] > c["cap"] for c in cs):
        raise Machinery("FramingCapGen printed %d cases" % len(cs))
    return cs


# ------------------------------------------------------------------ concretisation (symbols -> bytes)
def line_groups(s):
    """positions (0-based) grouped per LF-terminated run; only used to choose fragment texts/lengths"""
    groups, cur = [], []
    for i, c in enumerate(s):
        cur.append(i)
        if c == "LF":
            groups.append((cur, True))
            cur = []
    if cur:
        groups.append((cur, False))
    return groups


def conc_bytes(rng, s, pal=PAL):
    return [b"\r" if c == "CR" else b"\n" if c == "LF" else bytes([rng.choice(pal)]) for c in s]


def conc_metric(rng, s, cid):
    """x/y fragments spell, per line, a distinct valid metric `name value timestamp`"""
    frags = [b"\r" if c == "CR" else b"\n" if c == "LF" else None for c in s]
    for j, (idx, _) in enumerate(line_groups(s)):
        xs = [i for i in idx if frags[i] is None]
        if not xs:
            continue
        text = ("c12.s%d.l%d.%s%s %d.%d %d" % (cid, j, "p" * max(0, len(xs) - 16), rng.choice(["cpu", "mem.used", "a;t=v"]), rng.randrange(1000),
                                              rng.randrange(100), 1500000000 + rng.randrange(10 ** 8))).encode()
        cuts = sorted(rng.sample(range(1, len(text)), len(xs) - 1)) if len(xs) > 1 else []
        parts = [text[a:b] for a, b in zip([0] + cuts, cuts + [len(text)])]
        for i, p in zip(xs, parts):
            frags[i] = p
    return frags


def conc_long(rng, s, limit, d, total_max=None):
    """one line is brought to `limit - d` bytes incl. its terminator (an unterminated line counts the
    terminator that never came), the other x/y fragments are short.  None if the stream has no x/y."""
    frags = [b"\r" if c == "CR" else b"\n" if c == "LF" else None for c in s]
    groups = [(idx, t) for idx, t in line_groups(s) if any(frags[i] is None for i in idx)]
    if not groups:
        return None
    tgt_idx, tgt_term = rng.choice(groups)
    big = rng.choice([i for i in tgt_idx if frags[i] is None])
    for i in range(len(s)):
        if frags[i] is None and i != big:
            frags[i] = bytes(rng.choices(PAL_TEXT, k=rng.choice([1, 2, 17, 30])))
    other = sum(len(frags[i]) for i in tgt_idx if i != big) + (0 if tgt_term else 1)
    n = limit - d - other
    if total_max is not None:
        n = min(n, total_max - d - sum(len(f) for f in frags if f is not None))
    if n < 1:
        return None
    frags[big] = bytes(rng.choices(PAL, k=n))
    return frags


def metric_text(rng, tag, n):
    """a valid metric line of exactly n bytes (n >= 40), the name padded"""
    pre, suf = "c12.%s." % tag, ".%s %d.%d %d" % (rng.choice(["cpu", "mem.used", "a;t=v"]), rng.randrange(1000), rng.randrange(100),
                                                   1500000000 + rng.randrange(10 ** 8))
    if n - len(pre) - len(suf) < 1:
        raise Machinery("metric_text: %d bytes is too short" % n)
    return (pre + "p" * (n - len(pre) - len(suf)) + suf).encode()


def conc_cap(rng, s, cap, cid, limit=AMQP_LIMIT):
    """bounded-reader case: a line of j symbols before its LF (j >= cap - 2) becomes limit - cap + j bytes --
    its first x/y symbol carries the padding, every other symbol is one byte -- so that `j symbols fill a
    buffer of cap` is `the bytes fill the real buffer`; shorter lines are short metrics spelled over their
    x/y symbols.  Returns (frags, per line (bytes before the LF, bytes of content)) or None where a line cannot be scaled (no x/y
    symbol to carry the padding).  The x/y bytes of a line spell one valid metric of distinct name."""
    frags = [b"\r" if c == "CR" else b"\n" if c == "LF" else None for c in s]
    lens = []
    for ln, (idx, term) in enumerate(line_groups(s)):
        body = idx[:-1] if term else idx               # the symbols before the LF
        xs = [i for i in body if frags[i] is None]
        j = len(body)
        if j >= cap - 2 and xs:
            nbytes = limit - cap + j
            text = metric_text(rng, "b%d.l%d" % (cid, ln), nbytes - (j - len(xs)))
            big = len(text) - (len(xs) - 1)
            parts = [text[:big]] + [text[big + k:big + k + 1] for k in range(len(xs) - 1)]
        elif xs:
            text = metric_text(rng, "b%d.l%d" % (cid, ln), 40 + len(xs) + rng.randrange(40))
            parts = [text[:len(text) - (len(xs) - 1)]] + [text[len(text) - (len(xs) - 1) + k:][:1] for k in range(len(xs) - 1)]
        else:
            parts = []
        for i, p_ in zip(xs, parts):
            frags[i] = p_
        nb = sum(len(frags[i]) for i in body)
        # the scaling must keep the one fact the expectation depends on: the line fills the buffer or not
        if (j >= cap) != (nb >= limit):
            return None
        lens.append((nb, nb - 1 if term and body and s[body[-1]] == "CR" else nb))
    return frags, lens


class Jobs:
    def __init__(self):
        self.jobs, self.meta, self.tails = [], {}, {}

    def add(self, case, frags, cuts, terms, trans, lst=None, cls="", tail=None):
        """tail = (index into case["conts"], fragments of that tail) -- served after a timeout error"""
        jid = len(self.jobs)
        ti, tfr = tail if tail else (-1, [])
        self.jobs.append(dict(id=jid, frags=[f.hex() for f in frags], cuts=cuts, list=lst or [], terms=terms, trans=trans,
                              tail=[f.hex() for f in tfr]))
        self.meta[jid] = (case, frags, cls)
        self.tails[jid] = (ti, tfr)


ALL_TERMS = ["eof", "dataeof", "datatimeout", "timeout"]
TMO_TERMS = ["datatimeout", "timeout"]


def with_tail(rng, case, conc, which=None, first=None):
    """one of TLC's continuations of the case; stream + tail are concretised as ONE stream (the line
    straddling the error is one metric / one run of bytes), then split at the position of the error"""
    idx = [i for i, ct in enumerate(case["conts"]) if first is None or ct["tail"][0] == first]
    ti = rng.choice(idx) if which is None else idx[which % len(idx)]
    n = len(case["s"])
    fr = conc(case["s"] + case["conts"][ti]["tail"])
    return fr[:n], (ti, fr[n:])


def build_jobs(ctx, exh, sim, rng, capcs=()):
    J = Jobs()
    q = ctx.quick()
    by_len = {}
    for c in exh:
        by_len.setdefault(len(c["s"]), []).append(c)
    # (a) every stream x every cut set x every terminating condition through Plain.Handle
    for c in exh:
        n = len(c["s"])
        f, tl = with_tail(rng, c, lambda s: conc_bytes(rng, s))
        J.add(c, f, ["all"], ALL_TERMS, ["plain"], cls="exh-bytes", tail=tl)
        if n and (not q or rng.random() < 0.5):
            f, tl = with_tail(rng, c, lambda s: conc_metric(rng, s, len(J.jobs)))
            J.add(c, f, ["all", "one"], ["eof", "datatimeout"], ["plain"], cls="exh-metric", tail=tl)
        if n <= ctx.pick(3, 5):      # every continuation TLC gives for the short streams
            for k in range(len(c["conts"])):
                f, tl = with_tail(rng, c, lambda s: conc_metric(rng, s, len(J.jobs)), which=k)
                J.add(c, f, ["all"], TMO_TERMS, ["plain"], cls="exh-cont", tail=tl)
    # (b) the real listener: TCP one write per segment, UDP one datagram per stream; AMQP one body per stream
    tcp_all = ctx.pick(3, 4)
    for c in exh:
        n = len(c["s"])
        if n == 0:
            J.add(c, [], ["whole"], ["eof"], ["tcp", "amqp"], cls="net")     # an empty datagram cannot be told from none
            continue
        tr = []
        if n <= tcp_all:
            J.add(c, conc_bytes(rng, c["s"], PAL_TEXT), ["all"], ["eof"], ["tcp"], cls="net")
        elif rng.random() < ctx.pick(0.05, 0.05):
            J.add(c, conc_metric(rng, c["s"], len(J.jobs)), ["rand"], ["eof"], ["tcp"], cls="net")
        if n <= ctx.pick(4, 6):
            tr.append("udp")
        tr.append("amqp")
        J.add(c, conc_bytes(rng, c["s"]), ["whole"], ["eof"], tr, cls="net")
    # (c) random longer streams: one-byte reads and random cut sets
    for i, c in enumerate(sim):
        f, tl = with_tail(rng, c, lambda s: conc_bytes(rng, s))
        J.add(c, f, ["one", "rand"], ALL_TERMS, ["plain"], cls="sim-bytes", tail=tl)
        if i % 4 == 1:
            f, tl = with_tail(rng, c, lambda s: conc_metric(rng, s, len(J.jobs)))
            J.add(c, f, ["whole", "rand"], TMO_TERMS, ["plain"], cls="sim-cont", tail=tl)
        if i % 2 == 0:
            J.add(c, conc_metric(rng, c["s"], len(J.jobs)), ["one", "rand", "whole"], ["eof", "dataeof"], ["plain"], cls="sim-metric")
        if i % ctx.pick(8, 8) == 0:
            J.add(c, conc_metric(rng, c["s"], len(J.jobs)), ["whole"], ["eof"], ["udp", "amqp"], cls="net")
        if i % ctx.pick(20, 20) == 0:
            J.add(c, conc_metric(rng, c["s"], len(J.jobs)), ["rand"], ["eof"], ["tcp"], cls="net")
    # (d) read timeout on the real TCP connection (each costs one read-timeout period)
    cand = [c for c in exh if 1 <= len(c["s"]) <= 4]
    for c in rng.sample(cand, ctx.pick(10, 60)):
        f, tl = with_tail(rng, c, lambda s: conc_bytes(rng, s, PAL_TEXT))
        J.add(c, f, ["whole"], ["timeout"], ["tcptimeout"], cls="net-timeout", tail=tl)
    # (e) long lines up to the supported limits
    short = [c for c in exh if 1 <= len(c["s"]) <= 4 and any(x in ("x", "y") for x in c["s"])]
    nlong = ctx.pick(1, 6)

    def long_tail(c):
        # the long line stays within the limit: the tail begins with its terminator
        return with_tail(rng, c, lambda s: [None] * len(c["s"]) + conc_metric(rng, s[len(c["s"]):], len(J.jobs)), first="LF")[1]
    for d in [0, 1, 2, 3] + [rng.randrange(4, 3000) for _ in range(ctx.pick(2, 8))]:
        for c in rng.sample(short, ctx.pick(6, 30)):
            # AMQP: line incl. terminator <= 4096
            f = conc_long(rng, c["s"], AMQP_LIMIT, d)
            if f:
                J.add(c, f, ["whole"], ["eof"], ["amqp"], cls="long-amqp")
            # Plain.Handle around the scanner's initial buffer size: every single cut position + one-byte reads
            f = conc_long(rng, c["s"], 4096 + rng.choice([-3, 0, 1, 2, 700]), d % 5)
            if f and rng.random() < ctx.pick(0.15, 0.5):
                J.add(c, f, ["every", "one"], ["eof", "datatimeout"], ["plain"], cls="long-4k", tail=long_tail(c))
        for c in rng.sample(short, nlong * 3):
            f = conc_long(rng, c["s"], STREAM_LIMIT, d)
            if f:
                total = sum(len(x) for x in f)
                pts = sorted(set(p for p in [1, 2, 4095, 4096, 4097, 8192, 16384, 32768, 65535, total - 1] +
                                 [rng.randrange(1, total) for _ in range(ctx.pick(6, 40))] if 0 < p < total))
                lst = [[p] for p in pts]
                for _ in range(ctx.pick(2, 6)):
                    step, cs, p = rng.choice([7, 100, 1460, 5000]), [], 0
                    while True:
                        p += rng.randrange(1, step + 1)
                        if p >= total:
                            break
                        cs.append(p)
                    lst.append(cs)
                J.add(c, f, ["whole", "list"], ["eof", "dataeof", "datatimeout"], ["plain"], lst=lst, cls="long-64k", tail=long_tail(c))
                J.add(c, f, ["whole", "list"], ["eof"], ["tcp"], lst=lst[-3:], cls="long-64k-tcp")
            f = conc_long(rng, c["s"], STREAM_LIMIT, d, total_max=UDP_MAX)
            if f and sum(len(x) for x in f) <= UDP_MAX:
                J.add(c, f, ["whole"], ["eof"], ["udp"], cls="long-udp")
    # (f) the AMQP reader at its 4096-byte limit: lines of limit-2 .. limit bytes (terminator not counted),
    # expectation = AcceptableC of the scaled-down stream (whole line, optional empty line after an exact fill)
    J.cap_stats = dict(cases=0, unscalable=0, lines_filling_the_buffer=0, line_lengths={})    # line_lengths: content bytes -> lines
    for c in capcs:
        r = conc_cap(rng, c["s"], c["cap"], len(J.jobs))
        if r is None:
            J.cap_stats["unscalable"] += 1
            continue
        f, lens = r
        J.cap_stats["cases"] += 1
        J.cap_stats["lines_filling_the_buffer"] += sum(1 for nb, _ in lens if nb >= AMQP_LIMIT)
        for _, n in lens:
            if n >= AMQP_LIMIT - 2:
                J.cap_stats["line_lengths"][n] = J.cap_stats["line_lengths"].get(n, 0) + 1
        J.add(dict(s=c["s"], eof=c["acc"], tmo=c["acc"], conts=[]), f, ["whole"], ["eof"], ["amqp"], cls="amqp-4k")
    return J


# ------------------------------------------------------------------ verdict
def conc_lists(alts, frags):
    return {tuple(enc(b"".join(frags[a - 1:b])) for a, b in alt) for alt in alts}


def expected(case, frags, term, tail=(-1, [])):
    """TLC's acceptable dispatch lists, concretised; with a tail on offer after a timeout error the
    lists are those of the chosen continuation (positions of stream \\o tail)"""
    if term in ("eof", "dataeof"):
        return conc_lists(case["eof"], frags)
    if tail[0] < 0:
        return conc_lists(case["tmo"], frags)
    return conc_lists(case["conts"][tail[0]]["acc"], frags + tail[1])


def read_on_lists(case, frags, term, tail):
    """what TLC names as the outcome of reading on after the error (only used to label a rejected outcome)"""
    if term in ("eof", "dataeof") or tail[0] < 0:
        return set()
    return conc_lists(case["conts"][tail[0]]["readon"], frags + tail[1])


def judge(ctx, J, results, report=True):
    """compare every recorded outcome with TLC's expectation; returns (runs, bad)"""
    runs, bad = 0, 0
    for r in results:
        case, frags, cls = J.meta[r["id"]]
        tail = J.tails[r["id"]]
        exp = expected(case, frags, r["term"], tail)
        runs += r["runs"]
        for o in r["outcomes"]:
            ok = tuple(o["got"]) in exp
            if not ok and r["tr"] == "tcptimeout" and o["slow_ms"] >= 150 and not o["got"]:
                ok = True   # the client was too slow: the read deadline passed before the data was written
            if ok and not o["unstable"]:
                continue
            bad += 1
            if not report:
                continue
            e0 = sorted(exp, key=len)[-1]
            if o["unstable"]:
                kind = "buffer-changes-during-dispatch"
            elif tuple(o["got"]) in read_on_lists(case, frags, r["term"], tail):
                kind = "second-fragment-after-read-error"
            elif o.get("tail_bytes", 0) > 0:
                kind = "tail-misread-after-read-error"
            elif len(o["got"]) > len(e0):
                kind = "extra-or-fragmented-lines"
            elif len(o["got"]) < min(len(e) for e in exp):
                kind = "lines-missing"
            else:
                kind = "line-content-differs"
            sig = "%s %s %s [%s]" % (r["tr"], r["term"], kind, cls)
            small = sum(len(f) for f in frags) <= 400
            ctx.violation(sig, "stream %s (%d bytes) cut at %s: dispatched %d line(s), the acceptable lists have %s" % (
                key(case["s"]), sum(len(f) for f in frags), str(o["seg"])[:80], len(o["got"]), sorted(len(e) for e in exp)),
                dict(stream=case["s"], frags=[f.hex() for f in frags] if small else "long", cuts=o["seg"][:50],
                     transport=r["tr"], term=r["term"], err=o["err"], got=o["got"], acceptable=sorted(map(list, exp)),
                     n_segmentations_with_this_outcome=o["n"],
                     tail_after_error=dict(symbols=case["conts"][tail[0]]["tail"], frags=[f.hex() for f in tail[1]],
                                           runs_offered=o.get("tail_runs", 0), runs_read_after_error=o.get("after_err", 0),
                                           tail_bytes_taken=o.get("tail_bytes", 0))
                     if tail[0] >= 0 and r["term"] in ("timeout", "datatimeout") else "none"))
    return runs, bad


def udp_burst(ctx):
    """UDP under load (UdpPipe.tla): datagrams arrive while the dispatcher is held inside the first one."""
    # model: the code as it is (one buffer, the reader runs the handler) keeps the buffer stable; a reader that runs
    # ahead of the handler through a ring of buffers is sound only with Ring >= Chan + 2
    base = dict(NDatagrams=ctx.pick(5, 7), LinesPer=2)
    ctx.tlc("UdpPipe", "UdpPipe_mc.cfg", consts=dict(base, Kind="sync", Ring=1, Chan=0), workers=2)
    ctx.tlc("UdpPipe", "UdpPipe_mc.cfg", consts=dict(base, Kind="pipe", Ring=4, Chan=2), workers=2)
    rej = []
    for ring, chan in ((4, 3), (1, 0), (2, 1)):
        r = ctx.tlc("UdpPipe", "UdpPipe_mc.cfg", consts=dict(base, Kind="pipe", Ring=ring, Chan=chan), workers=2, expect_ok=False,
                    count=False, tag="nv_udppipe_%d_%d" % (ring, chan))
        if r["violated"] not in ("BufferStable", "PrefixOK"):
            raise Machinery("deviation ring=%d chan=%d is not rejected by UdpPipe.tla (violated=%s): vacuity" % (ring, chan, r["violated"]))
        rej.append("pipe ring=%d chan=%d -> %s" % (ring, chan, r["violated"]))
    # the real listener
    rf = os.path.join(ctx.out, "c12_burst.ndjson")
    nb = ctx.pick(25, 200)
    res = ctx.go_test("inputs", run="^TestUDPBurst$", timeout=ctx.pick(600, 3000), expect_ok=False,
                      env=dict(VERIF_C12_BURST_RESULT=rf, VERIF_C12_BURSTS=nb))
    recs = ctx.read_ndjson(rf) if os.path.exists(rf) else []
    if res["rc"] != 0:
        if panic_in_repo(res["text"]):
            ctx.violation("handler-panics udp-burst", "the UDP input panicked under a burst of datagrams", dict(tail=res["text"][-2000:]))
            return
        raise Machinery("udp burst driver failed (rc=%s); log %s\n%s" % (res["rc"], res["log"], res["text"][-2000:]))
    if not recs or recs[-1]["ev"] != "end":
        raise Machinery("udp burst driver result is incomplete")
    bursts = [r for r in recs if r["ev"] == "burst"]
    nobar = [b["b"] for b in bursts if not b["barrier"]]
    if nobar:
        raise Machinery("udp burst: no sentinel datagram came through for bursts %s" % nobar[:5])

    def trace_of(b):
        return dict(ev="burst", b=b["b"], lens=b["lens"], got=[list(x) for x in b["got"]])

    todo = list(bursts)
    nrej = 0
    for _ in range(6):
        if not todo:
            break
        tf = ctx.write_ndjson("c12_burst_trace.ndjson", [trace_of(b) for b in todo])
        ok, matched, r = ctx.validate_traces("UdpBurstTrace", "UdpBurstTrace.cfg", tf, len(todo), len(todo))
        if ok:
            break
        b = todo[matched]
        nrej += 1
        seen = []
        for k, j in b["got"]:
            if k not in seen:
                seen.append(k)
        ctx.violation("udp-burst datagram-lines-mixed", "burst of %d datagrams (first one %d bytes, dispatcher held inside its first line while the "
                      "others arrived): the dispatched lines are not the lines of the datagrams, datagram after datagram, each line once: "
                      "datagrams in order of first appearance %s, %d lines dispatched for %d sent, %d lines that are no line of any datagram%s"
                      % (len(b["lens"]), b["first_bytes"], seen[:12], len(b["got"]), sum(b["lens"]), sum(1 for x in b["got"] if x[0] == 0),
                         (" e.g. %r" % b["foreign"][0]) if b["foreign"] else ""),
                      dict(burst=dict(b, got=b["got"][:60])))
        todo = todo[:matched] + todo[matched + 1:]
    # vacuity: bursts in which the handler was held, the first datagram exceeded the scanner's buffer, and >= 5 more arrived complete
    full = [b for b in bursts if b["held"] and b["first_bytes"] > 4096 and len({x[0] for x in b["got"]} - {0}) >= 6]
    if len(full) < max(5, nb // 3) and not ctx.violations:
        raise Machinery("udp burst: only %d of %d bursts had the dispatcher held with six or more datagrams delivered" % (len(full), nb))
    # binding self-test: a line of datagram 5 in the place of a line of datagram 1 must be rejected
    if not ctx.violations:
        b = json.loads(json.dumps(full[0]))
        i = next(i for i, x in enumerate(b["got"]) if x[0] == 1 and x[1] == b["lens"][0] // 2)
        b["got"][i] = [5, 1]
        tf = ctx.write_ndjson("c12_burst_selftest.ndjson", [trace_of(b)])
        ok, matched, r = ctx.validate_traces("UdpBurstTrace", "UdpBurstTrace.cfg", tf, 1, 0)
        if ok:
            raise Machinery("binding self-test failed (udp burst): a burst with a foreign line inside datagram 1 was accepted")
    ctx.cov["udp_burst"] = dict(bursts=len(bursts), dispatcher_held_and_six_datagrams_delivered=len(full),
                                datagrams=sum(len(b["lens"]) for b in bursts), lines=sum(sum(b["lens"]) for b in bursts),
                                datagrams_lost_whole=sum(len(b["lens"]) - len({x[0] for x in b["got"]} - {0}) for b in bursts),
                                model_deviations_rejected=rej)
    return len(bursts)


def panic_in_repo(text):
    """a Go panic / fatal error whose panicking goroutine is inside the repository's code (a panic raised by the
    harness itself is a fault of the machinery, never a verdict)"""
    m = re.search(r"(?:^|\n)(?:panic:|fatal error:)", text)
    if not m:
        return False
    rest = text[m.start():]
    g = re.search(r"\ngoroutine \d+ \[running\]:\n(.*?)(?:\n\n|$)", rest, re.S)
    frames = [l for l in (g.group(1) if g else rest).splitlines() if l and not l.startswith("\t")]
    frames = [f for f in frames if not f.startswith(("panic(", "runtime.", "testing.", "sync.", "internal/"))]
    return bool(frames) and "github.com/grafana/carbon-relay-ng/" in frames[0]


def run(ctx):
    q = ctx.quick()
    rng = random.Random(ctx.seed)
    # 1. model checking: scanner (unbounded and with a token limit) and ReadLine (unbounded and bounded) readers
    if q:
        framlib.mc(ctx, ["scanner", "readline"], 5, 0, caps=(0, 3), live=False)
    else:
        framlib.mc(ctx, ["scanner", "readline"], 6, 0, caps=(0, 3), live=True, workers=6)
        framlib.mc(ctx, ["scanner", "readline"], 7, 0, caps=(0, 4), live=False, workers=6)
    framlib.nonvacuity(ctx, ["scanner", "readline"], framlib.LINE_MUTANTS)
    # the reader that dispatched every ReadLine slice by itself (the pinned AMQP input, now the deviation isprefix_ignored)
    # met only the relaxed statement of FramingOps (AcceptableC: an empty line may follow a line that fills the buffer)
    if not os.environ.get("VERIF_DEV_SKIP_MC"):
        ctx.tlc("Framing", "Framing_pinned.cfg", workers=4, timeout=1500, count=False,
                consts=dict(MaxLen=ctx.pick(4, 5), MaxLenF=0, Readers={"readline"}, Caps={0, 3}, Mutants={"isprefix_ignored"}))
    # 2. cases with expectations from TLC
    exh = gen_cases(ctx, ctx.pick(5, 7))
    sim = sim_cases(ctx, ctx.pick(500, 5000), 8, ctx.pick(40, 60))
    capcs = cap_cases(ctx, 5, 3, ctx.pick(4, 5))
    ctx.log("cases: %d exhaustive streams, %d random longer streams, %d streams at the limit of a bounded reader" % (len(exh), len(sim), len(capcs)))
    J = build_jobs(ctx, exh, sim, rng, capcs)
    if J.cap_stats["cases"] < 100 or J.cap_stats["lines_filling_the_buffer"] < 60 or \
            not all(J.cap_stats["line_lengths"].get(n, 0) >= 20 for n in (AMQP_LIMIT - 2, AMQP_LIMIT - 1, AMQP_LIMIT)):
        raise Machinery("too few AMQP cases at the 4096-byte limit: %s" % J.cap_stats)
    cf = ctx.write_ndjson("c12_cases.ndjson", J.jobs)
    rf = os.path.join(ctx.out, "c12_result.ndjson")
    # 3. the real code
    res = ctx.go_test("inputs", run="^TestLines$", timeout=ctx.pick(900, 3000), expect_ok=False,
                      env=dict(VERIF_C12_CASES=cf, VERIF_C12_RESULT=rf))
    recs = ctx.read_ndjson(rf) if os.path.exists(rf) else []
    if res["rc"] != 0:
        if "panic:" in res["text"] or "fatal error:" in res["text"]:
            last = ctx.read_ndjson("inputs_progress.ndjson")[-3:] if os.path.exists(os.path.join(ctx.out, "inputs_progress.ndjson")) else []
            ctx.violation("handler-panics", "an input handler panicked", dict(last=last, tail=res["text"][-2000:]))
        else:
            raise Machinery("inputs driver failed (rc=%s); log %s\n%s" % (res["rc"], res["log"], res["text"][-2000:]))
    dead = [r for r in recs if r["ev"] in ("deadline", "skip")]
    if dead:
        raise Machinery("driver could not complete %d transport case(s), e.g. %s" % (len(dead), json.dumps(dead[0])))
    if res["rc"] == 0 and (not recs or recs[-1]["ev"] != "end"):
        raise Machinery("driver result is incomplete")
    results = [r for r in recs if r["ev"] == "res"]
    want = sum(len(j["terms"]) if t == "plain" else 1 for j in J.jobs for t in j["trans"])
    if res["rc"] == 0 and len(results) != want:
        raise Machinery("driver produced %d results for %d requested" % (len(results), want))
    # 4. verdict
    runs, bad = judge(ctx, J, results)
    # binding self-test: one altered recorded line / one dropped line must be flagged
    probe = next((r for r in results if r["outcomes"] and len(r["outcomes"][0]["got"]) >= 2 and
                  r["term"] in ("eof", "dataeof") and judge(ctx, J, [r], report=False)[1] == 0), None)
    if probe is None:
        raise Machinery("no result with two or more lines")
    for mut in ("drop", "alter"):
        p2 = json.loads(json.dumps(probe))
        g = p2["outcomes"][0]["got"]
        if mut == "drop":
            del g[-1]
        else:
            g[0] = g[0] + "00"
        if judge(ctx, J, [p2], report=False)[1] == 0:
            raise Machinery("binding self-test failed: a corrupted record (%s) was accepted" % mut)
    # ... and the dispatch list TLC names for "read on after the error" (partial line, then its remainder
    # as another line, then the rest of the tail) must be flagged where a tail was on offer
    # (the probe is synthesised from a recorded result: its outcome is replaced by an acceptable list, which
    # must pass, and by a read-on list, which must not -- independent of what the real code did)
    probe = next((r for r in results if r["term"] in TMO_TERMS and r["tr"] == "plain" and r["outcomes"] and
                  read_on_lists(*J.meta[r["id"]][:2], r["term"], J.tails[r["id"]])), None)
    if probe is None:
        raise Machinery("no timeout result with a line straddling the error and a tail on offer")
    pm, pt = J.meta[probe["id"]][:2], J.tails[probe["id"]]
    for lists, want_bad in ((expected(*pm, probe["term"], pt), 0), (read_on_lists(*pm, probe["term"], pt), 1)):
        p2 = json.loads(json.dumps(probe))
        p2["outcomes"] = [dict(p2["outcomes"][0], got=list(sorted(lists)[-1]), unstable=0)]
        if judge(ctx, J, [p2], report=False)[1] != want_bad:
            raise Machinery("binding self-test failed: %s" % ("a second fragment after the read error was accepted" if want_bad
                                                              else "an acceptable list was rejected"))
    # ... and at the AMQP limit: a recorded result with a 4096-byte line from which that line is removed
    # (what skipping a line on isPrefix gives) must be flagged
    # (synthesised from TLC's acceptable lists, independent of what the real code did)
    big = "#%d:" % AMQP_LIMIT
    probe = next((r for r in results if J.meta[r["id"]][2] == "amqp-4k" and r["outcomes"] and
                  any(g.startswith(big) for e in expected(*J.meta[r["id"]][:2], "eof") for g in e)), None)
    if probe is None:
        raise Machinery("no AMQP case with a %d-byte line" % AMQP_LIMIT)
    for e in sorted(expected(*J.meta[probe["id"]][:2], "eof")):
        for got, want_bad in ((list(e), 0), ([g for g in e if not g.startswith(big)], 1)):
            p2 = json.loads(json.dumps(probe))
            p2["outcomes"] = [dict(p2["outcomes"][0], got=got, unstable=0)]
            if judge(ctx, J, [p2], report=False)[1] != want_bad:
                raise Machinery("binding self-test failed: %s" % ("a result without its %d-byte line was accepted" % AMQP_LIMIT
                                                                  if want_bad else "an acceptable list was rejected"))
    ctx.cov["binding_selftests"] = "passed"
    # 5. UDP under load
    udp_burst(ctx)
    capres = [r for r in results if J.meta[r["id"]][2] == "amqp-4k"]
    ctx.cov["amqp_4k_limit"] = dict(J.cap_stats, line_lengths={str(k): v for k, v in sorted(J.cap_stats["line_lengths"].items())},
                                    results=len(capres),
                                    results_with_more_than_one_acceptable_list=sum(1 for r in capres if len(J.meta[r["id"]][0]["eof"]) > 1),
                                    results_with_an_empty_line_after_a_long_line=sum(
                                        1 for r in capres for o in r["outcomes"]
                                        if any(a.startswith("#") and b == "" for a, b in zip(o["got"], o["got"][1:]))))

    cov = ctx.cov
    per_tr, nontriv = {}, set()
    for r in results:
        per_tr[r["tr"]] = per_tr.get(r["tr"], 0) + r["runs"]
        case = J.meta[r["id"]][0]
        if any(o["got"] for o in r["outcomes"]):
            nontriv.add((key(case["s"]), r["tr"], r["term"], J.meta[r["id"]][2]))
    cov["evaluations"] = runs
    cov["handler_runs_per_transport"] = per_tr
    cov["distinct_nontrivial"] = len(nontriv)
    cov["reused_after_return"] = sum(o["reused"] for r in results for o in r["outcomes"])
    offered = sum(o.get("tail_runs", 0) for r in results for o in r["outcomes"])
    straddle = sum(o.get("tail_runs", 0) for r in results for o in r["outcomes"]
                   if r["term"] in TMO_TERMS and J.tails[r["id"]][0] >= 0 and
                   J.meta[r["id"]][0]["conts"][J.tails[r["id"]][0]]["readon"])
    cov["continuation_after_read_error"] = dict(
        runs_with_tail_on_offer=offered, of_which_error_inside_a_line=straddle,
        runs_handler_read_after_error=sum(o.get("after_err", 0) for r in results for o in r["outcomes"] if r["tr"] == "plain"),
        tcp_runs_tail_sent=sum(o.get("after_err", 0) for r in results for o in r["outcomes"] if r["tr"] == "tcptimeout"))
    if straddle < 100:
        raise Machinery("only %d runs with a read error inside a line and a tail on offer" % straddle)
    cov["rule"] = ("evaluations = executions of a real handler on one (stream, concretisation, cut set, terminating condition); "
                   "streams = every symbol sequence over {x,y,CR,LF} of length <= %d (TLC, one initial state each) + %d seeded random "
                   "streams of 8..%d symbols (TLC simulation) + long-line concretisations up to 65536 B (TCP/plain), 65507 B (UDP), "
                   "4096 B incl. terminator (AMQP) + AMQP bodies with lines of 4094..4096 B content at the reader's limit (FramingCapGen, "
                   "scaled from capacity 5 / 3 symbols); cut sets = every subset of symbol boundaries for the exhaustive streams, one-byte "
                   "reads and random cut sets for the longer ones, every single cut position for ~4 KiB streams; for the timeout conditions a tail chosen by TLC (Conts) is on offer to "
                   "reads issued after the error; distinct_nontrivial = "
                   "distinct (stream, transport, terminating condition, concretisation class) with at least one dispatched line" %
                   (ctx.pick(5, 7), len(sim), ctx.pick(40, 60)))
    ex = next(r for r in results if r["tr"] == "plain" and len(r["outcomes"][0]["got"]) >= 2)
    c0, f0, _ = J.meta[ex["id"]]
    ctx.sample(dict(stream=c0["s"], bytes=b"".join(f0)[:80].hex(), term=ex["term"], segmentations=ex["runs"],
                    acceptable=sorted(map(list, expected(c0, f0, ex["term"]))), dispatched=ex["outcomes"][0]["got"]))
    ex = next((r for r in results if r["tr"] == "amqp" and len(r["outcomes"][0]["got"]) >= 2), None)
    if ex:
        c0, f0, _ = J.meta[ex["id"]]
        ctx.sample(dict(transport="amqp", stream=c0["s"], dispatched=ex["outcomes"][0]["got"][:4]))
    ctx.assumptions += [
        "a final unterminated line ending in CR may be dispatched with or without that CR; after a read timeout the partial "
        "last line may or may not be dispatched (statement silent)",
        "after a read timeout the peer's further data (a tail chosen by TLC) is on offer to later reads; accepted: the handler "
        "stopped at the error (nothing of the tail dispatched) or it dispatched the lines of the whole stream; a handler that "
        "reads the tail but dispatches nothing of it is not told apart (only counted); on real TCP the tail is sent 1.5 "
        "timeout periods after the stream, which affects only the detection power, not the verdict",
        "lines are driven up to the supported limits only: line + terminator <= 65536 B on TCP/UDP (datagram <= 65507 B); "
        "on AMQP line content (terminator not counted) <= 4096 B; behaviour beyond (token too long / split by ReadLine) is "
        "not asserted",
        "AMQP, a line that fills the 4096-byte reader exactly (4096 B, or 4095 B + CRLF): dispatched whole and exactly once; one "
        "additional EMPTY line right after it (the bare terminator) is accepted, as is the dangling CR by itself where the LF "
        "never came (final unterminated line ending in CR) -- statement silent; a content that itself ends in CR (.. CR CR LF) "
        "is counted one byte longer (the reader cannot tell that CR from the first half of CRLF), so 4095 B + CR CR LF is beyond "
        "the limit and not asserted",
        "the capture dispatcher checks that its argument is stable during the call; reuse of the buffer after Dispatch "
        "returned is allowed by the Dispatcher contract and only counted (reused_after_return)",
        "the kernel may coalesce TCP segments; the read-timeout cases accept an empty dispatch list only when the client "
        "needed >= 150 ms from dial to write (deadline 250 ms)"]
    cov["trusted_base"] = ["TLC", "harness/inputs driver (records only)", "symbol->byte concretisation in checks/c12.py",
                           "kernel loopback TCP/UDP"]
