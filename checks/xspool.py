"""XSPOOL — extension check: the spool of a destination (destination/spool.go: InRT / InBulk -> Writer ->
queueBuffer -> Buffer -> DiskQueue.Put; Out = SlowChan over DiskQueue.ReadChan) across a relay restart.

spec/Spool.tla       the spool as a state machine on top of the level-A queue contract (QueueContractOps.tla),
                     Crash = the relay dies (main() never closes spools), Restart = NewSpool on the same directory
spec/SpoolTrace.tla  decides every event of every recorded run of the real spool and every recovery
spec/SpoolGen.tla    generates the driver histories
harness/spoolx       the driver: real destination.NewSpool, directory snapshot at every queue hook (= crash point),
                     NewSpool again on every distinct snapshot, Out drained up to a sentinel line
"""
import copy, json, os, random, re
from vlib.core import Machinery

LEVEL = "model_checking"

INVS = ["TypeOK", "Conservation", "NoDupRun", "RTOrder", "BulkOrder", "Accounted", "AtMostOncePerRun",
        "NothingInvented", "Durable", "RedeliveryBounded", "LossExact"]

# deviation -> (constants override, invariant that must reject it)
DEVIATIONS = {
    "rt_overtakes": (dict(), "RTOrder"),
    "writer_lifo": (dict(BufCap=2), "Conservation"),
    "writer_drop_when_full": (dict(), "Conservation"),
    "buffer_put_twice": (dict(), "Conservation"),
    "slowchan_resend": (dict(), "Conservation"),
    "restart_other_dir": (dict(), "Durable"),
    "restart_rewind": (dict(), "RedeliveryBounded"),
    "restart_skips_one": (dict(), "Durable"),
}
SMALL = dict(MaxLines=3, RTCap=2, BufCap=1, MaxCrashes=1, ReadAhead=True, Dev="")


def mc(ctx, consts, invs, expect=None, count=True, cfg="Spool_base.cfg", timeout=1500, props=None):
    """expect = None: must pass; otherwise the name of the invariant that must be violated"""
    r = ctx.tlc("Spool", cfg, consts=consts, invariants=invs, props=props, workers=6, timeout=timeout,
                expect_ok=(expect is None), count=count, heap="12g")
    if expect is not None and r["violated"] != expect:
        raise Machinery("Spool.tla with %s: expected %s to be violated, got %s (log %s)" % (consts, expect, r["violated"], r["log"]))
    return r


def model_checking(ctx):
    q = ctx.quick()
    grid = [dict(SMALL), dict(SMALL, MaxLines=3, RTCap=1, BufCap=0)]
    if not q:
        grid += [dict(SMALL, MaxLines=3, RTCap=2, BufCap=2), dict(SMALL, MaxLines=4, RTCap=2, BufCap=1), dict(SMALL, MaxLines=3, MaxCrashes=2),
                 dict(SMALL, MaxLines=4, RTCap=3, BufCap=2), dict(SMALL, MaxLines=3, RTCap=1, BufCap=0, MaxCrashes=2)]
    for c in grid:
        mc(ctx, c, INVS)
    # the protocol without read-ahead satisfies the ideal too
    mc(ctx, dict(SMALL, ReadAhead=False), INVS + ["DurableUndelivered", "LossNoReadAhead"])
    # liveness: every line is eventually delivered or accounted as lost (all stages and the reader of Out fair)
    if not q:
        mc(ctx, dict(SMALL), ["TypeOK"], cfg="Spool_live.cfg", timeout=2500)
    # non-vacuity: named deviations are rejected
    rejected = {}
    for dev, (over, inv) in DEVIATIONS.items():
        if q and dev not in ("rt_overtakes", "buffer_put_twice", "restart_skips_one", "restart_rewind"):
            continue
        c = dict(SMALL, Dev=dev)
        c.update(over)
        mc(ctx, c, INVS, expect=inv, count=False)
        rejected[dev] = inv
    # the finding, at model level: with the code's read-ahead the ideal is false ...
    mc(ctx, dict(SMALL), ["DurableUndelivered"], expect="DurableUndelivered", count=False)
    # ... and every category of loss really occurs ("exactly"): one behaviour loses a line of each category
    mc(ctx, dict(SMALL), ["NeverAllLossKinds"], expect="NeverAllLossKinds", count=False)
    if not q:
        mc(ctx, dict(SMALL), ["LossNoReadAhead"], expect="LossNoReadAhead", count=False)
        for w in ("NeverLostNotPut", "NeverLostUnsynced", "NeverLostReadAhead", "NeverRedelivered"):
            mc(ctx, dict(SMALL), [w], expect=w, count=False)
    ctx.cov["deviations_rejected"] = rejected
    ctx.cov["model_finding"] = ("DurableUndelivered (every synced line not yet delivered on Out comes back after the restart) is "
                                "violated by the model of the code (ReadAhead=TRUE: put, sync, SlowChan takes, crash) and holds "
                                "for ReadAhead=FALSE")


# ------------------------------------------------------------------ histories
def to_ops(names):
    out = []
    for n in names:
        if n == "bulk2":
            out.append(dict(op="bulk", n=2, on=False))
        elif n in ("gw", "gb"):
            out.append(dict(op=n, n=0, on=True))
        else:
            out.append(dict(op=n, n=0, on=False))
    return out


def random_ops(rng, nops):
    """long random histories under the same feasibility rules as SpoolGen.tla (plus gates switched off)"""
    ops, sent, safe, recvd, gw, gb, bulk_open = [], 0, 0, 0, False, False, False
    while len(ops) < nops:
        x = rng.random()
        if x < 0.40:
            ops.append(dict(op="rt", n=0, on=False)); sent += 1
        elif x < 0.50:
            if not gw and not gb and not bulk_open:
                k = rng.choice([1, 2, 3, 5])
                ops.append(dict(op="bulk", n=k, on=False)); sent += k; bulk_open = True
        elif x < 0.72:
            if recvd < safe:
                ops.append(dict(op="recv", n=0, on=False)); recvd += 1
        elif x < 0.86:
            if sent > safe:
                ops.append(dict(op="settle", n=0, on=False)); safe = sent; gw = gb = bulk_open = False
        elif x < 0.93:
            if not bulk_open or gw:
                gw = not gw
                ops.append(dict(op="gw", n=0, on=gw))
        else:
            if not bulk_open or gb:
                gb = not gb
                ops.append(dict(op="gb", n=0, on=gb))
    return ops


SETTINGS = [  # (bufsize, maxbytes, syncevery)
    (3, 1 << 20, 2), (0, 30, 5), (3, 40, 1), (0, 70, 3), (1, 1 << 20, 1000), (2, 100, 2), (1, 100, 7), (2, 30, 2),
]


def make_histories(ctx):
    rng = random.Random(ctx.seed)
    r = ctx.tlc("SpoolGen", "SpoolGen.cfg", workers=1, consts=dict(MaxOps=ctx.pick(6, 7)), timeout=900)
    gen = [json.loads(x) for x in ctx.tlc_printed(r, "@@H")]
    if len(gen) < 1000:
        raise Machinery("SpoolGen.tla produced only %d histories" % len(gen))
    settings = SETTINGS[:4] if ctx.quick() else SETTINGS
    hists = []
    stride = ctx.pick(24, 16)
    for si, (bs, mb, se) in enumerate(settings):
        for i, names in enumerate(gen):
            if (i + si * 3 + ctx.seed) % stride == 0:
                hists.append(dict(h=len(hists), bufsize=bs, maxbytes=mb, syncevery=se, ops=to_ops(names)))
    nshort = len(hists)
    for i in range(ctx.pick(60, 300)):
        bs, mb, se = settings[i % len(settings)]
        hists.append(dict(h=len(hists), bufsize=bs, maxbytes=mb, syncevery=se,
                          ops=random_ops(rng, rng.choice([15, 30, 60]))))
    # an offline destination: lines are spooled, nobody reads Out, syncs go on (the read-ahead finding, by construction)
    for i in range(ctx.pick(8, 40)):
        bs, mb, se = settings[i % len(settings)]
        ops = []
        for k in range(rng.choice([3, 5, 8])):
            ops += [dict(op="rt", n=0, on=False)] * rng.choice([1, 2]) + [dict(op="settle", n=0, on=False)]
        hists.append(dict(h=len(hists), bufsize=bs, maxbytes=mb, syncevery=se, ops=ops, kind="offline"))
    ctx.log("histories: %d TLC-generated (of %d, every %dth per setting) + %d random/offline" % (nshort, len(gen), stride, len(hists) - nshort))
    return hists, settings


def run_driver(ctx, hists):
    hf = ctx.write_ndjson("xspool_hist.ndjson", hists)
    tf = os.path.join(ctx.out, "xspool_trace.ndjson")
    res = ctx.go_test("spoolx", run="^TestSpoolX$", timeout=ctx.pick(900, 4000), expect_ok=False,
                      env=dict(VERIF_SPOOLX_HIST=hf, VERIF_SPOOLX_TRACE=tf))
    crashed = None
    if res["rc"] != 0:
        prog = []
        try:
            prog = ctx.read_ndjson("spoolx_progress.ndjson")
        except Exception:
            pass
        crashed = dict(log=res["log"], last=prog[-8:], tail=res["text"][-2500:])
        if "panic:" not in res["text"] and "fatal error:" not in res["text"]:
            raise Machinery("spoolx driver failed without a panic (rc=%s); log %s\n%s" % (res["rc"], res["log"], res["text"][-2000:]))
    events = []
    if os.path.exists(tf):
        with open(tf) as f:
            for line in f:
                try:
                    events.append(json.loads(line))
                except ValueError:
                    break
    return events, crashed


KEEP = {"hist": ("h",), "sendrt": ("id",), "rtfull": ("id",), "acc": ("id", "path"), "put": ("id",),
        "putdone": ("id",), "sync": (), "take": (), "out": ("id",),
        "rec": ("label", "D", "sentinel", "hang", "extra", "m"), "hang": ("in",)}


def blocks_of(events, hists):
    """per history: (bufsize, [projected events])"""
    blocks, cur = [], None
    for e in events:
        ev = e["ev"]
        if ev == "hist":
            cur = [dict(ev="hist", h=e["h"])]
            blocks.append((hists[e["h"]]["bufsize"], cur))
            continue
        if cur is None or ev not in KEEP or (ev == "rec" and e.get("skipped")):
            continue
        cur.append(dict([("ev", ev)] + [(k, e[k]) for k in KEEP[ev]]))
    return blocks


def validate(ctx, blocks, hists, strict=False, tagp="tr", max_rounds=4, report=None):
    """TLC decides every event of every history (one run per queueBuffer capacity, a constant of the spec).
    A rejected history is reported and removed, the rest is validated again.  Returns summed stats."""
    total = dict(recs=0, nonempty=0, readahead_lost=0, tail_lost=0, mem_lost=0, redelivered=0)
    ntr = 0
    for bs in sorted(set(b for b, _ in blocks)):
        grp = [blk for b, blk in blocks if b == bs]
        for rnd in range(max_rounds):
            flat = [r for blk in grp for r in blk]
            if not flat:
                break
            f = ctx.write_ndjson("%s_b%d.ndjson" % (tagp, bs), flat)
            ok, matched, res = ctx.validate_traces("SpoolTrace", "SpoolTrace.cfg", f, len(flat), len(grp),
                                                   consts=dict(BufCap=bs, StrictReadAhead=strict),
                                                   tag="%s_b%d_%d" % (tagp, bs, rnd), timeout=ctx.pick(900, 3000), heap="12g")
            if ok:
                for s in ctx.tlc_printed(res, "@@TRACE"):
                    st = json.loads(s).get("stat", {})
                    for k in total:
                        total[k] += st.get(k, 0)
                ntr += len(grp)
                break
            inv = res["violated"]
            if matched is None:
                m = re.findall(r"/\\ l = (\d+)", res["text"])
                if not inv or not m:
                    raise Machinery("trace validation gave no verdict; log %s" % res["log"])
                matched = int(m[-1]) - 2      # the event before the state that violates the invariant
            elif inv:
                matched = max(0, matched - 1)
            pos = 0
            for bi, blk in enumerate(grp):
                if matched < pos + len(blk):
                    if report is None:
                        return None, (blk, matched - pos, inv)
                    report(blk, matched - pos, inv)
                    del grp[bi]
                    break
                pos += len(blk)
            else:
                raise Machinery("matched prefix beyond the trace")
        else:
            ctx.note("more than %d rejected histories for bufsize %d; stopped re-validating" % (max_rounds, bs))
    return total, ntr


def run(ctx):
    if os.environ.get("XSPOOL_NO_MC") and os.environ.get("VERIF_REPO"):
        ctx.note("model checking of Spool.tla skipped (XSPOOL_NO_MC, scratch repository: trying out a change of the Go code)")
    else:
        model_checking(ctx)
    hists, settings = make_histories(ctx)
    events, crashed = run_driver(ctx, hists)
    if crashed:
        ctx.violation("spool-panics", "the spool / queue panicked (recording or recovering); last steps %s" % json.dumps(crashed["last"][-2:]), crashed)
        ctx.sample(dict(panic=crashed["tail"][-300:]))
    end = [e for e in events if e["ev"] == "end"]
    kinds = {}
    labels = {}
    for e in events:
        kinds[e["ev"]] = kinds.get(e["ev"], 0) + 1
        if e["ev"] == "rec":
            labels[e["label"]] = labels.get(e["label"], 0) + 1
    blocks = blocks_of(events, hists)

    def report(blk, idx, inv):
        ev = blk[idx]
        h = blk[0]["h"]
        if inv:
            sig, what = "invariant-%s" % inv, "after event %s the recorded run violates %s" % (json.dumps(ev), inv)
        elif ev["ev"] == "rec":
            m = ev.get("m")
            if ev["hang"] or not ev["sentinel"]:
                sig = "restart-hangs label=%s" % ev["label"]
            elif ev["extra"]:
                sig = "restart-extra label=%s" % ev["label"]
            else:
                sig = "restart-contract label=%s" % ev["label"]
            what = ("relay dies after %s with marks [put,taken,putSynced,takenSynced,out]=%s: the restarted spool delivered %s "
                    "(hang=%s sentinel=%s extra=%s)" % (ev["label"], m, ev["D"], ev["hang"], ev["sentinel"], ev["extra"]))
        elif ev["ev"] == "hang":
            sig, what = "spool-hangs in=%s" % ev["in"], "the running spool did not make progress (%s)" % json.dumps(ev)
        else:
            sig, what = "run-event %s" % ev["ev"], "event %s is not a step of Spool.tla here" % json.dumps(ev)
        ctx.violation(sig, what, dict(history=hists[h], prefix=blk[:idx + 1][-40:]))

    total, ntr = validate(ctx, blocks, hists, strict=False, report=report)

    if not crashed and not ctx.violations:
        if not end:
            raise Machinery("driver did not finish")
        for k in ("sendrt", "acc", "put", "putdone", "sync", "take", "out", "rec"):
            if not kinds.get(k):
                raise Machinery("dead driver: no %s events (hooks not firing?)" % k)
        need = {"w_open", "w_write", "s_fsync", "m_tmp_create", "m_tmp_write", "m_rename", "take", "r_remove"}
        if not need.issubset(labels):
            raise Machinery("crash points never reached: %s" % (need - set(labels)))
        if not any(e["ev"] == "acc" and e["path"] == "bulk" for e in events):
            raise Machinery("no bulk line was accepted")
    # the read-ahead finding on the real code, decided by TLC: demanding the ideal of every recovery must reject
    # a recovery of the class "synced line held by the SlowChan goroutine is gone" (and nothing else first)
    finding = None
    if not ctx.violations and total["readahead_lost"] > 0:
        off = [(b, blk) for b, blk in blocks if hists[blk[0]["h"]].get("kind") == "offline"]
        strict_blocks = [(b, blk) for b, blk in off if b == off[0][0]]
        r, witness = validate(ctx, strict_blocks, hists, strict=True, tagp="strict", report=None)
        if r is not None:
            raise Machinery("TLC counted lost read-ahead lines but the strict trace spec accepts the runs")
        blk, idx, inv = witness
        ev = blk[idx]
        if ev["ev"] != "rec" or inv:
            raise Machinery("strict validation rejected something else than a recovery: %s" % json.dumps(ev))
        n, c, ws, cs, nout = ev["m"]
        if not (c == nout + 1 and cs >= c and ws >= c):
            raise Machinery("strict validation rejected a recovery outside the read-ahead class: %s" % json.dumps(ev))
        finding = dict(history=hists[blk[0]["h"]], crash_after=ev["label"], marks_put_taken_putSynced_takenSynced_out=ev["m"],
                       delivered_after_restart=ev["D"],
                       what="line #%d was Put and synced, taken by the SlowChan goroutine, never received on Out; the "
                            "restarted spool does not deliver it" % c)
        ctx.cov["finding_readahead"] = finding
        ctx.note("FINDING-CANDIDATE readahead: %d of %d recoveries lose the line held by the SlowChan goroutine although it "
                 "was synced and never delivered on Out (counted by no metric); e.g. crash after %s, marks %s, restart "
                 "delivers %s" % (total["readahead_lost"], total["recs"], ev["label"], ev["m"], ev["D"]))
    if not ctx.violations and not crashed:
        if total["readahead_lost"] == 0:
            ctx.note("no recovery lost the SlowChan read-ahead line in this run")
        selftest(ctx, blocks)
        for k in ("recs", "nonempty", "tail_lost", "mem_lost", "redelivered"):
            if total[k] == 0:
                raise Machinery("vacuous coverage: no recovery of class %s" % k)

    cov = ctx.cov
    cov["evaluations"] = total["recs"]
    cov["distinct_nontrivial"] = len(set((e["label"], tuple(e["m"]), tuple(e["D"])) for e in events
                                         if e["ev"] == "rec" and e.get("D")))
    cov["distinct_recoveries_run"] = end[0]["distinct_recoveries"] if end else 0
    cov["histories"] = len(hists)
    cov["events_by_kind"] = kinds
    cov["crash_points_by_label"] = labels
    cov["recovery_classes_counted_by_TLC"] = total
    cov["rule"] = ("histories = TLC-enumerated driver histories of SpoolGen.tla (length %d, a seeded subset) x settings "
                   "(spoolbuf, maxBytesPerFile, syncEvery) %s + seeded random long ones with parked Writer/Buffer goroutines "
                   "+ offline-destination histories; crash point = every queue hook; each distinct directory content is "
                   "restarted with the real NewSpool; evaluations = recoveries decided by TLC; non-trivial = distinct (label, "
                   "marks, delivered run) with a non-empty delivery" % (ctx.pick(6, 7), settings))
    for e in events:
        if e["ev"] == "rec" and e.get("D") and len(cov["samples"]) < 2:
            ctx.sample(dict(crash_after=e["label"], marks_put_taken_putSynced_takenSynced_out=e["m"], delivered_after_restart=e["D"]))
    if finding:
        ctx.sample(dict(finding_readahead=dict(crash_after=finding["crash_after"], marks=finding["marks_put_taken_putSynced_takenSynced_out"],
                                               delivered_after_restart=finding["delivered_after_restart"])))
    ctx.assumptions += ["process crash (memory lost, all written file data kept), not power loss",
                        "the queue under the spool is the level-A contract of C08/C09 (QueueContractOps.tla); its file "
                        "level is covered by C08/C09",
                        "one relay restart per recorded run on the real code (the model also covers two)",
                        "hooks are recorded after the step they report; the trace spec allows InRT one line more than cap(InRT)"]
    cov["trusted_base"] = ["TLC", "harness/spoolx driver (records only)", "line identity by embedded id + byte equality",
                           "pairing of a queue write with the line of the next spool.put hook (Put is synchronous, one caller)"]


def selftest(ctx, blocks):
    """binding: a corrupted recorded field must be rejected exactly there"""
    bs = blocks[0][0]
    grp = [blk for b, blk in blocks if b == bs][:60]
    flat = [r for blk in grp for r in blk]

    def expect_reject(name, idx, mutate):
        fl = copy.deepcopy(flat)
        mutate(fl[idx])
        f = ctx.write_ndjson("selftest_%s.ndjson" % name, fl)
        ok, matched, res = ctx.validate_traces("SpoolTrace", "SpoolTrace.cfg", f, len(fl), 0,
                                               consts=dict(BufCap=bs, StrictReadAhead=False), tag="self_" + name, heap="12g")
        if ok or matched != idx:
            raise Machinery("binding self-test %s failed: corruption at line %d not rejected there (matched %s)" % (name, idx, matched))

    i = next((i for i, r in enumerate(flat) if r["ev"] == "out"), None)
    if i is None:
        raise Machinery("self-test: no out event")
    expect_reject("out", i, lambda r: r.update(id=r["id"] + 1))
    i = next((i for i, r in enumerate(flat) if r["ev"] == "rec" and len(r["D"]) >= 2), None)
    if i is None:
        raise Machinery("self-test: no recovery with two lines")
    expect_reject("rec_hole", i, lambda r: r.update(D=r["D"][:-2] + r["D"][-1:]))
    if ctx.quick():
        ctx.cov["binding_selftests"] = "passed (2 of 4 in the quick tier)"
        return
    i = next((i for i, r in enumerate(flat) if r["ev"] == "rec" and len(r["D"]) >= 1 and r["m"][3] >= 1 and r["D"][0] > 1), None)
    if i is not None:
        # a restart that also redelivers a line whose consumption had been synced
        expect_reject("rec_rewind", i, lambda r: r.update(D=[r["D"][0] - 1] + r["D"]))
    i = next((i for i, r in enumerate(flat) if r["ev"] == "put"), None)
    expect_reject("put", i, lambda r: r.update(id=r["id"] + 1))
    ctx.cov["binding_selftests"] = "passed"
