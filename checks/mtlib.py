"""Shared by C03 and C11: case generation with TLC (MatcherGen / AggTableGen), the Go driver
harness/mt on the real matcher / table / routes / destinations / aggregators, and trace
validation with rejection handling (TLC decides every recorded event)."""
import json, os, copy
from vlib.core import Machinery


def gen_matcher_cases(ctx, sigma, maxlen, families, rich, workers=4, timeout=3000, tag=None):
    """TLC enumerates filters; for every filter the verdict of Matcher!Accept for every name."""
    r = ctx.tlc("MatcherGen", "MatcherGen.cfg", workers=workers, timeout=timeout, heap="8g", tag=tag,
                consts=dict(NameSigma=set(sigma), MaxLen=maxlen, Families=set(families), Rich=rich))
    names = None
    for s in ctx.tlc_printed(r, "@@N"):
        names = json.loads(s)["names"]
    cases = [json.loads(s) for s in ctx.tlc_printed(r, "@@C")]
    if names is None or not cases:
        raise Machinery("MatcherGen produced no cases; log %s" % r["log"])
    if len(cases) != r["distinct"]:
        raise Machinery("MatcherGen: %d cases parsed but %d states (interleaved output?); log %s" % (
            len(cases), r["distinct"], r["log"]))
    for c in cases:
        for k in ("expect", "sre", "snre", "online"):
            if k in c and c[k] != "" and len(c[k]) != len(names):
                raise Machinery("MatcherGen: verdict vector of wrong length")
    return names, cases


def run_matcher(ctx, names, cases, tag):
    """the real matcher on every (filter, name)"""
    recs = [dict(names=names)] + [dict(id=i, f=c["f"], **({"tmpl": c["tmpl"]} if "tmpl" in c else {})) for i, c in enumerate(cases)]
    cf = ctx.write_ndjson("mt_cases_%s.ndjson" % tag, recs)
    rf = os.path.join(ctx.out, "mt_results_%s.ndjson" % tag)
    ctx.go_test("mt", run="^TestMatcher$", env=dict(VERIF_MT_CASES=cf, VERIF_MT_RESULTS=rf), timeout=3000)
    res = {r["id"]: r for r in ctx.read_ndjson(rf)}
    if len(res) != len(cases):
        raise Machinery("matcher driver returned %d results for %d cases" % (len(res), len(cases)))
    return res


def optclass(f):
    return "+".join(k for k in ("prefix", "notPrefix", "sub", "notSub", "regex", "notRegex") if f.get(k)) or "empty"


def diffbits(a, b):
    return [i for i in range(len(a)) if a[i] != b[i]]


def validate_blocks(ctx, module, cfg, blocks, fname, sig_of, on_reject, max_rounds=14, timeout=3000, heap="8g"):
    """`blocks` = list of lists of events (each block independent: starts with a reset event or is a
    single self-contained event).  TLC validates the concatenation; on rejection the offending event
    is reported through on_reject(block, index) and every block with the same signature
    sig_of(block, index) is dropped, then the rest is validated again.  Returns (#blocks accepted,
    #events accepted, #rejections)."""
    blocks = list(blocks)
    rejected = 0
    for rnd in range(max_rounds):
        flat = [e for b in blocks for e in b]
        if not flat:
            return 0, 0, rejected
        f = ctx.write_ndjson(fname, flat)
        ok, matched, res = ctx.validate_traces(module, cfg, f, len(flat), len(blocks), tag="%s_%d" % (module, rnd),
                                               timeout=timeout, heap=heap)
        if ok:
            return len(blocks), len(flat), rejected
        if matched is None or matched >= len(flat):
            raise Machinery("trace validation %s gave no usable verdict (matched=%s of %d, violated=%s); log %s" % (
                module, matched, len(flat), res["violated"], res["log"]))
        pos = 0
        for bi, b in enumerate(blocks):
            if matched < pos + len(b):
                idx = matched - pos
                sig = sig_of(b, idx)
                on_reject(b, idx, sig, res["violated"])
                rejected += 1
                blocks = [x for j, x in enumerate(blocks) if j != bi and not _same_sig(x, sig, sig_of)]
                break
            pos += len(b)
    ctx.note("more than %d rejection rounds in %s; remaining events not validated" % (max_rounds, module))
    return 0, 0, rejected


def _same_sig(block, sig, sig_of):
    # single-event blocks carry their class; multi-event blocks (histories) are dropped one at a time
    if len(block) != 1:
        return False
    return sig_of(block, 0) == sig


def selftest(ctx, module, cfg, events, mutate, what, tag):
    """binding self-test: a corrupted recorded field must be rejected exactly there"""
    ev = copy.deepcopy(events)
    idx = mutate(ev)
    if idx is None:
        raise Machinery("binding self-test %s: nothing to corrupt" % what)
    f = ctx.write_ndjson("selftest_%s.ndjson" % tag, ev)
    ok, matched, res = ctx.validate_traces(module, cfg, f, len(ev), 0, tag="self_" + tag)
    if ok or matched != idx:
        raise Machinery("binding self-test failed (%s): corruption at event %d not rejected there (accepted=%s matched=%s)" % (
            what, idx, ok, matched))
