"""XDESTB — extension check: hook-level trace validation of the level-B destination model.

spec/Destination.tla (relay select loop, connector, Conn.HandleData, checkEOF, keepSafe, getRedo/collectRedo, Spool,
SlowChan, endpoint) is model-checked exhaustively by C06/C07, but was bound to destination/*.go only through level-A
(counter / receipt) traces.  Here the verifEvent hooks of the real code are recorded and

spec/DestinationHookTrace.tla   replays them into Destination.tla's actions: every hook event is the corresponding model
                                action, model actions without a hook are silent steps (sender offer, dial, flush of a full
                                io buffer inside Write, endpoint read, SlowChan read-ahead, keepSafe rotation) that are
                                enabled only where the next event needs them.  Hooks fire after the state change they
                                report and are logged by different goroutines: the log is split per goroutine, each
                                goroutine's events stay in order, TLC merges the streams; an event took effect
                                somewhere between the previous hook of its goroutine (lo) and its own hook (hi), so an
                                event f precedes e whenever hi(f) < lo(e) -- nothing else is assumed about the order.
harness/destb                   the driver: real destinations (spool on / off) against a loopback endpoint that is taken
                                down, cut, paused; one log under one mutex, goroutine role from the call stack.

Model fidelity, not a property: a rejected trace is `NOTE model-drift Destination.tla ...` (exit 0); the properties are
judged at level A by C06/C07.
"""
import copy, json, os, random
from concurrent.futures import ThreadPoolExecutor
from vlib.core import Machinery

LEVEL = "model_checking"
MODULE = "DestinationHookTrace"
CFG = "DestinationHookTrace.cfg"
LINELEN = 32
RT = 10          # cap(spool.InRT) in destination/spool.go


# ----------------------------------------------------------------------------- scenarios
def scenarios(ctx):
    rng = random.Random(ctx.seed * 65537 + 11)
    q = ctx.quick()
    base = dict(spool=True, connbuf=8, iolines=4, linelen=LINELEN, flush_ms=40, reconn_ms=150, spoolbuf=400,
                unspool_us=200, keep_ms=0, slow_us=0)
    B = rng.choice([3, 5, 8])
    named = [
        # spool off: healthy traffic in bursts (conn.In overflows: slow_conn), the connection is cut, lines while there is
        # no connection are counted conn_down_no_spool, reconnect
        ("healthy-nospool", dict(spool=False, connbuf=4),
         ["up", "send 30 %d 300" % B, "send 12", "cut", "send 6 2 500", "online", "send 20 %d 200" % B]),
        # spool on, traffic before the first connection (InRT -> queue), then the endpoint appears: unspooling + live traffic
        ("spool-before-first-connect", dict(),
         ["run", "send 25 5 300", "send 30", "backlog 10", "up", "send 30 %d 300" % B, "settle", "send 10"]),
        # outage in the middle of traffic: redo (keepSafe + what is left in conn.In) goes to the spool in bulk, lines during
        # the outage go to InRT, recovery, unspooling while traffic goes on; twice
        ("outage-recovery", dict(connbuf=16, slow_us=1200),
         ["up", "send 20 %d 200" % B, "slowwriter on", "bg 190 1 700", "waithanded 35", "down", "slowwriter off", "waithanded 25", "up",
          "waithanded 30", "downnw", "waithanded 15", "upnw", "join", "settle", "send 8"]),
        # slow endpoint: the endpoint stops reading and the connection writer is slow (every socket write takes a while):
        # conn.In fills, lines are dropped and counted, the slow flags gate the unspooling
        ("slow-endpoint", dict(connbuf=3, slow_us=1500, reconn_ms=100),
         ["run", "send 15", "backlog 8", "up", "slowwriter on", "send 60 10 100", "pause", "send 20 5 500", "resume", "slowwriter off",
          "send 20 4 2000", "settle", "send 10 2 500"]),
        # connections cut (listener stays) while lines are in flight, spool on
        # ... and a connection that is cut right after lines were dropped for it: the new connection starts with clean slow flags
        ("cut-connections", dict(connbuf=6, iolines=3, slow_us=1200),
         ["up", "bg 80 1 1500", "waithanded 20", "cutnw", "waithanded 10", "online", "waithanded 25", "cut", "join", "settle", "send 6",
          "online", "slowwriter on", "bg 110 1 300", "waithanded 50", "cutnw", "slowwriter off", "join", "online", "send 10 2 2000", "settle"]),
        # keepSafe rotation: the keep period is short; lines of the old generation, of the recent generation, and lines old
        # enough to have been discarded; then the connection is lost and everything kept comes back through redo
        ("keepsafe-rotation", dict(keep_ms=250, flush_ms=20),
         ["up", "send 12 4 300", "settle", "sleep 330", "send 6", "settle", "sleep 700", "send 5", "settle", "sleep 300", "send 4",
          "down", "send 5", "up", "settle", "send 3"]),
    ]
    scns = []
    for name, over, steps in named:
        scns.append(dict(base, **over, name=name, steps=steps))
    nrand = 1 if q else 8
    for j in range(nrand):
        steps, up = [], rng.random() < 0.6
        steps.append("up" if up else "run")
        steps.append("bg %d %d %d" % (rng.randint(120, 220), rng.choice([1, 1, 2]), rng.choice([1000, 2000, 3000])))
        for _ in range(rng.randint(2, 5)):
            steps.append("waithanded %d" % rng.randint(8, 35))
            x = rng.random()
            if up and x < 0.3:
                steps.append(rng.choice(["cut", "cutnw"]))
            elif up and x < 0.45:
                steps += ["pause", "waithanded %d" % rng.randint(5, 20), "resume"]
            elif up:
                steps.append(rng.choice(["down", "downnw"]))
                up = False
            else:
                steps.append(rng.choice(["up", "upnw"]))
                up = True
        steps += ["join"]
        scns.append(dict(base, name="random-%d" % j, steps=steps, spool=rng.random() < 0.75, connbuf=rng.choice([2, 5, 12]),
                         iolines=rng.choice([1, 3, 6]), reconn_ms=rng.choice([100, 150])))
    if not q:
        # thorough: twice the traffic in the background phases
        for s in scns:
            st = []
            for x in s["steps"]:
                p = x.split()
                if p[0] == "bg":
                    p[1] = str(2 * int(p[1]))
                    x = " ".join(p)
                st.append(x)
            s["steps"] = st
    for i, s in enumerate(scns):
        s["id"] = i + 1
        tot = 0
        for st in s["steps"]:
            p = st.split()
            if p[0] in ("send", "bg"):
                tot += int(p[1])
        s["nmax"] = tot + 5
    return scns


def run_driver(ctx, scns, timeout=600):
    sf = os.path.join(ctx.out, "destb_scn.json")
    with open(sf, "w") as f:
        json.dump(scns, f)
    res = ctx.go_test("destb", run="^TestDestB$", timeout=timeout, expect_ok=False, env=dict(VERIF_DESTB_SCN=sf))
    tf = os.path.join(ctx.out, "destb_trace.ndjson")
    events = []
    if os.path.exists(tf):
        with open(tf) as f:
            for line in f:
                try:
                    events.append(json.loads(line))
                except ValueError:
                    break
    if res["rc"] != 0:
        raise Machinery("destb driver failed (rc=%s); log %s\n%s" % (res["rc"], res["log"], res["text"][-2500:]))
    return events


# ----------------------------------------------------------------------------- log -> per-goroutine streams
FIELDS = dict(ev="", id=0, conn=0, oconn=0, lo=0, hi=0, out="", dead=False, b=False, ncu=0, spawn=False, sn=False, sl=False,
              old=0, new=0, n=-1, src="", mode="")


def rec(**kw):
    r = dict(FIELDS)
    r.update(kw)
    return r


def streams_of(raw):
    """raw: the hook/driver events of one scenario in log order (seq >= 1).  Returns (streams, info): streams = list of
    dict(role, k, evs) -- relay, driver, spool-writer, spool-buffer first, then writer/eof/redo per connection.  Each
    model-level event carries lo (sequence number of the previous hook of the same goroutine, or the beginning of a driver
    operation) and hi (its own sequence number): it took effect in (lo, hi]."""
    by = {}
    order = []
    for e in raw:
        role = e["role"]
        k = e.get("conn", 0) if role in ("writer", "eof", "redo") else 0
        key = (role, k)
        if key not in by:
            by[key] = []
            order.append(key)
        by[key].append(e)
    fixed = [("relay", 0), ("driver", 0), ("spool-writer", 0), ("spool-buffer", 0)]
    keys = fixed + sorted([k for k in order if k not in fixed], key=lambda x: (x[1], x[0]))
    streams, unknown = [], []
    for key in keys:
        role, k = key
        evs = by.get(key, [])
        out = []
        prev = 0            # seq of the previous raw event of this goroutine
        i = 0

        def take(j):
            return evs[j] if j < len(evs) else None

        while i < len(evs):
            e = evs[i]
            name, s = e["ev"], e["seq"]
            if name == "mark":          # the goroutine was held in the hook until here (slow-writer emulation)
                prev = s
                i += 1
                continue
            lo = prev
            nxt, nxt2 = take(i + 1), take(i + 2)
            used = 1
            r = None
            if role == "relay":
                if name == "relay.loop":
                    if nxt is not None and nxt["ev"] == "relay.dead":
                        r = rec(ev="relay.top", conn=e["conn"], dead=True, lo=lo, hi=nxt["seq"], sn=e["sn"], sl=e["sl"])
                        used = 2
                    else:
                        r = rec(ev="relay.top", conn=e["conn"], dead=False, lo=lo, hi=s, sn=e["sn"], sl=e["sl"])
                elif name in ("relay.in", "relay.unspool"):
                    if nxt is None:
                        break               # the log ends inside this step
                    if nxt["ev"] not in ("send.ok", "send.drop", "spool.ok", "spool.drop", "drop.noconn") or nxt.get("id") != e.get("id"):
                        unknown.append(e)
                        r = rec(ev="unknown:" + name + "+" + nxt["ev"], lo=lo, hi=s)
                    else:
                        r = rec(ev=name, conn=e["conn"], id=e["id"], out=nxt["ev"], oconn=nxt.get("conn", 0), lo=lo, hi=nxt["seq"],
                                sn=e.get("sn", False), sl=e.get("sl", False))
                        used = 2
                elif name == "relay.tick":
                    r = rec(ev=name, conn=e["conn"], ncu=e["ncu"], spawn=(e["conn"] == 0 and e["ncu"] == 0), lo=lo, hi=s)
                elif name == "relay.inConnUpdate":
                    r = rec(ev=name, conn=e["conn"], b=e["b"], lo=lo, hi=s)
                elif name == "relay.connUpdate":
                    r = rec(ev=name, conn=e["conn"], lo=lo, hi=s)
            elif role == "writer":
                if name == "hd.recv":
                    r = rec(ev=name, id=e["id"], lo=lo, hi=s)
                elif name == "hd.added":
                    out.append(rec(ev=name, id=e["id"], lo=lo, hi=s))
                    r = rec(ev="ks.obs", old=e["old"], new=e["new"], lo=s - 1, hi=s)
                elif name in ("hd.written", "hd.flush"):
                    if not e["err"]:
                        r = rec(ev=name, id=e.get("id", 0), lo=lo, hi=s)
                    else:
                        # write / flush error: c.close() and the deferred hd.exit follow in the same goroutine
                        if nxt is None or nxt2 is None:
                            break
                        if nxt["ev"] != "conn.close" or nxt2["ev"] != "hd.exit":
                            unknown.append(e)
                            r = rec(ev="unknown:" + name, lo=lo, hi=s)
                        else:
                            r = rec(ev="hd.fail", src=("write" if name == "hd.written" else "flush"), id=e.get("id", 0), lo=lo, hi=nxt2["seq"])
                            used = 3
                elif name == "hd.shutdown":
                    if nxt is None:
                        break
                    if nxt["ev"] != "hd.exit":
                        unknown.append(e)
                        r = rec(ev="unknown:" + name, lo=lo, hi=s)
                    else:
                        r = rec(ev="hd.shutdown", lo=lo, hi=nxt["seq"])
                        used = 2
            elif role == "eof":
                if name == "conn.close":
                    r = rec(ev="eof.close", lo=lo, hi=s)
            elif role == "redo":
                if name == "redo.start":
                    out.append(rec(ev=name, lo=lo, hi=s))
                    r = rec(ev="ks.obs", old=e["old"], new=e["new"], lo=s - 1, hi=s)
                elif name == "redo.drain":
                    # the hook fires before keepSafe.Add: the observation is the state before this line is added
                    out.append(rec(ev="ks.obs", old=e["old"], new=e["new"], lo=s - 1, hi=s))
                    r = rec(ev=name, id=e["id"], lo=lo, hi=s)
                elif name == "redo.getall":
                    n = -1
                    for f in evs[i + 1:]:
                        if f["ev"] == "redo.ingested":
                            n = f["n"]
                            break
                    r = rec(ev=name, n=n, lo=lo, hi=s)
                elif name == "redo.ingested":
                    r = rec(ev=name, n=e["n"], lo=lo, hi=s)
            elif role == "spool-writer":
                if name in ("spool.rt", "spool.bulk"):
                    r = rec(ev=name, id=e["id"], lo=lo, hi=s)
            elif role == "spool-buffer":
                if name == "spool.put":
                    r = rec(ev=name, id=e["id"], lo=lo, hi=s)
            elif role == "driver":
                mode = {"ep.up": "healthy", "ep.down": "absent", "ep.pause": "paused", "ep.resume": "healthy",
                        "ep.closing": "closing", "ep.closed": "healthy"}.get(name)
                if mode:
                    r = rec(ev=name, mode=mode, lo=e["lo"], hi=s)
            if r is None:
                unknown.append(e)
                r = rec(ev="unknown:" + role + ":" + name, lo=lo, hi=s)
            out.append(r)
            prev = evs[i + used - 1]["seq"]
            i += used
        streams.append(dict(role=role, k=k, evs=out))
    return streams, unknown


def consts_of(scn, init_mode, streams, raw):
    ids = [e["id"] for e in raw if e.get("id", 0) > 0]
    nconn = max([e.get("conn", 0) for e in raw] + [0])
    n = max(ids + [1])
    return dict(N=n, Q=scn["connbuf"], IOB=scn["iolines"], KB=n + 1, RT=RT, SB=scn["spoolbuf"], MaxConn=nconn + 2,
                MaxChanges=100000, Spool=scn["spool"], InitModes={init_mode}, Modes={"absent", "healthy", "paused", "closing"},
                FixRedoWaits=True, Mutant="")


def n_events(streams):
    return sum(len(s["evs"]) for s in streams)


def validate(ctx, streams, consts, tag, own_dir=None, timeout=900, deque=True):
    """TLC decides.  Returns (accepted, matched, pos, res)."""
    f = ctx.write_ndjson("hook_%s.ndjson" % tag, streams)
    n = n_events(streams)
    ok, matched, res = ctx.validate_traces(MODULE, CFG, f, n, 1, consts=consts, tag=tag, timeout=timeout, deque=deque,
                                           heap="6g", own_dir=own_dir)
    pos = None
    for s in ctx.tlc_printed(res, "@@TRACE"):
        try:
            pos = json.loads(s).get("pos")
        except Exception:
            pass
    return ok, matched, pos, res


def describe_reject(streams, matched, pos, res):
    nxt = []
    if pos:
        for g, s in enumerate(streams):
            p = pos[g] if g < len(pos) else None
            if p is not None and p <= len(s["evs"]):
                e = s["evs"][p - 1]
                nxt.append("%s%s#%d:%s" % (s["role"], (":%d" % s["k"]) if s["k"] else "", p,
                                           json.dumps({k: v for k, v in e.items() if v != FIELDS.get(k) or k == "ev"}, separators=(",", ":"))))
    return "matched %s/%d events; next event per goroutine: %s; invariant=%s" % (matched, n_events(streams), "  ".join(nxt)[:1500], res["violated"])


def split_scenarios(events):
    by = {}
    for e in events:
        by.setdefault(e["scn"], []).append(e)
    return by


# deviation of Destination.tla (constant Mutant) -> what a recorded scenario must contain for the deviation to show
DEVIATIONS = [
    ("DropNoCount", lambda h, raw: h.get("send.drop", 0) > 0),            # a full conn.In drops without counting
    ("BlockingSend", lambda h, raw: h.get("send.drop", 0) > 0),           # `conn.In <- buf` without default
    ("DownDropNoCount", lambda h, raw: h.get("drop.noconn", 0) > 0),      # no connection, no spool: dropped without counting
    ("RedoSkipDrain", lambda h, raw: h.get("redo.drain", 0) > 0),         # getRedo returns GetAll() without draining In
    ("NoIngest", lambda h, raw: h.get("spool.bulk", 0) > 0),              # collectRedo does not ingest
    ("DropSafeOld", lambda h, raw: any(e["ev"] == "redo.start" and e["old"] > 0 for e in raw)),   # GetAll forgets the old generation
    ("SpoolDropNoCount", lambda h, raw: h.get("spool.drop", 0) > 0),      # a full InRT drops without counting
    ("DialInLoop", lambda h, raw: h.get("relay.connUpdate", 0) > 0),      # the relay loop dials itself
]


def corruptions(raw, rng):
    """binding self-tests: (name, corrupted copy of the raw log).  One hook event removed / one line id changed."""
    out = []

    def pick(pred):
        c = [i for i, e in enumerate(raw) if pred(e)]
        c = [i for i in c if len(raw) // 5 <= i <= 4 * len(raw) // 5] or c
        return rng.choice(c) if c else None

    for name, pred in (("remove-hd.recv", lambda e: e["ev"] == "hd.recv"),
                       ("remove-spool.put", lambda e: e["ev"] == "spool.put"),
                       ("remove-relay.loop", lambda e: e["ev"] == "relay.loop"),
                       ("remove-hd.added", lambda e: e["ev"] == "hd.added")):
        i = pick(pred)
        if i is not None:
            out.append((name, raw[:i] + raw[i + 1:]))
    for name, pred in (("id-hd.written", lambda e: e["ev"] == "hd.written" and not e["err"]),
                       ("id-spool.rt", lambda e: e["ev"] == "spool.rt"),
                       ("id-redo-bulk", lambda e: e["ev"] == "spool.bulk")):
        i = pick(pred)
        if i is not None:
            c = copy.deepcopy(raw)
            c[i]["id"] += 1
            out.append((name, c))
    # the line the relay took from dest.In and its outcome (both hooks carry the id)
    i = pick(lambda e: e["ev"] == "relay.in")
    if i is not None:
        c = copy.deepcopy(raw)
        c[i]["id"] += 1
        for f in c[i + 1:]:
            if f["role"] == "relay":
                if "id" in f:
                    f["id"] += 1
                break
        out.append(("id-relay.in", c))
    # the connection a line was written to
    i = pick(lambda e: e["ev"] == "send.ok")
    if i is not None and max(e.get("conn", 0) for e in raw) >= 2:
        c = copy.deepcopy(raw)
        c[i]["conn"] = 1 if c[i]["conn"] != 1 else 2
        out.append(("conn-send.ok", c))
    return out


def run(ctx):
    q = ctx.quick()
    rng = random.Random(ctx.seed * 31337 + 5)
    scns = scenarios(ctx)
    ctx.log("XDESTB scenarios: %d" % len(scns))
    events = run_driver(ctx, scns, timeout=ctx.pick(400, 1500))
    by = split_scenarios(events)
    jobs = []
    for s in scns:
        evs = by.get(s["id"], [])
        touts = [e for e in evs if e["ev"] == "timeout"]
        if touts:
            raise Machinery("destb driver could not complete scenario %s: %s" % (s["name"], json.dumps(touts[:2])))
        fin = [e for e in evs if e["ev"] == "final"]
        init = [e for e in evs if e["ev"] == "init"]
        if not fin or not init:
            raise Machinery("dead driver: scenario %s has no init/final record" % s["name"])
        raw = [e for e in evs if e["seq"] > 0]
        streams, unknown = streams_of(raw)
        jobs.append(dict(scn=s, raw=raw, streams=streams, unknown=unknown, final=fin[0], init=init[0]["mode"],
                         consts=consts_of(s, init[0]["mode"], streams, raw)))

    # ---- 1. TLC decides every scenario (one run per scenario: the buffer sizes are constants of the model)
    tasks = []          # (kind, name, job, streams, consts)
    for j in jobs:
        tasks.append(("scenario", j["scn"]["name"], j, j["streams"], j["consts"]))

    def run_tasks(tasks, first):
        for gi in range(len(tasks)):
            ctx.specdir("specH%d" % (first + gi))

        def one(gi):
            kind, name, j, streams, consts = tasks[gi]
            return validate(ctx, streams, consts, "hk%d" % (first + gi), own_dir="specH%d" % (first + gi), timeout=ctx.pick(600, 2400))

        with ThreadPoolExecutor(max_workers=5) as pool:
            return list(pool.map(one, range(len(tasks))))

    results = run_tasks(tasks, 0)
    accepted = 0
    for j, (ok, matched, pos, res) in zip(jobs, results):
        j["ok"], j["matched"] = ok, matched
        s = j["scn"]
        ctx.log("scenario %-28s hooks=%d model-level events=%d goroutines=%d accepted=%s distinct=%d" % (
            s["name"], len(j["raw"]), n_events(j["streams"]), len(j["streams"]), ok, res["distinct"]))
        ctx.cov["states"] += res["distinct"]
        ctx.cov["transitions"] += res["generated"]
        if ok:
            accepted += 1
        else:
            ctx.note("model-drift Destination.tla (scenario %s): %s" % (s["name"], describe_reject(j["streams"], matched, pos, res)))
            ctx.cov["drift"] = True
    good = [j for j in jobs if j["ok"]]

    # ---- 2. non-vacuity: the recorded behaviour of the code is NOT a behaviour of the named deviations of the model
    #         (the trace set tells the model from its deviations), and
    #      3. binding self-tests: one hook event removed / one line id changed => rejected
    tasks2 = []
    devs = [d for d in DEVIATIONS if d[0] in ("DropNoCount", "DownDropNoCount", "RedoSkipDrain", "NoIngest")] if q else DEVIATIONS
    skipped = []
    for dev, needs in DEVIATIONS:
        cands = [j for j in good if needs(j["final"]["hooks"], j["raw"])]
        if not cands:
            skipped.append(dev)
            continue
        if (dev, needs) not in devs:
            continue
        j = min(cands, key=lambda j: len(j["raw"]))
        tasks2.append(("deviation", dev, j, j["streams"], dict(j["consts"], Mutant=dev)))
    spoolgood = [j for j in good if j["scn"]["spool"] and j["final"]["hooks"].get("spool.bulk", 0) > 0]
    if spoolgood:
        j = min(spoolgood, key=lambda j: len(j["raw"]))
        cs = corruptions(j["raw"], rng)
        if q:
            cs = [c for c in cs if c[0] in ("remove-hd.recv", "id-hd.written", "id-relay.in", "conn-send.ok")]
        for name, raw2 in cs:
            st2, _ = streams_of(raw2)
            tasks2.append(("selftest", name, j, st2, j["consts"]))
    res2 = run_tasks(tasks2, len(tasks))
    rejected_devs, selftests = {}, {}
    for (kind, name, j, streams, consts), (ok, matched, pos, res) in zip(tasks2, res2):
        if kind == "deviation":
            if ok:
                raise Machinery("deviation %s of Destination.tla explains the hook trace of scenario %s as well as the model does "
                                "(vacuity of the hook-level binding)" % (name, j["scn"]["name"]))
            rejected_devs[name] = "%s: %s/%d" % (j["scn"]["name"], matched, n_events(streams))
        else:
            if ok:
                raise Machinery("binding self-test %s: the corrupted hook log of scenario %s is still accepted" % (name, j["scn"]["name"]))
            selftests[name] = "%s: %s/%d" % (j["scn"]["name"], matched, n_events(streams))
    ctx.log("deviations rejected: %s" % json.dumps(rejected_devs))
    ctx.log("binding self-tests rejected: %s" % json.dumps(selftests))
    if len(good) == len(jobs):      # (with drift the scenarios needed may be missing: the NOTE is the result of the run)
        if len(rejected_devs) < ctx.pick(3, 5):
            raise Machinery("only %d deviations of the model could be confronted with the traces (%s not exercised): vacuity" % (len(rejected_devs), skipped))
        if len(selftests) < ctx.pick(3, 6):
            raise Machinery("binding self-tests did not run (%s)" % selftests)
        ctx.cov["binding_selftests"] = "passed"
    ctx.cov["deviations_rejected"] = rejected_devs
    ctx.cov["selftests_rejected"] = selftests
    if skipped:
        ctx.cov["deviations_not_exercised"] = skipped

    # ---- evidence
    tot = {}
    for j in jobs:
        for k, v in j["final"]["hooks"].items():
            tot[k] = tot.get(k, 0) + v
    ctx.cov["hook_events"] = tot
    ctx.cov["scenarios"] = {j["scn"]["name"]: dict(accepted=j["ok"], hooks=len(j["raw"]), events=n_events(j["streams"]), goroutines=len(j["streams"]),
                                                   handed=j["final"]["handed"], conns=j["final"]["conns"]) for j in jobs}
    ctx.cov["evaluations"] = sum(n_events(j["streams"]) for j in jobs)
    ctx.cov["distinct_nontrivial"] = accepted
    ctx.cov["traces_rejected"] = len(jobs) - accepted
    need = ["relay.in", "send.ok", "send.drop", "spool.ok", "drop.noconn", "relay.unspool", "relay.dead", "redo.drain", "redo.getall",
            "spool.bulk", "spool.rt", "spool.put", "hd.recv", "hd.flush", "conn.close", "relay.connUpdate", "relay.tick"]
    missing = [k for k in need if tot.get(k, 0) == 0]
    if missing:
        raise Machinery("vacuous run: no hook event of kind %s was recorded" % missing)
    ctx.cov["rule"] = ("evaluations = model-level events (hook events of the real destination, merged where one model action has several hooks) "
                       "decided by TLC; distinct_nontrivial = scenarios whose complete hook log is accepted by DestinationHookTrace.tla as a "
                       "behaviour of Destination.tla (per-goroutine streams merged by TLC under the interval order)")
    j0 = jobs[2] if len(jobs) > 2 else jobs[0]
    ctx.sample(dict(scenario=j0["scn"]["name"], steps=j0["scn"]["steps"], final={k: v for k, v in j0["final"].items() if k != "hooks"},
                    accepted=j0["ok"]))
    ctx.sample(dict(stream_heads=[dict(role=s["role"], k=s["k"], n=len(s["evs"]), first=s["evs"][:2]) for s in j0["streams"][:6]]))
    ctx.assumptions += [
        "an event took effect after the previous hook of its own goroutine returned and not later than its own hook (hooks are one-liners placed "
        "right after the state change; spool.rt / spool.bulk fire between the two halves of the model's atomic step, the queue buffer is never full in the scenarios)",
        "line length and io buffer are chosen so that the io buffer holds a whole number of lines (IOB); the kernel buffers are never the bottleneck (KB = number of lines): "
        "a slow endpoint is produced by pausing the endpoint's reads and by delaying the connection writer in the hook",
        "connbuf >= 1 (Destination.tla does not model the rendezvous of an unbuffered conn.In)",
        "endpoint reads are not recorded: in the model a reading endpoint reads as soon as bytes have reached its socket (this never disables a step)",
        "assumptions A1/A2 of Destination.tla (keep period > failure detection; one connector at a time): reconnect period >= 100 ms",
    ]
    ctx.cov["trusted_base"] = ["TLC", "harness/destb driver (records only; goroutine role from the call stack)", "kernel loopback TCP",
                               "checks/xdestb.py streams_of (splits the log per goroutine, merges multi-hook steps, computes lo/hi)"]
