"""C20 helpers: TLC case generation from spec/Config.tla, rendering of a case as TOML section /
init command / admin command (concretisation by construction, syntax from docs/config.md and
docs/tcp-admin-interface.md), the two driver stages, and the field-by-field comparison of what the
real code built with the record TLC computed.

The unit that is loaded is a LIST of entries of one section kind (Config.tla section 4): one TOML
document with several sections / blacklist lines, one configuration file with several init commands,
one sequence of admin commands.  A single entry is a list of one.

Stage 1 (package main of the relay, through `go test -overlay`, nothing added to /repo): every
configuration-file text goes through the real readConfigFile -- the function main() uses.
Stage 2 (harness/conf): toml.Decode + cfg.InitTable / imperatives.Apply on a real table."""
import json, os, random, shutil, socket, subprocess, time
from vlib import core
from vlib.core import Machinery

ALL_KINDS = {"black", "rewriter", "agg", "route", "gnet"}
ALL_TYPES = {"sendAllMatch", "sendFirstMatch", "consistentHashing"}
EXPAND_ENV = dict(GRAFANA_NET_ADDR="http://gnet.example/metrics", GRAFANA_NET_API_KEY="s3cr3t-key",
                  GRAFANA_NET_USER_ID="4711")
GNET_ADDR = "http://127.0.0.1:1/metrics"     # nothing listens on port 1: the route keeps retrying, harmlessly
BOOL_NAMES = ["sslverify", "spool", "blocking", "pickle", "cache", "dropRaw"]
DEVIATIONS_CASES = ["swap_buf", "dest_shift", "substr_dropped", "bool_inverted", "cache_same_default"]
# every numeric option, by entry kind: the value class "explicit zero" (Config.tla section 2a) must be generated for each
DEST_INTS = ["flush", "reconn", "connbuf", "iobuf", "spoolbuf", "spoolmaxbytesperfile", "spoolsyncevery", "spoolsyncperiod",
             "spoolsleep", "unspoolsleep"]
GNET_NUMS = ["concurrency", "bufSize", "flushMaxNum", "flushMaxWait", "timeout", "orgId", "errBackoffMin", "errBackoffFactor"]


def base_consts(**kw):
    c = dict(Mode="cases", Kinds=set(ALL_KINDS), RouteTypes=set(ALL_TYPES), MaxDests=2, MaxOpts=1, NVals=1,
             DeepKinds=set(), DeepTypes=set(), DeepDests=0, DeepOpts=0,
             Alphabet={"$"}, MaxLen=0, Deviation="",
             MaxList=1, FullNames=set(), RandK=1, RandOpts=1, RandN=1, Zeros="none")
    c.update(kw)
    return c


# --------------------------------------------------------------------------- TLC
def gen_cases(ctx, consts, simulate=None, depth=None, timeout=1200):
    args = []
    if simulate:
        args = ["-depth", str(depth), "-seed", str(ctx.seed)]
    r = ctx.tlc("Config", "Config_cases.cfg", consts=consts, workers=1, timeout=timeout,
                simulate=simulate, args=args, heap="6g", count=False)
    out = []
    for s in ctx.tlc_printed(r, "@@C"):
        out.append(json.loads(s))
    return r, out


def gen_texts(ctx, alphabet, maxlen, simulate=None, depth=None, timeout=1200):
    args = []
    c = base_consts(Mode="expand", Alphabet=set(alphabet), MaxLen=maxlen)
    if simulate:
        args = ["-depth", str(depth), "-seed", str(ctx.seed)]
    r = ctx.tlc("Config", "Config_expand.cfg", consts=c, workers=1, timeout=timeout, simulate=simulate, args=args,
                heap="6g", count=False)
    return r, [json.loads(s) for s in ctx.tlc_printed(r, "@@X")]


def gen_lists(ctx, consts, timeout=1200):
    """Mode "leak" / "rlists": TLC enumerates lists of entries (as initial states) with the expected
    entry of every position; the random draws of "rlists" are seeded by TLC's -seed"""
    r = ctx.tlc("Config", "Config_lists.cfg", consts=consts, workers=1, timeout=timeout,
                args=["-seed", str(ctx.seed)], heap="6g", count=False)
    return r, [json.loads(s) for s in ctx.tlc_printed(r, "@@L")]


def parallel(ctx, jobs, par=5):
    """run independent single-worker TLC jobs side by side; jobs: [(name, fn)] -> {name: result}.
    The jobs must call ctx.tlc with count=False (the counters are not thread-safe): the results
    are accounted here."""
    import concurrent.futures as cf
    ctx.specdir()
    out = {}
    with cf.ThreadPoolExecutor(max_workers=par) as ex:
        futs = {name: ex.submit(fn) for name, fn in jobs}
        for name, f in futs.items():
            out[name] = f.result()
    return out


def account(ctx, r, consts=None):
    ctx.cov["states"] += r["distinct"]
    ctx.cov["transitions"] += r["generated"]
    ctx.cov["tlc_runs"].append(dict(module=r["module"], cfg=r["cfg"], consts=consts, distinct=r["distinct"],
                                    generated=r["generated"], wall_s=r["wall"], ok=r["ok"], violated=r["violated"]))


def nonvacuity(ctx, deviations_cases, with_expand=True, with_lists=True):
    """the spec's own sanity invariants are not vacuous: each named wrong reading of the
    documentation violates one of them"""
    want = {"swap_buf": "EachOptionItsOwnField", "dest_shift": "EachOptionItsOwnField",
            "substr_dropped": "EachOptionItsOwnField", "bool_inverted": "EachOptionItsOwnField",
            "cache_same_default": "CacheAsymmetry", "double_blank_ends_toml_dest": "LayoutIrrelevant"}
    zkw = dict(Kinds={"route", "gnet"}, RouteTypes={"sendAllMatch"}, MaxDests=1, MaxOpts=1, Zeros="all")
    jobs = []

    def dev(d, c, inv):
        def f():
            r = ctx.tlc("Config", "Config_sanity.cfg", consts=c, workers=1, expect_ok=False, count=False, timeout=600)
            if r["violated"] not in inv:
                raise Machinery("deviation %s is not rejected by invariant %s (got %s); log %s" % (d, inv, r["violated"], r["log"]))
            return r
        return f
    for d in deviations_cases:
        c = base_consts(Kinds={"agg", "route"}, RouteTypes={"sendAllMatch"}, MaxDests=2, MaxOpts=1, Deviation=d)
        jobs.append((d, dev(d, c, [want[d]])))
    # "an option given as 0 means: not given" -- and the documented reading passes on the same space
    jobs.append(("zero_means_unset", dev("zero_means_unset", base_consts(Deviation="zero_means_unset", **zkw),
                                         ["ExplicitZeroHonoured"])))

    def zero_ok():
        return ctx.tlc("Config", "Config_sanity.cfg", consts=base_consts(**zkw), workers=1, count=False, timeout=600)
    jobs.append(("zero_documented", zero_ok))
    if with_expand:
        c = base_consts(Mode="expand", Alphabet={"$", "{", "}", "1", "HOST"}, MaxLen=4, Deviation="os_expand")
        jobs.append(("os_expand", dev("os_expand", c, ["OnlyDocVarsSubstituted"])))
    if with_lists:
        # "options of an earlier section leak into a later one"
        c = base_consts(Mode="leak", Kinds={"route", "gnet", "agg"}, RouteTypes={"sendAllMatch"}, MaxDests=1, MaxList=3,
                        FullNames=set(BOOL_NAMES), Deviation="section_leak")
        jobs.append(("section_leak", dev("section_leak", c, ["UnsetTakesDefaultInList", "OptionStaysInItsEntry",
                                                             "EntriesIndependent"])))
    parallel(ctx, jobs, par=5)


def entry_sig(c):
    return [c["kind"], c["v1"], c["v2"], c["v3"], c["nd"], sorted((o["scope"], o["name"], o["text"]) for o in c["opts"])]


def wrap(c):
    """a single entry (Mode "cases") as a list of one"""
    return dict(section="route" if c["kind"] in ("route", "gnet") else c["kind"], entries=[c], forms=c["forms"],
                reject=c["reject"],
                added={k: v for k, v in c["toml"].items() if k.startswith("added_")})


def dedup(lists):
    seen, out = set(), []
    for l in lists:
        k = json.dumps([entry_sig(c) for c in l["entries"]])
        if k not in seen:
            seen.add(k)
            out.append(l)
    return out


# --------------------------------------------------------------------- rendering
def q(s):
    if "'" in s or "\n" in s:
        raise Machinery("value not renderable as a TOML literal string: %r" % s)
    return "'" + s + "'"


def toml_val(o):
    return q(o["text"]) if o["ty"] == "str" else o["text"]


class Env:
    """concrete values of the placeholders the spec leaves to the driver"""
    def __init__(self, ctx):
        self.host = socket.gethostname().split(".")[0]
        base = "/dev/shm" if os.path.isdir("/dev/shm") and os.access("/dev/shm", os.W_OK) else ctx.out
        self.spool = os.path.join(base, "verif-c20-%d-%s" % (os.getpid(), ctx.tier))
        shutil.rmtree(self.spool, ignore_errors=True)
        os.makedirs(self.spool)
        self.schemas = os.path.join(ctx.out, "storage-schemas.conf")
        self.aggregation = os.path.join(ctx.out, "storage-aggregation.conf")
        with open(self.schemas, "w") as f:
            f.write("[default]\npattern = .*\nretentions = 10s:1d\n")
        with open(self.aggregation, "w") as f:
            f.write("[default]\npattern = .*\nxFilesFactor = 0.5\naggregationMethod = avg\n")

    def cleanup(self):
        shutil.rmtree(self.spool, ignore_errors=True)

    def subst(self, v, key):
        if not isinstance(v, str):
            return v
        return {"<KEY>": key, "<SPOOLDIR>": self.spool, "<GNETADDR>": GNET_ADDR, "<SCHEMAS>": self.schemas,
                "<AGGREGATION>": self.aggregation}.get(v, v)

    def header(self):
        # what main() needs besides the entry: instance (with the documented ${HOST}), spool_dir
        # and a parseable bad_metrics_max_age
        return 'instance = "${HOST}"\nspool_dir = %s\nbad_metrics_max_age = "24h"\n' % q(self.spool)


def opts_of(case, scope, rng):
    o = [x for x in case["opts"] if x["scope"] == scope]
    o.sort(key=lambda x: x["name"])
    rng.shuffle(o)
    return o


LAYOUT_USED = {}
DEST_LAYOUTS = ("single", "double", "mixed")      # Config.tla DestLayouts: blanks between the words of a section's destination string


def dest_string(case, i, rng, layout="single"):
    addr = case["params"]["addrs"][i]
    words = [addr] + ["%s=%s" % (o["name"], o["text"]) for o in opts_of(case, "d%d" % (i + 1), rng)]
    if layout == "single":
        return " ".join(words)
    out = words[0]
    for w in words[1:]:
        sep = "  " if layout == "double" else rng.choice([" ", "  ", "   ", "      "])
        out += sep + w
    return out


def toml_section(case, env, key, rng):
    """one entry as a TOML section (blacklist: the line, without quotes)"""
    p = {k: env.subst(v, key) for k, v in case["params"].items()}
    kind = case["kind"]
    ropts = opts_of(case, "r", rng)
    if kind == "black":
        return p["method"] + " " + p["value"]
    if kind == "rewriter":
        lines = ["old = " + q(p["old"]), "new = " + q(p["new"]), "max = " + p["max"]]
        lines += ["%s = %s" % (o["name"], toml_val(o)) for o in ropts]
        rng.shuffle(lines)
        return "[[rewriter]]\n" + "\n".join(lines)
    if kind == "agg":
        lines = ["function = " + q(p["fun"]), "regex = " + q(p["regex"]), "format = " + q(p["format"]),
                 "interval = " + p["interval"], "wait = " + p["wait"]]
        lines += ["%s = %s" % (o["name"], toml_val(o)) for o in ropts]
        rng.shuffle(lines)
        return "[[aggregation]]\n" + "\n".join(lines)
    if kind == "route":
        lines = ["key = " + q(p["key"]), "type = " + q(p["type"])]
        lines += ["%s = %s" % (o["name"], toml_val(o)) for o in ropts]
        # the layout of a destination string is not part of its meaning (LayoutIrrelevant): every second section is
        # written with one blank between the words, the others with two blanks, tabs or a mixture (options in columns)
        layout = "single" if rng.random() < 0.5 else rng.choice(DEST_LAYOUTS[1:])
        LAYOUT_USED[layout] = LAYOUT_USED.get(layout, 0) + (1 if any(o["scope"] != "r" for o in case["opts"]) else 0)
        dests = ",\n".join("  " + q(dest_string(case, i, rng, layout)) for i in range(case["nd"]))
        lines.append("destinations = [\n%s\n]" % dests)
        rng.shuffle(lines)
        return "[[route]]\n" + "\n".join(lines)
    if kind == "gnet":
        lines = ["key = " + q(p["key"]), "type = 'grafanaNet'", "addr = " + q(p["addr"]), "apiKey = " + q(p["apiKey"]),
                 "schemasFile = " + q(p["schemasFile"]), "aggregationFile = " + q(p["aggregationFile"])]
        lines += ["%s = %s" % (o["name"], toml_val(o)) for o in ropts]
        rng.shuffle(lines)
        return "[[route]]\n" + "\n".join(lines)
    raise Machinery("kind " + kind)


def entry_key(key, i):
    return "%se%d" % (key, i + 1)


def render_toml(lst, env, key, rng):
    """the list as ONE configuration file: the sections in list order (blacklist: one array)"""
    secs = [toml_section(c, env, entry_key(key, i), rng) for i, c in enumerate(lst["entries"])]
    if lst["section"] == "black":
        body = "blacklist = [\n%s\n]" % ",\n".join("  " + q(x) for x in secs)
    else:
        body = "\n\n".join(secs)
    return env.header() + "\n" + body + "\n"


def render_cmd(case, env, key, rng):
    p = {k: env.subst(v, key) for k, v in case["params"].items()}
    kind = case["kind"]
    ropts = ["%s=%s" % (o["name"], o["text"]) for o in opts_of(case, "r", rng)]
    if kind == "black":
        return "addBlack %s %s" % (p["method"], p["value"])
    if kind == "rewriter":
        return "addRewriter %s %s %s" % (p["old"], p["new"], p["max"])
    if kind == "agg":
        # addAgg <func> <match> <fmt> <interval> <wait> [cache=true/false] [dropRaw=true/false]
        tail = [x for x in ropts if x.startswith(("cache=", "dropRaw="))]
        match = ["regex=" + p["regex"]] + [x for x in ropts if x not in tail]
        rng.shuffle(match)
        return " ".join(["addAgg", p["fun"]] + match + [p["format"], p["interval"], p["wait"]] + tail)
    if kind == "route":
        # addRoute <type> <key> [opts]  <dest>  [<dest>[...]]     (two spaces)
        head = " ".join(["addRoute", p["type"], p["key"]] + ropts)
        return "  ".join([head] + [dest_string(case, i, rng) for i in range(case["nd"])])
    if kind == "gnet":
        # addRoute grafanaNet key [prefix/...]  addr apiKey schemasFile aggregationFile [opt=..]
        mnames = ("prefix=", "notPrefix=", "sub=", "notSub=", "regex=", "notRegex=")
        m = [x for x in ropts if x.startswith(mnames)]
        rest = [x for x in ropts if x not in m]
        return " ".join(["addRoute grafanaNet", p["key"]] + m) + "  " + \
            " ".join([p["addr"], p["apiKey"], p["schemasFile"], p["aggregationFile"]] + rest)
    raise Machinery("kind " + kind)


def render_cmds(lst, env, key, rng):
    """the list as a sequence of commands, in list order"""
    return [render_cmd(c, env, entry_key(key, i), rng) for i, c in enumerate(lst["entries"])]


def render_init(lst, env, key, rng):
    """the list as ONE configuration file with the commands under [init]"""
    return env.header() + "[init]\ncmds = [\n%s\n]\n" % ",\n".join("  " + q(x) for x in render_cmds(lst, env, key, rng))


def expected(case, form, env, key):
    """TLC's record for one entry in one form (the added_* counters are checked per list)"""
    e = dict(case["toml"])
    d = case["initdiff"] if form == "init" else case["cmddiff"] if form == "cmd" else {}
    if isinstance(d, dict):       # an empty TLA+ function prints as []
        e.update(d)
    return {k: env.subst(v, key) for k, v in e.items() if not k.startswith("added_")}


# ----------------------------------------------------------------- driver stages
def run_expand(ctx, items, tag):
    """items: [{id, text}] -> {id: out}.  Runs the real readConfigFile of package main."""
    inp = ctx.write_ndjson("expand_%s_in.ndjson" % tag, items)
    outp = os.path.join(ctx.out, "expand_%s_out.ndjson" % tag)
    pkgdir = os.path.join(core.REPO, "cmd", "carbon-relay-ng")
    repl = {os.path.join(pkgdir, "verif_expand_test.go"):
            os.path.join(core.VERIF, "harness", "conf", "overlay", "verif_expand_test.go.txt")}
    for f in os.listdir(pkgdir):
        if f.endswith("_test.go"):
            repl[os.path.join(pkgdir, f)] = ""     # the package's own tests are not needed (and slow to init)
    ov = os.path.join(ctx.out, "overlay_%s.json" % tag)
    with open(ov, "w") as f:
        json.dump({"Replace": repl}, f)
    e = dict(os.environ)
    e.update(core.GOENV)
    e.update(EXPAND_ENV)
    e.update(VERIF_EXPAND_IN=inp, VERIF_EXPAND_OUT=outp)
    cmd = ["go", "test", "-overlay", ov, "-run", "^TestVerifExpand$", "-count=1", "-vet=off", "-timeout", "1200s",
           "./cmd/carbon-relay-ng"]
    logf = os.path.join(ctx.out, "go_expand_%s.log" % tag)
    t0 = time.time()
    with open(logf, "w") as lf:
        try:
            rc = subprocess.run(cmd, cwd=core.REPO, stdout=lf, stderr=subprocess.STDOUT, timeout=1500, env=e).returncode
        except subprocess.TimeoutExpired:
            rc = -9
    ctx.log("go test (overlay) cmd/carbon-relay-ng TestVerifExpand: rc=%s %.1fs, %d texts" % (rc, time.time() - t0, len(items)))
    txt = open(logf, errors="replace").read()
    if rc != 0:
        raise Machinery("expansion stage failed (rc=%s); log %s\n%s" % (rc, logf, txt[-3000:]))
    res = {r["id"]: r["out"] for r in ctx.read_ndjson(outp)}
    if len(res) != len(items):
        raise Machinery("expansion stage returned %d of %d texts" % (len(res), len(items)))
    return res


def run_loader(ctx, env, loads, header_text, chunk=2500, gnet_chunk=150, par=3):
    """loads: [{id, kind, form, text | cmds}] -> {(id, form): record}.  One `go test`; the test binary
    re-executes itself per chunk (every loaded entry leaks a few goroutines: AlignedTick of
    aggregators, grafanaNet config posters)."""
    hdr = os.path.join(ctx.out, "conf_header.toml")
    with open(hdr, "w") as f:
        f.write(header_text)
    inp = ctx.write_ndjson("conf_in.ndjson", loads)
    outp = os.path.join(ctx.out, "conf_out.ndjson")
    r = ctx.go_test("conf", run="^TestConf$", timeout=3000, expect_ok=False,
                    env=dict(VERIF_CONF_IN=inp, VERIF_CONF_OUT=outp, VERIF_CONF_HEADER=hdr,
                             VERIF_CONF_CHUNK=chunk, VERIF_CONF_GNET_CHUNK=gnet_chunk, VERIF_CONF_PAR=par))
    recs = ctx.read_ndjson(outp) if os.path.exists(outp) else []
    res = {(rec["id"], rec["form"]): rec for rec in recs}
    prog = []
    try:
        prog = ctx.read_ndjson("conf_progress.ndjson")
    except Exception:
        pass
    if r["rc"] != 0:
        failed = [p for p in prog if "failed" in p]
        if failed and ("panic:" in r["text"] or "fatal error:" in r["text"]):
            res[("crash", 0)] = dict(last=failed[0].get("last"), tail=r["text"][-3000:], log=r["log"])
            return res
        raise Machinery("conf driver failed (rc=%s) without a panic; log %s\n%s" % (r["rc"], r["log"], r["text"][-2500:]))
    if len(recs) != len(loads):
        raise Machinery("conf driver returned %d of %d records; log %s" % (len(recs), len(loads), r["log"]))
    if prog and prog[-1].get("stuck_routes"):
        ctx.note("Shutdown of %d route(s) did not return within 15 s (left running)" % prog[-1]["stuck_routes"])
    return res


# -------------------------------------------------------------------- comparison
def compare(exp, got):
    """fields of the expected entry (computed by TLC) that the real entry does not show"""
    bad = []
    for f in sorted(exp):
        g = got.get(f, "<absent>")
        if g != exp[f] or type(g) != type(exp[f]):
            bad.append((f, exp[f], g))
    return bad


def expand_expected(pieces, env):
    vals = dict(EXPAND_ENV, HOST=env.host)
    return "".join(p["s"] if p["k"] == "lit" else vals[p["s"]] for p in pieces)
