"""C08 — the disk spool queue recovers consistently from a crash at any point."""
import json, random
from checks import dqlib
from vlib.core import Machinery

LEVEL = "fault_enumeration"


def run(ctx):
    q = ctx.quick()
    # 1. exhaustive model checking of the level-B model, a Crash between any two steps
    if q:
        grid = [dict(MaxFile=3, SyncEvery=3, Sizes={1, 2}, MaxPuts=3),
                dict(MaxFile=1, SyncEvery=2, Sizes={1, 2}, MaxPuts=3),
                dict(MaxFile=5, SyncEvery=1, Sizes={1, 3}, MaxPuts=3)]
    else:
        grid = [dict(MaxFile=mf, SyncEvery=se, Sizes={1, 2, 4}, MaxPuts=4)
                for mf in (1, 3, 5) for se in (1, 2, 3)]
        grid.append(dict(MaxFile=3, SyncEvery=3, Sizes={1, 2, 4}, MaxPuts=5))
    dqlib.mc_grid(ctx, grid)
    dqlib.mc_nonvacuity(ctx)

    # 2. client histories generated from the level-A contract (exhaustive, short) + long random ones
    rng = random.Random(ctx.seed)
    pool = rng.sample(dqlib.UNIT_SETTINGS, 3)
    hists = []
    ops_all = dqlib.gen_histories(ctx, ctx.pick(5, 6), [1, 2, 4])
    settings = [(3, 3), (1, 2), (5, 1)] if q else [(3, 3), (1, 2), (5, 1), (2, 7), (3, 1), (8, 2)]
    # every third history per setting (rotated by the seed)
    for si, (mf, se) in enumerate(settings):
        for i, ops in enumerate(ops_all):
            if (i + si + ctx.seed) % 3 == 0:
                hists.append(dqlib.unit_history(len(hists), ops, mf, se, True))
    nshort = len(hists)
    for i in range(ctx.pick(60, 1500)):
        hists.append(dqlib.random_history(rng, len(hists), rng.choice([12, 25, 40]), True, unit_scaled=(i % 2 == 0), pool=pool))
    ctx.log("histories: %d exhaustive-short + %d random" % (nshort, len(hists) - nshort))

    # 3. the real queue: record, snapshot at every hook, recover every distinct snapshot
    events, crashed = dqlib.run_driver(ctx, hists, "c08", levelb=False, timeout=ctx.pick(1500, 6000))
    if crashed:
        last = crashed["last"][-1] if crashed["last"] else {}
        ctx.violation("recovery-panics label=%s" % last.get("label"),
                      "the queue process panicked while recovering a crash snapshot (one of the last %d in flight)"
                      % len(crashed["last"]), crashed)
        ctx.sample(dict(panicked_while_recovering=last))
    nrec = sum(1 for e in events if e["ev"] == "rec")
    nontriv = set()
    labels = {}
    for e in events:
        if e["ev"] == "rec":
            labels[e["label"]] = labels.get(e["label"], 0) + 1
            if e["D"]:
                nontriv.add((tuple(e["m"]), e["label"], tuple(e["D"])))
    end = [e for e in events if e["ev"] == "end"]
    if not crashed and (not end or nrec == 0):
        raise Machinery("driver produced no recoveries (dead driver / hooks not firing)")
    needed = {"w_open", "w_write", "m_tmp_write", "m_rename", "take", "r_remove"}
    if not crashed and not needed.issubset(labels):
        raise Machinery("crash points never reached: %s" % (needed - set(labels)))

    # 4. TLC decides every recovery against the level-A contract
    def on_reject(block, idx):
        ev = block[idx]
        h = block[0]["h"]
        hist = hists[h] if h < len(hists) else None
        if ev["ev"] == "rec":
            what = "crash after %s: reopened queue delivered %s (hang=%s sentinel=%s extra=%s)" % (
                ev["label"], ev["D"], ev["hang"], ev["sentinel"], ev["extra"])
            sig = "recovery-contract label=%s" % ev["label"]
            if ev["hang"] or not ev["sentinel"]:
                sig = "recovery-hangs label=%s" % ev["label"]
        else:
            what = "event %s rejected by the contract" % json.dumps(ev)
            sig = "contract-event %s" % ev["ev"]
        ctx.violation(sig, what, dict(history=hist, prefix=block[:idx + 1][-30:]))

    ntr, nrej = dqlib.validate_level_a(ctx, events, True, False, on_reject)

    if not ctx.violations:
        dqlib.selftest_binding(ctx, events, hists)

    cov = ctx.cov
    cov["evaluations"] = nrec
    cov["distinct_nontrivial"] = len(nontriv)
    cov["distinct_recoveries_run"] = end[0]["distinct_recoveries"] if end else 0
    cov["histories"] = len(hists)
    cov["crash_points_by_label"] = labels
    cov["rule"] = ("histories = all put/take/reopen sequences of the level-A contract of length %d over 3 size classes "
                   "(TLC-enumerated) x segment/sync settings %s, plus seeded random long histories; a crash point = "
                   "every hook firing (after each filesystem mutation / linearization point); each distinct "
                   "(directory content, marks) snapshot is reopened with the real queue; non-trivial = distinct "
                   "(marks, crash label, delivered run) with a non-empty delivery" % (ctx.pick(5, 6), settings))
    for e in events:
        if e["ev"] == "rec" and e["D"] and len(cov["samples"]) < 3:
            ctx.sample(dict(crash_after=e["label"], marks_n_c_ws_cs=e["m"], delivered=e["D"]))
    ctx.assumptions += ["process crash (memory lost, all written file data kept), not power loss",
                        "a torn single write() is not a crash point (crashes are placed between filesystem operations)",
                        "level-A contract = C08 statement; the level-B model DiskQueue.tla is checked exhaustively by TLC "
                        "for the listed constants and bound to the code by checks/c09 hook traces"]
    cov["trusted_base"] = ["TLC", "harness/dq driver (records only)", "payload identity by embedded id + byte equality"]
