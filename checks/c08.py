"""C08 — the disk spool queue recovers consistently from a crash at any point."""
import json, random
from checks import dqlib
from vlib.core import Machinery

LEVEL = "fault_enumeration"


def run(ctx):
    q = ctx.quick()
    # 1. exhaustive model checking of the level-B model, a Crash between any two steps
    if q:
        grid = [dict(MaxFile=3, SyncEvery=3, Sizes={1, 2}, MaxPuts=3),
                dict(MaxFile=1, SyncEvery=2, Sizes={1, 2}, MaxPuts=3),
                dict(MaxFile=5, SyncEvery=1, Sizes={1, 3}, MaxPuts=3)]
    else:
        grid = [dict(MaxFile=mf, SyncEvery=se, Sizes={1, 2, 4}, MaxPuts=4)
                for mf in (1, 3, 5) for se in (1, 2, 3)]
        grid.append(dict(MaxFile=3, SyncEvery=3, Sizes={1, 2, 4}, MaxPuts=5))
    dqlib.mc_grid(ctx, grid)
    dqlib.mc_nonvacuity(ctx)
    # 1a. life after the recovery: two messages enqueued after the restart, interleaved with the deliveries (C08PostFifo);
    # a start-up truncation that is tied to a metadata file having been loaded (crash before the first completed sync)
    # is only rejected then: the reader's read-ahead holds the stale tail that the second write replaces
    post = dict(MaxFile=3, SyncEvery=3, Sizes={1, 2}, MaxPuts=2 if q else 3, MaxCrashes=1, AllowReopen=False, AllowTick=True, PostPuts=2)
    dqlib.mc_grid(ctx, [dict(post)])
    r = ctx.tlc("DiskQueue", "DiskQueue_mc.cfg", consts=dict(post, MaxPuts=2, Mutant="no_truncate_without_meta"), expect_ok=False, count=False)
    if r["violated"] not in ("C08PostFifo", "NoGarbage", "C08Sentinel", "C08Run", "C08"):
        raise Machinery("deviation no_truncate_without_meta is not rejected with two puts after the recovery (violated=%s)" % r["violated"])
    r = ctx.tlc("DiskQueue", "DiskQueue_mc.cfg", consts=dict(post, MaxPuts=2, PostPuts=1, Mutant="no_truncate_without_meta"), expect_ok=False, count=False)
    if not r["ok"]:
        raise Machinery("deviation no_truncate_without_meta is rejected with a single put after the recovery already: the model changed")
    # 1b. two crashes: the incarnation after the first crash is used further and crashes again; the
    # metadata temp file left by the first crash is overwritten in place (stale tail)
    if q:
        grid2 = [dict(MaxFile=3, SyncEvery=3, Sizes={1, 2}, MaxPuts=2)]
    else:
        grid2 = [dict(MaxFile=3, SyncEvery=3, Sizes={1, 2}, MaxPuts=4),
                 dict(MaxFile=1, SyncEvery=2, Sizes={1, 2}, MaxPuts=3),
                 dict(MaxFile=5, SyncEvery=1, Sizes={1, 3}, MaxPuts=4),
                 dict(MaxFile=3, SyncEvery=2, Sizes={1, 2}, MaxPuts=3, AllowReopen=True)]
    dqlib.mc_two_crashes(ctx, grid2)

    # 2. client histories generated from the level-A contract (exhaustive, short) + long random ones
    rng = random.Random(ctx.seed)
    pool = rng.sample(dqlib.UNIT_SETTINGS, 3)
    hists = []
    ops_all = dqlib.gen_histories(ctx, ctx.pick(5, 6), [1, 2, 4])
    settings = [(3, 3), (1, 2), (5, 1)] if q else [(3, 3), (1, 2), (5, 1), (2, 7), (3, 1), (8, 2)]
    # every third history per setting (rotated by the seed)
    for si, (mf, se) in enumerate(settings):
        for i, ops in enumerate(ops_all):
            if (i + si + ctx.seed) % 3 == 0:
                hists.append(dqlib.unit_history(len(hists), ops, mf, se, True))
    nshort = len(hists)
    for i in range(ctx.pick(60, 1500)):
        hists.append(dqlib.random_history(rng, len(hists), rng.choice([12, 25, 40]), True, unit_scaled=(i % 2 == 0), pool=pool))
    ctx.log("histories: %d exhaustive-short + %d random" % (nshort, len(hists) - nshort))

    # 3. the real queue: record, snapshot at every hook, recover every distinct snapshot
    # ... and a seeded weighted sample of the first-generation snapshots is reopened, used for a short
    # second history (hooks snapshotting again) and every second-generation snapshot recovered too
    events, crashed = dqlib.run_driver(ctx, hists, "c08", levelb=False, timeout=ctx.pick(1500, 6000),
                                       gen2_permille=ctx.pick(10, 10))
    if crashed:
        last = crashed["last"][-1] if crashed["last"] else {}
        ctx.violation("recovery-panics label=%s" % last.get("label"),
                      "the queue process panicked while recovering a crash snapshot (one of the last %d in flight)"
                      % len(crashed["last"]), crashed)
        ctx.sample(dict(panicked_while_recovering=last))
    nrec = sum(1 for e in events if e["ev"] == "rec")
    nontriv = set()
    labels, labels2 = {}, {}
    gen2ev, cur2, nrec2 = {}, None, 0
    for e in events:
        if e["ev"] == "hist":
            cur2 = None
        elif e["ev"] == "gen2":
            cur2 = e
            gen2ev[e["g"]] = e
        elif e["ev"] == "rec":
            if cur2 is None:
                labels[e["label"]] = labels.get(e["label"], 0) + 1
                if e["D"]:
                    nontriv.add((tuple(e["m"]), e["label"], tuple(e["D"])))
            else:
                nrec2 += 1
                labels2[e["label"]] = labels2.get(e["label"], 0) + 1
                if e["D"]:
                    nontriv.add((2, cur2["label"], tuple(e["m"]), e["label"], tuple(e["D"])))
    end = [e for e in events if e["ev"] == "end"]
    if not crashed and (not end or nrec == 0):
        raise Machinery("driver produced no recoveries (dead driver / hooks not firing)")
    needed = {"w_open", "w_write", "m_tmp_write", "m_rename", "take", "r_remove"}
    if not crashed and not needed.issubset(labels):
        raise Machinery("crash points never reached: %s" % (needed - set(labels)))

    # 4. TLC decides every recovery against the level-A contract
    diverged = []

    def on_reject(block, idx):
        ev = block[idx]
        h = block[0]["h"]
        hist = hists[h] if h < len(hists) else None
        if block[0]["ev"] == "gen2":
            g = gen2ev.get(block[0]["g"], {})
            second = dict(first_crash_after=g.get("label"), first_marks_n_c_ws_cs=g.get("m1"), X=g.get("X"), xs=g.get("xs"),
                          second_history=g.get("ops2"))
            kind = ev["ev"]
            if kind == "rec":
                sig = "recovery-contract gen2 label=%s" % ev["label"]
                if ev["hang"] or not ev["sentinel"]:
                    sig = "recovery-hangs gen2 label=%s" % ev["label"]
                elif ev["extra"] == 0 and ev.get("post", [1, 2, 3]) != [1, 2, 3]:
                    sig = "after-recovery-not-fifo gen2 label=%s post=%s" % (ev["label"], ev.get("post"))
                what = ("second crash after %s (first crash after %s, recovery delivered X=%s, then %s): reopened queue "
                        "delivered %s = positions %s of L = X ++ new puts (hang=%s sentinel=%s extra=%s)" % (
                            ev["label"], g.get("label"), g.get("X"), json.dumps(g.get("ops2")), ev.get("Dabs"), ev["D"],
                            ev["hang"], ev["sentinel"], ev["extra"]))
            elif kind == "take2" and ev["abs"] == 0:
                sig, what = "gen2-delivers-unknown-message", "the queue reopened on a crash snapshot handed out bytes that are no enqueued message"
            elif kind == "take2" or (kind == "bad" and ev["detail"].get("in") == "take"):
                # the reopened queue did not hand out what the recovery of the same snapshot delivered on
                # another copy: L is not defined for this run; the property does not forbid that
                diverged.append(dict(gen2=second, event=ev))
                return
            elif kind == "bad":
                sig, what = "gen2-queue-hangs-or-errors", "operation on the reopened queue hung or failed: %s" % json.dumps(ev.get("detail"))
            else:
                sig, what = "contract-event gen2 %s" % kind, "event %s rejected by the contract" % json.dumps(ev)
            ctx.violation(sig, what, dict(history=hist, second_generation=second, prefix=block[:idx + 1][-30:]))
            return
        if ev["ev"] == "rec":
            what = "crash after %s: reopened queue delivered %s (hang=%s sentinel=%s extra=%s)" % (
                ev["label"], ev["D"], ev["hang"], ev["sentinel"], ev["extra"])
            sig = "recovery-contract label=%s" % ev["label"]
            if ev["hang"] or not ev["sentinel"]:
                sig = "recovery-hangs label=%s" % ev["label"]
            elif ev["extra"] == 0 and ev.get("post", [1, 2, 3]) != [1, 2, 3]:
                sig = "after-recovery-not-fifo label=%s" % ev["label"]
                what = ("crash after %s: the reopened queue delivered %s and the sentinel, but of the three messages then enqueued and "
                        "taken (put, take, put, put, take, take) it handed out %s (0 = bytes that are none of them)" % (
                            ev["label"], ev["D"], ev.get("post")))
        else:
            what = "event %s rejected by the contract" % json.dumps(ev)
            sig = "contract-event %s" % ev["ev"]
        ctx.violation(sig, what, dict(history=hist, prefix=block[:idx + 1][-30:]))

    ntr, nrej = dqlib.validate_level_a(ctx, events, True, False, on_reject, max_rounds=12)
    # the second generation must have been exercised (the driver skips it when the queue hangs, which
    # is reported above as a violation)
    if not crashed and not ctx.violations:
        if nrec2 == 0 or not {"m_tmp_write", "m_rename", "w_write"}.issubset(labels2):
            raise Machinery("second-generation crash points never reached: %d recoveries, labels %s" % (nrec2, sorted(labels2)))
        if end[0].get("gen2_stale_tail_snapshots", 0) == 0:
            raise Machinery("no second-generation snapshot has a metadata file with a stale tail: the left-over "
                            "temp file scenario (crash between temp write and rename, shorter text afterwards) was not reached")
    if diverged:
        ctx.note("%d second-generation run(s) did not hand out what the recovery of the same snapshot delivered; "
                 "not judged, e.g. %s" % (len(diverged), json.dumps(diverged[0])[:600]))
        if len(diverged) * 4 > len(gen2ev):
            raise Machinery("most second-generation runs diverged from the first-generation recovery")

    if not ctx.violations:
        dqlib.selftest_binding(ctx, events, hists)

    cov = ctx.cov
    cov["evaluations"] = nrec
    cov["distinct_nontrivial"] = len(nontriv)
    cov["distinct_recoveries_run"] = end[0]["distinct_recoveries"] if end else 0
    cov["histories"] = len(hists)
    cov["crash_points_by_label"] = labels
    if end:
        cov["second_generation"] = dict(runs=end[0].get("gen2_runs"), recoveries=nrec2,
                                        distinct_recoveries_run=end[0].get("gen2_distinct_recoveries"),
                                        snapshots_with_stale_metadata_tail=end[0].get("gen2_stale_tail_snapshots"),
                                        first_crash_points_by_label=end[0].get("gen2_parents_by_label"),
                                        second_crash_points_by_label=labels2, diverged_not_judged=len(diverged))
    cov["rule"] = ("histories = all put/take/reopen sequences of the level-A contract of length %d over 3 size classes "
                   "(TLC-enumerated) x segment/sync settings %s, plus seeded random long histories; a crash point = "
                   "every hook firing (after each filesystem mutation / linearization point); each distinct "
                   "(directory content, marks) snapshot is reopened with the real queue; non-trivial = distinct "
                   "(marks, crash label, delivered run) with a non-empty delivery; second generation: a seeded weighted sample "
                   "(%d per mille, crashes around the metadata temp file preferred) of the distinct snapshots is reopened, "
                   "run through 2-6 more operations (put small / put across the segment limit / take / take all, close) with "
                   "a snapshot at every hook again, every distinct second snapshot is recovered and judged by the same "
                   "contract over L = (delivery of the first recovery) ++ (later puts)" % (ctx.pick(5, 6), settings, 10))
    for e in events:
        if e["ev"] == "rec" and e["D"] and len(cov["samples"]) < 3:
            ctx.sample(dict(crash_after=e["label"], marks_n_c_ws_cs=e["m"], delivered=e["D"]))
    ctx.assumptions += ["second crash: the content of the incarnation after a crash is what the recovery of the same "
                        "snapshot delivers on another copy (recovery is deterministic; runs where the reopened queue hands "
                        "out something else are reported as not judged)",
                        "process crash (memory lost, all written file data kept), not power loss",
                        "a torn single write() is not a crash point (crashes are placed between filesystem operations)",
                        "level-A contract = C08 statement; the level-B model DiskQueue.tla is checked exhaustively by TLC "
                        "for the listed constants and bound to the code by checks/c09 hook traces"]
    cov["trusted_base"] = ["TLC", "harness/dq driver (records only)", "payload identity by embedded id + byte equality"]
