"""C03 — filters mean exactly the documented conjunction, evaluated on the metric name.

1. Matcher.tla gives the meaning of a filter (six-way conjunction; regex = AST with a
   set-of-end-positions semantics).  TLC enumerates filters (every regex AST up to a size under
   anchored and unanchored shapes, as regex and as notRegex; all subsets of the six options) and
   computes the verdict for every name up to a length.  The real matcher.Matcher runs on the same
   (filter, name) pairs; python compares TLC's verdict with the observed one.  PreMatch and
   MatchRegexAndExpand (the pieces aggregations use) must never be false where the filter accepts.
   Self-check of the oracle: TLC's Search must agree with Go's regexp on the rendered pattern
   (disagreement = machinery error, exit 2).
2. Use sites: TLC picks (filter, name, value token, timestamp token) where the text the filter
   looks for occurs in the value/timestamp but not in the name (or the regex is $-anchored); the
   driver installs the filter as blacklist entry, route filter, destination filter (real
   sendAllMatch / sendFirstMatch routes, real destinations observed through their counters),
   aggregation filter (real aggregator, with/without drop-raw and cache) and sends aggregate lines
   through Table.DispatchAggregate; MatcherTrace.tla re-evaluates Accept on the NAME for every
   recorded observation.
3. Match cache: AggCache.tla (Lookup / Advance / Expire; the cached value is the pair (accepted,
   output name); invariant cached = fresh in both components; the deviations "cache keyed by the first
   character" and "an empty output name means rejected" must be rejected by TLC) is model-checked, and
   lookup / clock-jump / clean-up histories run on aggregator.NewMocked(cache=true, with and without
   drop-raw) with an injected clock are validated by MatcherTrace.tla: AddMaybe's decision at every
   lookup and, at every flush, the count per (output name, quantum).  The (filter, template) pairs are
   enumerated by TLC (MatcherGen family "cache") together with the output name of every name; they
   include pairs whose output name is EMPTY for accepted names (empty group, group that takes no part,
   reference to a group that does not exist, "$1_sum").  Self-check of the oracle: TLC's OutKey must
   agree with Go's regexp FindSubmatchIndex + Expand (disagreement = machinery error, exit 2).
4. Filters reconfigured at run time: MatcherUpd.tla (a filter is created and then updated any number of
   times; an update replaces the options it names, possibly by the EMPTY value, and leaves the others
   alone; invariant: for every name, what is in force = the conjunction of the options the filter now
   has; the deviations "a cleared regex / notRegex stays in force" and "a cleared prefix / notPrefix
   stays in force" must be rejected by TLC) is model-checked; TLC (-simulate, MatcherUpdGen.tla)
   generates behaviours (start filter, updates); the driver creates a real route / destination in a
   real table (sendAllMatch, sendFirstMatch, consistentHashing route filter; destination filter under
   sendAllMatch / sendFirstMatch), applies every update through Table.UpdateRoute /
   Table.UpdateDestination (what modRoute / modDest call) and after every step sends one line per name
   through the table; MatcherTrace.tla re-evaluates Accept under MatcherUpdOps!Merge of the updates so
   far for every observation.
"""
import json, os, random
from checks import mtlib
from vlib.core import Machinery

LEVEL = "model_checking"

SITES = ["blacklist", "route", "dest_all", "dest_first", "aggroute", "aggdest_all", "aggdest_first"]
AGG_SITES = ["agg_keep", "agg_drop", "aggc_drop"]
UPD_SITES = ["route", "dest_all", "route_first", "dest_first", "route_chash"]
OPTS = ("prefix", "notPrefix", "sub", "notSub", "regex", "notRegex")


def update_histories(ctx, num, depth, rich):
    """TLC walks MatcherUpd: behaviours (start filter, `depth` updates) with, per step, the options the filter
    has afterwards and Accept's verdict for every name (used to explain rejections and to measure coverage)"""
    r = ctx.tlc("MatcherUpdGen", "MatcherUpdGen.cfg", workers=1, timeout=3000, heap="4g", tag="gen_upd",
                consts=dict(UBug="none", URich=rich, UDepth=depth, UFan=3),
                simulate="num=%d" % num, args=["-depth", str(depth + 3), "-seed", str(ctx.seed)])
    names = None
    for x in ctx.tlc_printed(r, "@@N"):
        names = json.loads(x)["names"]
    gen = [json.loads(x) for x in ctx.tlc_printed(r, "@@U")]
    if names is None or len(gen) != num:
        raise Machinery("MatcherUpdGen printed %d of %d behaviours; log %s" % (len(gen), num, r["log"]))
    idx = [i for i, n in enumerate(names) if n != ""]
    stats = dict(steps=0, verdict_changes=0, cleared={o: 0 for o in OPTS}, replaced={o: 0 for o in OPTS},
                 set_from_empty={o: 0 for o in OPTS}, accepted_only_after_clearing={o: 0 for o in OPTS})
    hs = []
    for h, g in enumerate(gen):
        if len(g["steps"]) != depth or any(len(st["expect"]) != len(names) for st in g["steps"]):
            raise Machinery("MatcherUpdGen: malformed behaviour %d" % h)
        conf, exp = g["f"], g["expect"]
        for st in g["steps"]:
            stats["steps"] += 1
            changed = sum(1 for i in idx if exp[i] != st["expect"][i])
            stats["verdict_changes"] += changed
            for o in st["set"]:
                if conf[o] and not st["go"][o]:
                    stats["cleared"][o] += 1
                    stats["accepted_only_after_clearing"][o] += sum(1 for i in idx if exp[i] == "0" and st["expect"][i] == "1")
                elif conf[o] and st["go"][o] != conf[o]:
                    stats["replaced"][o] += 1
                elif not conf[o] and st["go"][o]:
                    stats["set_from_empty"][o] += 1
            conf, exp = st["conf"], st["expect"]
        hs.append(dict(h=h, site=UPD_SITES[(h + ctx.seed) % len(UPD_SITES)], f=g["f"], ast=g["ast"],
                       steps=[dict(set=st["set"], go=st["go"], val=st["val"]) for st in g["steps"]],
                       names=[names[i] for i in idx]))
    return names, gen, hs, stats


def compare_matcher(ctx, names, cases, res, stats):
    """python only compares TLC's expectation with the recorded outcome"""
    for i, c in enumerate(cases):
        r = res[i]
        f = c["f"]
        if "err" in r:
            raise Machinery("the specification rendered a filter the real matcher rejects: %s: %s" % (json.dumps(f), r["err"]))
        # oracle self-check against Go's regexp (RE2)
        for mine, theirs, which in ((c.get("sre", ""), r.get("re2", ""), "regex"), (c.get("snre", ""), r.get("nre2", ""), "notRegex")):
            if mine != "" and mine != theirs:
                k = mtlib.diffbits(mine, theirs)[0]
                raise Machinery("ORACLE ERROR: Matcher!Search disagrees with Go regexp on %s=%r name=%r (spec %s, RE2 %s)" % (
                    which, f[which], names[k], mine[k], theirs[k]))
        if "keys" in c:
            # the two readings of a regex in the specification agree, and its submatch / template semantics is RE2's
            if c["sub"] != c["sre"]:
                raise Machinery("ORACLE ERROR: Matcher!Submatch and Matcher!Search disagree on whether %r matches" % f["regex"])
            if r.get("re2keys") != c["keys"]:
                k = [j for j in range(len(names)) if r.get("re2keys", [None] * len(names))[j] != c["keys"][j]][0]
                raise Machinery("ORACLE ERROR: Matcher!OutKey disagrees with Go regexp Expand on regex=%r template=%r name=%r (spec %r, RE2 %r)" % (
                    f["regex"], c["tmpl"], names[k], c["keys"][k], r.get("re2keys", [None] * len(names))[k]))
        exp = c["expect"]
        stats["pairs"] += len(names)
        if "0" in exp and "1" in exp:
            stats["nontrivial_pairs"] += len(names)
        cls = mtlib.optclass(f)
        d = mtlib.diffbits(exp, r["match"])
        if d:
            stats["bad_match"] += len(d)
            k = d[0]
            ctx.violation("matcher.Match/%s" % cls,
                          "Match(%r) = %s but the filter %s %s it" % (names[k], r["match"][k] == "1", json.dumps(f),
                                                                      "accepts" if exp[k] == "1" else "rejects"),
                          dict(filter=f, names=[names[j] for j in d[:20]], expect=[exp[j] for j in d[:20]], n=len(d)))
        pre = r["pre"]
        d = [j for j in range(len(names)) if exp[j] == "1" and pre[j] == "0"]
        if d:
            ctx.violation("matcher.PreMatch/%s" % cls,
                          "PreMatch(%r) is false although the filter %s accepts the name" % (names[d[0]], json.dumps(f)),
                          dict(filter=f, names=[names[j] for j in d[:20]]))
        if "mrae" in r:
            mr = r["mrae"]
            d = [j for j in range(len(names)) if (exp[j] == "1" and mr[j] == "0") or (c["sre"] and c["sre"][j] == "0" and mr[j] == "1")]
            if d:
                ctx.violation("matcher.MatchRegexAndExpand/%s" % cls,
                              "MatchRegexAndExpand(%r) = %s contradicts filter %s" % (names[d[0]], mr[d[0]] == "1", json.dumps(f)),
                              dict(filter=f, names=[names[j] for j in d[:20]]))
            if not r.get("expand_ok", True):
                ctx.violation("matcher.MatchRegexAndExpand/template", "a template without references was not returned verbatim", dict(filter=f))


def site_events(ctx, names, sitecases, rng, per_case_other):
    """(site, filter, name, value token, ts token) tuples: every name for which the verdict on the
    whole line differs from the verdict on the name, plus a sample of the others"""
    out = []
    nsens = 0
    for c in sitecases:
        idx_s = [i for i in range(len(names)) if names[i] != "" and c["expect"][i] != c["online"][i]]
        idx_o = [i for i in range(len(names)) if names[i] != "" and c["expect"][i] == c["online"][i]]
        pick = idx_s + rng.sample(idx_o, min(per_case_other, len(idx_o)))
        nsens += len(idx_s)
        sites = list(SITES) + (AGG_SITES if c["f"]["regex"] else [])
        for s in sites:
            for i in pick:
                out.append(dict(site=s, f=c["f"], ast=c["ast"], name=names[i], v=c["v"], t=c["t"]))
    return out, nsens


def cache_histories(ctx, names, ccases, rng, n, nops):
    """histories of lookups / clock jumps / clean-ups for the (filter, template) pairs TLC enumerated:
    every pair with and without drop-raw; the names of a history are drawn from three classes read off
    TLC's verdicts: accepted with an EMPTY output name, accepted with a non-empty one, rejected"""
    pool = list(ccases)
    rng.shuffle(pool)
    n = max(n, 2 * len(pool))
    off = rng.randrange(2)
    hs = []
    nn = [x for x in names if x != ""]
    stats = dict(empty_key_names=0, degenerate_histories=0, repeated_lookups=0)
    for h in range(n):
        c = pool[h % len(pool)]
        drop = (h // len(pool) + off) % 2 == 0
        wait = rng.choice([1, 2, 3])
        idx = [i for i, x in enumerate(names) if x]
        acc_e = [names[i] for i in idx if c["expect"][i] == "1" and c["keys"][i] == ""]
        acc_k = [names[i] for i in idx if c["expect"][i] == "1" and c["keys"][i] != ""]
        rej = [names[i] for i in idx if c["expect"][i] == "0"]
        mine = rng.sample(acc_e, min(2, len(acc_e))) + rng.sample(acc_k, min(2, len(acc_k))) + rng.sample(rej, min(2, len(rej)))
        if len(mine) < 4:
            mine += rng.sample(nn, 4 - len(mine))
        mine = list(dict.fromkeys(mine))
        nempty = sum(1 for x in mine if x in acc_e)
        stats["empty_key_names"] += nempty
        stats["degenerate_histories"] += 1 if nempty else 0
        clock = 1000
        ops = [dict(op="clock", t=clock)]
        seen_since = set()        # names looked up since the last clock jump (an entry cannot have expired in between)
        lastname = None
        for _ in range(nops):
            x = rng.random()
            if x < 0.6:
                name = lastname if lastname is not None and rng.random() < 0.25 else rng.choice(mine)
                if name in seen_since:
                    stats["repeated_lookups"] += 1
                seen_since.add(name)
                lastname = name
                ops.append(dict(op="lookup", name=name, ts=clock))
            elif x < 0.8:
                step = rng.choice([1, wait, 40 * wait, 101 * wait, 150 * wait, 300 * wait])
                clock += step
                if step > 100 * wait:
                    seen_since = set()
                ops.append(dict(op="clock", t=clock))
            else:
                ops.append(dict(op="tick", t=clock + wait))
        ops.append(dict(op="tick", t=clock + wait))
        hs.append(dict(h=h, f=c["f"], ast=c["ast"], tmpl=c["tmpl"], tast=c["tast"], drop=drop, wait=wait, ops=ops))
    return hs, stats


def split_hist(events, start="hist"):
    blocks, cur = [], None
    for e in events:
        if e["ev"] == start:
            cur = [e]
            blocks.append(cur)
        else:
            cur.append(e)
    return blocks


def run(ctx):
    q = ctx.quick()
    rng = random.Random(ctx.seed)
    stats = dict(pairs=0, nontrivial_pairs=0, bad_match=0)
    # development aid, honoured only when trying a change out on a scratch copy of the repository
    # (VERIF_REPO): run only some parts, e.g. VERIF_C03_PARTS=sites,cache
    parts = set((os.environ.get("VERIF_C03_PARTS") or "matcher,sites,cache,updates").split(",")) \
        if os.environ.get("VERIF_REPO") else {"matcher", "sites", "cache", "updates"}

    # ---- 0. the cache state machine: cached answer = fresh answer, and the invariant is not vacuous
    ctx.tlc("AggCacheMC", "AggCache_mc.cfg", consts=dict(CBug="none"), workers=4, timeout=1500)
    for bug, what in (("first_char", "a cache keyed by the first character"),
                      ("empty_key_means_reject", "a cache that takes an empty remembered output name for 'not accepted'")):
        r = ctx.tlc("AggCacheMC", "AggCache_mc.cfg", consts=dict(CBug=bug), workers=4, timeout=1500,
                    expect_ok=False, count=False)
        if r["violated"] not in ("CachedIsFresh", "EntriesFresh"):
            raise Machinery("%s is not rejected by AggCache's invariants (vacuity); log %s" % (what, r["log"]))

    # ---- 0b. a filter that is updated: in force = configured, and the invariant is not vacuous
    ctx.tlc("MatcherUpd", "MatcherUpd_mc.cfg", consts=dict(UBug="none", URich=ctx.pick(1, 2)), workers=4, timeout=1500)
    for bug, what in (("stale_regex_after_clear", "a regex / notRegex that stays in force after the option was cleared"),
                      ("stale_prefix_after_clear", "a prefix / notPrefix that stays in force after the option was cleared")):
        r = ctx.tlc("MatcherUpd", "MatcherUpd_mc.cfg", consts=dict(UBug=bug, URich=1), workers=4, timeout=1500,
                    expect_ok=False, count=False)
        if r["violated"] != "InForceIsConfigured":
            raise Machinery("%s is not rejected by MatcherUpd's invariant (vacuity); log %s" % (what, r["log"]))

    # ---- 1. matcher decision cases
    if "matcher" not in parts:
        names, cases = mtlib.gen_matcher_cases(ctx, ["a", "b"], 2, ["opts"], 1, tag="gen_main")
    elif q:
        names, cases = mtlib.gen_matcher_cases(ctx, ["a", "b", "c", "."], 3, ["regex", "notregex", "opts"], 1, tag="gen_main")
    else:
        names, cases = mtlib.gen_matcher_cases(ctx, ["a", "b", "c", "."], 4, ["regex", "notregex", "opts"], 2,
                                               workers=6, tag="gen_main", timeout=6000)
    ctx.log("TLC enumerated %d filters x %d names" % (len(cases), len(names)))
    must = {"^ab?c", "^a|b", "^a\\.*b", "^ab*", "^ab{0,1}"}
    have = {c["f"]["regex"] for c in cases}
    if "matcher" in parts and not must <= have:
        raise Machinery("generated regex set lacks %s" % sorted(must - have))
    res = run_m = mtlib.run_matcher(ctx, names, cases, "main")
    compare_matcher(ctx, names, cases, res, stats)
    ctx.log("matcher: %d (filter, name) pairs compared, %d wrong verdicts" % (stats["pairs"], stats["bad_match"]))

    # ---- 2. use sites
    snames, allcases = mtlib.gen_matcher_cases(ctx, ["a", "b", ".", "1"], ctx.pick(3, 3), ["sites", "cache"], 1, tag="gen_sites")
    sres = mtlib.run_matcher(ctx, snames, allcases, "sites")        # the pools themselves on the plain matcher (and RE2 self-check)
    compare_matcher(ctx, snames, [c if c["fam"] == "cache" else dict(c, sre="", snre="") for c in allcases], sres, stats)
    scases = [c for c in allcases if c["fam"] == "sites"]
    ccases = [c for c in allcases if c["fam"] == "cache"]      # aggregation (filter, output template) pairs
    if not any(c["expect"][i] == "1" and c["keys"][i] == "" for c in ccases for i in range(len(snames)) if snames[i]):
        raise Machinery("no (filter, template) pair with an empty output name for an accepted name was generated")
    sub = scases if not q else [c for i, c in enumerate(scases) if (i + ctx.seed) % 3 == 0]
    sev, nsens = site_events(ctx, snames, sub, rng, ctx.pick(2, 6))
    if q and len(sev) > 9000:
        keep = set(rng.sample(range(len(sev)), 9000))
        sev = [e for i, e in enumerate(sev) if i in keep]
    sev.sort(key=lambda e: (e["site"], json.dumps(e["f"], sort_keys=True)))
    ctx.log("use sites: %d (site, filter, line) events, %d value-sensitive (filter, name, tokens) triples" % (len(sev), nsens))
    sf = ctx.write_ndjson("mt_sites.ndjson", sev)
    tf = ctx.out + "/mt_sitetrace.ndjson"
    ctx.go_test("mt", run="^TestSites$", env=dict(VERIF_MT_SITES=sf, VERIF_MT_SITETRACE=tf), timeout=3000)
    events = ctx.read_ndjson(tf)
    if len(events) != len(sev):
        raise Machinery("site driver recorded %d of %d events" % (len(events), len(sev)))
    for e in events:
        e["go"] = json.dumps(e["go"], sort_keys=True)

    def sig_site(b, i):
        return "site:%s/%s" % (b[i]["site"], mtlib.optclass(json.loads(b[i]["go"])))

    def rej_site(b, i, sig, inv):
        e = b[i]
        ctx.violation(sig, "at use site %s, filter %s, line %r: observed %s differs from what the filter's verdict on the name requires" % (
            e["site"], e["go"], "%s %s %s" % ("".join(e["name"]), e["v"], e["t"]), e["obs"]), dict(event=e))

    nb, ne, nrej = mtlib.validate_blocks(ctx, "MatcherTrace", "MatcherTrace.cfg", [[e] for e in events], "site_trace.ndjson",
                                         sig_site, rej_site)
    site_ok = ne

    # ---- 3. cache histories
    hs, hstats = cache_histories(ctx, snames, ccases, rng, ctx.pick(60, 800), ctx.pick(30, 60))
    if not hstats["degenerate_histories"] or not hstats["repeated_lookups"]:
        raise Machinery("cache histories lack repeated lookups of names with an empty output name: %s" % hstats)
    ctx.log("cache: %d histories over %d (filter, template) pairs, %s" % (len(hs), len(ccases), hstats))
    hf = ctx.write_ndjson("mt_cachehist.ndjson", hs)
    cf = ctx.out + "/mt_cachetrace.ndjson"
    ctx.go_test("mt", run="^TestCache$", env=dict(VERIF_MT_CACHEHIST=hf, VERIF_MT_CACHETRACE=cf), timeout=3000)
    cev = ctx.read_ndjson(cf)
    for e in cev:
        if "go" in e:
            e["go"] = json.dumps(e["go"], sort_keys=True)
    nlook = sum(1 for e in cev if e["ev"] == "lookup")
    if nlook == 0:
        raise Machinery("dead cache driver")

    def sig_cache(b, i):
        return "aggregation-cache/%s/%s" % ("dropraw" if b[0]["drop"] else "keepraw", b[i]["ev"])

    def rej_cache(b, i, sig, inv):
        e = b[i]
        if e["ev"] == "lookup":
            what = "AddMaybe(%r) returned %s" % ("".join(e["name"]), e["got"])
        elif e["ev"] == "tick":
            what = "the flush produced (output name, quantum, count) = %s for the points offered since the last flush" % (
                [("".join(o["k"]), o["q"], o["c"]) for o in e["out"]],)
        else:
            what = "event %s" % json.dumps(e)
        looked = ["".join(x["name"]) for x in b[:i + 1] if x["ev"] == "lookup"]
        ctx.violation(sig, "caching aggregator (dropRaw=%s) with filter %s and output template %r: %s, which contradicts the answer "
                      "computed afresh from the names (history %s, names looked up so far: %s)" % (
                          b[0]["drop"], b[0]["go"], b[0]["tmpl"], what, b[0]["h"], looked[-12:]), dict(history=b[:i + 1][-40:]))

    cb, ce, crej = mtlib.validate_blocks(ctx, "MatcherTrace", "MatcherTrace.cfg", split_hist(cev), "cache_trace.ndjson",
                                         sig_cache, rej_cache, max_rounds=6)

    # ---- 3b. filters reconfigured at run time
    unames, ugen, uhs, ustats = update_histories(ctx, ctx.pick(100, 500), ctx.pick(5, 7), ctx.pick(2, 2))
    if not (ustats["cleared"]["regex"] and ustats["cleared"]["notRegex"] and ustats["cleared"]["prefix"] and ustats["cleared"]["sub"]
            and ustats["replaced"]["regex"] and ustats["replaced"]["notRegex"]
            and ustats["accepted_only_after_clearing"]["regex"] and ustats["accepted_only_after_clearing"]["notRegex"]):
        raise Machinery("update behaviours lack steps that clear / replace a regex or notRegex with an effect on some name: %s" % ustats)
    ctx.log("updates: %d behaviours x %d steps at %s; %s" % (len(uhs), len(uhs[0]["steps"]), "/".join(UPD_SITES), ustats))
    uf = ctx.write_ndjson("mt_updhist.ndjson", uhs)
    utf = ctx.out + "/mt_updtrace.ndjson"
    ctx.go_test("mt", run="^TestUpdates$", env=dict(VERIF_MT_UPDHIST=uf, VERIF_MT_UPDTRACE=utf), timeout=3000)
    uev = ctx.read_ndjson(utf)
    for e in uev:
        for k in ("go", "cfg"):
            if k in e:
                e[k] = json.dumps(e[k], sort_keys=True)
    nuprobe = sum(len(e["names"]) for e in uev if e["ev"] == "uprobe")
    if sum(1 for e in uev if e["ev"] == "uprobe") != sum(len(h["steps"]) + 1 for h in uhs):
        raise Machinery("update driver recorded %d probe rounds for %d behaviours" % (sum(1 for e in uev if e["ev"] == "uprobe"), len(uhs)))

    def upd_context(b, i):
        """what the specification says about the point of a behaviour where event i of block b was recorded"""
        g = ugen[b[0]["h"]]
        step = b[i].get("step", 0)
        confs = [g["f"]] + [st["conf"] for st in g["steps"]]
        exps = [g["expect"]] + [st["expect"] for st in g["steps"]]
        conf = confs[step]
        gone = [o for o in OPTS if not conf[o] and any(c[o] for c in confs[:step])]
        return g, step, conf, exps[step], gone

    def sig_upd(b, i):
        g, step, conf, exp, gone = upd_context(b, i)
        return "update:%s/now=%s/cleared=%s" % (b[0]["site"], mtlib.optclass(conf), "+".join(gone) or "none")

    def rej_upd(b, i, sig, inv):
        e = b[i]
        g, step, conf, exp, gone = upd_context(b, i)
        ups = [x["go"] for x in b[:i + 1] if x["ev"] == "update"]
        call = "Table.UpdateDestination(route, 0, ...)" if b[0]["site"].startswith("dest_") else "Table.UpdateRoute(route, ...)"
        if e["ev"] != "uprobe":
            ctx.violation(sig, "update behaviour %d at %s: event %s is not accepted by the specification" % (b[0]["h"], b[0]["site"], json.dumps(e)),
                          dict(history=b[:i + 1]))
            return
        want = {n: exp[k] for k, n in enumerate(unames)}
        bad = [("".join(n), want["".join(n)], o) for n, o in zip(e["names"], e["obs"]) if str(o[0]) != want["".join(n)]]
        ctx.violation(sig, "%s filter created as %s and then updated by %s with %s: the filter now has the options %s (the real code reports %s; "
                      "options that were set earlier and are empty now: %s), but for %d of %d names the deliveries observed are not what the "
                      "conjunction of these options requires, e.g. name %r: the filter %s it, observed deliveries %s" % (
                          b[0]["site"], b[0]["go"], call, " ; ".join(ups) or "(no update yet)", json.dumps(conf, sort_keys=True), e["cfg"],
                          ", ".join(gone) or "none", len(bad), len(e["names"]), bad[0][0] if bad else "?",
                          ("accepts" if bad[0][1] == "1" else "rejects") if bad else "?", bad[0][2] if bad else "?"),
                      dict(site=b[0]["site"], start=b[0]["go"], updates=ups, options_now=conf, reported=e["cfg"],
                           names=[x[0] for x in bad[:20]], accept=[x[1] for x in bad[:20]], observed=[x[2] for x in bad[:20]]))

    ub, ue, urej = mtlib.validate_blocks(ctx, "MatcherTrace", "MatcherTrace.cfg", split_hist(uev, "uhist"), "upd_trace.ndjson",
                                         sig_upd, rej_upd, max_rounds=5)

    # ---- 4. the binding is real: one corrupted observation must be rejected exactly there
    if not ctx.violations:
        def corrupt_upd(ev):
            k = [i for i, e in enumerate(ev) if e["ev"] == "uprobe"][3]
            ev[k]["obs"][5][0] = 1 - ev[k]["obs"][5][0]
            return k
        mtlib.selftest(ctx, "MatcherTrace", "MatcherTrace.cfg", uev[:60], corrupt_upd, "flipped observation after an update", "upd")

        def corrupt_site(ev):
            i = min(len(ev) - 1, 37)
            ev[i]["obs"][0] = 1 - ev[i]["obs"][0]
            return i
        mtlib.selftest(ctx, "MatcherTrace", "MatcherTrace.cfg", events[:300], corrupt_site, "flipped site observation", "site")

        def corrupt_cache(ev):
            for i, e in enumerate(ev):
                if e["ev"] == "lookup" and i > 8:
                    e["got"] = not e["got"]
                    return i
        mtlib.selftest(ctx, "MatcherTrace", "MatcherTrace.cfg", cev[:400], corrupt_cache, "flipped cached answer", "cache")

        def corrupt_key(ev):
            for i, e in enumerate(ev):
                if e["ev"] == "tick" and i > 8 and e["out"]:
                    e["out"][0]["k"] = e["out"][0]["k"] + ["x"]
                    return i
        mtlib.selftest(ctx, "MatcherTrace", "MatcherTrace.cfg", cev[:400], corrupt_key, "altered output name", "cachekey")
        ctx.cov["binding_selftests"] = "passed"

    cov = ctx.cov
    cov["evaluations"] = stats["pairs"] + len(events) + nlook + nuprobe
    cov["update_behaviours"] = len(uhs)
    cov["update_steps"] = ustats["steps"]
    cov["update_probes_validated"] = nuprobe if not urej else 0
    cov["update_steps_clearing"] = ustats["cleared"]
    cov["update_steps_replacing"] = ustats["replaced"]
    cov["update_verdict_changes"] = ustats["verdict_changes"]
    cov["distinct_nontrivial"] = stats["nontrivial_pairs"]
    cov["site_events_validated"] = site_ok
    cov["site_value_sensitive_triples"] = nsens
    cov["cache_histories"] = len(hs)
    cov["cache_lookups"] = nlook
    cov["cache_configs"] = len(ccases)
    cov["cache_histories_with_empty_output_names"] = hstats["degenerate_histories"]
    cov["cache_repeated_lookups_before_expiry"] = hstats["repeated_lookups"]
    cov["rule"] = ("(filter, name) pairs: filters = TLC-enumerated regex ASTs (atoms, classes, quantified atoms, concatenations, "
                   "alternations; unanchored, ^, $, ^$ shapes; as regex and as notRegex) + all 2^6 option subsets over small pools, "
                   "names = all strings up to length %d over %d characters; non-trivial = pairs of filters whose verdict vector is "
                   "neither all-accept nor all-reject.  Use sites: %d events at blacklist/route/destination(all,first)/aggregation"
                   "(keep,drop,cache)/aggregate-routing sites, each re-evaluated by MatcherTrace.tla; %d cache histories over %d "
                   "TLC-enumerated (filter, output template) pairs, each with and without drop-raw.  Run-time updates: %d TLC-simulated "
                   "behaviours of MatcherUpd (start filter + %d updates over value pools incl. the empty value), replayed through "
                   "Table.UpdateRoute / Table.UpdateDestination at %s, %d names probed after every step." % (
                       ctx.pick(3, 4), 4, len(events), len(hs), len(ccases), len(uhs), len(uhs[0]["steps"]), "/".join(UPD_SITES),
                       len(uhs[0]["names"])))
    big = max(cases, key=lambda c: len(c["f"]["regex"]) + len(c["f"]["notRegex"]))
    ctx.sample(dict(filter=big["f"], names=names[:12], expect=big["expect"][:12]))
    ctx.sample(dict(site_event={k: events[0][k] for k in ("site", "go", "name", "v", "t", "obs")}))
    ctx.sample(dict(cache_history=dict(filter=hs[0]["f"], template=hs[0]["tmpl"], drop_raw=hs[0]["drop"], wait=hs[0]["wait"], ops=hs[0]["ops"][:10])))
    ctx.assumptions += [
        "metric names are ASCII without newline (the regex semantics of '.' and negated classes in the specification assume it)",
        "destinations are observed through their conn_down_no_spool counters (endpoint 127.0.0.1:1 refuses connections) after a Flush() round trip",
        "aggregators are stepped with an unbuffered inbox, an injected clock, explicit ticks and a Snapshot() barrier after every step",
        "an update (modRoute / modDest, Table.UpdateRoute / Table.UpdateDestination) replaces the options it names and keeps the others "
        "(docs/tcp-admin-interface.md: 'modify route by updating one or more ... option strings'); an option can only be cleared through "
        "the Go API (the admin grammar has no empty word)"]
    cov["trusted_base"] = ["TLC", "Go regexp as cross-check of the specification's regex semantics", "harness/mt driver (records only)"]
