"""C03 — filters mean exactly the documented conjunction, evaluated on the metric name.

1. Matcher.tla gives the meaning of a filter (six-way conjunction; regex = AST with a
   set-of-end-positions semantics).  TLC enumerates filters (every regex AST up to a size under
   anchored and unanchored shapes, as regex and as notRegex; all subsets of the six options) and
   computes the verdict for every name up to a length.  The real matcher.Matcher runs on the same
   (filter, name) pairs; python compares TLC's verdict with the observed one.  PreMatch and
   MatchRegexAndExpand (the pieces aggregations use) must never be false where the filter accepts.
   Self-check of the oracle: TLC's Search must agree with Go's regexp on the rendered pattern
   (disagreement = machinery error, exit 2).
2. Use sites: TLC picks (filter, name, value token, timestamp token) where the text the filter
   looks for occurs in the value/timestamp but not in the name (or the regex is $-anchored); the
   driver installs the filter as blacklist entry, route filter, destination filter (real
   sendAllMatch / sendFirstMatch routes, real destinations observed through their counters),
   aggregation filter (real aggregator, with/without drop-raw and cache) and sends aggregate lines
   through Table.DispatchAggregate; MatcherTrace.tla re-evaluates Accept on the NAME for every
   recorded observation.
3. Match cache: AggCache.tla (Lookup / Advance / Expire; invariant cached = fresh) is model-checked,
   and lookup / clock-jump / clean-up histories run on aggregator.NewMocked(cache=true) with an
   injected clock are validated by MatcherTrace.tla.
"""
import json, os, random
from checks import mtlib
from vlib.core import Machinery

LEVEL = "model_checking"

SITES = ["blacklist", "route", "dest_all", "dest_first", "aggroute", "aggdest_all", "aggdest_first"]
AGG_SITES = ["agg_keep", "agg_drop", "aggc_drop"]


def compare_matcher(ctx, names, cases, res, stats):
    """python only compares TLC's expectation with the recorded outcome"""
    for i, c in enumerate(cases):
        r = res[i]
        f = c["f"]
        if "err" in r:
            raise Machinery("the specification rendered a filter the real matcher rejects: %s: %s" % (json.dumps(f), r["err"]))
        # oracle self-check against Go's regexp (RE2)
        for mine, theirs, which in ((c.get("sre", ""), r.get("re2", ""), "regex"), (c.get("snre", ""), r.get("nre2", ""), "notRegex")):
            if mine != "" and mine != theirs:
                k = mtlib.diffbits(mine, theirs)[0]
                raise Machinery("ORACLE ERROR: Matcher!Search disagrees with Go regexp on %s=%r name=%r (spec %s, RE2 %s)" % (
                    which, f[which], names[k], mine[k], theirs[k]))
        exp = c["expect"]
        stats["pairs"] += len(names)
        if "0" in exp and "1" in exp:
            stats["nontrivial_pairs"] += len(names)
        cls = mtlib.optclass(f)
        d = mtlib.diffbits(exp, r["match"])
        if d:
            stats["bad_match"] += len(d)
            k = d[0]
            ctx.violation("matcher.Match/%s" % cls,
                          "Match(%r) = %s but the filter %s %s it" % (names[k], r["match"][k] == "1", json.dumps(f),
                                                                      "accepts" if exp[k] == "1" else "rejects"),
                          dict(filter=f, names=[names[j] for j in d[:20]], expect=[exp[j] for j in d[:20]], n=len(d)))
        pre = r["pre"]
        d = [j for j in range(len(names)) if exp[j] == "1" and pre[j] == "0"]
        if d:
            ctx.violation("matcher.PreMatch/%s" % cls,
                          "PreMatch(%r) is false although the filter %s accepts the name" % (names[d[0]], json.dumps(f)),
                          dict(filter=f, names=[names[j] for j in d[:20]]))
        if "mrae" in r:
            mr = r["mrae"]
            d = [j for j in range(len(names)) if (exp[j] == "1" and mr[j] == "0") or (c["sre"] and c["sre"][j] == "0" and mr[j] == "1")]
            if d:
                ctx.violation("matcher.MatchRegexAndExpand/%s" % cls,
                              "MatchRegexAndExpand(%r) = %s contradicts filter %s" % (names[d[0]], mr[d[0]] == "1", json.dumps(f)),
                              dict(filter=f, names=[names[j] for j in d[:20]]))
            if not r.get("expand_ok", True):
                ctx.violation("matcher.MatchRegexAndExpand/template", "a template without references was not returned verbatim", dict(filter=f))


def site_events(ctx, names, sitecases, rng, per_case_other):
    """(site, filter, name, value token, ts token) tuples: every name for which the verdict on the
    whole line differs from the verdict on the name, plus a sample of the others"""
    out = []
    nsens = 0
    for c in sitecases:
        idx_s = [i for i in range(len(names)) if names[i] != "" and c["expect"][i] != c["online"][i]]
        idx_o = [i for i in range(len(names)) if names[i] != "" and c["expect"][i] == c["online"][i]]
        pick = idx_s + rng.sample(idx_o, min(per_case_other, len(idx_o)))
        nsens += len(idx_s)
        sites = list(SITES) + (AGG_SITES if c["f"]["regex"] else [])
        for s in sites:
            for i in pick:
                out.append(dict(site=s, f=c["f"], ast=c["ast"], name=names[i], v=c["v"], t=c["t"]))
    return out, nsens


def cache_histories(ctx, names, sitecases, rng, n, nops):
    pool = [c for c in sitecases if c["f"]["regex"]]
    hs = []
    nn = [x for x in names if x != ""]
    for h in range(n):
        c = rng.choice(pool)
        wait = rng.choice([1, 2, 3])
        # a handful of names, some accepted some not, some sharing a first character
        acc = [x for i, x in enumerate(names) if x and c["expect"][i] == "1"]
        rej = [x for i, x in enumerate(names) if x and c["expect"][i] == "0"]
        mine = rng.sample(acc, min(2, len(acc))) + rng.sample(rej, min(2, len(rej)))
        if len(mine) < 4:
            mine += rng.sample(nn, 4 - len(mine))
        mine = list(dict.fromkeys(mine))
        clock = 1000
        ops = [dict(op="clock", t=clock)]
        for _ in range(nops):
            x = rng.random()
            if x < 0.6:
                ops.append(dict(op="lookup", name=rng.choice(mine), ts=clock))
            elif x < 0.8:
                clock += rng.choice([1, wait, 40 * wait, 101 * wait, 150 * wait, 300 * wait])
                ops.append(dict(op="clock", t=clock))
            else:
                ops.append(dict(op="tick", t=clock + wait))
        ops.append(dict(op="tick", t=clock + wait))
        hs.append(dict(h=h, f=c["f"], ast=c["ast"], wait=wait, ops=ops))
    return hs


def split_hist(events):
    blocks, cur = [], None
    for e in events:
        if e["ev"] == "hist":
            cur = [e]
            blocks.append(cur)
        else:
            cur.append(e)
    return blocks


def run(ctx):
    q = ctx.quick()
    rng = random.Random(ctx.seed)
    stats = dict(pairs=0, nontrivial_pairs=0, bad_match=0)
    # development aid, honoured only when trying a change out on a scratch copy of the repository
    # (VERIF_REPO): run only some parts, e.g. VERIF_C03_PARTS=sites,cache
    parts = set((os.environ.get("VERIF_C03_PARTS") or "matcher,sites,cache").split(",")) \
        if os.environ.get("VERIF_REPO") else {"matcher", "sites", "cache"}

    # ---- 0. the cache state machine: cached answer = fresh answer, and the invariant is not vacuous
    ctx.tlc("AggCacheMC", "AggCache_mc.cfg", consts=dict(CBug="none"), workers=4, timeout=1500)
    r = ctx.tlc("AggCacheMC", "AggCache_mc.cfg", consts=dict(CBug="first_char"), workers=4, timeout=1500,
                expect_ok=False, count=False)
    if r["violated"] not in ("CachedIsFresh", "EntriesFresh"):
        raise Machinery("a cache keyed by the first character is not rejected by AggCache's invariants (vacuity); log %s" % r["log"])

    # ---- 1. matcher decision cases
    if "matcher" not in parts:
        names, cases = mtlib.gen_matcher_cases(ctx, ["a", "b"], 2, ["opts"], 1, tag="gen_main")
    elif q:
        names, cases = mtlib.gen_matcher_cases(ctx, ["a", "b", "c", "."], 3, ["regex", "notregex", "opts"], 1, tag="gen_main")
    else:
        names, cases = mtlib.gen_matcher_cases(ctx, ["a", "b", "c", "."], 4, ["regex", "notregex", "opts"], 2,
                                               workers=6, tag="gen_main", timeout=6000)
    ctx.log("TLC enumerated %d filters x %d names" % (len(cases), len(names)))
    must = {"^ab?c", "^a|b", "^a\\.*b", "^ab*", "^ab{0,1}"}
    have = {c["f"]["regex"] for c in cases}
    if "matcher" in parts and not must <= have:
        raise Machinery("generated regex set lacks %s" % sorted(must - have))
    res = run_m = mtlib.run_matcher(ctx, names, cases, "main")
    compare_matcher(ctx, names, cases, res, stats)
    ctx.log("matcher: %d (filter, name) pairs compared, %d wrong verdicts" % (stats["pairs"], stats["bad_match"]))

    # ---- 2. use sites
    snames, scases = mtlib.gen_matcher_cases(ctx, ["a", "b", ".", "1"], ctx.pick(3, 3), ["sites"], 1, tag="gen_sites")
    sres = mtlib.run_matcher(ctx, snames, scases, "sites")          # the pool itself on the plain matcher (and RE2 self-check)
    compare_matcher(ctx, snames, [dict(c, sre="", snre="") for c in scases], sres, stats)
    sub = scases if not q else [c for i, c in enumerate(scases) if (i + ctx.seed) % 3 == 0]
    sev, nsens = site_events(ctx, snames, sub, rng, ctx.pick(2, 6))
    if q and len(sev) > 9000:
        keep = set(rng.sample(range(len(sev)), 9000))
        sev = [e for i, e in enumerate(sev) if i in keep]
    sev.sort(key=lambda e: (e["site"], json.dumps(e["f"], sort_keys=True)))
    ctx.log("use sites: %d (site, filter, line) events, %d value-sensitive (filter, name, tokens) triples" % (len(sev), nsens))
    sf = ctx.write_ndjson("mt_sites.ndjson", sev)
    tf = ctx.out + "/mt_sitetrace.ndjson"
    ctx.go_test("mt", run="^TestSites$", env=dict(VERIF_MT_SITES=sf, VERIF_MT_SITETRACE=tf), timeout=3000)
    events = ctx.read_ndjson(tf)
    if len(events) != len(sev):
        raise Machinery("site driver recorded %d of %d events" % (len(events), len(sev)))
    for e in events:
        e["go"] = json.dumps(e["go"], sort_keys=True)

    def sig_site(b, i):
        return "site:%s/%s" % (b[i]["site"], mtlib.optclass(json.loads(b[i]["go"])))

    def rej_site(b, i, sig, inv):
        e = b[i]
        ctx.violation(sig, "at use site %s, filter %s, line %r: observed %s differs from what the filter's verdict on the name requires" % (
            e["site"], e["go"], "%s %s %s" % ("".join(e["name"]), e["v"], e["t"]), e["obs"]), dict(event=e))

    nb, ne, nrej = mtlib.validate_blocks(ctx, "MatcherTrace", "MatcherTrace.cfg", [[e] for e in events], "site_trace.ndjson",
                                         sig_site, rej_site)
    site_ok = ne

    # ---- 3. cache histories
    hs = cache_histories(ctx, snames, scases, rng, ctx.pick(60, 800), ctx.pick(30, 60))
    hf = ctx.write_ndjson("mt_cachehist.ndjson", hs)
    cf = ctx.out + "/mt_cachetrace.ndjson"
    ctx.go_test("mt", run="^TestCache$", env=dict(VERIF_MT_CACHEHIST=hf, VERIF_MT_CACHETRACE=cf), timeout=3000)
    cev = ctx.read_ndjson(cf)
    for e in cev:
        if "go" in e:
            e["go"] = json.dumps(e["go"], sort_keys=True)
    nlook = sum(1 for e in cev if e["ev"] == "lookup")
    njump = sum(1 for h in hs for a, b in zip(h["ops"], h["ops"][1:]) if False)
    if nlook == 0:
        raise Machinery("dead cache driver")

    def sig_cache(b, i):
        return "aggregation-cache/" + b[i]["ev"]

    def rej_cache(b, i, sig, inv):
        ctx.violation(sig, "caching aggregator with filter %s: event %s contradicts the fresh answer (history %s)" % (
            b[0]["go"], json.dumps(b[i]), b[0]["h"]), dict(history=b[:i + 1][-40:]))

    cb, ce, crej = mtlib.validate_blocks(ctx, "MatcherTrace", "MatcherTrace.cfg", split_hist(cev), "cache_trace.ndjson",
                                         sig_cache, rej_cache)

    # ---- 4. the binding is real: one corrupted observation must be rejected exactly there
    if not ctx.violations:
        def corrupt_site(ev):
            i = min(len(ev) - 1, 37)
            ev[i]["obs"][0] = 1 - ev[i]["obs"][0]
            return i
        mtlib.selftest(ctx, "MatcherTrace", "MatcherTrace.cfg", events[:300], corrupt_site, "flipped site observation", "site")

        def corrupt_cache(ev):
            for i, e in enumerate(ev):
                if e["ev"] == "lookup" and i > 8:
                    e["got"] = not e["got"]
                    return i
        mtlib.selftest(ctx, "MatcherTrace", "MatcherTrace.cfg", cev[:400], corrupt_cache, "flipped cached answer", "cache")
        ctx.cov["binding_selftests"] = "passed"

    cov = ctx.cov
    cov["evaluations"] = stats["pairs"] + len(events) + nlook
    cov["distinct_nontrivial"] = stats["nontrivial_pairs"]
    cov["site_events_validated"] = site_ok
    cov["site_value_sensitive_triples"] = nsens
    cov["cache_histories"] = len(hs)
    cov["cache_lookups"] = nlook
    cov["rule"] = ("(filter, name) pairs: filters = TLC-enumerated regex ASTs (atoms, classes, quantified atoms, concatenations, "
                   "alternations; unanchored, ^, $, ^$ shapes; as regex and as notRegex) + all 2^6 option subsets over small pools, "
                   "names = all strings up to length %d over %d characters; non-trivial = pairs of filters whose verdict vector is "
                   "neither all-accept nor all-reject.  Use sites: %d events at blacklist/route/destination(all,first)/aggregation"
                   "(keep,drop,cache)/aggregate-routing sites, each re-evaluated by MatcherTrace.tla; %d cache histories." % (
                       ctx.pick(3, 4), 4, len(events), len(hs)))
    big = max(cases, key=lambda c: len(c["f"]["regex"]) + len(c["f"]["notRegex"]))
    ctx.sample(dict(filter=big["f"], names=names[:12], expect=big["expect"][:12]))
    ctx.sample(dict(site_event={k: events[0][k] for k in ("site", "go", "name", "v", "t", "obs")}))
    ctx.sample(dict(cache_history=dict(filter=hs[0]["f"], wait=hs[0]["wait"], ops=hs[0]["ops"][:10])))
    ctx.assumptions += [
        "metric names are ASCII without newline (the regex semantics of '.' and negated classes in the specification assume it)",
        "destinations are observed through their conn_down_no_spool counters (endpoint 127.0.0.1:1 refuses connections) after a Flush() round trip",
        "aggregators are stepped with an unbuffered inbox, an injected clock, explicit ticks and a Snapshot() barrier after every step"]
    cov["trusted_base"] = ["TLC", "Go regexp as cross-check of the specification's regex semantics", "harness/mt driver (records only)"]
