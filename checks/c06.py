"""C06 — a bad endpoint never stalls ingestion; steady-state losses are all counted."""
import json
from checks import destlib
from vlib.core import Machinery

LEVEL = "model_checking"


def run(ctx):
    q = ctx.quick()
    # 1. model: relay select loop vs hostile endpoint.  Safety (accounting identities in the steady
    #    states) and liveness (Sender waiting ~> returned) under fairness of relay and sender only.
    allm = destlib.ALL_MODES
    base = destlib.mc_consts(Spool=False, InitModes=allm, Modes=allm, N=3, Q=1, MaxChanges=1)
    destlib.mc(ctx, "Destination_c06.cfg", base)
    if not q:
        destlib.mc(ctx, "Destination_c06.cfg", dict(base, N=4))
        destlib.mc(ctx, "Destination_c06.cfg", dict(base, N=4, Q=2, IOB=2, KB=2, MaxChanges=0))
        destlib.mc(ctx, "Destination_c06.cfg", dict(base, Spool=True, RT=1, SB=1))
    # spooling enabled, outage first (lines handed while the endpoint is absent are spooled), then the endpoint comes back as
    # a black hole / pauses / (thorough) closes or changes again while the spool is being unspooled: the sender still returns
    # although nothing is assumed about the connection writer and the endpoint (no fairness)
    spooled = dict(base, Spool=True, RT=1, SB=1, InitModes={"absent"}, Modes={"blackhole", "paused", "closing"}, MaxChanges=1)
    destlib.mc(ctx, "Destination_c06.cfg", spooled)
    if not q:
        destlib.mc(ctx, "Destination_c06.cfg", dict(spooled, Modes={"blackhole", "paused", "closing", "healthy"}, MaxChanges=2))
    # non-vacuity: named deviations of the model violate the properties
    small = dict(base, InitModes={"blackhole", "absent", "healthy"}, Modes={"blackhole"}, MaxChanges=0)
    destlib.mc(ctx, "Destination_c06.cfg", dict(small, Mutant="BlockingSend"), expect={"temporal"}, count=False)
    destlib.mc(ctx, "Destination_c06.cfg", dict(small, Mutant="DialInLoop"), expect={"temporal"}, count=False)
    # the unspool branch hands its line over with a blocking send: rejected (the relay sits on a full connection queue)
    destlib.mc(ctx, "Destination_c06.cfg", dict(spooled, Mutant="BlockingUnspool"), expect={"temporal"}, count=False)
    destlib.mc(ctx, "Destination_c06.cfg", dict(small, Mutant="DownDropNoCount"), expect={"Conservation_steady", "SteadyDown"}, count=False)
    destlib.mc(ctx, "Destination_c06.cfg", dict(small, Mutant="DropNoCount"), expect={"Conservation_steady", "SteadyHealthy"}, count=False)
    # a healthy endpoint that pauses (no progress for a while, then reads everything): the writer blocks, the relay drops
    # and counts; a relay-side write timeout that closes the connection and discards its queue uncounted is rejected
    # (the base run above contains healthy -> paused -> healthy and paused -> healthy; thorough adds repeated pauses)
    paused = dict(base, InitModes={"paused", "healthy"}, Modes={"paused", "healthy"}, MaxChanges=2)
    if not q:
        destlib.mc(ctx, "Destination_c06.cfg", paused)
        destlib.mc(ctx, "Destination_c06.cfg", dict(paused, N=4, Q=2, IOB=1, KB=1, MaxChanges=3))
    destlib.mc(ctx, "Destination_c06.cfg", dict(paused, InitModes={"paused"}, Modes={"healthy"}, MaxChanges=0, Mutant="WriteTimeoutDrop"),
               expect={"Conservation_steady", "SteadyHealthy"}, count=False)

    # address update at run time: the operator points the destination at another endpoint (the connector's handshake, run
    # by the caller) while the relay may hold a live connection to the previous one, whose writer may be blocked (black hole,
    # pause).  The held connection is replaced without waiting for anything: the sender still returns (relay and sender fair,
    # nothing assumed about writers and endpoints).  A relay that flushes and closes the previous connection inline before
    # taking the new one is rejected even with fair connection writers: the writer of the previous connection cannot move.
    addru = dict(base, AddrUpd=True, InitModes={"blackhole", "paused", "healthy"}, Modes={"healthy", "blackhole"}, MaxChanges=1)
    destlib.mc(ctx, "Destination_c06.cfg", addru, workers=4)
    if not q:
        destlib.mc(ctx, "Destination_c06.cfg", dict(base, AddrUpd=True), workers=4)       # every mode before and after the update
        destlib.mc(ctx, "Destination_c06.cfg", dict(addru, N=4, MaxChanges=2, Modes={"healthy", "blackhole", "paused"}), workers=4)
        destlib.mc(ctx, "Destination_c06.cfg", dict(addru, Spool=True, RT=1, SB=1), workers=4)
    destlib.mc(ctx, "Destination_c06w.cfg", dict(addru, InitModes={"blackhole"}, Modes={"healthy"}, Mutant="SyncFlushOldConn"),
               expect={"temporal"}, count=False, workers=4)

    # 2. real routes with real destinations against harness endpoints
    scns = destlib.c06_scenarios(ctx)
    ctx.log("C06 scenarios: %d" % len(scns))
    events, crashed = destlib.run_driver(ctx, "TestC06", "VERIF_C06_SCN", scns, "c06", timeout=ctx.pick(900, 3000))
    # ... and with spooling enabled: outage, then a bad endpoint while the spool is replayed (own driver process: hooks on)
    sscns = []
    if not crashed:
        sscns = destlib.c06_spool_scenarios(ctx, max(s["id"] for s in scns) + 1)
        ctx.log("C06 spool-replay scenarios: %d" % len(sscns))
        ev2, crashed = destlib.run_driver(ctx, "TestC06Spool", "VERIF_C06S_SCN", sscns, "c06s", timeout=ctx.pick(900, 3000))
        events = events + ev2
        scns = scns + sscns
    byid = {s["id"]: s for s in scns}
    if crashed:
        ctx.violation("relay-panics", "the relay panicked while running against a misbehaving endpoint", crashed)
        ctx.sample(dict(panic=crashed["tail"][-300:]))
        return
    touts = [e for e in events if e["ev"] == "timeout"]
    if touts:
        raise Machinery("C06 driver could not reach its steady phase / set its scenario up: %s" % json.dumps(touts[:3]))
    stalls = {e["scn"]: e for e in events if e["ev"] == "stall"}
    lats = [e for e in events if e["ev"] == "lat"]
    phases = [e for e in events if e["ev"] == "phase"]
    if len(lats) != len(scns):
        raise Machinery("dead driver: %d latency records for %d scenarios" % (len(lats), len(scns)))

    replays = {e["scn"]: e for e in events if e["ev"] == "replay"}
    addrs = {e["scn"]: e for e in events if e["ev"] == "addrupd"}
    ADDR_KINDS = dict(addrbh="accepts and never reads", addrstall="reads at first, then stops reading", addrok="healthy")
    ugates = {e["scn"]: e for e in events if e["ev"] == "ugate"}
    SPOOL_KINDS = dict(spoolbh="accepts and never reads", spoolstall="stalls, then resumes", spoolclose="closes mid-replay",
                       spoolgate="connection writer held at hd.recv (hook gate)")

    # 3. TLC decides (level A = the identities and the bound of the property statement)
    def on_reject(rec, src, block):
        s = byid.get(src.get("scn"), {})
        cls = "%s route=%s" % (s.get("kind"), s.get("route"))
        if rec["ev"] == "lat":
            extra = ""
            rp = replays.get(src.get("scn"))
            if rp:
                extra = (" [spooling enabled: %s lines spooled during an outage, endpoint back (%s), %d lines replayed from the spool, "
                         "%d of them taken while the connection queue (connbuf %d) was full, %d of those dropped and counted]"
                         % (rp.get("backlog"), SPOOL_KINDS.get(s.get("kind")), rp["unspooled"], rp["unspool_full"], s.get("connbuf"), rp["unspool_drop"]))
            au = addrs.get(src.get("scn"))
            if au:
                extra = (" [address update: previous endpoint %s; %s lines handed, writer blocked=%s (%s written to the connection, %s counted "
                         "slow_conn); then Route.UpdateDestination(0, addr=<healthy endpoint>)%s: returned=%s after %s ms; %d calls had returned%s]"
                         % (ADDR_KINDS.get(s.get("kind")), au.get("pre_handed"), au.get("saturated"), au.get("pre_out"),
                            au.get("pre_slow_conn"), " with traffic going on" if au.get("bg") else "", au.get("upd_returned"),
                            au.get("upd_ms", ">= 12000"), rec["calls"], ", the next one never did" if rec["stuck"] else ""))
            ctx.violation("dispatch-stalls endpoint=" + cls,
                          "Route.Dispatch took %.3f s (bound 5 s; stuck=%s) with a %s endpoint%s" % (rec["max_us"] / 1e6, rec["stuck"], s.get("kind"), extra),
                          dict(scenario=s, event=src, replay=rp, addrupd=au))
        elif rec["ev"] == "phase":
            extra = ""
            st = stalls.get(src.get("scn"))
            au = addrs.get(src.get("scn"))
            if au and src.get("endpoint") == "addr-new":
                extra = (" [lines handed after Route.UpdateDestination(0, addr=<healthy endpoint>) had returned (%s ms); previous endpoint %s, "
                         "its writer blocked=%s; counters read under the destination's new key]"
                         % (au.get("upd_ms"), ADDR_KINDS.get(s.get("kind")), au.get("saturated")))
            if rec["steady"] == "paused" and st:
                extra = (" [endpoint stopped reading for %d ms (flush period %d ms) without closing, then read to the end; the relay "
                         "opened %d connection(s)]" % (st["held_ms"], st["flush_ms"], src.get("accepted", 0)))
            ctx.violation("uncounted-loss steady=%s endpoint=%s" % (rec["steady"], src.get("endpoint")),
                          "steady phase %s: handed=%d received=%d slow_conn=%d conn_down_no_spool=%d: lines disappeared uncounted (or were over-counted)%s"
                          % (rec["steady"], rec["handed"], rec["received"], rec["slow_conn"], rec["down"], extra),
                          dict(scenario=s, event=src, stall=st))
        else:
            ctx.violation("trace-event " + rec["ev"], "event rejected: %s" % json.dumps(rec), dict(scenario=s, event=src))

    ntr, nrej = destlib.validate(ctx, events, on_reject, tagp="06")

    # the stall-resume scenarios must really have blocked the writer (otherwise they say nothing); judged only when
    # nothing was rejected (a changed relay may never block: that shows in the identity, not here)
    nstall = [s for s in scns if s["kind"] in ("stall", "stallclose", "stallfin")]
    if not ctx.violations:
        if len(stalls) != len(nstall):
            raise Machinery("dead driver: %d stall records for %d stall-resume scenarios" % (len(stalls), len(nstall)))
        weak = [e for e in stalls.values() if not e["saturated"] or e["held_ms"] < 6 * e["flush_ms"]]
        if weak and len(weak) == len(stalls):
            raise Machinery("no stall-resume scenario blocked the connection writer for many flush periods: %s" % json.dumps(weak[:2]))
        if weak:        # environment dependent (kernel buffer sizes, load): say so, the other scenarios of the family did block
            ctx.note("%d of %d stall-resume scenarios did not block the writer for many flush periods (no conclusion drawn from them)"
                     % (len(weak), len(stalls)))
    # the spool-replay scenarios must really have had a line taken from the spool meet a full connection queue (natural
    # timing: `cycles` times; gated variant: the gate must have fired); otherwise they say nothing: exit 2, never a verdict
    if not ctx.violations:
        if len(replays) != len(sscns):
            raise Machinery("dead driver: %d replay records for %d spool-replay scenarios" % (len(replays), len(sscns)))
        badg = [g for g in ugates.values() if g["outcome"] != "fired"]
        ngate = [s for s in sscns if s["kind"] == "spoolgate"]
        if badg or len(ugates) != len(ngate):
            raise Machinery("spool-replay gate did not fire (%d of %d): %s" % (len(ugates) - len(badg), len(ngate), json.dumps(badg[:2])))
        weak = [e for e in replays.values() if not e["saturated"] or e["unspool_full"] < 1]
        if weak and len(weak) == len(replays):
            raise Machinery("no spool-replay scenario filled the connection queue during the replay: %s" % json.dumps(weak[:2]))
        if weak:        # natural timing depends on kernel send-buffer sizes; the gated variant (checked above) does not
            ctx.note("%d of %d spool-replay scenarios did not fill the connection queue during the replay (no conclusion drawn "
                     "from them)" % (len(weak), len(replays)))
    # the address-update scenarios: the writer of the previous connection must really have been blocked when the address was
    # changed (otherwise the update says nothing about a stuck writer), and the update must have gone through
    naddr = [s for s in scns if s["kind"].startswith("addr")]
    if not ctx.violations:
        if len(addrs) != len(naddr):
            raise Machinery("dead driver: %d addrupd records for %d address-update scenarios" % (len(addrs), len(naddr)))
        notret = [e for e in addrs.values() if not e["upd_returned"] or e.get("upd_err")]
        if notret:
            raise Machinery("address update did not go through although every Dispatch call returned: %s" % json.dumps(notret[:2]))
        hard = [e for e in addrs.values() if e["kind"] != "addrok"]
        weak = [e for e in hard if not e["saturated"] or e["held_ms"] < 6 * e["flush_ms"] or e["pre_slow_conn"] < 50]
        if hard and len(weak) == len(hard):
            raise Machinery("no address-update scenario had the previous connection's writer blocked: %s" % json.dumps(weak[:2]))
        if weak:
            ctx.note("%d of %d address-update scenarios did not block the previous connection's writer (no conclusion drawn from them)"
                     % (len(weak), len(hard)))
        newp = [p for p in phases if p["endpoint"] == "addr-new" and p["steady"] == "healthy"]
        if naddr and not any(p["received"] > 0 for p in newp):
            raise Machinery("no address-update scenario got a line through to the new endpoint: %s" % json.dumps(newp[:2]))
    for p in phases:
        if p["steady"] == "paused" and p["down"] > 0:
            ctx.note("stall-resume scenario %s: the relay saw a down phase although the endpoint never closed (conn_down_no_spool=%d, "
                     "%d connections accepted); the identity includes that counter" % (p["scn"], p["down"], p["accepted"]))

    # 4. binding self-tests (thorough; cheap enough for quick too)
    def m1(recs):
        for i, r in enumerate(recs):
            if r["ev"] == "phase" and r["steady"] == "healthy":
                r["received"] -= 1
                return i
    def m2(recs):
        for i, r in enumerate(recs):
            if r["ev"] == "lat":
                r["max_us"] = 5_000_001
                return i
    def m3(recs):
        for i, r in enumerate(recs):
            if r["ev"] == "phase" and r["steady"] == "down":
                r["down"] -= 1
                return i
    def m4(recs):
        for i, r in enumerate(recs):
            if r["ev"] == "phase" and r["steady"] == "paused":
                r["slow_conn"] -= 1
                return i
    if nrej == 0:
        a = destlib.selftest(ctx, events, m1, "phase", "06a")
        b = destlib.selftest(ctx, events, m2, "lat", "06b")
        c = destlib.selftest(ctx, events, m3, "phase", "06c")
        d = destlib.selftest(ctx, events, m4, "phase", "06d")
        if not (a and b and c and d):
            raise Machinery("binding self-test could not find a healthy/down/paused/lat event to corrupt")
        ctx.cov["binding_selftests"] = "passed"

    cov = ctx.cov
    calls = sum(e["calls"] for e in lats)
    cov["evaluations"] = calls
    steady = [p for p in phases if p["steady"]]
    nontriv = [p for p in phases if (p["steady"] in ("healthy", "paused") and p["received"] > 0) or (p["steady"] == "down" and p["down"] > 0)]
    cov["distinct_nontrivial"] = len(nontriv) + len(lats)
    cov["max_dispatch_us"] = max(e["max_us"] for e in lats)
    cov["steady_phases"] = len(steady)
    cov["slow_conn_drops_in_healthy_phases"] = sum(p["slow_conn"] for p in phases if p["steady"] == "healthy")
    cov["stall_resume"] = [dict(scn=e["scn"], kind=e["kind"], held_ms=e["held_ms"], flush_ms=e["flush_ms"], blocked_after_lines=e["blocked_at"] - e["stall_at"],
                                slow_conn_at_resume=e["slow_conn_resume"]) for e in stalls.values()]
    cov["spool_replay"] = [dict(scn=e["scn"], kind=e["kind"], connbuf=e["connbuf"], backlog=e.get("backlog"), unspooled=e["unspooled"],
                                unspooled_into_full_queue=e["unspool_full"], dropped_from_spool=e["unspool_drop"], fill_ms=e.get("fill_ms"),
                                forced=e["forced"]) for e in replays.values()]
    cov["address_update"] = [dict(scn=e["scn"], kind=e["kind"], route=e["route"], traffic_during_update=e["bg"], writer_blocked=e["saturated"],
                                  held_ms=e.get("held_ms", 0), lines_before=e.get("pre_handed", 0), slow_conn_before=e.get("pre_slow_conn", 0),
                                  update_returned=e["upd_returned"], update_ms=e.get("upd_ms", -1)) for e in addrs.values()]
    cov["rule"] = ("scenarios = endpoint behaviour (refuse, SYN-drop, black hole, 1 byte/10 ms, healthy, close after k bytes, "
                   "stall-resume (stops reading for >= 12 flush periods with the writer blocked, never closes, reads to the end), "
                   "stall-close (closes while the writer is blocked), mixed route with one bad endpoint, address update "
                   "(Route.UpdateDestination addr=) away from a black-holed / stalled endpoint with the writer blocked to a healthy one "
                   "(with and without traffic during the update)%s; with spooling enabled: outage "
                   "(backlog in the disk spool), then the endpoint comes back as a black hole / stalls and resumes / closes mid-replay, "
                   "and a hook-gated variant with the connection writer held, traffic going on during the replay) x (connbuf, iobuf, flush) "
                   "settings %s, every Route.Dispatch call timed "
                   "(evaluations = calls); distinct_nontrivial = latency records + steady phases whose identity involved > 0 lines"
                   % ("" if q else ", mid-stream behaviour switches", sorted({(s["connbuf"], s["iobuf"], s["flush_ms"]) for s in scns})))
    bh = [p for p in phases if p["endpoint"] == "blackhole"]
    if bh and not any(p["slow_conn"] > 0 for p in bh):
        ctx.note("no black-hole scenario reached the slow_conn drop path (traffic did not exceed the buffers)")
    for e in lats[:1]:
        ctx.sample(dict(lat=e, scenario=byid[e["scn"]]))
    for p in (nontriv[:1] + [p for p in phases if p["endpoint"] == "blackhole"][:1] + [p for p in phases if p["steady"] == "paused"][:1]):
        ctx.sample(dict(phase=p, stall=stalls.get(p["scn"])) if p["steady"] == "paused" else dict(phase=p))
    ctx.assumptions += ["time bound observed as wall clock: every Route.Dispatch call <= 5 s (normal: microseconds, worst seen on a 9x oversubscribed machine: 0.5 s); a call still "
                        "pending after 12 s is recorded as stuck",
                        "steady phases are declared by the driver only after Snapshot().Online showed the transition; counters "
                        "are read as deltas at quiescence (polled; given up after 60 s without progress)",
                        "a throttled endpoint that stays connected is treated as healthy once it has caught up",
                        "stall-resume: 'writer blocked' is observed as no line written to the connection while lines keep coming and are being "
                        "dropped (>= 50); the endpoint resumes only after that has lasted max(400 ms, 12 flush periods) without interruption; identity at quiescence "
                        "handed = received + slow_conn + conn_down_no_spool (the last is 0 unless the relay gave the connection up)",
                        "address-update scenarios: 'writer blocked' as in stall-resume; without traffic during the update the lines handed after "
                        "UpdateDestination has returned are accounted for as a healthy steady phase of the new endpoint (counters under the destination's "
                        "new key, deltas from the moment the update returned); with traffic during the update only the time bound is judged; what was "
                        "queued for the previous endpoint is not accounted for (no steady state)",
                        "spool-replay scenarios (spooling enabled): only the Dispatch time bound is judged (losses with spooling on are C07's subject); "
                        "'a line taken from the spool met a full connection queue' is observed through the verif hook (relay.unspool with len(In) == cap(In)); "
                        "a stalled endpoint resumes after 6 s when a Dispatch call is still pending (the call then exceeded the bound)"]
    cov["trusted_base"] = ["TLC", "harness/dest driver (records only)", "kernel loopback TCP"]
