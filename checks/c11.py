"""C11 — aggregation output bypasses the pipeline, cannot loop; drop-raw is exact.

AggTable.tla specifies Table o Aggregator: raw lines walk validate -> blacklist -> rewrite ->
aggregators (drop-raw: the loop stops after the first drop-raw aggregator whose COMPLETE filter
accepts the name) -> routes; aggregator emissions go through Table.In to DispatchAggregate, which
consults only the routes.  TLC model-checks NoRegeneration, Bounded and DropRawExact for the table
configurations of AggTableCfgs.tla (self-matching, chained, drop-raw mixes; blacklist entries and
rewriters that match the aggregate names; strict validation the aggregate names fail) and shows the
invariants are not vacuous (named deviations violate them).  Binding: seeded histories of
dispatch / clock / tick steps run on a real table.Table with real aggregators (NewMocked, out =
Table.In, injected clock, explicit ticks, Snapshot barrier after each step) and capture routes;
AggTableTrace.tla recomputes, for every step, exactly which lines every route must have received.
"""
import json, os, random
from checks import mtlib
from vlib.core import Machinery

LEVEL = "model_checking"


def gen_cfgs(ctx):
    r = ctx.tlc("AggTableGen", "AggTableGen.cfg", workers=1, timeout=1500)
    cfgs = [json.loads(s) for s in ctx.tlc_printed(r, "@@CFG")]
    if len(cfgs) < 3:
        raise Machinery("AggTableGen printed %d configurations" % len(cfgs))
    cfgs.sort(key=lambda c: c["go"]["id"])
    return cfgs


def histories(cfgs, rng, per_cfg, nops):
    hs = []
    for c in cfgs:
        go = c["go"]
        names = go["names"]
        # every aggregate name is also offered as a RAW name now and then (it must then be treated as raw)
        outs = [a["out"] for a in go["aggs"]]
        for _ in range(per_cfg):
            clock = 1000
            ops = []
            for _ in range(nops):
                x = rng.random()
                if x < 0.62:
                    nm = rng.choice(names) if rng.random() < 0.9 else rng.choice(outs)
                    v = rng.choice([1, 2, 3])
                    ti = clock + rng.choice([0, 0, 3, 5, 10, 12, 20, -10, -20])
                    ops.append(dict(op="dispatch", name=nm, val=str(v), ts=str(ti), vi=v, ti=ti))
                elif x < 0.74:
                    clock += rng.choice([5, 10, 20, 40])
                    ops.append(dict(op="clock", t=clock))
                else:
                    ops.append(dict(op="tick", i=rng.randrange(len(go["aggs"])) + 1, t=clock + rng.choice([0, 0, 5, 10, 30, -5])))
            # final sweep: everything that is still open is flushed, twice (a second flush must be silent)
            for rep in range(2):
                for i in range(len(go["aggs"])):
                    ops.append(dict(op="tick", i=i + 1, t=clock + 100))
            hs.append(dict(h=len(hs), go=go, ast=c["ast"], now=1000, ops=ops))
    return hs


def split_hist(events):
    blocks, cur = [], None
    for e in events:
        if e["ev"] == "hist":
            cur = [e]
            blocks.append(cur)
        else:
            cur.append(e)
    return blocks


def run(ctx):
    q = ctx.quick()
    rng = random.Random(ctx.seed)

    # ---- 1. model checking of the composition
    cfgs = gen_cfgs(ctx)
    ncfg = len(cfgs)
    # development aid, honoured only on a scratch copy of the repository (VERIF_REPO): VERIF_C11_PARTS=trace skips the
    # model-checking runs (they do not depend on the Go code)
    only_trace = bool(os.environ.get("VERIF_REPO")) and os.environ.get("VERIF_C11_PARTS") == "trace"
    for k in range(1, ncfg + 1):
        if only_trace:
            break
        ctx.tlc("AggTableMC", "AggTable_mc.cfg", workers=ctx.pick(4, 6), timeout=3000,
                consts=dict(CfgId=k, NNames=ctx.pick(3, 5), MaxOps=ctx.pick(3, 4), Dev="none"))
    # non-vacuity: the named deviations are caught by the invariants
    r = dict(violated="NoRegeneration") if only_trace else ctx.tlc("AggTableMC", "AggTable_mc.cfg", workers=4, timeout=1500, expect_ok=False, count=False,
                consts=dict(CfgId=1, NNames=3, MaxOps=3, Dev="agg_via_dispatch"))
    if r["violated"] not in ("NoRegeneration", "Bounded"):
        raise Machinery("feeding aggregate lines through Dispatch is not rejected by the model (vacuity); log %s" % r["log"])
    r = dict(violated="DropRawExact") if only_trace else ctx.tlc("AggTableMC", "AggTable_mc.cfg", workers=4, timeout=1500, expect_ok=False, count=False,
                consts=dict(CfgId=2, NNames=3, MaxOps=2, Dev="drop_on_prematch"))
    if r["violated"] != "DropRawExact":
        raise Machinery("consuming on the pre-match alone is not rejected by DropRawExact (vacuity); log %s" % r["log"])

    # ---- 2. histories on the real table
    hs = histories(cfgs, rng, ctx.pick(25, 300), ctx.pick(30, 60))
    hf = ctx.write_ndjson("mt_agghist.ndjson", hs)
    tf = ctx.out + "/mt_aggtrace.ndjson"
    res = ctx.go_test("mt", run="^TestAggTable$", env=dict(VERIF_MT_AGGHIST=hf, VERIF_MT_AGGTRACE=tf), timeout=3000, expect_ok=False)
    if res["rc"] != 0:
        prog = []
        try:
            prog = ctx.read_ndjson("mt_progress.ndjson")
        except Exception:
            pass
        raise Machinery("agg-table driver failed (rc=%s) in history %s; log %s\n%s" % (res["rc"], prog[-1:] or "?", res["log"], res["text"][-2500:]))
    events = ctx.read_ndjson(tf)
    blocks = split_hist(events)
    if len(blocks) != len(hs) and not any(e["ev"] == "hang" for e in events):
        raise Machinery("driver recorded %d of %d histories" % (len(blocks), len(hs)))
    nagg = sum(len(e["out"]) for e in events if e["ev"] == "tick")
    nraw = sum(len(e["out"]) for e in events if e["ev"] == "dispatch")
    ndisp = sum(1 for e in events if e["ev"] == "dispatch")
    nsilent = sum(1 for e in events if e["ev"] == "dispatch" and not e["out"])
    if nagg == 0 or nraw == 0:
        raise Machinery("dead driver: %d aggregate deliveries, %d raw deliveries" % (nagg, nraw))
    ctx.log("%d histories, %d events: %d dispatches (%d delivered nowhere), %d raw deliveries, %d aggregate deliveries" % (
        len(hs), len(events), ndisp, nsilent, nraw, nagg))

    def sig(b, i):
        return "%s/cfg%s" % (b[i]["ev"], b[0]["cfg"]["id"])

    def rej(b, i, s, inv):
        e = b[i]
        if e["ev"] == "dispatch":
            what = "raw line %r: routes received %s, which is not what validate/blacklist/rewrite/aggregator-loop(drop-raw)/routes prescribe" % (
                "%s %s %s" % ("".join(e["name"]), e["val"], e["ts"]), json.dumps([[o["r"], "".join(o["name"]), o["val"], o["ts"]] for o in e["out"]]))
        elif e["ev"] == "tick":
            what = "tick of aggregator %s at %s: routes received %s, not the aggregate lines of the due buckets routed verbatim" % (
                e["i"], e["t"], json.dumps([[o["r"], "".join(o["name"]), o["val"], o["ts"]] for o in e["out"]]))
        elif e["ev"] == "hang":
            what = ("a step never completed (after %s recorded steps): the table goroutine and an aggregator wait for each other, "
                    "which can only happen if aggregate output is offered to an aggregator again" % e["after_steps"])
        else:
            what = "event %s rejected" % json.dumps(e)[:300]
        ctx.violation(s, "table configuration %s: %s" % (b[0]["cfg"]["id"], what),
                      dict(history=hs[b[0]["h"]]["ops"][:i], event=e, cfg=hs[b[0]["h"]]["go"]))

    nb, ne, nrej = mtlib.validate_blocks(ctx, "AggTableTrace", "AggTableTrace.cfg", blocks, "agg_trace.ndjson", sig, rej,
                                         max_rounds=8, heap="12g")

    # ---- 3. binding self-test
    if not ctx.violations:
        def corrupt(ev):
            for i, e in enumerate(ev):
                if e["ev"] == "tick" and e["out"] and i > 10:
                    e["out"][0]["val"] = "7.000000" if e["out"][0]["val"] != "7.000000" else "8.000000"
                    return i
        flat = [e for b in blocks[:6] for e in b]
        mtlib.selftest(ctx, "AggTableTrace", "AggTableTrace.cfg", flat, corrupt, "altered aggregate value", "agg")

        def corrupt2(ev):
            for i, e in enumerate(ev):
                if e["ev"] == "dispatch" and len(e["out"]) >= 2 and i > 5:
                    e["out"] = e["out"][:-1]
                    return i
        mtlib.selftest(ctx, "AggTableTrace", "AggTableTrace.cfg", flat, corrupt2, "one raw delivery removed", "agg2")
        ctx.cov["binding_selftests"] = "passed"

    cov = ctx.cov
    cov["evaluations"] = sum(1 for e in events if e["ev"] in ("dispatch", "tick"))
    distinct = set()
    for b in blocks:
        for e in b:
            if e["ev"] == "dispatch":
                distinct.add((b[0]["cfg"]["id"], "".join(e["name"]), bool(e["out"])))
            elif e["ev"] == "tick" and e["out"]:
                distinct.add((b[0]["cfg"]["id"], "tick", e["i"], tuple(sorted(set("".join(o["name"]) for o in e["out"])))))
    cov["distinct_nontrivial"] = len(distinct)
    cov["histories"] = len(hs)
    cov["aggregate_deliveries"] = nagg
    cov["raw_deliveries"] = nraw
    cov["rule"] = ("steps (dispatch of one raw line / tick of one aggregator) in seeded histories over %d table configurations "
                   "(self-matching, chained by name, drop-raw mixes with notRegex/sub/notPrefix filters, blacklist + rewriters "
                   "matching the aggregate names, strict validation the aggregate names fail); every step's deliveries recomputed "
                   "by AggTableTrace.tla; distinct = distinct (configuration, raw name, delivered-or-not) and (configuration, "
                   "aggregator, set of aggregate names delivered) classes" % ncfg)
    first = next(e for e in events if e["ev"] == "tick" and e["out"])
    ctx.sample(dict(tick=dict(i=first["i"], t=first["t"], out=[[o["r"], "".join(o["name"]), o["val"], o["ts"]] for o in first["out"]])))
    ctx.sample(dict(cfg=hs[0]["go"]["id"], aggs=hs[0]["go"]["aggs"][:3], first_ops=hs[0]["ops"][:8]))
    ctx.assumptions += [
        "aggregators are NewMocked with an unbuffered inbox, an injected clock and explicit ticks; a Snapshot() round trip after "
        "every step and a barrier line through Table.In make each step's effects complete before they are recorded",
        "one output key per aggregator (no capture groups in the output format); functions count and sum on integer values",
        "order of lines within one step is not compared (map iteration order inside a flush)"]
    cov["trusted_base"] = ["TLC", "harness/mt driver (records only; capture routes use the real matcher.Matcher)"]
