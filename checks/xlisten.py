"""XLISTEN -- the lifecycle of the network inputs (extension check, not one of the listed properties).

input/listen.go (Listener: Start / accept loop / per-connection handler goroutines / UDP reader / reopen with
backoff after an accept error / shutdown channel / wait group / Stop), input/timeout_conn.go (read deadline re-armed
on every Read), input/manager (Stop with the relay's shutdown timeout).

1. TLC model-checks spec/Listener.tla (one process per goroutine + clients + kernel backlog + faults) against the
   level-A operators of ListenerOps.tla / FramingOps.tla: safety P1..P4 in every state, liveness L2..L5 under weak
   fairness of the relay's goroutines; named deviations must be rejected; Protocol = "pinned" (the code as it is) is
   rejected as soon as one accept error is possible (Stop never returns after a reopen) -- the same behaviour is then
   shown on the real code (known finding).
2. TLC emits the scenario shapes (ListenerGen: one per initial state = assignment of client scripts to connections);
   this module adds phases (pre / post-fault / racing with Stop / after StopReturn), read timeout, fault, Stop moment
   (seeded) and concretises symbols to bytes.
3. harness/lsn runs the real input.Listener over loopback TCP+UDP through manager.Stop(..., shutdownTimeout) -- the
   timeout is read from cmd/carbon-relay-ng/carbon-relay-ng.go -- and records events (it judges nothing).
4. spec/ListenerTrace.tla (TLC) decides every event; a rejected scenario is reported, removed, the rest re-validated.
"""
import json, os, random, re
from vlib.core import Machinery, REPO

LEVEL = "model_checking"

ONE = "={c1}"
NONE = "={}"
DEVIATIONS = {   # deviation -> (cfg, constants): small configurations in which TLC must reject it
    "stop_no_wait": ("Listener_mc.cfg", dict(ScriptNames={"burst", "half"})),
    "wg_add_in_handler": ("Listener_mc.cfg", dict(ScriptNames={"burst", "half"})),
    "drop_buffer_on_shutdown": ("Listener_mc.cfg", dict(ScriptNames={"burst", "half"})),
    "timeout_not_rearmed": ("Listener_mc.cfg", dict(ScriptNames={"burst", "half"}, ReadTimeout=True)),
    "accept_exit_on_error": ("Listener_mc.cfg", dict(Conns=ONE, ScriptNames={"close1"}, MaxFaults=1)),
    "no_conn_close": ("Listener_live.cfg", dict(Conns=ONE, ScriptNames={"half"})),
    "close_snapshot": ("Listener_live.cfg", dict(Conns=ONE, ScriptNames={"half"})),
    "serial_handler": ("Listener_live.cfg", dict(ScriptNames={"silent"})),
    # the repaired protocol without its second look at the shutdown channel after a successful re-listen
    "no_recheck_after_reopen": ("Listener_live.cfg", dict(Conns=ONE, ScriptNames={"close1"}, MaxFaults=1)),
}
QUICK_DEVS = ["stop_no_wait", "accept_exit_on_error", "close_snapshot", "drop_buffer_on_shutdown"]

RT_MS = 25      # the read timeout of the scenarios that have one (the waits are 30 s = 1200 x)
ALL_SCRIPTS = ["close1", "close2", "burst", "idle1", "half", "halfclose", "split", "crhalf", "silent"]


def stop_timeout_ms():
    """the relay's own shutdown timeout (package main, unexported): read from the source, not invented"""
    src = open(os.path.join(REPO, "cmd", "carbon-relay-ng", "carbon-relay-ng.go")).read()
    m = re.search(r"shutdownTimeout\s*=\s*time\.Second\s*\*\s*(\d+)", src) or \
        re.search(r"shutdownTimeout\s*=\s*(\d+)\s*\*\s*time\.Second", src)
    if not m or "manager.Stop(inputs, shutdownTimeout)" not in src:
        raise Machinery("cannot find shutdownTimeout / manager.Stop(inputs, shutdownTimeout) in cmd/carbon-relay-ng")
    return int(m.group(1)) * 1000


def base_consts(**kw):
    c = dict(Conns="={c1, c2}", ScriptNames={"close2", "half"}, ReadTimeout=False, MaxFaults=0, MaxListenFail=0,
             MaxUFaults=0, MaxDgram=0, TcpOn=True, UdpOn=False, Protocol="repaired", Dev="")
    c.update(kw)
    return c


# ------------------------------------------------------------------ 1. model checking
def model_check(ctx):
    q = ctx.quick()
    if os.environ.get("VERIF_DEV_SKIP_MC"):
        ctx.note("model checking skipped (VERIF_DEV_SKIP_MC)")
        return
    W = 6
    if q:
        ctx.tlc("Listener", "Listener_mc.cfg", workers=W, timeout=900, tag="mc_tcp",
                consts=base_consts(ScriptNames={"burst", "half"}, ReadTimeout=True))
        ctx.tlc("Listener", "Listener_mc.cfg", workers=W, timeout=900, tag="mc_fault",
                consts=base_consts(Conns=ONE, ScriptNames={"burst", "half", "silent"}, ReadTimeout=True, MaxFaults=1, MaxListenFail=1))
        ctx.tlc("Listener", "Listener_mc.cfg", workers=W, timeout=900, tag="mc_udp",
                consts=base_consts(Conns=NONE, TcpOn=False, UdpOn=True, MaxUFaults=1, MaxDgram=2))
        ctx.tlc("Listener", "Listener_live.cfg", workers=W, timeout=900, tag="live_tcp",
                consts=base_consts(Conns=ONE, ScriptNames={"close1", "half"}, MaxFaults=1, MaxListenFail=1))
    else:
        ctx.tlc("Listener", "Listener_mc.cfg", workers=W, timeout=3000, tag="mc_tcp_rt0",
                consts=base_consts(ScriptNames={"close2", "burst", "half", "silent"}, MaxFaults=1))
        ctx.tlc("Listener", "Listener_mc.cfg", workers=W, timeout=3000, tag="mc_tcp_rt1",
                consts=base_consts(ScriptNames={"burst", "half", "crhalf"}, ReadTimeout=True, MaxFaults=1, MaxListenFail=1))
        ctx.tlc("Listener", "Listener_mc.cfg", workers=W, timeout=3000, tag="mc_pinned_nofault",
                consts=base_consts(ScriptNames={"close2", "burst", "idle1", "halfclose", "split", "crhalf"}, Protocol="pinned", ReadTimeout=True))
        ctx.tlc("Listener", "Listener_mc.cfg", workers=W, timeout=3000, tag="mc_3conns",
                consts=base_consts(Conns="={c1, c2, c3}", ScriptNames={"close1", "half"}))
        ctx.tlc("Listener", "Listener_mc.cfg", workers=W, timeout=3000, tag="mc_tcp_udp",
                consts=base_consts(Conns=ONE, ScriptNames={"close1", "half"}, UdpOn=True, MaxUFaults=1, MaxFaults=1, MaxDgram=2))
        for rt in (False, True):
            ctx.tlc("Listener", "Listener_live.cfg", workers=W, timeout=3000, tag="live_tcp_rt%d" % rt,
                    consts=base_consts(Conns=ONE, ScriptNames=set(ALL_SCRIPTS), ReadTimeout=rt, MaxFaults=1, MaxListenFail=1))
        ctx.tlc("Listener", "Listener_live.cfg", workers=W, timeout=3000, tag="live_2conns",
                consts=base_consts(ScriptNames={"close1", "silent"}))
        ctx.tlc("Listener", "Listener_liveu.cfg", workers=W, timeout=3000, tag="live_udp",
                consts=base_consts(Conns=NONE, TcpOn=False, UdpOn=True, MaxUFaults=2, MaxDgram=2))
    # named deviations: each must be rejected; and the code as it is ("pinned") with one accept / read error
    # possible: TLC finds that Stop does not terminate.  Small runs, three at a time with two workers each.
    from concurrent.futures import ThreadPoolExecutor
    jobs = [("dev_" + dev,) + DEVIATIONS[dev] + (dev,) for dev in (QUICK_DEVS if q else sorted(DEVIATIONS))]
    jobs.append(("pinned_fault_tcp", "Listener_live.cfg", dict(Conns=ONE, ScriptNames={"close1"}, Protocol="pinned", MaxFaults=1), ""))
    jobs.append(("pinned_fault_udp", "Listener_liveu.cfg", dict(Conns=NONE, TcpOn=False, UdpOn=True, Protocol="pinned", MaxUFaults=1,
                                                                 MaxDgram=1), ""))
    ctx.specdir()

    def one(job):
        tag, cfg, over, dev = job
        r = ctx.tlc("Listener", cfg, workers=2, timeout=900, consts=base_consts(Dev=dev, **over), expect_ok=False,
                    count=False, tag=tag)
        what = r["violated"]
        if what in (None, "temporal"):
            m = re.search(r"Temporal property (\S+) was violated", r["text"])
            what = m.group(1) if m else None
        return tag, (None if r["ok"] or r["timeout"] else what), r["log"]
    with ThreadPoolExecutor(max_workers=3) as ex:
        res = list(ex.map(one, jobs))
    for tag, what, logf in res:
        if not what:
            raise Machinery("%s is not rejected by TLC (%s); log %s" % (
                tag, "vacuous model check" if tag.startswith("dev_") else "the model no longer reproduces the known finding FX1", logf))
    ctx.cov["spec_deviations_rejected"] = {t[4:]: w for t, w, _ in res if t.startswith("dev_")}
    ctx.cov["pinned_protocol_with_fault_rejected"] = {t[-3:]: w for t, w, _ in res if t.startswith("pinned_")}


# ------------------------------------------------------------------ 2. scenarios
def gen_shapes(ctx, nconn, names):
    r = ctx.tlc("ListenerGen", "ListenerGen.cfg", workers=1, timeout=900, tag="gen%d" % nconn, count=False,
                consts=base_consts(Conns=set(range(1, nconn + 1)), ScriptNames=set(names)))
    sh = [json.loads(x) for x in ctx.tlc_printed(r, "@@S")]
    if len(sh) != len(names) ** nconn:
        raise Machinery("ListenerGen printed %d shapes, expected %d" % (len(sh), len(names) ** nconn))
    return sh


SYMB = {"CR": b"\r", "LF": b"\n"}


def concretise(tag, script):
    """script = {"w": [[sym..]..], "end": ..} from TLC -> symbols, byte fragment per symbol, cumulative bytes, write cuts"""
    sym, frag, wcut, writes = [], [], [], []
    for w in script["w"]:
        wb = b""
        for s in w:
            f = SYMB.get(s) or ("%s%s%d " % (tag, s, len(sym) + 1)).encode()
            sym.append(s)
            frag.append(f)
            wb += f
        wcut.append(len(sym))
        writes.append(wb)
    cum, t = [], 0
    for f in frag:
        t += len(f)
        cum.append(t)
    return dict(sym=sym, frag=[f.hex() for f in frag], cum=cum, wcut=wcut, writes=[w.hex() for w in writes], end=script["end"])


def build_scenarios(ctx, shapes, scripts, rng, n, forced):
    """forced: list of dicts with fault/block/rt overriding the seeded choice for the first scenarios"""
    scs, hists = [], {}
    picks = rng.sample(shapes, min(n, len(shapes)))
    while len(picks) < n:
        picks.append(rng.choice(shapes))
    for i, sh in enumerate(picks):
        sid = i + 1
        f = forced[i] if i < len(forced) else {}
        fault = f.get("fault", rng.choice(["none"] * 17 + ([] if ctx.quick() else ["tcp", "udp", "both"])))
        rt_ms = f.get("rt_ms", rng.choice([0, 0, RT_MS]))
        clients, conc = [], []

        def add(name, phase):
            c = len(clients) + 1
            k = concretise("s%dc%d" % (sid, c), scripts[name])
            conc.append(k)
            clients.append(dict(c=c, phase=phase, writes=k["writes"], end=k["end"], name=name,
                                gap_us=rng.choice([0, 0, 300, 3000, 60000 if rt_ms else 5000]),
                                delay_us=rng.choice([0, 0, 100, 500, 2000]) if phase == "race" else 0))
        for nm in sh["names"]:
            add(nm, "pre")
        quick_stop = f.get("quick_stop", fault != "none" and rng.random() < 0.3)
        if fault != "none" and not quick_stop:
            for _ in range(rng.choice([1, 2])):
                add(rng.choice(["close1", "close2", "split", "halfclose"]), "post")
        for _ in range(rng.choice([0, 1, 2])):
            add(rng.choice(sorted(scripts)), "race")
        add("close1", "late")
        dg, dconc = [], []

        def addd(phase, g, symbols):
            d = len(dg) + 1
            k = concretise("s%dd%d" % (sid, d), dict(w=[symbols], end="close"))
            dconc.append(k)
            dg.append(dict(d=d, g=g, phase=phase, data=k["writes"][0]))
        g = 0
        for _ in range(rng.choice([0, 1, 2])):
            g += 1
            addd("pre", g, rng.choice([["x", "LF"], ["x", "LF", "y", "LF"], ["x", "LF", "y"], ["x", "CR", "LF", "y", "CR"]]))
        gpost = []
        if fault in ("udp", "both") and not quick_stop:
            g += 1
            gpost.append(g)
            for _ in range(40):
                addd("post", g, ["x", "LF"])
        if rng.random() < 0.5:
            g += 1
            addd("race", g, ["x", "LF"])
        g += 1
        addd("late", g, ["x", "LF"])
        sc = dict(id=sid, rt_ms=rt_ms, handler="plain", clients=clients, dgrams=dg, fault=fault,
                  block=f.get("block", fault != "none" and rng.random() < 0.5), stop_delay_us=rng.choice([0, 0, 100, 500, 2000, 20000]) if not quick_stop else rng.choice([0, 0, 20, 50, 100, 200, 500]),
                  quick_stop=quick_stop)
        scs.append(sc)
        hists[sid] = dict(ev="hist", id=sid, rt_us=rt_ms * 1000, fault=fault,
                          sym=[k["sym"] for k in conc], frag=[k["frag"] for k in conc], cum=[k["cum"] for k in conc],
                          wcut=[k["wcut"] for k in conc],
                          must_pre=[c["c"] for c in clients if c["phase"] == "pre" and c["end"] == "close"],
                          must_post=[c["c"] for c in clients if c["phase"] == "post" and c["end"] == "close"],
                          idle_pre=[c["c"] for c in clients if c["phase"] == "pre" and c["end"] == "idle"],
                          dsym=[k["sym"] for k in dconc], dfrag=[k["frag"] for k in dconc], dgrp=[d["g"] for d in dg],
                          gmust_pre=sorted(set(d["g"] for d in dg if d["phase"] == "pre")), gmust_post=gpost)
    return scs, hists


# ------------------------------------------------------------------ 3./4. the real code, TLC decides
def join(recs, hists):
    """split the driver's log into scenarios, replace the hist stub by the scenario tables, rename the handler-side
    peer address into the client's connection number (pure renaming through the client's own cconn record)"""
    blocks, cur = [], None
    for r in recs:
        if r["ev"] == "done":
            break
        if r["ev"] == "hist":
            cur = [dict(hists[r["id"]])]
            blocks.append(cur)
            continue
        cur.append(r)
    out = []
    for b in blocks:
        la = {r["laddr"]: r["c"] for r in b if r["ev"] == "cconn"}
        nb = []
        for r in b:
            r = dict(r)
            r.pop("n", None)
            if r["ev"] == "skip":
                raise Machinery("driver could not run scenario %s: %s" % (b[0]["id"], r["why"]))
            if r["ev"] == "invalid":
                raise Machinery("the plain handler reported a protocol error")
            if "peer" in r:
                if r["peer"] not in la:
                    raise Machinery("handler-side event for an unknown peer %s in scenario %s" % (r["peer"], b[0]["id"]))
                r["c"] = la[r.pop("peer")]
            if r["ev"] == "rd" and r["err"].startswith("other:"):
                raise Machinery("unclassified read error %s" % r["err"])
            nb.append(r)
        # environment sanity (the kernel's business, not the relay's): reads return whole symbols
        h = b[0]
        got = {}
        for r in nb:
            if r["ev"] == "rd":
                got[r["c"]] = got.get(r["c"], 0) + r["nb"]
                if got[r["c"]] and got[r["c"]] not in h["cum"][r["c"] - 1]:
                    raise Machinery("a Read ended inside a symbol fragment (scenario %s, connection %s)" % (h["id"], r["c"]))
        out.append(nb)
    return out


def classify(block, idx):
    h, r = block[0], block[idx]
    ev = r["ev"]
    stopret = next((i for i, x in enumerate(block) if x["ev"] == "stopret"), None)
    after = stopret is not None and idx > stopret
    if ev == "stopret" and not r["ok"]:
        if h["fault"] != "none":
            return "stop-does-not-return after-reopen=%s" % h["fault"]
        return "stop-does-not-return"
    if ev == "stopret":
        return "stop-returned-while-a-handler-runs"
    if ev in ("disp", "hstart", "rd", "ustart") and after:
        return "%s-after-stop-returned" % ev
    if ev == "disp":
        return "dispatch-is-not-the-next-line-received"
    if ev == "hret":
        return "handler-returned-without-dispatching-all-it-received"
    if ev == "uret":
        return "datagram-lines-wrong"
    if ev == "rd" and r["err"] == "timeout":
        return "read-timeout-%s" % ("without-timeout-configured" if not h["rt_us"] else "before-the-deadline")
    if ev == "rd" and r["err"] == "closed":
        return "connection-closed-by-relay-before-stop"
    if ev == "barrier" and not any(x["ev"] == "sclosed" and x["c"] == c for c in h["idle_pre"] for x in block[:idx]) \
            and h["rt_us"] and h["idle_pre"] and r["phase"] == "pre":
        return "idle-connection-not-closed-by-read-timeout"
    if ev == "barrier":
        return "not-served phase=%s%s" % (r["phase"], " after-%s-fault" % h["fault"] if r["phase"] == "post" else "")
    if ev == "cconn":
        return "connection-accepted-after-stop-returned"
    if ev == "sclosed":
        return "idle-connection-never-closed"
    return "event-rejected ev=%s" % ev


def validate(ctx, blocks, tag="tr", own_dir=None):
    """returns (number accepted, list of (block, idx) rejected)"""
    blocks = list(blocks)
    rej = []
    for rnd in range(200):
        flat = [r for b in blocks for r in b]
        if not flat:
            break
        f = ctx.write_ndjson("xl_trace_%s.ndjson" % tag, flat)
        ok, matched, res = ctx.validate_traces("ListenerTrace", "ListenerTrace.cfg", f, len(flat), len(blocks),
                                               tag="%s%d" % (tag, rnd), timeout=1800, own_dir=own_dir, heap="2g")
        if ok:
            break
        if res["violated"] == "RunInv":
            raise Machinery("RunInv violated in the trace spec although every dispatch matched NextItems; log %s" % res["log"])
        if matched is None:
            raise Machinery("trace validation gave no verdict; log %s\n%s" % (res["log"], res["text"][-2000:]))
        pos = 0
        for bi, b in enumerate(blocks):
            if matched < pos + len(b):
                rej.append((b, matched - pos))
                del blocks[bi]
                break
            pos += len(b)
        else:
            raise Machinery("matched prefix beyond the trace")
    else:
        raise Machinery("more than 200 rejected scenarios in one chunk")
    return len(blocks), rej


def validate_all(ctx, blocks, chunks):
    """the scenarios are independent: validate them in `chunks` concurrent TLC runs (a rejection costs one more
    run of its chunk only)"""
    from concurrent.futures import ThreadPoolExecutor
    parts = [blocks[i::chunks] for i in range(chunks)]
    parts = [p for p in parts if p]
    with ThreadPoolExecutor(max_workers=len(parts)) as ex:
        res = list(ex.map(lambda ip: validate(ctx, ip[1], tag="tr%d_" % ip[0], own_dir="spec_tr%d" % ip[0]), enumerate(parts)))
    return sum(n for n, _ in res), [x for _, rj in res for x in rj]


def run(ctx):
    q = ctx.quick()
    rng = random.Random(ctx.seed)
    tmo = stop_timeout_ms()
    ctx.cov["manager_stop_timeout_ms_from_source"] = tmo
    model_check(ctx)
    # 2. scenarios
    names = ALL_SCRIPTS
    shapes2 = gen_shapes(ctx, 2, names)
    shapes = shapes2 + (gen_shapes(ctx, 3, names) if not q else [])
    scripts = {}
    for sh in shapes2:
        for nm, s in zip(sh["names"], sh["scripts"]):
            scripts[nm] = s
    forced = [dict(fault="both", block=False, rt_ms=0, quick_stop=False), dict(fault="tcp", block=False, rt_ms=RT_MS, quick_stop=False),
              dict(fault="none", rt_ms=RT_MS), dict(fault="none", rt_ms=0)]
    forced += [dict(fault=rng.choice(["tcp", "udp", "both"]), block=False, quick_stop=True) for _ in range(ctx.pick(3, 20))]
    if not q:
        forced += [dict(fault="udp", block=False, quick_stop=False), dict(fault="both", block=True, quick_stop=False),
                   dict(fault="tcp", block=True, rt_ms=RT_MS, quick_stop=False), dict(fault="udp", block=True, quick_stop=False),
                   dict(fault="tcp", block=True, quick_stop=False)]
    n = ctx.pick(60, 300)
    scs, hists = build_scenarios(ctx, shapes, scripts, rng, n, forced)
    sf = ctx.write_ndjson("xl_scen.ndjson", scs)
    rf = os.path.join(ctx.out, "xl_result.ndjson")
    res = ctx.go_test("lsn", run="^TestListener$", timeout=ctx.pick(900, 3000), expect_ok=False,
                      env=dict(VERIF_XL_SCEN=sf, VERIF_XL_RESULT=rf, VERIF_XL_STOP_TIMEOUT_MS=tmo, VERIF_XL_PAR=ctx.pick(8, 12)))
    if res["rc"] != 0:
        if "panic:" in res["text"] or "fatal error:" in res["text"]:
            ctx.violation("listener-panics", "the listener / handler panicked", dict(tail=res["text"][-3000:]))
            return
        raise Machinery("lsn driver failed (rc=%s); log %s\n%s" % (res["rc"], res["log"], res["text"][-2000:]))
    recs = ctx.read_ndjson(rf)
    if not recs or recs[-1]["ev"] != "done":
        raise Machinery("driver result is incomplete")
    blocks = join(recs, hists)
    if len(blocks) != len(scs):
        raise Machinery("driver recorded %d scenarios of %d" % (len(blocks), len(scs)))
    # 4. verdict by TLC
    nacc, rej = validate_all(ctx, blocks, ctx.pick(3, 6))
    for b, idx in rej:
        sig = classify(b, idx)
        h = b[0]
        sc = scs[h["id"] - 1]
        ctx.violation(sig, "scenario %d (clients %s, read timeout %d ms, fault %s): event %d %s is not allowed by ListenerTrace" % (
            h["id"], [c["name"] + "/" + c["phase"] for c in sc["clients"]], sc["rt_ms"], sc["fault"], idx, json.dumps(b[idx])),
            dict(scenario=sc, events=b[1:idx + 3]))
    # binding self-test on accepted scenarios: corrupted records must be rejected at that line
    good = [b for b in blocks if not any(b is rb for rb, _ in rej)]
    selftest(ctx, good, strict=not ctx.violations)      # (a violation is reported anyway; do not mask it by exit 2)
    # coverage
    cov = ctx.cov
    evs = [r for b in blocks for r in b]
    cnt = lambda p: sum(1 for r in evs if p(r))
    cov["evaluations"] = len(evs)
    cov["scenarios"] = len(blocks)
    cov["scenarios_accepted"] = nacc
    cov["events"] = dict(dispatches=cnt(lambda r: r["ev"] == "disp"), handler_reads=cnt(lambda r: r["ev"] == "rd"),
                         read_timeouts=cnt(lambda r: r["ev"] == "rd" and r["err"] == "timeout"),
                         reads_failed_by_shutdown=cnt(lambda r: r["ev"] == "rd" and r["err"] == "closed"),
                         handlers=cnt(lambda r: r["ev"] == "hstart"), datagrams_handled=cnt(lambda r: r["ev"] == "uret"),
                         dials_refused=cnt(lambda r: r["ev"] == "cfail"), faults=cnt(lambda r: r["ev"] == "fault"),
                         port_taken_before_reopen=cnt(lambda r: r["ev"] == "blocked" and r["won"]),
                         stops=cnt(lambda r: r["ev"] == "stopret"), stops_true=cnt(lambda r: r["ev"] == "stopret" and r["ok"]),
                         max_stop_ms_when_true=max([r["ms"] for r in evs if r["ev"] == "stopret" and r["ok"]] or [0]))
    shut_with_data = 0
    for b in blocks:
        got = {}
        for r in b:
            if r["ev"] == "rd":
                got[r["c"]] = got.get(r["c"], 0) + r["nb"]
                if r["err"] == "closed" and got[r["c"]] > 0:
                    shut_with_data += 1
    cov["connections_shut_down_after_receiving_data"] = shut_with_data
    cov["distinct_nontrivial"] = len({(tuple(c["name"] + c["phase"] for c in scs[b[0]["id"] - 1]["clients"]), scs[b[0]["id"] - 1]["rt_ms"],
                                       scs[b[0]["id"] - 1]["fault"]) for b in blocks if any(r["ev"] == "disp" for r in b)})
    if not ctx.violations and not rej and (cov["events"]["dispatches"] < n or cov["events"]["reads_failed_by_shutdown"] < 5 or shut_with_data < 1):
        raise Machinery("vacuous run: %s" % json.dumps(cov["events"]))
    cov["rule"] = ("evaluations = recorded events of the real listener decided by TLC (ListenerTrace); scenarios = TLC-generated "
                   "assignments of client scripts (%d scripts) to 2%s connections + seeded post-fault / racing / late clients, "
                   "datagrams, read timeout 0 / 25 ms, fault none / tcp / udp / both (accept or read error injected by closing "
                   "the socket under the loop), Stop moment; distinct_nontrivial = distinct (scripts+phases, read timeout, fault) "
                   "with at least one dispatch" % (len(names), "" if q else "..3"))
    ex = next((b for b in good if any(r["ev"] == "rd" and r["err"] == "closed" and r["nb"] == 0 for r in b)), good[0])
    ctx.sample(dict(scenario=ex[0]["id"], events=[{k: v for k, v in r.items() if k not in ("frag", "dfrag")} for r in ex[1:14]]))
    ctx.assumptions += [
        "delivery is asserted only for bytes the handler has read (rd events of a wrapper installed through the exported "
        "Listener.HandleConn field; the real TimeoutConn and Plain handler are underneath) and, at a barrier before Stop, for "
        "clients that wrote everything and closed; lines written but not yet read when Stop strikes may be lost (TCP)",
        "time bounds: manager.Stop must answer true, i.e. within the relay's own shutdown timeout (%d ms, read from "
        "cmd/carbon-relay-ng); the orchestrator waits at most 30 s for a barrier and a client at most 60 s for its idle "
        "connection to be closed (>= 1000x the normal latencies); a read timeout is checked against the time the Read "
        "itself blocked (lower bound only, load can only lengthen it)" % tmo,
        "an accept / read error is injected by closing the listening socket underneath the loop (hook "
        "input/verif_xlisten_on.go); the loop cannot tell this from any other accept error",
        "a write of <= 40 bytes over loopback TCP is delivered to one Read whole (a Read ending inside a symbol fragment is "
        "reported as a machinery problem, not a violation)"]
    cov["trusted_base"] = ["TLC", "harness/lsn driver (records only)", "symbol->byte concretisation and peer-address renaming in "
                           "checks/xlisten.py", "kernel loopback TCP/UDP"]


def selftest(ctx, good, strict=True):
    """corrupted copies of accepted scenarios must be rejected by TLC, at (or before) the corrupted line"""
    from concurrent.futures import ThreadPoolExecutor
    jobs = []        # (name, corrupted scenario, index of the corrupted line: the rejection must not come before it)

    def first(b, p, start=0):
        return next((i for i in range(start, len(b)) if p(b[i])), None)
    for b in good:      # a dispatched line removed / duplicated
        i = first(b, lambda r: r["ev"] == "disp")
        j = first(b, lambda r: r["ev"] in ("hret", "uret"), i) if i is not None else None
        if j is not None:
            jobs.append(("drop", b[:i] + b[i + 1:], i))
            jobs.append(("dup", b[:i + 1] + [b[i]] + b[i + 1:], i + 1))
            break
    for b in good:      # a dispatch moved behind StopReturn
        s_ = first(b, lambda r: r["ev"] == "stopret")
        i = first(b, lambda r: r["ev"] == "disp")
        if s_ is not None and i is not None and i < s_:
            jobs.append(("late", b[:i] + b[i + 1:s_ + 1] + [b[i]] + b[s_ + 1:], i))
            break
    for b in good:      # Stop answered false
        s_ = first(b, lambda r: r["ev"] == "stopret")
        if s_ is not None:
            b2 = [dict(r) for r in b]
            b2[s_]["ok"] = False
            jobs.append(("stopfalse", b2, s_))
            break
    for b in good:      # a read timeout that came before the deadline of that Read
        i = first(b, lambda r: r["ev"] == "rd" and r["err"] == "timeout")
        if i is not None:
            b2 = [dict(r) for r in b]
            b2[i]["blocked_us"] = b[0]["rt_us"] - 1000
            jobs.append(("earlytimeout", b2, i))
            break
    for b in good:      # a handler still running when Stop returns
        s_ = first(b, lambda r: r["ev"] == "stopret")
        i = first(b, lambda r: r["ev"] == "hret")
        if s_ is not None and i is not None and i < s_:
            jobs.append(("running", b[:i] + b[i + 1:], i))
            break
    names = [j[0] for j in jobs]
    if set(names) != {"drop", "dup", "late", "stopfalse", "earlytimeout", "running"} and strict:
        raise Machinery("binding self-test: the accepted scenarios do not offer every probe (%s)" % names)
    if ctx.quick():
        jobs = [j for j in jobs if j[0] in ("drop", "late", "stopfalse", "earlytimeout")]

    def one(job):
        name, b2, lo = job
        nacc, rej = validate(ctx, [b2], tag="self_" + name, own_dir="spec_self_" + name)
        return name, (bool(rej) and rej[0][1] >= lo)
    with ThreadPoolExecutor(max_workers=4) as ex:
        res = list(ex.map(one, jobs))
    bad = [n for n, ok in res if not ok]
    if bad:
        raise Machinery("binding self-test: corrupted scenario(s) %s accepted by ListenerTrace (or rejected before the corrupted line)" % bad)
    ctx.cov["traces_validated_against_impl"] = ctx.cov["traces_validated_against_impl"]
    ctx.cov["binding_selftests"] = "rejected as required: " + ", ".join(n for n, _ in res)
