"""C16 — re-encoding a line for pickle, grafana.net or Kafka preserves the datapoint.

1. spec/Schemas.tla is the decision specification (rule order -- priority descending, then file order, where
   a rule without a `priority` line and a rule with an explicit `priority = 0` have the same priority --,
   selection on the name as Graphite presents it, MetricData fields, representability, pickle output).  TLC enumerates every rule list
   of the bounded space with the expected outcome of every line class, checks the decision's own
   invariants on each, and named deviations must violate them.
2. checks/c16.py concretises every case by construction (pattern text from the abstract pattern,
   retentions in old and new syntax, line text from the abstract line, a value spelling from a pool).
3. harness/sch runs the real code: (a) route.parseMetric through the hook VerifParseMetricWith for
   every case, (b) a real grafanaNet route posting to httptest, bodies decoded (snappy + msgp),
   (c) destination.ParseDataPoint + destination.Pickle (every returned message is decoded as returned and
   once more after all later Pickle calls: spec/SchemasPickleOwn.tla, an emitted message is immutable),
   a real pickle-mode destination and three concurrent pickle-mode destinations behind one
   send-all-match route writing to loopback listeners; names from 3 to 2048 bytes (PkLongLines);
   frames decoded by CPython (tools/unpickle.py).
4. every observed field is compared with TLC's expectation; values by float64 bit pattern.
"""
import json, os, random, struct, sys
from vlib.core import Machinery, VERIF

sys.path.insert(0, os.path.join(VERIF, "tools"))
import unpickle  # noqa: E402

LEVEL = "model_checking"

RET_OLD = ["1:600,600:1000", "10:360,3600:100", "60:1440,7200:100", "300:2016,86400:100"]
RET_NEW = ["1s:10m,10m:30d", "10s:1h,1h:1y", "1m:1d,2h:2y", "5m:7d,1d:5y"]
VALUES = ["0", "1", "-1", "1.0", "0.1", "-0.0", "3.14159", "1e3", "1E3", "1e-3", "1.5e300", "4.9e-324",
          "2.2250738585072014e-308", "1.7976931348623157e308", "123456789012345678", "0.30000000000000004",
          "9007199254740993", "+7", ".5", "5.", "1e+2", "00012", "1.0000000000000002", "100", "4294967296",
          "1500000000.5", "-273.15", "1e-320", "0.000001", "65535.00001"]
TS = dict(int=["1500000000", "0", "1", "1234567890", "4294967294"], max=["4294967295"],
          float=["1500000000.5", "1.5", "1e9", "1500000000.0"], toobig=["4294967296", "99999999999", "-1"])


def s_(codes):
    return "".join(chr(c) for c in codes)


def vbits(tok):
    return "%016x" % struct.unpack(">Q", struct.pack(">d", float(tok)))[0]


def pattern_text(p):
    lit = s_(p["lit"])
    return {"all": ".*", "anch": "^" + lit + "$", "pre": "^" + lit, "suf": lit + "$", "sub": lit}[p["kind"]]


def schemas_text(rules, c):
    out = ["# case %d" % c]
    for i, r in enumerate(rules):
        out.append("[rule%d]" % (i + 1))
        out.append("pattern = %s" % pattern_text(r["pat"]))
        if r["prio"] != ABSENT:             # Schemas.tla: Absent = no priority line; 0 is written out
            out.append("priority = %d" % r["prio"])
        out.append("retentions = %s" % ((RET_OLD if (c + i) % 2 == 0 else RET_NEW)[i]))
        out.append("")
    return "\n".join(out)


def line_text(line, i, c, tsvar=0, val=None):
    tok = s_(line["name"]) + "".join(";" + s_(t) for t in line["tags"])
    if line["ts"] == "int":
        ts = str(1500000000 + i) if tsvar == 0 else TS["int"][tsvar % len(TS["int"])]
    else:
        ts = TS[line["ts"]][tsvar % len(TS[line["ts"]])]
    v = val if val is not None else VALUES[(c * 7 + i) % len(VALUES)]
    return "%s %s %s" % (tok, v, ts), v, ts


ABSENT = -1
DEVS = dict(absent_priority_sorts_first="SelectIsFirst", always_semicolon="UntaggedPresentation", tags_unsorted="TagsPresentedSorted", prio_reversed="SelectIsFirst",
            last_match="SelectIsFirst", file_order_only="SelectIsFirst", second_retention="IntervalIsFirstRetention")


def run(ctx):
    q = ctx.quick()
    pool = {1, 2, 3, 5, 6, 7} if q else set(range(1, 11))
    # ---------------------------------------------------------------- 1. TLC: enumerate + decide
    gens = [dict(MaxSpecific=2, PatPool=pool, Dev="none")]
    if not q:
        gens.append(dict(MaxSpecific=3, PatPool={1, 5, 6}, Dev="none"))      # 4-rule lists
    lines, longlines, cases, seen = None, None, [], set()
    for g in gens:
        res = ctx.tlc("Schemas", "Schemas_gen.cfg", consts=g, workers=1, timeout=3000, heap="8g")
        for s in ctx.tlc_printed(res, "@@L"):
            lines = json.loads(s)
        for s in ctx.tlc_printed(res, "@@PL"):
            longlines = json.loads(s)
        for s in ctx.tlc_printed(res, "@@C"):
            if s in seen:
                continue
            seen.add(s)
            cases.append(json.loads(s))
    if not lines or not longlines or len(cases) < 100:
        raise Machinery("TLC generated no cases; log %s" % res["log"])
    ctx.log("TLC enumerated %d rule lists x %d line classes" % (len(cases), len(lines)))
    # the enumerated rule lists mix absent / explicit-0 / positive priorities at every file position (not vacuous)
    mixes = set()
    for case in cases:
        pr = [("absent" if r["prio"] == ABSENT else "zero" if r["prio"] == 0 else "positive") for r in case["rules"]]
        for a in range(len(pr)):
            for b in range(a + 1, len(pr)):
                mixes.add((a, pr[a], b, pr[b]))
    need = {(a, x, b, y) for a in range(3) for b in range(a + 1, 3) for x in ("absent", "zero", "positive")
            for y in ("absent", "zero", "positive")}
    if need - mixes:
        raise Machinery("rule lists enumerated by TLC lack priority mixes %s" % sorted(need - mixes)[:5])
    devs = ["absent_priority_sorts_first", "always_semicolon", "prio_reversed", "tags_unsorted"] if q else list(DEVS)
    rejected = {}
    for dev in devs:
        # absent_priority_sorts_first needs three rules: <any>, explicit `priority = 0`, a later rule without a priority line
        mc = dict(MaxSpecific=2, PatPool={1, 3, 5}) if dev == "absent_priority_sorts_first" else dict(MaxSpecific=1, PatPool={1, 3, 5, 6, 7})
        r = ctx.tlc("Schemas", "Schemas_mc.cfg", consts=dict(mc, Dev=dev), workers=2,
                    expect_ok=False, count=False, timeout=1200)
        if r["violated"] != DEVS[dev]:
            raise Machinery("deviation %s is not rejected by %s (violated=%s; vacuity); log %s" % (dev, DEVS[dev], r["violated"], r["log"]))
        rejected[dev] = r["violated"]
    # ownership clause of the pickle encoder: an emitted message is immutable
    ctx.tlc("SchemasPickleOwn", "SchemasPickleOwn.cfg", consts=dict(K=ctx.pick(3, 5), Dev="none"), workers=2, timeout=600)
    r = ctx.tlc("SchemasPickleOwn", "SchemasPickleOwn.cfg", consts=dict(K=3, Dev="pooled_buffer_reuse"), workers=2,
                expect_ok=False, count=False, timeout=600)
    if r["violated"] != "EmittedImmutable":
        raise Machinery("deviation pooled_buffer_reuse is not rejected by EmittedImmutable (violated=%s); log %s" % (r["violated"], r["log"]))
    rejected["pooled_buffer_reuse"] = r["violated"]
    ctx.cov["deviations_rejected"] = rejected

    # ---------------------------------------------------------------- 2. concretise
    rng = random.Random(ctx.seed * 31 + 16)
    ngnet = ctx.pick(120, 1200)
    gn = set(rng.sample(range(len(cases)), min(ngnet, len(cases))))
    # F6-shaped cases are always sent through the real route as well
    conc = []
    for c, case in enumerate(cases):
        ls = []
        for i, ln in enumerate(lines):
            txt, v, ts = line_text(ln["line"], i, c, tsvar=(0 if ln["line"]["ts"] == "int" else c))
            ls.append(dict(text=txt, v=v, ts=ts))
        conc.append(dict(c=c, schemas=schemas_text(case["rules"], c), org=1 + (c % 5), lines=[x["text"] for x in ls],
                         gnet=(c in gn), _ls=ls))
    cf = ctx.write_ndjson("c16_cases.ndjson", [{k: v for k, v in x.items() if not k.startswith("_")} for x in conc])
    tf = os.path.join(ctx.out, "c16_trace.ndjson")
    ctx.go_test("sch", run="^TestSchemas$", timeout=ctx.pick(900, 3000), env=dict(VERIF_SCH_CASES=cf, VERIF_SCH_TRACE=tf))
    recs = ctx.read_ndjson(tf)

    # ---------------------------------------------------------------- 3. compare with TLC's expectation
    def expect_of(c, i):
        md = cases[c]["md"][i]
        if md["skipped"]:
            return None
        l = conc[c]["_ls"][i]
        return dict(name=s_(md["name"]), tags=[s_(t) for t in md["tags"]], interval=md["interval"], time=int(l["ts"]),
                    vbits=vbits(l["v"]), org=conc[c]["org"])

    def prio_class(r):
        return "absent" if r["prio"] == ABSENT else "explicit-0" if r["prio"] == 0 else "positive"

    def line_class(c, i):
        ln = lines[i]["line"]
        return "%s ts=%s" % ("tagged" if ln["tags"] else "untagged", ln["ts"]) + (" badtag" if ln["bad"] else "")

    npm = ngn = 0
    nontrivial = set()
    for r in recs:
        ev = r["ev"]
        if ev in ("schemaserr", "gneterr"):
            raise Machinery("the real code refused a generated storage-schemas file (case %s): %s\n%s" % (
                r["c"], r["err"], conc[r["c"]]["schemas"]))
        if ev == "hookdiff":
            raise Machinery("VerifParseMetric and VerifParseMetricWith disagree (case %s)" % r["c"])
        if ev == "pm":
            npm += 1
            c, i = r["c"], r["i"]
            exp = expect_of(c, i)
            rule = cases[c]["md"][i].get("rule", 0)
            if exp is None:
                if not r["skipped"]:
                    ctx.violation("unrepresentable-line-emitted " + line_class(c, i),
                                  "parseMetric produced a record for %r which cannot be represented" % conc[c]["lines"][i],
                                  dict(case=conc[c]["schemas"], line=conc[c]["lines"][i], got=r))
                continue
            if r["skipped"]:
                ctx.violation("valid-line-skipped " + line_class(c, i), "parseMetric skipped the valid line %r: %s" % (
                    conc[c]["lines"][i], r.get("err")), dict(case=conc[c]["schemas"], line=conc[c]["lines"][i]))
                continue
            if len(cases[c]["rules"]) > 1:
                nontrivial.add((c, i))
            for f in ("interval", "name", "tags", "time", "vbits", "org"):
                if r[f] != exp[f]:
                    pk = cases[c]["rules"][rule - 1]["pat"]["kind"]
                    sig = "parseMetric-%s %s expected-rule-pattern=%s" % (f, line_class(c, i), pk)
                    if f == "interval":
                        sig += " expected-rule-priority=%s" % prio_class(cases[c]["rules"][rule - 1])
                    ctx.violation(sig, "line %r: %s = %r, the specification says %r (rule %d of\n%s)" % (
                        conc[c]["lines"][i], f, r[f], exp[f], rule, conc[c]["schemas"]),
                        dict(schemas=conc[c]["schemas"], line=conc[c]["lines"][i], got=r, expect=exp))
        elif ev == "gnet":
            c = r["c"]
            if not r["sentinel"]:
                raise Machinery("grafanaNet route of case %d never delivered the sentinel within 60 s" % c)
            if r["bad"]:
                ctx.violation("grafanaNet-body-undecodable", "a POST body could not be decoded: %s" % r["bad"][:2], dict(case=c))
            exps = [expect_of(c, i) for i in range(len(lines))]
            want = sorted(json.dumps(e, sort_keys=True) for e in exps if e is not None)
            got = sorted(json.dumps({k: x[k] for k in ("name", "tags", "interval", "time", "vbits", "org")}, sort_keys=True)
                         for x in r["recs"])
            ngn += len(got)
            if want != got:
                missing = [w for w in want if w not in got]
                extra = [g for g in got if g not in want]
                ctx.violation("grafanaNet-records-differ", "grafanaNet route posted records that differ from the specification: "
                              "missing %s extra %s" % (missing[:2], extra[:2]),
                              dict(schemas=conc[c]["schemas"], missing=missing[:5], extra=extra[:5]))
    if npm == 0 or ngn == 0:
        raise Machinery("dead driver: %d parseMetric records, %d grafanaNet records" % (npm, ngn))

    # ---------------------------------------------------------------- 4. pickle
    def rand_value(k):
        # a spelling whose value overflows float64 is not a float spelling (Go: ErrRange, CPython: inf)
        while True:
            v = rand_value1(k)
            if float(v) not in (float("inf"), float("-inf")):
                return v

    def rand_value1(k):
        if k < len(VALUES):
            return VALUES[k]
        form = rng.randrange(5)
        if form == 0:
            return repr(rng.uniform(-1e6, 1e6))
        if form == 1:
            return "%s%de%s%d" % (rng.choice(["", "-"]), rng.randrange(1, 10 ** rng.randrange(1, 18)), rng.choice(["", "-", "+"]), rng.randrange(0, 300))
        if form == 2:
            return str(rng.randrange(0, 10 ** rng.randrange(1, 22)))
        if form == 3:
            return "%d.%0*d" % (rng.randrange(0, 10 ** rng.randrange(1, 10)), rng.randrange(1, 18), rng.randrange(0, 10 ** 9))
        return repr(rng.random() * 10.0 ** rng.randrange(-300, 300))

    def rand_ts(cls, k):
        if k < len(TS[cls]):
            return TS[cls][k]
        if cls == "int":
            return str(rng.randrange(0, 2 ** 32))
        if cls == "toobig":
            return str(rng.randrange(2 ** 32, 2 ** 40))
        if cls == "float":
            return "%d.%d" % (rng.randrange(0, 2 ** 31), rng.randrange(1, 1000))
        return TS[cls][0]

    plines = []
    for i, ln in enumerate(lines):
        for k in range(ctx.pick(220, 2000)):
            tok = s_(ln["line"]["name"]) + "".join(";" + s_(t) for t in ln["line"]["tags"])
            v, ts = rand_value(k), rand_ts(ln["line"]["ts"], k)
            plines.append(dict(text="%s %s %s" % (tok, v, ts), v=v, ts=ts, tok=tok, i=i))
    # long names (TLC: PkLongLines): the same encoder contract whatever the size of the name
    nshort = len(plines)
    for i, ln in enumerate(longlines):
        for k in range(ctx.pick(4, 40)):
            tok = s_(ln["line"]["name"]) + "".join(";" + s_(t) for t in ln["line"]["tags"])
            v, ts = rand_value(k * 7 + i), rand_ts(ln["line"]["ts"], k + i)
            plines.append(dict(text="%s %s %s" % (tok, v, ts), v=v, ts=ts, tok=tok, i=i, long=True))
    rng.shuffle(plines)
    # end to end: (0) one pickle destination; (1) three pickle destinations behind one send-all-match route, each
    # with its own subset of the lines (by name prefix), its own connection writer and I/O buffer
    scen = [dict(s=0, dests=[dict(prefix="", notprefix="", iobuf=4096, flushms=20)]),
            dict(s=1, dests=[dict(prefix="", notprefix="", iobuf=65536, flushms=5),
                             dict(prefix="foo", notprefix="foob", iobuf=300, flushms=1),
                             dict(prefix="", notprefix="foo.", iobuf=7, flushms=2)])]
    pf = os.path.join(ctx.out, "c16_pk_lines.json")
    json.dump(dict(lines=[p["text"] for p in plines], scen=scen), open(pf, "w"))
    ptf = os.path.join(ctx.out, "c16_pk_trace.ndjson")
    ctx.go_test("sch", run="^TestPickle$", timeout=900, env=dict(VERIF_PK_LINES=pf, VERIF_PK_TRACE=ptf))
    precs = ctx.read_ndjson(ptf)
    npk = 0

    def pk_expect(p):
        e = (longlines if p.get("long") else lines)[p["i"]]["pk"]
        if e["skipped"]:
            return None
        assert s_(e["name"]) == p["tok"]
        return dict(name=s_(e["name"]), ts=int(p["ts"]), vbits=vbits(p["v"]))

    def check_point(where, p, d):
        exp = pk_expect(p)
        if not d.get("ok") or len(d["points"]) != 1:
            ctx.violation("pickle-shape " + where, "frame for %r does not unpickle to [(name, (ts, value))]: %s" % (
                p["text"][:120], str(d.get("shape", d))[:300]), dict(line=p["text"]))
            return False
        pt = d["points"][0]
        ok = True
        for f in ("name", "ts", "vbits"):
            if pt[f] != exp[f]:
                ctx.violation("pickle-%s %s" % (f, where), "line %r unpickles with %s = %r, expected %r" % (
                    p["text"][:120], f, str(pt[f])[:120], str(exp[f])[:120]), dict(line=p["text"], got=pt, expect=exp))
                ok = False
        if pt["ts_type"] != "int" or pt["val_type"] != "float":
            ctx.violation("pickle-types " + where, "line %r unpickles with types (%s, %s), expected (int, float)" % (
                p["text"][:120], pt["ts_type"], pt["val_type"]), dict(line=p["text"], got=pt))
            ok = False
        return ok

    def ts_class(p):
        return (longlines if p.get("long") else lines)[p["i"]]["line"]["ts"]

    def size_class(p):
        return "long-name" if p.get("long") else "short-name"

    def expected_for(dst):
        return [i for i, p in enumerate(plines) if p["tok"].startswith(dst["prefix"])
                and not (dst["notprefix"] and p["tok"].startswith(dst["notprefix"]))]

    nkept = nwire_multi = 0
    for r in precs:
        if r["ev"] == "wireerr":
            raise Machinery("pickle destination scenario %s could not be set up: %s" % (r["s"], r["err"]))
        if r["ev"] in ("pk", "pk2"):
            # pk: the message as returned by Pickle; pk2: the same message, looked at after all later Pickle calls
            p = plines[r["i"]]
            exp = pk_expect(p)
            where = "encoder" if r["ev"] == "pk" else "encoder-message-kept"
            if r["ev"] == "pk2":
                nkept += 1
            npk += 1
            if exp is None:
                if not r.get("skipped"):
                    ctx.violation("pickle-unrepresentable-emitted ts=%s" % ts_class(p),
                                  "a frame was produced for %r whose timestamp cannot be represented" % p["text"], dict(line=p["text"]))
                continue
            if r.get("skipped"):
                ctx.violation("pickle-valid-line-skipped", "no frame for the valid line %r: %s" % (p["text"], r.get("err")), dict(line=p["text"]))
                continue
            res_, rest = unpickle.decode_stream(bytes.fromhex(r["frame"]))
            if rest or len(res_) != 1:
                ctx.violation("pickle-framing %s %s" % (where, size_class(p)), "Pickle(%r)%s is not one length-prefixed frame (prefix %s, %d bytes)" % (
                    p["text"][:120], "" if r["ev"] == "pk" else ", read after the following Pickle calls,", r["frame"][:8], len(r["frame"]) // 2),
                    dict(line=p["text"], frame=r["frame"][:400]))
                continue
            check_point("%s %s" % (where, size_class(p)), p, res_[0])
        elif r["ev"] == "wire":
            dst = scen[r["s"]]["dests"][r["k"]]
            where = "wire" if r["ndests"] == 1 else "wire-%d-destinations" % r["ndests"]
            want = expected_for(dst)
            if r["online"] and r["sent"] != want:
                raise Machinery("scenario %d destination %d: the route handed over %d lines, %d have the destination's prefix" % (
                    r["s"], r["k"], len(r["sent"]), len(want)))
            if not r["online"] or r["slow_conn"] or r["conn_down"]:
                raise Machinery("pickle destination run is not conclusive: %s" % {k: v for k, v in r.items() if k not in ("wire", "sent")})
            res_, rest = unpickle.decode_stream(bytes.fromhex(r["wire"]))
            sentp = [plines[i] for i in want]
            good = [p for p in sentp if pk_expect(p) is not None]
            nbad = len(sentp) - len(good)
            if r["bad_pickle"] != nbad:
                ctx.violation("bad_pickle-counter", "bad_pickle counted %d lines, %d of the %d lines sent cannot be represented" % (
                    r["bad_pickle"], nbad, len(sentp)), dict(counter=r["bad_pickle"], expected=nbad))
            # one connection, one writer: frames arrive in hand-over order (C05); compare pairwise up to the first
            # frame that is not the expected one (after a wrong length prefix nothing behind it is meaningful)
            broken = False
            for p, d in zip(good, res_):
                if not check_point("%s %s" % (where, size_class(p)), p, d):
                    broken = True
                    break
                npk += 1
                if r["ndests"] > 1:
                    nwire_multi += 1
            if broken:
                continue
            if not r["complete"]:
                raise Machinery("pickle destination run is not conclusive (%d of %d frames, all as expected so far): %s" % (
                    len(res_), len(good), {k: v for k, v in r.items() if k not in ("wire", "sent")}))
            if rest:
                ctx.violation("pickle-framing " + where, "%d trailing bytes after the last complete frame" % rest, None)
            elif len(res_) != len(good):
                ctx.violation("pickle-wire-count " + where, "%d frames on the wire for %d representable lines" % (len(res_), len(good)), None)
    if nkept == 0 or nwire_multi == 0:
        raise Machinery("dead pickle driver: %d kept messages, %d frames from concurrent destinations" % (nkept, nwire_multi))
    if npk == 0:
        raise Machinery("dead pickle driver")

    # ---------------------------------------------------------------- evidence
    cov = ctx.cov
    cov["evaluations"] = npm + ngn + npk
    cov["distinct_nontrivial"] = len(nontrivial)
    cov["parseMetric_records"] = npm
    cov["grafanaNet_records"] = ngn
    cov["pickle_points"] = npk
    cov["pickle_messages_reread_after_later_calls"] = nkept
    cov["pickle_frames_from_concurrent_destinations"] = nwire_multi
    cov["pickle_long_name_lines"] = len(plines) - nshort
    cov["rule"] = ("cases = every storage-schemas rule list enumerated by TLC (default rule at any position without priority "
                   "line / priority = 0 / priority = 1 + <= 2 rules from %d patterns x 4 priority attributes (no line, explicit 0, 1, 2) "
                   "(thorough: also <= 3 rules from 3 patterns); retentions in old and new syntax) x %d line classes "
                   "(3 names x 5 tag lists incl. unsorted, 3 invalid-tag lists, 3 unrepresentable timestamp classes); "
                   "distinct_nontrivial = distinct (rule list with >= 2 rules, representable line) pairs whose MetricData was "
                   "compared field by field with TLC's expectation; pickle: %d lines (line classes x value spellings x timestamps, "
                   "of which %d with names of 120..2048 bytes), each through Pickle() (decoded as returned and again after all "
                   "later calls), one pickle destination, and 3 concurrent pickle destinations (iobuf 65536/300/7) of one route"
                   % (len(pool), len(lines), len(plines), len(plines) - nshort))
    ctx.sample(dict(schemas=conc[len(conc) // 2]["schemas"], lines=conc[len(conc) // 2]["lines"][:3],
                    expect=[cases[len(conc) // 2]["md"][i] for i in range(3)]))
    ctx.sample(dict(pickle_line=plines[0]["text"], expect=pk_expect(plines[0]) or "skipped, counted bad_pickle"))
    ctx.assumptions += [
        "patterns are ^lit$, ^lit, lit$, lit and .* over literals without regex metacharacters (RE2 itself is not modelled)",
        "value identity = float64 bit pattern of CPython's float(token); decimal spellings that Go and CPython both accept",
        "kafkaMdm uses the same parseMetric/getSchemas as grafanaNet (route/kafkamdm.go); no broker is available, so it is "
        "covered through the white-box hook only",
        "names without leading or doubled dots (MetricData.Validate rewrites those)"]
    cov["trusted_base"] = ["TLC", "CPython pickle/float (tools/unpickle.py)", "harness/sch driver (records only)",
                           "snappy + msgp decoders of the vendored libraries", "hooks route.VerifParseMetric*, VerifGetSchemas"]
